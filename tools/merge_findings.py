#!/usr/bin/env python3
"""usage: tools/merge_findings.py <agent>  — appends the agent's proposed known findings (entries of its
known_findings.json 'findings' list not yet present) to /verif/known_findings.json"""
import json, sys
a = json.load(open("/tmp/ag/%s/verif/known_findings.json" % sys.argv[1]))
k = json.load(open("/verif/known_findings.json"))
have = {(f["property"], f["id"]) for f in k["findings"]}
for f in a.get("findings", []):
    if (f["property"], f["id"]) not in have:
        k["findings"].append(f)
        print("added", f["property"], f["id"])
json.dump(k, open("/verif/known_findings.json", "w"), indent=1)
