(* RKFloat.v — the floating-point side of RK decoding, with Flocq 4.1 binary64.
   Kept apart from RK.v / RK_proofs.v / BiffRec*.v, which are pure N/Z arithmetic and axiom-free:
   everything here depends on the four classical axioms that the standard library's real numbers
   (and therefore Flocq) use (ClassicalDedekindReals.sig_not_dec, sig_forall_dec,
   FunctionalExtensionality.functional_extensionality_dep, Classical_Prop.classic).

   Contents: the Flocq instance of the Section variable [fdiv100] of RK.v (IEEE-754 binary64
   division by 100.0, round to nearest even, on bit patterns); [Z2B], the exact conversion of a
   30-bit integer to binary64; and rk_int_float_x100_agree: when 100 divides the RK integer v, the
   double quotient v / 100.0 that rk_num's float branch would compute is exactly the integer
   v / 100 that its integer branch returns — the two branches of rk_num agree numerically, so
   the int-vs-float choice ("Int when 100 | v") never changes the number. *)
From Coq Require Import ZArith Reals Lia Lra List.
Import ListNotations.
From Flocq Require Import Core IEEE754.Binary IEEE754.Bits.
Import BinarySingleNaN.
From Calamine Require Import RK.

Definition Z2B (v : Z) : binary64 :=
  Binary.binary_normalize 53 1024 (eq_refl _) (eq_refl _) mode_NE v 0 false.

Definition b100 : binary64 := Z2B 100.

(* x / 100.0 on the 64 raw bits *)
Definition fdiv100_flocq (bits : N) : N :=
  Z.to_N (bits_of_b64 (b64_div mode_NE (b64_of_bits (Z.of_N bits)) b100)).

(* sanity (computed, not a theorem about all inputs): 100.0 is 0x4059000000000000; the bits of
   Z2B agree with RK.z2f on boundary integers; division agrees with the known doubles *)
Example b100_bits : bits_of_b64 b100 = 4636737291354636288%Z.
Proof. vm_compute. reflexivity. Qed.

Example z2f_is_Z2B_on_samples :
  forallb (fun v => Z.eqb (bits_of_b64 (Z2B v)) (Z.of_N (z2f v)))
    [0; 1; -1; 2; 3; 7; 99; 100; -100; 101; 12345; -12345; 536870911; -536870912; 536870812;
     268435456; -268435457; 123456700; 1048576; -1048577]%Z = true.
Proof. vm_compute. reflexivity. Qed.

Example fdiv100_flocq_samples :
  fdiv100_flocq (z2f 123) = 4608218246714312622%N /\         (* 1.23 *)
  fdiv100_flocq (z2f 700) = 4619567317775286272%N /\         (* 7.0 *)
  fdiv100_flocq (z2f (-1)) = 13800290266158863483%N.         (* -0.01 *)
Proof. vm_compute. repeat split; reflexivity. Qed.

(* ---------- exactness ---------- *)
Lemma fexp_FLT : SpecFloat.fexp 53 1024 = FLT_exp (-1074) 53.
Proof. reflexivity. Qed.

Lemma int_format : forall k : Z, (Z.abs k < 2 ^ 53)%Z ->
  generic_format radix2 (SpecFloat.fexp 53 1024) (IZR k).
Proof.
  intros k Hk. rewrite fexp_FLT. apply generic_format_FLT.
  apply (FLT_spec radix2 (-1074) 53 (IZR k) (Float radix2 k 0)).
  - unfold F2R. simpl. ring.
  - exact Hk.
  - simpl. lia.
Qed.

Lemma int_below_max : forall k : Z, (Z.abs k < 2 ^ 53)%Z ->
  Rlt_bool (Rabs (IZR k)) (bpow radix2 1024) = true.
Proof.
  intros k Hk. apply Rlt_bool_true. rewrite <- abs_IZR.
  apply Rlt_le_trans with (IZR (2 ^ 53)).
  - apply IZR_lt. exact Hk.
  - change (IZR (2 ^ 53)) with (IZR (Zpower radix2 53)). rewrite IZR_Zpower by lia.
    apply bpow_le. lia.
Qed.

Theorem Z2B_exact : forall v : Z, (Z.abs v < 2 ^ 53)%Z ->
  Binary.B2R 53 1024 (Z2B v) = IZR v /\ Binary.is_finite 53 1024 (Z2B v) = true.
Proof.
  intros v Hv.
  pose proof (Binary.binary_normalize_correct 53 1024 (eq_refl _) (eq_refl _) mode_NE v 0 false) as H.
  assert (HF : F2R (Float radix2 v 0) = IZR v) by (unfold F2R; simpl; ring).
  rewrite HF in H.
  rewrite (round_generic radix2 (SpecFloat.fexp 53 1024) (round_mode mode_NE) (IZR v)
             (int_format v Hv)) in H.
  rewrite (int_below_max v Hv) in H. destruct H as (H1 & H2 & _). split; assumption.
Qed.

(* rk_int_float_x100_agree: for every 30-bit integer v that 100 divides, the binary64 quotient
   (v as f64) / 100.0 is exactly the integer v / 100 *)
Theorem rk_int_float_x100_agree : forall v : Z,
  (-536870912 <= v < 536870912)%Z -> Z.rem v 100 = 0%Z ->
  Binary.B2R 53 1024 (b64_div mode_NE (Z2B v) b100) = IZR (Z.quot v 100).
Proof.
  intros v Hv Hrem.
  set (k := Z.quot v 100).
  assert (Hvk : v = (100 * k)%Z).
  { unfold k. pose proof (Z.quot_rem' v 100). lia. }
  assert (Hk : (Z.abs k < 2 ^ 53)%Z) by (change (2 ^ 53)%Z with 9007199254740992%Z; lia).
  assert (Hv53 : (Z.abs v < 2 ^ 53)%Z) by (change (2 ^ 53)%Z with 9007199254740992%Z; lia).
  assert (H100 : (Z.abs 100 < 2 ^ 53)%Z) by (change (2 ^ 53)%Z with 9007199254740992%Z; lia).
  destruct (Z2B_exact v Hv53) as [Bv _]. destruct (Z2B_exact 100 H100) as [B100 _].
  fold b100 in B100.
  assert (Hq : (Binary.B2R 53 1024 (Z2B v) / Binary.B2R 53 1024 b100)%R = IZR k).
  { rewrite Bv, B100, Hvk, mult_IZR. field. }
  unfold b64_div.
  pose proof (Binary.Bdiv_correct 53 1024 (eq_refl _) (eq_refl _) binop_nan_pl64 mode_NE (Z2B v) b100) as H.
  rewrite Hq in H.
  rewrite (round_generic radix2 (SpecFloat.fexp 53 1024) (round_mode mode_NE) (IZR k)
             (int_format k Hk)) in H.
  rewrite (int_below_max k Hk) in H.
  destruct H as (H1 & _).
  - rewrite B100. apply IZR_neq. lia.
  - exact H1.
Qed.

(* the integer branch's result converted to binary64 is that same number: Int (v / 100) and the
   float quotient are numerically equal *)
Corollary rk_int_float_x100_agree_value : forall v : Z,
  (-536870912 <= v < 536870912)%Z -> Z.rem v 100 = 0%Z ->
  Binary.B2R 53 1024 (b64_div mode_NE (Z2B v) b100) = Binary.B2R 53 1024 (Z2B (Z.quot v 100)).
Proof.
  intros v Hv Hrem. rewrite rk_int_float_x100_agree by assumption.
  symmetry. apply Z2B_exact. pose proof (Z.quot_rem' v 100).
  change (2 ^ 53)%Z with 9007199254740992%Z. lia.
Qed.
