(* C13 — compound-file streams are recovered whatever the container's physical layout.
   Statements only; proofs are in Cfb_proofs.v.  Model (of src/cfb.rs after the hardening, the two
   earlier C13 fixes — names decoded without BOM sniffing, zero-length entries read as empty — and
   the fix of audit finding G8: entries are found by their PATH from the root storage, following
   the child / sibling ids), encoder and validity: Cfb.v.
   Proved: (1) chain following for any FAT / chain / sector contents; totality of the chain walk
   (a cycle ends in an I/O error); (2) recovery of a small stream through the mini FAT inside the
   root entry's chain; (3) LOOKUP: on the directory of every written container whose links are a
   tree over the container's hierarchy (linked_tree: any shape of the sibling trees, in the MS-CFB
   order or not — a legal MS-CFB tree in particular, C13_legal_tree_linked), Cfb::find is the lookup
   of the specification on EVERY path (C13_find_entry_resolve) — names need only be unique per
   storage, the entries may sit anywhere in the directory array; (4) layout independence THROUGH
   THE BYTES: the stream at any path is read back byte for byte (C13_layout_independent), a path
   that leads nowhere is not found (C13_path_not_found), two containers holding the same stream at
   the same path read the same (C13_same_streams_same_read); Xls::parse_workbook reads the ROOT
   storage's Workbook, else its Book, wherever embedded objects sit (C13_workbook_stream_preferred);
   has_directory is about the root storage (C13_has_directory_root); (5) no hierarchy written (the
   root entry links to no child): the flat scan, with its exact precondition (C13_find_dir_first,
   the C13_flat theorems); (6) totality of Cfb::new, Cfb::children (its fuel is never exhausted) and
   get_stream on ANY input, cyclic and dangling sibling ids included (for C06).
   No known class is left: the former classes shadowed_workbook / shadowed_name (audit G8) were
   repaired in /repo (commit "fix: a compound-file stream was looked up by bare name ...") and
   their refutation lemmas are replaced by the positive examples at the end of this file. *)
From Calamine Require Import Prelude Utf16 Cfb Cfb_proofs.
Open Scope N_scope.

(* ---------------------------------------------------------------- (1) chains *)
Theorem C13_chain_follow : forall fat ss body start ids len s r,
  Chain fat start ids -> NoDup ids ->
  Inv ss body s r ->
  (forall id, In id ids -> (id + 1) * ss <= lenN body) ->
  exists s' r',
    get_chain s start fat r len
    = Ok (trunc_spec len (concat (map (sector ss body) ids)), s', r') /\ Inv ss body s' r'.
Proof. exact chain_follow. Qed.

(* the chain walk needs no fuel and never panics, for ANY allocation table, start and reader *)
Theorem C13_chain_total : forall s id fats r len,
  get_chain s id fats r len <> Panic /\ get_chain s id fats r len <> OutOfFuel.
Proof. exact chain_total. Qed.

(* a repetition: start leads to x and x leads back to x; the walk ends in an I/O error
   (before the hardening the real loop did not terminate) *)
Theorem C13_chain_cycle_is_error : forall fat ss body start p x q,
  Path fat start p x -> Path fat x q x -> q <> [] ->
  (forall id, In id (p ++ q) -> (id + 1) * ss <= lenN body) ->
  forall s r len, Inv ss body s r -> get_chain s start fat r len = Err ERR_IO.
Proof. exact chain_repetition_is_error. Qed.

(* ---------------------------------------------------------------- (2) mini stream *)
Theorem C13_mini_compose : forall (c : cfb) path d r mids,
  find_entry (directories c) path = Some d -> 0 < d_len d -> d_len d < 4096 ->
  ssize (mini_sectors c) = 64 ->
  Chain (mini_fats c) (d_start d) mids -> NoDup mids ->
  (forall m, In m mids -> (m + 1) * 64 <= lenN (sdata (mini_sectors c))) ->
  get_stream c path r
  = Ok (trunc_spec (d_len d) (concat (map (sector 64 (sdata (mini_sectors c))) mids)), c, r).
Proof. exact mini_compose. Qed.

(* a zero-length entry is the empty stream, whatever its start-sector field holds *)
Theorem C13_empty_stream : forall (c : cfb) path d r,
  find_entry (directories c) path = Some d -> d_len d = 0 -> get_stream c path r = Ok ([], c, r).
Proof. exact empty_stream. Qed.

Theorem C13_mini_sector_in_root_chain : forall ss body rootids rlen m,
  ss = 512 \/ ss = 4096 ->
  (forall id, In id rootids -> (id + 1) * ss <= lenN body) ->
  (m + 1) * 64 <= N.of_nat (length rootids) * ss -> (0 < rlen -> (m + 1) * 64 <= rlen) ->
  sector 64 (trunc_spec rlen (concat (map (sector ss body) rootids))) m
  = takeN 64 (dropN ((m * 64) mod ss)
                    (sector ss body (nth (N.to_nat (m * 64 / ss)) rootids ENDOFCHAIN))).
Proof. exact mini_sector_in_root_chain. Qed.

(* ---------------------------------------------------------------- (3) lookup by path (audit G8) *)
(* a legal MS-CFB tree (sibling trees in the order of MS-CFB 2.6.4) is a tree over the hierarchy;
   the theorems below ask for the latter only: the right-leaning, unsorted sibling chains simple
   writers produce are covered *)
Theorem C13_legal_tree_linked : forall c l, legal_tree c l -> linked_tree c l.
Proof. exact legal_linked. Qed.

(* Cfb::children on the directory of a written container: the entries collected for the root
   entry or a storage are exactly the slots of the objects the container puts into it *)
Theorem C13_children_of_object : forall c l, valid_layout c l -> linked_tree c l ->
  forall p, p <= N.of_nat (length (c_storages c)) ->
  forall x, In x (children (parsed_dirs c l) (obj_slot l p)) <-> In x (children_slots c l p).
Proof. exact children_of_object. Qed.

(* MAIN (lookup): Cfb::find = the lookup of the specification (resolve: the child of that name of
   the object reached so far, component by component), on every path, for every valid layout and
   every tree of links — whatever the directory slots, whatever other objects carry the same names
   in other storages, at any depth.  [plain]: the last name is not empty and not "Root Entry"
   (only used when the container has no object at all) *)
Theorem C13_find_entry_resolve : forall c l, valid_layout c l -> linked_tree c l ->
  forall path, path <> [] -> (forall n, last_opt path = Some n -> plain n) ->
  find_entry (parsed_dirs c l) path =
  match resolve c 0 path with Some p => Some (entry_at c l (obj_slot l p)) | None => None end.
Proof. exact find_entry_resolve. Qed.

(* ---------------------------------------------------------------- (4) layout independence *)
(* through the bytes: any fuel from fuel_for l = 1 + number of DIFAT sectors on.
   MAIN (C13): every stream of every container is read back byte for byte by its path, for every
   valid physical layout (sector size, chains, mini stream or regular sectors, FAT / DIFAT extent,
   directory order, unused entries, free sectors, padding) whose links are a tree *)
Theorem C13_layout_independent : forall c l, valid_layout c l -> linked_tree c l ->
  forall fuel, (fuel_for l <= fuel)%nat ->
  forall path b, spec_path c path = Some b -> cfb_get_stream fuel (cfb_write c l) path = Ok b.
Proof. exact layout_independent. Qed.

(* CFB-1 (audit 2): names compare up to case ([MS-CFB] 2.6.4; the reader and this specification fold
   the ASCII letters: name_eqb = str::eq_ignore_ascii_case, on both sides).  [spec_path], through
   [child_index], finds the child whose name agrees with the path component up to case, so
   C13_layout_independent already speaks of containers that store WORKBOOK or BOOK and of paths
   spelled in any case; the three statements below say so explicitly.  [respell_path flags path]:
   the ASCII letters at the flagged positions change case. *)
Theorem C13_respell_same_name : forall flags n, name_equiv n (respell flags n).
Proof. exact respell_equiv. Qed.

Theorem C13_spec_path_any_case : forall c path path', Forall2 name_equiv path path' ->
  spec_path c path = spec_path c path'.
Proof. exact spec_path_any_case. Qed.

(* MAIN (C13, CFB-1): a stream is read back byte for byte under EVERY case spelling of the names of
   its path, whatever the case of the names the file stores *)
Theorem C13_layout_independent_any_case : forall c l fuel, valid_layout c l -> linked_tree c l ->
  (fuel_for l <= fuel)%nat ->
  forall path b flags, spec_path c path = Some b ->
    cfb_get_stream fuel (cfb_write c l) (respell_path flags path) = Ok b.
Proof. exact layout_independent_any_case. Qed.

(* a path that leads to no object is not found, wherever objects of that name sit elsewhere: the
   bare name of a stream that only an embedded object holds, say *)
Theorem C13_path_not_found : forall c l, valid_layout c l -> linked_tree c l ->
  forall fuel, (fuel_for l <= fuel)%nat ->
  forall path, path <> [] -> (forall n, last_opt path = Some n -> plain n) -> resolve c 0 path = None ->
  cfb_get_stream fuel (cfb_write c l) path = Err ERR_NOT_FOUND.
Proof. exact path_not_found. Qed.

(* two containers holding the same stream at the same path — any sector sizes, layouts, directory
   orders, sibling trees, any other objects — read the same bytes *)
Theorem C13_same_streams_same_read : forall c1 l1 c2 l2 path b,
  valid_layout c1 l1 -> valid_layout c2 l2 -> linked_tree c1 l1 -> linked_tree c2 l2 ->
  spec_path c1 path = Some b -> spec_path c2 path = Some b ->
  cfb_get_stream (fuel_for l1) (cfb_write c1 l1) path = cfb_get_stream (fuel_for l2) (cfb_write c2 l2) path.
Proof. exact same_streams_same_read. Qed.

(* on any Cfb value that holds the written tables (any state of the sector cache) *)
Theorem C13_get_stream_path : forall c l, valid_layout c l -> linked_tree c l ->
  forall cf r, written_cfb c l cf r ->
  forall path b, spec_path c path = Some b -> exists c' r', get_stream cf path r = Ok (b, c', r').
Proof. exact get_stream_path. Qed.

(* MAIN (Xls::new): Xls::parse_workbook — get_stream(["Workbook"]) or else get_stream(["Book"]) —
   reads the ROOT storage's Workbook stream, else the root's Book stream (a dual-format file has
   both), wherever the entries of embedded objects (MBD.../Workbook, a second VBA project) sit in
   the directory array.  root_storage_named: a root STORAGE called Workbook is outside the
   statement (the code takes any root entry of that name, storage or stream) *)
Theorem C13_workbook_stream_preferred : forall c l, valid_layout c l -> linked_tree c l ->
  forall fuel b, (fuel_for l <= fuel)%nat ->
  spec_workbook c = Some b -> root_storage_named c WORKBOOK = false ->
  xls_workbook_stream fuel (cfb_write c l) = Ok b.
Proof. exact workbook_stream_preferred. Qed.

(* Cfb::has_directory (the tests for _VBA_PROJECT_CUR and EncryptedPackage): an object of the ROOT
   storage; the written file opens (interface for C20 and the whole-file theorem of C02) *)
Theorem C13_has_directory_root : forall c l, valid_layout c l -> linked_tree c l ->
  forall fuel, (fuel_for l <= fuel)%nat ->
  exists cf r, cfb_new fuel (cfb_write c l) = Ok (cf, r) /\ written_cfb c l cf r /\
    forall n, plain n ->
      has_directory cf n = match resolve c 0 [n] with Some _ => true | None => false end.
Proof. exact has_directory_root. Qed.

(* ---------------------------------------------------------------- (5) no hierarchy written *)
(* the root entry links to no child (flat_root: its child id is NOSTREAM, the root itself or no
   entry of the array): Cfb::find scans the flat array for the LAST name of the path, as all
   lookups did before the fix.  The entry reached is the one in the LOWEST directory slot among
   the objects (storages and streams, of any storage) that carry the name *)
Theorem C13_find_dir_first : forall c l n, valid_layout c l -> n <> [] -> ~ name_equiv n ROOT_NAME ->
  find_dir n (parsed_dirs c l) =
  match first_slot c l n with
  | Some s => Some (entry_at c l s)
  | None => None
  end.
Proof. exact find_dir_first. Qed.

(* the precondition of the flat lookup, stated exactly: the k-th stream is read back, through the
   bytes, under its name behind ANY prefix, in every valid layout in which no object of the same
   name sits in a lower slot *)
Theorem C13_flat_layout_independent_first : forall c l fuel, valid_layout c l -> flat_root c l ->
  (fuel_for l <= fuel)%nat ->
  forall k n b s pre, nth_error (c_streams c) k = Some (n, b) -> stream_slot c l k = Some s ->
  first_slot c l n = Some s ->
  cfb_get_stream fuel (cfb_write c l) (pre ++ [n]) = Ok b.
Proof. exact flat_layout_independent_first. Qed.

(* names distinct over the whole file: every stream is read back *)
Theorem C13_flat_layout_independent : forall c l fuel, valid_layout c l -> flat_root c l -> names_unique c ->
  (fuel_for l <= fuel)%nat ->
  forall n b pre, In (n, b) (c_streams c) -> cfb_get_stream fuel (cfb_write c l) (pre ++ [n]) = Ok b.
Proof. exact flat_layout_independent. Qed.

(* names distinct (up to case) over the whole file: a container holding both streams (a dual-format
   file) reads Workbook in every valid layout, however the two names are cased in the file
   (WORKBOOK, workbook, BOOK …: name_equiv); one holding only Book reads Book *)
Theorem C13_flat_workbook_stream_preferred : forall c l fuel, valid_layout c l -> flat_root c l -> names_unique c ->
  (fuel_for l <= fuel)%nat ->
  (forall nw bw, name_equiv nw WORKBOOK -> In (nw, bw) (c_streams c) ->
     xls_workbook_stream fuel (cfb_write c l) = Ok bw) /\
  (forall nb bb, mem_name WORKBOOK (all_names c) = false -> name_equiv nb BOOK -> In (nb, bb) (c_streams c) ->
     xls_workbook_stream fuel (cfb_write c l) = Ok bb).
Proof. exact flat_workbook_stream_preferred. Qed.

(* has_directory then answers for every object of the file, whatever storage holds it, under every
   case spelling of the name (mem_name: some name of the container agrees with n up to case) *)
Theorem C13_has_directory_flat : forall c l fuel, valid_layout c l -> flat_root c l -> (fuel_for l <= fuel)%nat ->
  exists cf r, cfb_new fuel (cfb_write c l) = Ok (cf, r) /\ written_cfb c l cf r /\
    forall n, plain n -> has_directory cf n = mem_name n (all_names c).
Proof. exact has_directory_flat. Qed.

(* what Cfb::new returns on a written file *)
Theorem C13_cfb_new_written : forall c l fuel, valid_layout c l -> (fuel_for l <= fuel)%nat ->
  exists cf r, cfb_new fuel (cfb_write c l) = Ok (cf, r) /\ written_cfb c l cf r.
Proof. exact cfb_new_written. Qed.

(* the chains and sector contents the stream theorems rest on, per stream *)
Theorem C13_big_stream_tables : forall c l n b ch, valid_layout c l ->
  In ((n, b), ch) (stream_chains c l) -> is_big b = true ->
  Chain (fat_table c l) (hd ENDOFCHAIN ch) ch /\ NoDup ch /\
  (forall id, In id ch -> (id + 1) * c_ss c <= lenN (body_bytes c l)) /\
  trunc_spec (lenN b) (concat (map (sector (c_ss c) (body_bytes c l)) ch)) = b.
Proof. exact big_stream_read. Qed.

Theorem C13_small_stream_tables : forall c l n b ch, valid_layout c l ->
  In ((n, b), ch) (stream_chains c l) -> is_big b = false ->
  Chain (minifat_table c l) (hd ENDOFCHAIN ch) ch /\ NoDup ch /\
  (forall m, In m ch -> (m + 1) * 64 <= lenN (ministream_read c l)) /\
  trunc_spec (lenN b) (concat (map (sector 64 (ministream_read c l)) ch)) = b.
Proof. exact small_stream_read. Qed.

(* ---------------------------------------------------------------- byte level: tables read back *)
(* pieces of the byte-level round trip that are proved: the loops of Cfb::new, run on the sector
   ids of the layout over the written file body, give back the written tables *)
Theorem C13_fat_load_roundtrip : forall c l s r, valid_layout c l ->
  Inv (c_ss c) (body_bytes c l) s r ->
  exists s' r', load_fats (l_fat_ids l) s r = Ok (fat_table c l, s', r') /\
                Inv (c_ss c) (body_bytes c l) s' r'.
Proof. exact fat_load_roundtrip. Qed.

Theorem C13_dir_chain_roundtrip : forall c l s r, valid_layout c l ->
  Inv (c_ss c) (body_bytes c l) s r ->
  exists s' r',
    get_chain s (hd ENDOFCHAIN (l_dir_ids l)) (fat_table c l) r
              ((if c_ss c =? 512 then 0 else N.of_nat (length (l_dir_ids l))) * c_ss c)
    = Ok (dir_bytes c l, s', r') /\ Inv (c_ss c) (body_bytes c l) s' r'.
Proof. exact dir_chain_roundtrip. Qed.

Theorem C13_minifat_load_roundtrip : forall c l s r, valid_layout c l ->
  Inv (c_ss c) (body_bytes c l) s r ->
  exists mf s' r',
    get_chain s (hd ENDOFCHAIN (l_minifat_ids l)) (fat_table c l) r
              (N.of_nat (length (l_minifat_ids l)) * c_ss c) = Ok (mf, s', r') /\
    to_u32 mf = Ok (minifat_table c l) /\ Inv (c_ss c) (body_bytes c l) s' r'.
Proof. exact minifat_load_roundtrip. Qed.

Theorem C13_ministream_roundtrip : forall c l s r, valid_layout c l ->
  Inv (c_ss c) (body_bytes c l) s r ->
  exists s' r',
    get_chain s (hd ENDOFCHAIN (l_root_ids l)) (fat_table c l) r (l_nmini l * 64)
    = Ok (ministream_read c l, s', r') /\ Inv (c_ss c) (body_bytes c l) s' r'.
Proof. exact ministream_roundtrip. Qed.

Theorem C13_header_roundtrip : forall c l body, valid_layout c l ->
  exists h, header_from_reader (header_bytes c l ++ body) = Ok (h, difat_header l, body) /\
    h_ss h = c_ss c /\
    h_dir_len h = (if c_ss c =? 512 then 0 else N.of_nat (length (l_dir_ids l))) /\
    h_dir_start h = hd ENDOFCHAIN (l_dir_ids l) /\
    h_mini_fat_len h = N.of_nat (length (l_minifat_ids l)) /\
    h_mini_fat_start h = hd ENDOFCHAIN (l_minifat_ids l) /\
    h_difat_start h = hd ENDOFCHAIN (l_difat_ids l).
Proof. exact header_roundtrip. Qed.

Theorem C13_difat_roundtrip : forall c l s r fuel, valid_layout c l ->
  Inv (c_ss c) (body_bytes c l) s r -> (length (l_difat_ids l) < fuel)%nat ->
  exists D s' r',
    difat_loop fuel 0 s (hd ENDOFCHAIN (l_difat_ids l)) (difat_header l) r = Ok (D, s', r') /\
    filter (fun id => id <? DIFSECT) D = l_fat_ids l /\ Inv (c_ss c) (body_bytes c l) s' r'.
Proof. exact difat_roundtrip. Qed.

Theorem C13_dirs_roundtrip : forall c l, valid_layout c l ->
  map_outcome (fun ch => from_slice ch (c_ss c)) (chunks_exact 128 (dir_bytes c l))
  = Ok (parsed_dirs c l).
Proof. exact dirs_roundtrip_exact. Qed.

(* ---------------------------------------------------------------- totality (for C06) *)
(* no input at all makes the model of Cfb::new / get_stream panic; the DIFAT walk (the only loop
   with fuel in the model) ends by itself: fuel above the number of 512-byte sectors suffices *)
Theorem C13_no_panic_cfb_new : forall fuel file,
  cfb_new fuel file <> Panic /\
  (lenN file / 512 < N.of_nat fuel -> cfb_new fuel file <> OutOfFuel).
Proof. exact cfb_new_total. Qed.

Theorem C13_no_panic_get_stream : forall cf path r,
  get_stream cf path r <> Panic /\ get_stream cf path r <> OutOfFuel.
Proof. exact get_stream_total. Qed.

(* the loop of Cfb::children (the only new loop of the path lookup) ends within the fuel the model
   supplies — 2 * entries + 1 pops — on ANY directory array: cyclic, shared and dangling sibling ids
   included (every entry is pushed-from at most once).  Cfb.children, Cfb.find_entry and
   Cfb.has_directory are total functions (no outcome): they cannot panic. *)
Theorem C13_children_fuel_suffices : forall ds seen ch,
  exists l, children_loop (children_fuel ds) ds seen [ch] [] = Ok l.
Proof. exact children_fuel_suffices. Qed.

(* ---------------------------------------------------------------- examples (non-vacuity) *)
Definition ex_small : list N := map (fun i => N.of_nat i mod 251) (seq 0 100).
Definition ex_big : list N := map (fun i => (N.of_nat i * 7 + 3) mod 256) (seq 0 5000).
Definition ex_c (ss : N) : container :=
  {| c_ss := ss; c_storages := [[86; 66; 65]];
     c_streams := [([65], ex_small); ([87; 111; 114; 107; 98; 111; 111; 107], ex_big)];
     c_parents := [] |}.
(* 512-byte sectors, shuffled: FAT in sector 7, directory in 3, mini FAT in 12, mini stream in 0,
   the big stream fragmented over ten sectors in no order, sector 8 free, mini sector 1 free;
   no links written (the flat scan) *)
Definition ex_l : layout :=
  {| l_nsect := 15; l_fat_ids := [7]; l_difat_ids := []; l_dir_ids := [3]; l_minifat_ids := [12];
     l_root_ids := [0]; l_nmini := 3;
     l_chains := [[2; 0]; [14; 2; 9; 1; 13; 4; 11; 5; 10; 6]];
     l_slots := [2; 3; 1]; l_pad := 170; l_size_hi := 4294967295; l_empty_start := 0;
     l_links := [] |}.
(* 4096-byte sectors, sequential; a legal MS-CFB tree: VBA on top, A to its left, Workbook to its right *)
Definition ex_l4 : layout :=
  {| l_nsect := 6; l_fat_ids := [0]; l_difat_ids := []; l_dir_ids := [1]; l_minifat_ids := [2];
     l_root_ids := [3]; l_nmini := 2;
     l_chains := [[0; 1]; [4; 5]];
     l_slots := [1; 2; 3]; l_pad := 0; l_size_hi := 0; l_empty_start := ENDOFCHAIN;
     l_links := [(FREESECT, FREESECT, 1); (2, 3, FREESECT);
                 (FREESECT, FREESECT, FREESECT); (FREESECT, FREESECT, FREESECT)] |}.

Example C13_layout_nonvacuous : valid_layout (ex_c 512) ex_l /\ valid_layout (ex_c 4096) ex_l4 /\
  names_unique (ex_c 512) /\ flat_root (ex_c 512) ex_l /\
  legal_tree (ex_c 4096) ex_l4 /\ linked_tree (ex_c 4096) ex_l4 /\
  spec_path (ex_c 4096) [WORKBOOK] = Some ex_big /\ spec_path (ex_c 4096) [[65]] = Some ex_small.
Proof. repeat split; vm_compute; reflexivity. Qed.

(* through the bytes: the written files are read back by the whole model (header, DIFAT, FAT,
   directory, mini stream), both sector sizes, both kinds of stream *)
Example C13_bytes_roundtrip_example :
  cfb_get_stream (fuel_for ex_l) (cfb_write (ex_c 512) ex_l) [[65]] = Ok ex_small /\
  cfb_get_stream (fuel_for ex_l) (cfb_write (ex_c 512) ex_l) [WORKBOOK] = Ok ex_big /\
  cfb_get_stream (fuel_for ex_l4) (cfb_write (ex_c 4096) ex_l4) [[65]] = Ok ex_small /\
  cfb_get_stream (fuel_for ex_l4) (cfb_write (ex_c 4096) ex_l4) [WORKBOOK] = Ok ex_big.
Proof. repeat split; vm_compute; reflexivity. Qed.

Example C13_chain_follow_nonvacuous :
  Chain [2; ENDOFCHAIN; 1] 0 [0; 2; 1] /\ NoDup [0; 2; 1] /\
  Inv 4 [10;11;12;13; 20;21;22;23; 30;31;32;33] {| sdata := []; ssize := 4 |}
      [10;11;12;13; 20;21;22;23; 30;31;32;33] /\
  get_chain {| sdata := []; ssize := 4 |} 0 [2; ENDOFCHAIN; 1] [10;11;12;13; 20;21;22;23; 30;31;32;33] 10
  = Ok ([10;11;12;13; 30;31;32;33; 20;21], {| sdata := [10;11;12;13; 20;21;22;23; 30;31;32;33]; ssize := 4 |}, []).
Proof.
  split; [|split; [|split; [split; reflexivity|vm_compute; reflexivity]]].
  - apply Chain_step with (nx := 2); [discriminate|reflexivity|].
    apply Chain_step with (nx := 1); [discriminate|reflexivity|].
    apply Chain_step with (nx := ENDOFCHAIN); [discriminate|reflexivity|constructor].
  - repeat constructor; cbn; intuition discriminate.
Qed.

Example C13_chain_cycle_nonvacuous :
  Path [1; 2; 1] 0 [0] 1 /\ Path [1; 2; 1] 1 [1; 2] 1 /\
  get_chain {| sdata := []; ssize := 4 |} 0 [1; 2; 1] [10;11;12;13; 20;21;22;23; 30;31;32;33] 0 = Err ERR_IO.
Proof.
  split; [|split; [|vm_compute; reflexivity]].
  - apply Path_step with (nx := 1); [discriminate|reflexivity|constructor].
  - apply Path_step with (nx := 2); [discriminate|reflexivity|].
    apply Path_step with (nx := 1); [discriminate|reflexivity|constructor].
Qed.

(* ---------------------------------------------------------------- former class bom_name *)
(* a stream whose name begins with U+FEFF, and an empty stream whose start field is 0: both were
   misread before the fixes (BOM sniffing in Directory::from_slice; no truncation for len = 0) *)
Definition bom_c : container :=
  {| c_ss := 512; c_storages := []; c_streams := [([65279; 65], ex_small); ([69], [])]; c_parents := [] |}.
Definition bom_l : layout :=
  {| l_nsect := 4; l_fat_ids := [0]; l_difat_ids := []; l_dir_ids := [1]; l_minifat_ids := [2];
     l_root_ids := [3]; l_nmini := 2; l_chains := [[0; 1]; []]; l_slots := [1; 3]; l_pad := 0;
     l_size_hi := 0; l_empty_start := 0; l_links := [] |}.

Example C13_bom_name_and_empty_start_example :
  valid_layout bom_c bom_l /\
  cfb_get_stream (fuel_for bom_l) (cfb_write bom_c bom_l) [[65279; 65]] = Ok ex_small /\
  cfb_get_stream (fuel_for bom_l) (cfb_write bom_c bom_l) [[69]] = Ok [].
Proof. repeat split; vm_compute; reflexivity. Qed.

(* ---------------------------------------------------------------- dual-format files, duplicate names *)
Definition ex_other : list N := map (fun i => (N.of_nat i * 5 + 1) mod 256) (seq 0 100).
Definition MBD1 : list N := [77; 66; 68; 48; 48; 48; 49].                       (* "MBD0001" *)
(* a dual-format file: Book (slot 1) BEFORE Workbook (slot 2) in the directory array *)
Definition dual_c : container :=
  {| c_ss := 512; c_storages := []; c_streams := [(WORKBOOK, ex_small); (BOOK, ex_other)]; c_parents := [] |}.
Definition dual_l : layout :=
  {| l_nsect := 4; l_fat_ids := [0]; l_difat_ids := []; l_dir_ids := [1]; l_minifat_ids := [2];
     l_root_ids := [3]; l_nmini := 4; l_chains := [[0; 1]; [2; 3]]; l_slots := [2; 1]; l_pad := 0;
     l_size_hi := 0; l_empty_start := ENDOFCHAIN;
     l_links := [(FREESECT, FREESECT, 1); (FREESECT, FREESECT, FREESECT); (FREESECT, 2, FREESECT)] |}.
Definition book_c : container :=
  {| c_ss := 512; c_storages := []; c_streams := [(BOOK, ex_other)]; c_parents := [] |}.
Definition book_l : layout :=
  {| l_nsect := 4; l_fat_ids := [0]; l_difat_ids := []; l_dir_ids := [1]; l_minifat_ids := [2];
     l_root_ids := [3]; l_nmini := 2; l_chains := [[0; 1]]; l_slots := [3]; l_pad := 0;
     l_size_hi := 0; l_empty_start := ENDOFCHAIN; l_links := [(FREESECT, FREESECT, 3)] |}.

Example C13_workbook_stream_preferred_nonvacuous :
  valid_layout dual_c dual_l /\ legal_tree dual_c dual_l /\
  spec_workbook dual_c = Some ex_small /\ root_storage_named dual_c WORKBOOK = false /\
  stream_slot dual_c dual_l 0 = Some 2 /\ stream_slot dual_c dual_l 1 = Some 1 /\
  xls_workbook_stream (fuel_for dual_l) (cfb_write dual_c dual_l) = Ok ex_small /\
  valid_layout book_c book_l /\ legal_tree book_c book_l /\
  spec_workbook book_c = Some ex_other /\ root_storage_named book_c WORKBOOK = false /\
  xls_workbook_stream (fuel_for book_l) (cfb_write book_c book_l) = Ok ex_other.
Proof. repeat split; vm_compute; reflexivity. Qed.

(* CFB-1: a file whose writer upper-cased the stream names (Apache POI reads WORKBOOK and BOOK for
   this reason).  A dual-format file with WORKBOOK and BOOK, in a legal MS-CFB tree and with no
   hierarchy written (flat scan); a BIFF5 file with BOOK only; paths in other case spellings; and
   the uniqueness rule of 2.6.4: Workbook and WORKBOOK cannot both be children of the root *)
Definition WORKBOOK_UP : list N := [87; 79; 82; 75; 66; 79; 79; 75].            (* "WORKBOOK" *)
Definition BOOK_UP : list N := [66; 79; 79; 75].                                (* "BOOK" *)
Definition upper_c : container :=
  {| c_ss := 512; c_storages := []; c_streams := [(WORKBOOK_UP, ex_small); (BOOK_UP, ex_other)]; c_parents := [] |}.
Definition bookup_c : container :=
  {| c_ss := 512; c_storages := []; c_streams := [(BOOK_UP, ex_other)]; c_parents := [] |}.
Definition dual_flat_l : layout :=
  {| l_nsect := 4; l_fat_ids := [0]; l_difat_ids := []; l_dir_ids := [1]; l_minifat_ids := [2];
     l_root_ids := [3]; l_nmini := 4; l_chains := [[0; 1]; [2; 3]]; l_slots := [2; 1]; l_pad := 0;
     l_size_hi := 0; l_empty_start := ENDOFCHAIN; l_links := [] |}.

Example C13_case_spellings_nonvacuous :
  valid_layout upper_c dual_l /\ legal_tree upper_c dual_l /\
  spec_workbook upper_c = Some ex_small /\ root_storage_named upper_c WORKBOOK = false /\
  xls_workbook_stream (fuel_for dual_l) (cfb_write upper_c dual_l) = Ok ex_small /\
  cfb_get_stream (fuel_for dual_l) (cfb_write upper_c dual_l) [[119; 111; 114; 107; 98; 111; 111; 107]] = Ok ex_small /\
  respell_path [[false; true; true]] [WORKBOOK] = [[87; 79; 82; 107; 98; 111; 111; 107]] /\       (* "WORkbook" *)
  cfb_get_stream (fuel_for dual_l) (cfb_write upper_c dual_l) (respell_path [[false; true; true]] [BOOK]) = Ok ex_other /\
  valid_layout upper_c dual_flat_l /\ flat_root upper_c dual_flat_l /\ names_unique upper_c /\
  xls_workbook_stream (fuel_for dual_flat_l) (cfb_write upper_c dual_flat_l) = Ok ex_small /\
  valid_layout bookup_c book_l /\ legal_tree bookup_c book_l /\ spec_workbook bookup_c = Some ex_other /\
  xls_workbook_stream (fuel_for book_l) (cfb_write bookup_c book_l) = Ok ex_other /\
  name_eqb WORKBOOK_UP WORKBOOK = true /\ name_eqb [196] [228] = false /\                         (* Ä / ä: not folded *)
  hier_okb {| c_ss := 512; c_storages := [];
              c_streams := [(WORKBOOK, ex_small); (WORKBOOK_UP, ex_other)]; c_parents := [] |} = false.
Proof. repeat split; vm_compute; reflexivity. Qed.

(* an embedded workbook: storage MBD0001 holds its own Workbook stream (legal: names are unique
   per storage).  The root's Workbook is read in BOTH orders of the two entries in the directory
   array (root's in slot 2 / embedded in slot 3, and the other way round: the former known class
   shadowed_workbook, where Xls::new read the embedded workbook) *)
Definition emb_c : container :=
  {| c_ss := 512; c_storages := [MBD1];
     c_streams := [(WORKBOOK, ex_small); (WORKBOOK, ex_other)]; c_parents := [0; 0; 1] |}.
Definition emb_l (root_slot emb_slot : N) : layout :=
  {| l_nsect := 4; l_fat_ids := [0]; l_difat_ids := []; l_dir_ids := [1]; l_minifat_ids := [2];
     l_root_ids := [3]; l_nmini := 4; l_chains := [[0; 1]; [2; 3]]; l_slots := [1; root_slot; emb_slot];
     l_pad := 0; l_size_hi := 0; l_empty_start := ENDOFCHAIN;
     l_links := [(FREESECT, FREESECT, 1); (FREESECT, root_slot, emb_slot);
                 (FREESECT, FREESECT, FREESECT); (FREESECT, FREESECT, FREESECT)] |}.

Example C13_embedded_workbook_any_slot_order : forall l, In l [emb_l 2 3; emb_l 3 2] ->
  valid_layout emb_c l /\ legal_tree emb_c l /\ names_uniqueb emb_c = false /\
  spec_workbook emb_c = Some ex_small /\ root_storage_named emb_c WORKBOOK = false /\
  xls_workbook_stream (fuel_for l) (cfb_write emb_c l) = Ok ex_small /\
  cfb_get_stream (fuel_for l) (cfb_write emb_c l) [MBD1; WORKBOOK] = Ok ex_other.
Proof. intros l [<-|[<-|[]]]; repeat split; vm_compute; reflexivity. Qed.

(* second shape of the former class: the root storage has only Book (a BIFF5 file) and an embedded
   object has a Workbook: the root's Book is read, in every directory order *)
Definition emb5_c : container :=
  {| c_ss := 512; c_storages := [MBD1];
     c_streams := [(BOOK, ex_small); (WORKBOOK, ex_other)]; c_parents := [0; 0; 1] |}.
(* (Book, 4 units, sorts before MBD0001, 7 units: it is the storage's LEFT sibling) *)
Definition emb5_l (root_slot emb_slot : N) : layout :=
  {| l_nsect := 4; l_fat_ids := [0]; l_difat_ids := []; l_dir_ids := [1]; l_minifat_ids := [2];
     l_root_ids := [3]; l_nmini := 4; l_chains := [[0; 1]; [2; 3]]; l_slots := [1; root_slot; emb_slot];
     l_pad := 0; l_size_hi := 0; l_empty_start := ENDOFCHAIN;
     l_links := [(FREESECT, FREESECT, 1); (root_slot, FREESECT, emb_slot);
                 (FREESECT, FREESECT, FREESECT); (FREESECT, FREESECT, FREESECT)] |}.
Example C13_book_and_embedded_workbook : forall l, In l [emb5_l 2 3; emb5_l 3 2] ->
  valid_layout emb5_c l /\ legal_tree emb5_c l /\
  spec_workbook emb5_c = Some ex_small /\ root_storage_named emb5_c WORKBOOK = false /\
  xls_workbook_stream (fuel_for l) (cfb_write emb5_c l) = Ok ex_small.
Proof. intros l [<-|[<-|[]]]; repeat split; vm_compute; reflexivity. Qed.

(* two VBA projects whose dir streams sit at the SAME depth (the workbook's own and that of an
   embedded document, Macros/VBA/dir), the embedded one in the lower directory slots: each is read
   by its path, the bare name is an entry of no storage asked for (the former class
   shadowed_name); VbaProject::from_cfb asks inside _VBA_PROJECT_CUR/VBA *)
Definition MACROS : list N := [77; 97; 99; 114; 111; 115].
Definition DIR : list N := [100; 105; 114].
Definition vba2_c : container :=
  {| c_ss := 512; c_storages := [VBA_CUR_NAME; VBA_NAME; MACROS; VBA_NAME];
     c_streams := [(DIR, ex_small); (DIR, ex_other); (WORKBOOK, ex_small)];
     c_parents := [0; 1; 0; 3; 2; 4; 0] |}.
Definition vba2_l : layout :=
  {| l_nsect := 5; l_fat_ids := [0]; l_difat_ids := []; l_dir_ids := [1; 2]; l_minifat_ids := [3];
     l_root_ids := [4]; l_nmini := 6; l_chains := [[0; 1]; [2; 3]; [4; 5]];
     l_slots := [5; 6; 1; 2; 7; 3; 4]; l_pad := 0; l_size_hi := 0; l_empty_start := ENDOFCHAIN;
     l_links := [(FREESECT, FREESECT, 4);
                 (FREESECT, FREESECT, 6); (FREESECT, FREESECT, 7);
                 (FREESECT, FREESECT, 2); (FREESECT, FREESECT, 3);
                 (FREESECT, FREESECT, FREESECT); (FREESECT, FREESECT, FREESECT);
                 (1, 5, FREESECT)] |}.
Example C13_two_vba_projects_same_depth :
  valid_layout vba2_c vba2_l /\ legal_tree vba2_c vba2_l /\
  spec_path vba2_c [VBA_CUR_NAME; VBA_NAME; DIR] = Some ex_small /\
  spec_path vba2_c [MACROS; VBA_NAME; DIR] = Some ex_other /\ resolve vba2_c 0 [DIR] = None /\
  cfb_get_stream (fuel_for vba2_l) (cfb_write vba2_c vba2_l) [VBA_CUR_NAME; VBA_NAME; DIR] = Ok ex_small /\
  cfb_get_stream (fuel_for vba2_l) (cfb_write vba2_c vba2_l) [MACROS; VBA_NAME; DIR] = Ok ex_other /\
  cfb_get_stream (fuel_for vba2_l) (cfb_write vba2_c vba2_l) [DIR] = Err ERR_NOT_FOUND /\
  (do (cf, r) <- cfb_new (fuel_for vba2_l) (cfb_write vba2_c vba2_l); Ok (vba_stream_path cf DIR))
  = Ok [VBA_CUR_NAME; VBA_NAME; DIR].
Proof. repeat split; vm_compute; reflexivity. Qed.

(* damaged links (a cycle through the sibling ids, a child id out of the array): the lookup ends *)
Definition cyc_l : layout :=
  {| l_nsect := 4; l_fat_ids := [0]; l_difat_ids := []; l_dir_ids := [1]; l_minifat_ids := [2];
     l_root_ids := [3]; l_nmini := 4; l_chains := [[0; 1]; [2; 3]]; l_slots := [1; 2; 3];
     l_pad := 0; l_size_hi := 0; l_empty_start := ENDOFCHAIN;
     l_links := [(FREESECT, FREESECT, 1); (2, 3, 77); (1, 3, FREESECT); (2, 1, 0)] |}.
Example C13_cyclic_links_terminate :
  valid_layout emb_c cyc_l /\ linked_treeb emb_c cyc_l = false /\
  (do (cf, r) <- cfb_new (fuel_for cyc_l) (cfb_write emb_c cyc_l);
   Ok (children (directories cf) 0, children (directories cf) 1, has_directory cf MBD1))
  = Ok ([1; 2; 3], [], true).
Proof. repeat split; vm_compute; reflexivity. Qed.

Check C13_chain_follow : forall fat ss body start ids len s r,
  Chain fat start ids -> NoDup ids -> Inv ss body s r ->
  (forall id, In id ids -> (id + 1) * ss <= lenN body) ->
  exists s' r',
    get_chain s start fat r len
    = Ok (trunc_spec len (concat (map (sector ss body) ids)), s', r') /\ Inv ss body s' r'.
Check C13_find_entry_resolve : forall c l, valid_layout c l -> linked_tree c l ->
  forall path, path <> [] -> (forall n, last_opt path = Some n -> plain n) ->
  find_entry (parsed_dirs c l) path =
  match resolve c 0 path with Some p => Some (entry_at c l (obj_slot l p)) | None => None end.
Check C13_layout_independent : forall c l, valid_layout c l -> linked_tree c l ->
  forall fuel, (fuel_for l <= fuel)%nat ->
  forall path b, spec_path c path = Some b -> cfb_get_stream fuel (cfb_write c l) path = Ok b.
Check C13_layout_independent_any_case : forall c l fuel, valid_layout c l -> linked_tree c l ->
  (fuel_for l <= fuel)%nat ->
  forall path b flags, spec_path c path = Some b ->
    cfb_get_stream fuel (cfb_write c l) (respell_path flags path) = Ok b.
Check C13_spec_path_any_case : forall c path path', Forall2 name_equiv path path' ->
  spec_path c path = spec_path c path'.
Check C13_same_streams_same_read : forall c1 l1 c2 l2 path b,
  valid_layout c1 l1 -> valid_layout c2 l2 -> linked_tree c1 l1 -> linked_tree c2 l2 ->
  spec_path c1 path = Some b -> spec_path c2 path = Some b ->
  cfb_get_stream (fuel_for l1) (cfb_write c1 l1) path = cfb_get_stream (fuel_for l2) (cfb_write c2 l2) path.
Check C13_workbook_stream_preferred : forall c l, valid_layout c l -> linked_tree c l ->
  forall fuel b, (fuel_for l <= fuel)%nat ->
  spec_workbook c = Some b -> root_storage_named c WORKBOOK = false ->
  xls_workbook_stream fuel (cfb_write c l) = Ok b.
Check C13_legal_tree_linked : forall c l, legal_tree c l -> linked_tree c l.
Check C13_flat_layout_independent_first : forall c l fuel, valid_layout c l -> flat_root c l ->
  (fuel_for l <= fuel)%nat ->
  forall k n b s pre, nth_error (c_streams c) k = Some (n, b) -> stream_slot c l k = Some s ->
  first_slot c l n = Some s ->
  cfb_get_stream fuel (cfb_write c l) (pre ++ [n]) = Ok b.

Print Assumptions C13_chain_follow.
Print Assumptions C13_chain_total.
Print Assumptions C13_chain_cycle_is_error.
Print Assumptions C13_legal_tree_linked.
Print Assumptions C13_children_of_object.
Print Assumptions C13_find_entry_resolve.
Print Assumptions C13_layout_independent.
Print Assumptions C13_respell_same_name.
Print Assumptions C13_spec_path_any_case.
Print Assumptions C13_layout_independent_any_case.
Print Assumptions C13_path_not_found.
Print Assumptions C13_same_streams_same_read.
Print Assumptions C13_get_stream_path.
Print Assumptions C13_workbook_stream_preferred.
Print Assumptions C13_has_directory_root.
Print Assumptions C13_find_dir_first.
Print Assumptions C13_flat_layout_independent_first.
Print Assumptions C13_flat_layout_independent.
Print Assumptions C13_flat_workbook_stream_preferred.
Print Assumptions C13_has_directory_flat.
Print Assumptions C13_cfb_new_written.
Print Assumptions C13_header_roundtrip.
Print Assumptions C13_difat_roundtrip.
Print Assumptions C13_dirs_roundtrip.
Print Assumptions C13_no_panic_cfb_new.
Print Assumptions C13_no_panic_get_stream.
Print Assumptions C13_children_fuel_suffices.
Print Assumptions C13_mini_compose.
Print Assumptions C13_empty_stream.
Print Assumptions C13_mini_sector_in_root_chain.
Print Assumptions C13_big_stream_tables.
Print Assumptions C13_small_stream_tables.
Print Assumptions C13_fat_load_roundtrip.
Print Assumptions C13_dir_chain_roundtrip.
Print Assumptions C13_minifat_load_roundtrip.
Print Assumptions C13_ministream_roundtrip.
Print Assumptions C13_layout_nonvacuous.
Print Assumptions C13_bytes_roundtrip_example.
Print Assumptions C13_chain_follow_nonvacuous.
Print Assumptions C13_chain_cycle_nonvacuous.
Print Assumptions C13_bom_name_and_empty_start_example.
Print Assumptions C13_workbook_stream_preferred_nonvacuous.
Print Assumptions C13_case_spellings_nonvacuous.
Print Assumptions C13_embedded_workbook_any_slot_order.
Print Assumptions C13_book_and_embedded_workbook.
Print Assumptions C13_two_vba_projects_same_depth.
Print Assumptions C13_cyclic_links_terminate.
