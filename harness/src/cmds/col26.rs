// C14 (and C01/C15/C17): column letters and the xlsx coordinate functions on the real code.
//   push_column N | cn2n N | c2n R C | groc HEX | grc HEX | dim HEX
// (letters / a1 are spec-only commands of the model side.)
use crate::util::{hex, unhex};
use calamine::verif_hooks::{utils, xlsx};

fn out(r: Result<Vec<u8>, String>) -> String {
    match r {
        Ok(v) => format!("ok:{}", hex(&v)),
        Err(_) => "err".to_string(),
    }
}

pub fn run(args: &[&str]) -> String {
    match args {
        ["push_column", n] => {
            let n: u32 = n.parse().unwrap();
            format!("ok:{}", hex(utils::push_column(n).as_bytes()))
        }
        ["cn2n", n] => out(xlsx::column_number_to_name(n.parse().unwrap())),
        ["c2n", r, c] => out(xlsx::coordinate_to_name((r.parse().unwrap(), c.parse().unwrap()))),
        ["groc", h] => match xlsx::get_row_and_optional_column(&unhex(h)) {
            Ok((r, Some(c))) => format!("ok:{},{}", r, c),
            Ok((r, None)) => format!("ok:{},-", r),
            Err(_) => "err".to_string(),
        },
        ["grc", h] => match xlsx::get_row_column(&unhex(h)) {
            Ok((r, c)) => format!("ok:{},{}", r, c),
            Err(_) => "err".to_string(),
        },
        ["dim", h] => match xlsx::get_dimension(&unhex(h)) {
            Ok(((a, b), (c, d))) => format!("ok:{},{},{},{}", a, b, c, d),
            Err(_) => "err".to_string(),
        },
        _ => "bad-args".to_string(),
    }
}
