(* Cfb: model of the compound-file (MS-CFB) reader of calamine, src/cfb.rs:
     Header::from_reader, Cfb::new (DIFAT walk, FAT load, directory chain, root entry,
     mini stream, mini FAT), Sectors::get / get_chain, Directory::from_slice, Cfb::children,
     Cfb::find, Cfb::get_stream, Cfb::has_directory (entries are found by their PATH from the root
     storage, following the child / sibling ids, since the fix of audit finding G8);
   the specification side: a container (sector size, storages, named streams), a physical layout
   (placement of every FAT / DIFAT / directory / mini-FAT / mini-stream / stream sector, directory
   slots, free sectors, padding), the encoder cfb_write and the validity predicate.
   Definitions only (proofs: Cfb_proofs.v).  Bytes, sector ids and lengths are N; the reader
   (a std::io::Read positioned somewhere in the file) is the list of the bytes not yet consumed. *)
From Calamine Require Import Prelude Utf16.
Open Scope N_scope.
Set Implicit Arguments.

(* ------------------------------------------------------------------ constants *)
Definition RESERVED_SECTORS : N := 4294967290.   (* 0xFFFF_FFFA *)
Definition DIFSECT    : N := 4294967292.         (* 0xFFFF_FFFC *)
Definition FATSECT    : N := 4294967293.         (* 0xFFFF_FFFD *)
Definition ENDOFCHAIN : N := 4294967294.         (* 0xFFFF_FFFE *)
Definition FREESECT   : N := 4294967295.         (* 0xFFFF_FFFF *)

(* error classes of CfbError *)
Definition ERR_IO : N := 1.
Definition ERR_OLE : N := 2.
Definition ERR_EMPTY_ROOT : N := 3.
Definition ERR_NOT_FOUND : N := 4.
Definition ERR_INVALID : N := 5.

(* ------------------------------------------------------------------ small list helpers *)
Definition lenN (A : Type) (l : list A) : N := fold_left (fun n _ => N.succ n) l 0.
Definition takeN (A : Type) (n : N) (l : list A) : list A := firstn (N.to_nat n) l.
Definition dropN (A : Type) (n : N) (l : list A) : list A := skipn (N.to_nat n) l.

Fixpoint list_eqb (a b : list N) : bool :=
  match a, b with
  | [], [] => true
  | x :: a', y :: b' => (x =? y) && list_eqb a' b'
  | _, _ => false
  end.
(* str::eq_ignore_ascii_case on names (lists of Unicode scalar values; on the UTF-8 bytes of a Rust
   str the test is the same: a byte >= 0x80 is compared as it is, so two strings agree up to ASCII
   case exactly when their scalar values do).  [name_key]: the representative of a name's class.
   [MS-CFB] 2.6.4 compares names after conversion to upper case (simple case conversion of the
   UTF-16 code units); the reader, and this specification with it, folds the ASCII letters only —
   see the note at [upper_unit] and notes/C13.md. *)
Definition ascii_upper (c : N) : N := if (97 <=? c) && (c <=? 122) then c - 32 else c.
Definition name_key (n : list N) : list N := map ascii_upper n.
Definition name_eqb (a b : list N) : bool := list_eqb (name_key a) (name_key b).
(* another case spelling of a name / of a path: the ASCII letters at the flagged positions change
   case (missing flags: as written).  Every spelling that [MS-CFB] 2.6.4 identifies with the name
   through its ASCII letters is of this form. *)
Definition flip_case (c : N) : N :=
  if (97 <=? c) && (c <=? 122) then c - 32 else if (65 <=? c) && (c <=? 90) then c + 32 else c.
Fixpoint respell (flags : list bool) (n : list N) : list N :=
  match n, flags with
  | [], _ => []
  | _, [] => n
  | c :: n', u :: flags' => (if u then flip_case c else c) :: respell flags' n'
  end.
Fixpoint respell_path (flags : list (list bool)) (path : list (list N)) : list (list N) :=
  match path, flags with
  | [], _ => []
  | _, [] => path
  | n :: path', f :: flags' => respell f n :: respell_path flags' path'
  end.
Fixpoint mem_name (x : list N) (l : list (list N)) : bool :=
  match l with [] => false | y :: r => name_eqb y x || mem_name x r end.
Fixpoint nodup_namesb (l : list (list N)) : bool :=
  match l with [] => true | x :: r => negb (mem_name x r) && nodup_namesb r end.
Fixpoint memN (x : N) (l : list N) : bool :=
  match l with [] => false | y :: r => (y =? x) || memN x r end.
Fixpoint nodupb (l : list N) : bool :=
  match l with [] => true | x :: r => negb (memN x r) && nodupb r end.
Fixpoint assocN (A : Type) (x : N) (l : list (N * A)) : option A :=
  match l with
  | [] => None
  | (k, v) :: r => if k =? x then Some v else assocN x r
  end.
Fixpoint mem_list (x : list N) (l : list (list N)) : bool :=
  match l with [] => false | y :: r => list_eqb y x || mem_list x r end.
Fixpoint nodup_listb (l : list (list N)) : bool :=
  match l with [] => true | x :: r => negb (mem_list x r) && nodup_listb r end.
Fixpoint seqN_from (start : N) (n : nat) : list N :=
  match n with O => [] | S k => start :: seqN_from (N.succ start) k end.
Definition seqN (n : nat) : list N := seqN_from 0 n.          (* [0; 1; …; n-1] *)
Fixpoint take_until_nul (s : list N) : list N :=
  match s with [] => [] | c :: r => if c =? 0 then [] else c :: take_until_nul r end.
(* slice::chunks_exact(n): only the whole pieces *)
Definition chunks_exact (A : Type) (n : nat) (l : list A) : list (list A) :=
  filter (fun c => (length c =? n)%nat) (chunks n l).
Fixpoint map_outcome (A B : Type) (f : A -> outcome B) (l : list A) : outcome (list B) :=
  match l with
  | [] => Ok []
  | x :: r => do y <- f x; do ys <- map_outcome f r; Ok (y :: ys)
  end.

(* little-endian integers *)
Definition le16 (x : N) : list N := [x mod 256; (x / 256) mod 256].
Definition le32 (x : N) : list N :=
  [x mod 256; (x / 256) mod 256; (x / 65536) mod 256; (x / 16777216) mod 256].
Definition le64 (x : N) : list N := le32 (x mod 4294967296) ++ le32 (x / 4294967296).
Definition u16_at (b : list N) (o : nat) : N := nth o b 0 + 256 * nth (1 + o) b 0.
Definition u32_at (b : list N) (o : nat) : N :=
  nth o b 0 + 256 * nth (1 + o) b 0 + 65536 * nth (2 + o) b 0 + 16777216 * nth (3 + o) b 0.
Definition u64_at (b : list N) (o : nat) : N := u32_at b o + 4294967296 * u32_at b (4 + o).

(* utils::to_u32: s.chunks_exact(4).map(u32::from_le_bytes) — trailing bytes that do not fill a
   word are dropped (before the hardening of cfb.rs this was an assertion).  Kept as an outcome
   so that the callers read as before; it is always Ok. *)
Fixpoint to_u32_aux (b : list N) : list N :=
  match b with
  | b0 :: b1 :: b2 :: b3 :: r => (b0 + 256 * b1 + 65536 * b2 + 16777216 * b3) :: to_u32_aux r
  | _ => []
  end.
Definition to_u32 (b : list N) : outcome (list N) := Ok (to_u32_aux b).

(* Read::read_exact *)
Definition read_exact (n : N) (r : list N) : outcome (list N * list N) :=
  if lenN r <? n then Err ERR_IO else Ok (takeN n r, dropN n r).

(* ------------------------------------------------------------------ Directory::from_slice *)
Record dirent := { d_name : list N; d_left : N; d_right : N; d_child : N; d_start : N; d_len : N }.

(* UTF_16LE.decode_without_bom_handling(&buf[..64]) (since the fix of class bom_name: before it,
   Encoding::decode sniffed a byte-order mark), then the String is cut at its first NUL. *)
Definition decode_name (b : list N) : list N := take_until_nul (utf16le_decode_bytes b).

Definition from_slice (buf : list N) (ss : N) : outcome dirent :=
  if (length buf <? 64)%nat then Panic else            (* &buf[..64] *)
  let name := decode_name (firstn 64 buf) in
  if (length buf <? 80)%nat then Panic else            (* &buf[68..72], &buf[72..76], &buf[76..80] *)
  let lft := u32_at buf 68 in
  let rgt := u32_at buf 72 in
  let chd := u32_at buf 76 in
  if (length buf <? 120)%nat then Panic else           (* &buf[116..120] *)
  let start := u32_at buf 116 in
  if ss =? 512 then
    if (length buf <? 124)%nat then Panic              (* &buf[120..124] *)
    else Ok {| d_name := name; d_left := lft; d_right := rgt; d_child := chd;
               d_start := start; d_len := u32_at buf 120 |}
  else
    if (length buf <? 128)%nat then Panic              (* &buf[120..128] *)
    else Ok {| d_name := name; d_left := lft; d_right := rgt; d_child := chd;
               d_start := start; d_len := u64_at buf 120 |}.

(* ------------------------------------------------------------------ Sectors *)
Record sectors := { sdata : list N; ssize : N }.

(* the slice id*size .. (id+1)*size of a byte sequence *)
Definition sector (size : N) (body : list N) (id : N) : list N :=
  takeN size (dropN (id * size) body).

(* Sectors::get: returns (slice, updated cache, reader).  On a cache miss the cache grows by what
   the reader still delivers up to `end` (r.take(missing).read_to_end), never by zero filling;
   the slice is data[start .. min(end, data.len())], an I/O error when start lies beyond. *)
Definition get (s : sectors) (id : N) (r : list N) : outcome (list N * sectors * list N) :=
  let start := id * ssize s in
  let end_ := start + ssize s in
  let dl := lenN (sdata s) in
  let '(data', r') :=
    if dl <? end_ then
      let avail := N.min (end_ - dl) (lenN r) in
      (sdata s ++ takeN avail r, dropN avail r)
    else (sdata s, r) in
  let e := N.min end_ (lenN data') in
  if e <? start then Err ERR_IO
  else Ok (takeN (e - start) (dropN start data'), {| sdata := data'; ssize := ssize s |}, r').

(* the while loop of get_chain: `remaining` starts at fats.len() and bounds the number of
   sectors visited (a chain longer than its allocation table comes back on itself: I/O error);
   an id outside the table is an I/O error too *)
Fixpoint get_chain_loop (remaining : nat) (s : sectors) (id : N) (fats : list N) (r : list N)
  : outcome (list N * sectors * list N) :=
  if id =? ENDOFCHAIN then Ok ([], s, r)
  else
    match remaining with
    | O => Err ERR_IO                                    (* "cyclic sector chain" *)
    | S k =>
      do (sl, s1, r1) <- get s id r;
      match nth_error fats (N.to_nat id) with
      | None => Err ERR_IO                               (* fats.get(sector_id) *)
      | Some nx =>
        do (rest, s2, r2) <- get_chain_loop k s1 nx fats r1;
        Ok (sl ++ rest, s2, r2)
      end
    end.

Definition truncate (len : N) (c : list N) : list N :=
  if (0 <? len) && (len <? lenN c) then takeN len c else c.

Definition get_chain (s : sectors) (id : N) (fats : list N) (r : list N) (len : N)
  : outcome (list N * sectors * list N) :=
  do (c, s1, r1) <- get_chain_loop (length fats) s id fats r;
  Ok (truncate len c, s1, r1).

(* ------------------------------------------------------------------ Header::from_reader *)
Record header := {
  h_version : N; h_ss : N; h_dir_len : N; h_dir_start : N; h_fat_len : N;
  h_mini_fat_len : N; h_mini_fat_start : N; h_difat_start : N;
  h_difat_len : N   (* only used as a Vec capacity *)
}.
Definition SIGNATURE : list N := [208; 207; 17; 224; 161; 177; 26; 225].

Definition header_from_reader (r : list N) : outcome (header * list N * list N) :=
  do (buf, r1) <- read_exact 512 r;
  if negb (list_eqb (firstn 8 buf) SIGNATURE) then Err ERR_OLE else
  let sh := u16_at buf 30 in
  do (ss, r2) <-
    (if sh =? 9 then Ok (512, r1)
     else if sh =? 12 then (do (_, r2) <- read_exact 3584 r1; Ok (4096, r2))
     else Err ERR_INVALID);
  if negb (u16_at buf 32 =? 6) then Err ERR_INVALID else
  do difat <- to_u32 (firstn 436 (skipn 76 buf));
  Ok ({| h_version := u16_at buf 26; h_ss := ss;
         h_dir_len := u32_at buf 40; h_dir_start := u32_at buf 48; h_fat_len := u32_at buf 44;
         h_mini_fat_len := u32_at buf 64; h_mini_fat_start := u32_at buf 60;
         h_difat_start := u32_at buf 68; h_difat_len := u32_at buf 72 |}, difat, r2).

(* ------------------------------------------------------------------ Cfb::new *)
Record cfb := {
  directories : list dirent;
  main_sectors : sectors;
  fats : list N;
  mini_sectors : sectors;
  mini_fats : list N
}.

Definition pop (A : Type) (l : list A) : option (list A * A) :=
  match rev l with [] => None | x :: t => Some (rev t, x) end.

(* while sector_id < RESERVED_SECTORS {
     sector = get(sector_id)?; if sector.len() < sector_size { Err } difat.extend(to_u32(sector));
     sector_id = difat.pop().unwrap_or(ENDOFCHAIN);
     difat_sectors += 1; if difat_sectors > sectors.data.len() / sector_size { Err } }
   [n] = difat_sectors.  The loop ends by itself (n is bounded by the sectors read, hence by the
   file); [fuel] only makes the definition structural: any fuel above the number of sectors of
   the file suffices. *)
Fixpoint difat_loop (fuel : nat) (n : N) (s : sectors) (id : N) (difat : list N) (r : list N)
  : outcome (list N * sectors * list N) :=
  match fuel with
  | O => OutOfFuel
  | S f =>
    if id <? RESERVED_SECTORS then
      do (sl, s1, r1) <- get s id r;
      if lenN sl <? ssize s then Err ERR_IO             (* "truncated DIFAT sector" *)
      else
        do ents <- to_u32 sl;
        let '(d, nx) := match pop (difat ++ ents) with
                        | None => (difat ++ ents, ENDOFCHAIN)
                        | Some (d, last) => (d, last)
                        end in
        if lenN (sdata s1) / ssize s <? n + 1 then Err ERR_IO   (* "cyclic DIFAT sector chain" *)
        else difat_loop f (n + 1) s1 nx d r1
    else Ok (difat, s, r)
  end.

(* for id in difat.filter(< DIFSECT) { fats.extend(to_u32(get(id))) } *)
Fixpoint load_fats (ids : list N) (s : sectors) (r : list N) : outcome (list N * sectors * list N) :=
  match ids with
  | [] => Ok ([], s, r)
  | id :: ids' =>
    do (sl, s1, r1) <- get s id r;
    do ents <- to_u32 sl;
    do (rest, s2, r2) <- load_fats ids' s1 r1;
    Ok (ents ++ rest, s2, r2)
  end.

(* fuel bounds only the DIFAT walk (one unit per DIFAT sector visited) *)
Definition cfb_new (fuel : nat) (file : list N) : outcome (cfb * list N) :=
  do (h, difat0, r0) <- header_from_reader file;
  let s0 := {| sdata := []; ssize := h_ss h |} in
  do (difat, s1, r1) <- difat_loop fuel 0 s0 (h_difat_start h) difat0 r0;
  do (fat, s2, r2) <- load_fats (filter (fun id => id <? DIFSECT) difat) s1 r1;
  do (dirbytes, s3, r3) <- get_chain s2 (h_dir_start h) fat r2 (h_dir_len h * h_ss h);
  do dirs <- map_outcome (fun c => from_slice c (h_ss h)) (chunks_exact 128 dirbytes);
  match dirs with
  | [] => Err ERR_EMPTY_ROOT
  | d0 :: _ =>
    if 0 <? h_mini_fat_len h then
      do (ministream, s4, r4) <- get_chain s3 (d_start d0) fat r3 (d_len d0);
      do (mf, s5, r5) <- get_chain s4 (h_mini_fat_start h) fat r4 (h_mini_fat_len h * h_ss h);
      do minifat <- to_u32 mf;
      Ok ({| directories := dirs; main_sectors := s5; fats := fat;
             mini_sectors := {| sdata := ministream; ssize := 64 |}; mini_fats := minifat |}, r5)
    else
      Ok ({| directories := dirs; main_sectors := s3; fats := fat;
             mini_sectors := {| sdata := []; ssize := 64 |}; mini_fats := [] |}, r3)
  end.

(* the flat scan `directories.iter().find(|d| d.name.eq_ignore_ascii_case(name))` (all there was
   before the fix of G8; now the lookup of a file that carries no hierarchy) *)
Definition find_dir (name : list N) (ds : list dirent) : option dirent :=
  find (fun d => name_eqb (d_name d) name) ds.

(* slice::get(i) with an index that may be as large as 0xFFFFFFFF (no unary number is built) *)
Fixpoint nthN (A : Type) (l : list A) (i : N) : option A :=
  match l with
  | [] => None
  | x :: r => if i =? 0 then Some x else nthN r (N.pred i)
  end.

(* Cfb::children, the loop:
     while let Some(id) = todo.pop() {
       if let Some(d) = self.directories.get(id) {
         if !replace(&mut seen[id], true) { children.push(id); todo.push(d.right); todo.push(d.left); } } }
   [todo]: the stack, top first; [seen]: the ids whose flag is set; [acc]: children, last first.
   One unit of fuel per pop. *)
Fixpoint children_loop (fuel : nat) (ds : list dirent) (seen todo acc : list N) : outcome (list N) :=
  match todo with
  | [] => Ok (rev acc)
  | id :: rest =>
    match fuel with
    | O => OutOfFuel
    | S f =>
      match nthN ds id with
      | Some d =>
        if memN id seen then children_loop f ds seen rest acc
        else children_loop f ds (id :: seen) (d_left d :: d_right d :: rest) (id :: acc)
      | None => children_loop f ds seen rest acc
      end
    end
  end.

(* every entry is pushed-from at most once (two pushes each), plus the first id: the loop pops at
   most 2 * len + 1 times (Cfb_proofs.children_loop_fuel: this fuel is never exhausted) *)
Definition children_fuel (ds : list dirent) : nat := S (2 * length ds).

(* Cfb::children(parent): seen = [i == 0 for i in 0..len] (the root entry is nobody's child),
   todo = [directories.get(parent)?.child].  The fuel is never exhausted
   (Cfb_proofs.children_loop_fuel), so the last branch is dead. *)
Definition children (ds : list dirent) (parent : N) : list N :=
  match nthN ds parent with
  | None => []
  | Some d =>
    match children_loop (children_fuel ds) ds [0] [d_child d] [] with
    | Ok l => l
    | _ => []
    end
  end.

(* the closure of find: the entry with that id exists and carries the name up to ASCII case
   (directories.get, no index; d.name.eq_ignore_ascii_case(name)) *)
Definition name_is (ds : list dirent) (name : list N) (i : N) : bool :=
  match nthN ds i with Some d => name_eqb (d_name d) name | None => false end.

(* the for loop of Cfb::find: id = self.children(id).into_iter().find(..)? per path component *)
Fixpoint find_from (ds : list dirent) (id : N) (path : list (list N)) : option N :=
  match path with
  | [] => Some id
  | name :: rest =>
    match find (name_is ds name) (children ds id) with
    | Some i => find_from ds i rest
    | None => None
    end
  end.

Fixpoint last_opt (A : Type) (l : list A) : option A :=
  match l with [] => None | [x] => Some x | _ :: r => last_opt r end.

(* Cfb::find(path): a root entry that links to no child = no hierarchy: flat scan for the last
   name of the path; otherwise the path is followed from the root entry *)
Definition find_entry (ds : list dirent) (path : list (list N)) : option dirent :=
  match children ds 0 with
  | [] => match last_opt path with Some name => find_dir name ds | None => None end
  | _ :: _ => match find_from ds 0 path with Some id => nthN ds id | None => None end
  end.

(* Cfb::has_directory(name) = self.find(&[name]).is_some(): an entry of the ROOT storage *)
Definition has_directory (c : cfb) (name : list N) : bool :=
  match find_entry (directories c) [name] with Some _ => true | None => false end.

Definition get_stream (c : cfb) (path : list (list N)) (r : list N) : outcome (list N * cfb * list N) :=
  match find_entry (directories c) path with
  | None => Err ERR_NOT_FOUND
  | Some d =>
    if d_len d =? 0 then Ok ([], c, r)        (* an empty stream owns no sector *)
    else if d_len d <? 4096 then
      do (b, ms, r1) <- get_chain (mini_sectors c) (d_start d) (mini_fats c) r (d_len d);
      Ok (b, {| directories := directories c; main_sectors := main_sectors c; fats := fats c;
                mini_sectors := ms; mini_fats := mini_fats c |}, r1)
    else
      do (b, ms, r1) <- get_chain (main_sectors c) (d_start d) (fats c) r (d_len d);
      Ok (b, {| directories := directories c; main_sectors := ms; fats := fats c;
                mini_sectors := mini_sectors c; mini_fats := mini_fats c |}, r1)
  end.

(* open and read one stream by its path *)
Definition cfb_get_stream (fuel : nat) (file : list N) (path : list (list N)) : outcome (list N) :=
  do (c, r) <- cfb_new fuel file;
  do (b, _, _) <- get_stream c path r;
  Ok b.

(* ================================================================== specification side *)

(* A chain in an allocation table: successive links ending in ENDOFCHAIN. *)
Inductive Chain (fat : list N) : N -> list N -> Prop :=
| Chain_end : Chain fat ENDOFCHAIN []
| Chain_step : forall id nx rest,
    id <> ENDOFCHAIN -> nth_error fat (N.to_nat id) = Some nx -> Chain fat nx rest ->
    Chain fat id (id :: rest).

(* a path of links that does not end *)
Inductive Path (fat : list N) : N -> list N -> N -> Prop :=
| Path_nil : forall id, Path fat id [] id
| Path_step : forall id nx rest last,
    id <> ENDOFCHAIN -> nth_error fat (N.to_nat id) = Some nx -> Path fat nx rest last ->
    Path fat id (id :: rest) last.

Record container := {
  c_ss : N;                                  (* 512 or 4096 *)
  c_storages : list (list N);                (* names of storage objects (no content) *)
  c_streams : list (list N * list N);        (* name (Unicode scalars), content *)
  c_parents : list N                         (* hierarchy: per object (the storages, then the streams,
                                                in the order of l_slots) the storage that holds it:
                                                0 = the root storage, j >= 1 = the j-th name of
                                                c_storages; objects beyond the list are in the root *)
}.

Record layout := {
  l_nsect : N;                 (* number of sectors after the header *)
  l_fat_ids : list N;          (* sectors holding the FAT, in FAT order *)
  l_difat_ids : list N;        (* DIFAT sectors, in chain order *)
  l_dir_ids : list N;          (* directory chain *)
  l_minifat_ids : list N;      (* mini-FAT chain *)
  l_root_ids : list N;         (* chain of the root entry = mini-stream container *)
  l_nmini : N;                 (* number of 64-byte mini sectors *)
  l_chains : list (list N);    (* per stream: its sector chain (>= 4096 bytes) or mini-sector chain *)
  l_slots : list N;            (* directory slot of every storage, then of every stream (>= 1) *)
  l_pad : N;                   (* filler byte of free sectors and of the tail of last sectors *)
  l_size_hi : N;               (* version 3: upper half of the 64-bit size field (ignored garbage) *)
  l_empty_start : N;           (* start-sector field of zero-length streams (ENDOFCHAIN, 0, FREESECT, …) *)
  l_links : list (N * N * N)   (* (left sibling, right sibling, child) directory ids written at offsets
                                  68 / 72 / 76 of the root entry, then of every storage, then of every
                                  stream (order of l_slots); entries beyond the list: NOSTREAM x 3.
                                  calamine never reads them, so they are not constrained by
                                  valid_layoutb; legal_treeb says when they are a legal MS-CFB tree *)
}.

Definition ROOT_NAME : list N := [82; 111; 111; 116; 32; 69; 110; 116; 114; 121]. (* "Root Entry" *)
Definition MINI_CUTOFF : N := 4096.
Definition epf (ss : N) : N := ss / 4.                       (* table entries per sector *)
Definition is_big (b : list N) : bool := MINI_CUTOFF <=? lenN b.

Definition pad_to (n : nat) (p : N) (b : list N) : list N := b ++ repeat p (n - length b).
Definition chunk_pad (n : nat) (p : N) (b : list N) : list (list N) :=
  map (pad_to n p) (chunks n b).

(* successor of i in a chain / in a family of chains *)
Fixpoint chain_next (ids : list N) (i : N) : option N :=
  match ids with
  | [] => None
  | a :: t => if a =? i then Some (hd ENDOFCHAIN t) else chain_next t i
  end.
Fixpoint chains_next (cs : list (list N)) (i : N) : option N :=
  match cs with
  | [] => None
  | c :: r => match chain_next c i with Some x => Some x | None => chains_next r i end
  end.

Definition stream_chains (c : container) (l : layout) : list (list N * list N * list N) :=
  combine (c_streams c) (l_chains l).
Definition big_streams c l := filter (fun p => is_big (snd (fst p))) (stream_chains c l).
Definition small_streams c l := filter (fun p => negb (is_big (snd (fst p)))) (stream_chains c l).
Definition big_chains c l : list (list N) := map snd (big_streams c l).
Definition mini_chains c l : list (list N) := map snd (small_streams c l).
Definition sector_chains c l : list (list N) :=
  l_dir_ids l :: l_minifat_ids l :: l_root_ids l :: big_chains c l.
Definition all_sector_ids c l : list N :=
  l_fat_ids l ++ l_difat_ids l ++ concat (sector_chains c l).

(* (the *_of functions take the tables they consult as arguments so that the extracted code
   computes each table once) *)
Definition fat_entry_of (fat_ids difat_ids : list N) (chs : list (list N)) (i : N) : N :=
  if memN i fat_ids then FATSECT
  else if memN i difat_ids then DIFSECT
  else match chains_next chs i with Some x => x | None => FREESECT end.
Definition fat_entry c l : N -> N :=
  fat_entry_of (l_fat_ids l) (l_difat_ids l) (sector_chains c l).
Definition fat_table c l : list N :=
  map (fat_entry c l) (seqN (length (l_fat_ids l) * N.to_nat (epf (c_ss c)))).

Definition minifat_entry_of (chs : list (list N)) (i : N) : N :=
  match chains_next chs i with Some x => x | None => FREESECT end.
Definition minifat_entry c l : N -> N := minifat_entry_of (mini_chains c l).
Definition minifat_table c l : list N :=
  map (minifat_entry c l) (seqN (length (l_minifat_ids l) * N.to_nat (epf (c_ss c)))).

(* DIFAT: the first 109 FAT sector ids live in the header, the others in DIFAT sectors of
   epf-1 entries followed by the id of the next DIFAT sector *)
Fixpoint difat_sects (per : nat) (ids : list N) (rest : list N) : list (list N) :=
  match ids with
  | [] => []
  | _ :: ids' =>
    (pad_to per FREESECT (firstn per rest) ++ [hd ENDOFCHAIN ids']) :: difat_sects per ids' (skipn per rest)
  end.
Definition difat_header (l : layout) : list N := firstn 109 (l_fat_ids l ++ repeat FREESECT 109).

(* directory *)
Definition items c l : list (list N * N * N * N) :=       (* name, object type, start, size *)
  map (fun n => (n, 1, 0, 0)) (c_storages c) ++
  map (fun p => (fst (fst p), 2, hd (l_empty_start l) (snd p), lenN (snd (fst p)))) (stream_chains c l).

Definition NOLINKS : N * N * N := (FREESECT, FREESECT, FREESECT).   (* NOSTREAM = 0xFFFFFFFF *)
Definition encode_entry (ss hi : N) (lk : N * N * N) (it : list N * N * N * N) : list N :=
  let '(name, typ, start, size) := it in
  let '(lft, rgt, chd) := lk in
  let units := utf16_encode name in
  pad_to 64 0 (bytes_le_of_units units) ++
  le16 (if typ =? 0 then 0 else 2 * (N.of_nat (length units) + 1)) ++ [typ; 1] ++
  le32 lft ++ le32 rgt ++ le32 chd ++ repeat 0 36 ++
  le32 start ++ (if ss =? 512 then le32 size ++ le32 hi else le64 size).

Definition root_item (l : layout) : list N * N * N * N :=
  (ROOT_NAME, 5, hd ENDOFCHAIN (l_root_ids l), l_nmini l * 64).
Definition unused_item : list N * N * N * N := ([], 0, 0, 0).

Definition nslots c l : nat := length (l_dir_ids l) * N.to_nat (c_ss c / 128).
Definition dir_item_of (root : list N * N * N * N) (tbl : list (N * (list N * N * N * N))) (i : N)
  : list N * N * N * N :=
  if i =? 0 then root
  else match assocN i tbl with
       | Some it => it
       | None => unused_item
       end.
Definition link_of (ltbl : list (N * (N * N * N))) (i : N) : N * N * N :=
  match assocN i ltbl with Some x => x | None => NOLINKS end.
Definition dir_entry_of (ss hi : N) root tbl ltbl (i : N) : list N :=
  encode_entry ss (if i =? 0 then 0 else hi) (link_of ltbl i) (dir_item_of root tbl i).
Definition slot_table c l := combine (l_slots l) (items c l).
Definition link_table (l : layout) : list (N * (N * N * N)) := combine (0 :: l_slots l) (l_links l).
Definition dir_item c l : N -> list N * N * N * N := dir_item_of (root_item l) (slot_table c l).
Definition dir_entry c l : N -> list N :=
  dir_entry_of (c_ss c) (l_size_hi l) (root_item l) (slot_table c l) (link_table l).
Definition dir_bytes c l : list N := flat_map (dir_entry c l) (seqN (nslots c l)).

(* mini stream *)
Definition mini_placed c l : list (N * list N) :=
  flat_map (fun p => combine (snd p) (chunk_pad 64 (l_pad l) (snd (fst p)))) (small_streams c l).
Definition content_of (pad : N) (size : nat) (pl : list (N * list N)) (i : N) : list N :=
  match assocN i pl with Some b => b | None => repeat pad size end.
Definition mini_content c l : N -> list N := content_of (l_pad l) 64 (mini_placed c l).
Definition mini_stream c l : list N := flat_map (mini_content c l) (seqN (N.to_nat (l_nmini l))).

(* sector contents *)
Definition placed c l : list (N * list N) :=
  let ss := N.to_nat (c_ss c) in
  combine (l_fat_ids l) (chunks ss (flat_map le32 (fat_table c l))) ++
  combine (l_difat_ids l)
          (map (flat_map le32)
               (difat_sects (N.to_nat (epf (c_ss c)) - 1) (l_difat_ids l) (skipn 109 (l_fat_ids l)))) ++
  combine (l_dir_ids l) (chunks ss (dir_bytes c l)) ++
  combine (l_minifat_ids l) (chunks ss (flat_map le32 (minifat_table c l))) ++
  combine (l_root_ids l) (chunk_pad ss (l_pad l) (mini_stream c l)) ++
  flat_map (fun p => combine (snd p) (chunk_pad ss (l_pad l) (snd (fst p)))) (big_streams c l).

Definition sector_content c l : N -> list N :=
  content_of (l_pad l) (N.to_nat (c_ss c)) (placed c l).

Definition body_bytes c l : list N := flat_map (sector_content c l) (seqN (N.to_nat (l_nsect l))).

Definition header_bytes c l : list N :=
  let v3 := c_ss c =? 512 in
  SIGNATURE ++ repeat 0 16 ++ le16 62 ++ le16 (if v3 then 3 else 4) ++ le16 65534 ++
  le16 (if v3 then 9 else 12) ++ le16 6 ++ repeat 0 6 ++
  le32 (if v3 then 0 else N.of_nat (length (l_dir_ids l))) ++
  le32 (N.of_nat (length (l_fat_ids l))) ++
  le32 (hd ENDOFCHAIN (l_dir_ids l)) ++ le32 0 ++ le32 MINI_CUTOFF ++
  le32 (hd ENDOFCHAIN (l_minifat_ids l)) ++ le32 (N.of_nat (length (l_minifat_ids l))) ++
  le32 (hd ENDOFCHAIN (l_difat_ids l)) ++ le32 (N.of_nat (length (l_difat_ids l))) ++
  flat_map le32 (difat_header l) ++
  (if v3 then [] else repeat 0 3584).

(* the encoder *)
Definition cfb_write (c : container) (l : layout) : list N := header_bytes c l ++ body_bytes c l.

(* fuel that suffices for the DIFAT walk of a written container *)
Definition fuel_for (l : layout) : nat := S (length (l_difat_ids l)).

(* ------------------------------------------------------------------ validity *)
Definition valid_nameb (n : list N) : bool :=
  negb (list_eqb n []) && forallb (fun ch => scalarb ch && negb (ch =? 0)) n &&
  (length (utf16_encode n) <=? 31)%nat && negb (name_eqb n ROOT_NAME).

Definition all_names (c : container) : list (list N) := c_storages c ++ map fst (c_streams c).

(* hierarchy: the storage holding object k (k-th of all_names) *)
Definition parent_of (c : container) (k : nat) : N := nth k (c_parents c) 0.
Definition item_keys (c : container) : list (N * list N) :=
  combine (map (parent_of c) (seq 0 (length (all_names c)))) (all_names c).
Fixpoint mem_key (x : N * list N) (l : list (N * list N)) : bool :=
  match l with [] => false | y :: r => ((fst y =? fst x) && name_eqb (snd y) (snd x)) || mem_key x r end.
Fixpoint nodup_keyb (l : list (N * list N)) : bool :=
  match l with [] => true | x :: r => negb (mem_key x r) && nodup_keyb r end.
(* MS-CFB: names are unique — under the comparison of 2.6.4, i.e. up to case — among the children
   of ONE storage (not over the whole file): "Workbook" and "WORKBOOK" cannot both be in it; every
   parent is the root or a storage, and the parent of the j-th storage is the root or one of the
   storages before it (no cycle).  With c_parents = [] this is "all names distinct". *)
Definition hier_okb (c : container) : bool :=
  let ns := N.of_nat (length (c_storages c)) in
  forallb (fun p => p <=? ns) (c_parents c) &&
  forallb (fun j => parent_of c j <=? N.of_nat j) (seq 0 (length (c_storages c))) &&
  nodup_keyb (item_keys c).
(* the stronger condition the flat lookup of calamine is always right under *)
Definition names_uniqueb (c : container) : bool := nodup_namesb (all_names c).

Definition stream_okb (ss : N) (p : list N * list N * list N) : bool :=
  let '((_, b), ch) := p in
  let unit := if is_big b then ss else 64 in
  (lenN b <=? N.of_nat (length ch) * unit) && (lenN b <? 4294967296) &&
  (if lenN b =? 0 then match ch with [] => true | _ => false end else true).

Definition valid_layoutb (c : container) (l : layout) : bool :=
  let ss := c_ss c in
  let ids := all_sector_ids c l in
  let minis := concat (mini_chains c l) in
  let nsl := N.of_nat (nslots c l) in
  ((ss =? 512) || (ss =? 4096)) &&
  nodupb ids && forallb (fun i => i <? l_nsect l) ids &&
  (l_nsect l <=? N.of_nat (length (l_fat_ids l)) * epf ss) && (l_nsect l <? RESERVED_SECTORS) &&
  (N.of_nat (length (l_fat_ids l)) <=? 109 + N.of_nat (length (l_difat_ids l)) * (epf ss - 1)) &&
  (1 <=? length (l_dir_ids l))%nat &&
  nodupb (l_slots l) && forallb (fun s => (1 <=? s) && (s <? nsl)) (l_slots l) &&
  (length (l_slots l) =? length (c_storages c) + length (c_streams c))%nat &&
  (length (l_chains l) =? length (c_streams c))%nat &&
  forallb valid_nameb (all_names c) && hier_okb c &&
  forallb (stream_okb ss) (stream_chains c l) &&
  nodupb minis && forallb (fun m => m <? l_nmini l) minis &&
  (l_nmini l <=? N.of_nat (length (l_minifat_ids l)) * epf ss) &&
  (l_nmini l * 64 <=? N.of_nat (length (l_root_ids l)) * ss) &&
  (l_nmini l <? 67108864) &&
  (l_pad l <? 256) && ((l_size_hi l <? 4294967296) && (l_empty_start l <? 4294967296)).
Definition valid_layout c l : Prop := valid_layoutb c l = true.

(* the specification: what reading stream [name] must give *)
Definition spec_stream (c : container) (name : list N) : option (list N) :=
  match find (fun p => name_eqb (fst p) name) (c_streams c) with
  | Some p => Some (snd p)
  | None => None
  end.

(* ================================================================== hierarchy, Xls::new *)
(* MS-CFB names are unique per storage only, and the position of an entry in the directory ARRAY
   is free: the hierarchy is carried by the child id of a storage and the left / right sibling
   ids of its children.  Since the fix of audit finding G8 Cfb::find follows them (the sibling
   tree of each storage on the path is visited whole); a file whose root entry links to no child
   is still scanned as a flat array: the entry reached is then the one in the LOWEST directory slot
   among all the objects carrying the name ([first_slot]). *)
Definition item_name (it : list N * N * N * N) : list N := fst (fst (fst it)).
Fixpoint min_slot (n : list N) (tbl : list (N * (list N * N * N * N))) : option N :=
  match tbl with
  | [] => None
  | (s, it) :: r =>
    if name_eqb (item_name it) n then
      match min_slot n r with Some s' => Some (N.min s s') | None => Some s end
    else min_slot n r
  end.
Definition first_slot (c : container) (l : layout) (n : list N) : option N := min_slot n (slot_table c l).

(* the directory slot of the k-th stream *)
Definition stream_slot (c : container) (l : layout) (k : nat) : option N :=
  nth_error (l_slots l) (length (c_storages c) + k).

(* objects are numbered 0 = the root storage, j >= 1 = the j-th of all_names (storages first, then
   streams): the numbering c_parents uses for storages *)
Definition obj_slot (l : layout) (p : N) : N :=
  if p =? 0 then 0 else nth (N.to_nat p - 1) (l_slots l) 0.

(* specification of a lookup: the child named n of object p — the (k+1)-th object, where k is the
   first index with that name, in any case spelling ([MS-CFB] 2.6.4), and that parent (hier_okb:
   there is at most one) *)
Fixpoint child_index (c : container) (p : N) (n : list N) (k : nat) (names : list (list N)) : option nat :=
  match names with
  | [] => None
  | n' :: r => if name_eqb n' n && (parent_of c k =? p) then Some k else child_index c p n (S k) r
  end.
Fixpoint resolve (c : container) (p : N) (path : list (list N)) : option N :=
  match path with
  | [] => Some p
  | n :: rest =>
    match child_index c p n 0 (all_names c) with
    | Some k => resolve c (N.of_nat (S k)) rest
    | None => None
    end
  end.
(* the bytes of the stream at [path] from the root storage (None: no such object, or a storage) *)
Definition spec_path (c : container) (path : list (list N)) : option (list N) :=
  match resolve c 0 path with
  | Some p =>
    let ns := N.of_nat (length (c_storages c)) in
    if ns <? p then
      match nth_error (c_streams c) (N.to_nat (p - ns) - 1) with Some (_, b) => Some b | None => None end
    else None
  | None => None
  end.
(* the root storage holds a STORAGE of that name *)
Definition root_storage_named (c : container) (n : list N) : bool :=
  match resolve c 0 [n] with
  | Some p => (1 <=? p) && (p <=? N.of_nat (length (c_storages c)))
  | None => false
  end.

(* Xls::parse_workbook:
     cfb.get_stream(&["Workbook"], &mut reader).or_else(|_| cfb.get_stream(&["Book"], &mut reader))?
   ANY error of the first lookup (not only StreamNotFound) leads to the second one.  After an I/O
   error the real sector cache may have grown; a sector read depends only on the file body
   (Cfb_proofs.get_in_body), so the second lookup is modelled on the state before the first. *)
Definition WORKBOOK : list N := [87; 111; 114; 107; 98; 111; 111; 107].
Definition BOOK : list N := [66; 111; 111; 107].
Definition workbook_or_book (c : cfb) (r : list N) : outcome (list N) :=
  match get_stream c [WORKBOOK] r with
  | Ok (b, _, _) => Ok b
  | Err _ => do (b, _, _) <- get_stream c [BOOK] r; Ok b
  | Panic => Panic
  | OutOfFuel => OutOfFuel
  end.
(* Xls::new up to the bytes handed to the BIFF parser (the VBA project, read before when the root
   holds _VBA_PROJECT_CUR, does not change which bytes these are) *)
Definition xls_workbook_stream (fuel : nat) (file : list N) : outcome (list N) :=
  do (c, r) <- cfb_new fuel file; workbook_or_book c r.

(* specification (Excel): the workbook is the stream "Workbook" of the ROOT storage; a file written
   for Excel 5.0/95 has "Book" instead; a dual-format file has both and "Workbook" is preferred *)
Definition spec_workbook (c : container) : option (list N) :=
  match spec_path c [WORKBOOK] with Some b => Some b | None => spec_path c [BOOK] end.

(* VbaProject::from_cfb: the storage that holds the project, and the path of one of its streams *)
Definition VBA_CUR_NAME : list N := [95; 86; 66; 65; 95; 80; 82; 79; 74; 69; 67; 84; 95; 67; 85; 82].
Definition VBA_NAME : list N := [86; 66; 65].
Definition vba_storage (c : cfb) : list (list N) :=
  if has_directory c VBA_CUR_NAME then [VBA_CUR_NAME; VBA_NAME] else [VBA_NAME].
Definition vba_stream_path (c : cfb) (name : list N) : list (list N) := vba_storage c ++ [name].

(* ------------------------------------------------------------------ linked trees *)
(* MS-CFB 2.6.4: the children of a storage form a binary search tree ordered by (UTF-16 length,
   then upper-cased code units); here upper-casing covers a-z only (the simple case mapping of
   other letters is not modelled: such names compare by code unit — for the sibling order and,
   [name_eqb], for the lookup; the reader folds ASCII letters only, the table of simple case
   mappings, whose Unicode version depends on the writer according to 2.6.4, is left out on
   purpose).  Colours are not checked (every entry is written black). *)
Definition upper_unit (u : N) : N := if (97 <=? u) && (u <=? 122) then u - 32 else u.
Fixpoint units_ltb (a b : list N) : bool :=
  match a, b with
  | [], [] => false
  | [], _ => true
  | _, [] => false
  | x :: a', y :: b' => if x <? y then true else if y <? x then false else units_ltb a' b'
  end.
Definition cfb_name_ltb (a b : list N) : bool :=
  let ua := map upper_unit (utf16_encode a) in
  let ub := map upper_unit (utf16_encode b) in
  if (length ua <? length ub)%nat then true
  else if (length ub <? length ua)%nat then false else units_ltb ua ub.

(* in-order walk of the sibling tree below directory id s; [budget] bounds the number of entries
   visited (a cycle or a shared node runs out of it), [fuel] is the structural argument *)
Fixpoint tree_walk (fuel : nat) (lk : N -> N * N * N) (nsl : N) (s : N) (budget : nat)
  : option (list N * nat) :=
  if s =? FREESECT then Some ([], budget)
  else
    match fuel, budget with
    | S f, S bd =>
      if nsl <=? s then None else
      let '(lft, rgt, _) := lk s in
      match tree_walk f lk nsl lft bd with
      | Some (a, bd1) =>
        match tree_walk f lk nsl rgt bd1 with
        | Some (b, bd2) => Some (a ++ s :: b, bd2)
        | None => None
        end
      | None => None
      end
    | _, _ => None
    end.
Fixpoint sorted_namesb (ns : list (list N)) : bool :=
  match ns with
  | a :: ((b :: _) as r) => cfb_name_ltb a b && sorted_namesb r
  | _ => true
  end.
Definition storage_slot (l : layout) (p : N) : N := obj_slot l p.
Definition children_slots (c : container) (l : layout) (p : N) : list N :=
  map fst (filter (fun x => snd x =? p)
                  (combine (l_slots l) (map (parent_of c) (seq 0 (length (l_slots l)))))).
Definition link_u32b (lk : N * N * N) : bool :=
  let '(a, b, ch) := lk in (a <? 4294967296) && (b <? 4294967296) && (ch <? 4294967296).
(* the links are a tree over the hierarchy of the container: every link is a 32-bit value
   (and NOSTREAM = 0xFFFFFFFF is no entry: the directory has fewer than 2^32 - 1 entries), a
   stream has no child, and for the root and every storage the sibling tree below its child id
   holds exactly its children, each once ([sorted]: in the MS-CFB order as well) *)
Definition tree_okb (sorted : bool) (c : container) (l : layout) : bool :=
  let ltbl := link_table l in
  let lk := link_of ltbl in
  let nsl := N.of_nat (nslots c l) in
  let names := combine (l_slots l) (all_names c) in
  let nst := length (c_storages c) in
  (nsl <=? FREESECT) && forallb link_u32b (l_links l) &&
  (* a stream has no child *)
  forallb (fun s => let '(_, _, ch) := lk s in ch =? FREESECT) (skipn nst (l_slots l)) &&
  forallb (fun p =>
    let '(_, _, ch) := lk (storage_slot l p) in
    let kids := children_slots c l p in
    match tree_walk (S (length kids)) lk nsl ch (S (length kids)) with
    | Some (vis, _) =>
      (length vis =? length kids)%nat && nodupb vis && forallb (fun s => memN s vis) kids &&
      (negb sorted ||
       sorted_namesb (map (fun s => match assocN s names with Some n => n | None => [] end) vis))
    | None => false
    end) (seqN (S nst)).
(* a legal MS-CFB tree / any tree over the right children (e.g. the right-leaning sibling chains
   simple writers produce, which are not in the MS-CFB order) *)
Definition legal_treeb (c : container) (l : layout) : bool := tree_okb true c l.
Definition linked_treeb (c : container) (l : layout) : bool := tree_okb false c l.

(* no hierarchy written: the child id of the root entry is no entry of the directory (NOSTREAM
   as a rule) or the root entry itself; Cfb::find then scans the flat array *)
Definition flat_rootb (c : container) (l : layout) : bool :=
  let '(_, _, ch) := link_of (link_table l) 0 in
  (ch mod 4294967296 =? 0) || (N.of_nat (nslots c l) <=? ch mod 4294967296).
