(* Col26 — spreadsheet column letters (bijective base 26), decimal row text, A1 cell names.
   Definitions only (model + spec); proofs are in Col26_proofs.v.  Self-contained: imports only
   Prelude.  Used by C14 (formula text), and meant to be imported by C01, C15, C17.

   Modelled Rust functions (current /repo tree):
     src/utils.rs      push_column, push_cell_ref
     src/xlsx/mod.rs   column_number_to_name, coordinate_to_name, get_row_and_optional_column,
                       get_row_column, get_row, get_dimension
   Strings are [list N] of character codes (all ASCII here, so bytes = chars).
   u32 arithmetic that can overflow yields [Panic] (the harness is built with overflow checks). *)
From Calamine Require Import Prelude.
Open Scope N_scope.
Set Implicit Arguments.

(* ------------------------------------------------------------------ character constants *)
Definition ch_A : N := 65.      (* 'A' *)
Definition ch_Z : N := 90.
Definition ch_a : N := 97.
Definition ch_z : N := 122.
Definition ch_0 : N := 48.
Definition ch_9 : N := 57.
Definition ch_dollar : N := 36.
Definition ch_colon : N := 58.

(* ------------------------------------------------------------------ SPEC: letters *)
(* Bijective base 26 ("there is no zero digit"): 0 ↦ A … 25 ↦ Z, 26 ↦ AA … 701 ↦ ZZ, 702 ↦ AAA,
   16383 ↦ XFD.  [letters_fuel] recurses on the number of letters still allowed; [letters]
   gives it more fuel than any N needs (one letter per bit is far more than enough). *)
Fixpoint letters_fuel (fuel : nat) (c : N) : list N :=
  match fuel with
  | O => []
  | S f => if c <? 26 then [ch_A + c]
           else letters_fuel f (c / 26 - 1) ++ [ch_A + c mod 26]
  end.
Definition letters (c : N) : list N := letters_fuel (S (N.to_nat (N.size c))) c.

(* the inverse reading: most significant letter first, each letter is a digit 1..26 *)
Definition letter_val (ch : N) : N := ch - ch_A + 1.
Definition col1_of_letters (ls : list N) : N :=      (* 1-based column number *)
  fold_left (fun acc ch => acc * 26 + letter_val ch) ls 0.
Definition col_of_letters (ls : list N) : N := col1_of_letters ls - 1.

(* ------------------------------------------------------------------ SPEC: decimal text *)
(* u64/u32 [to_string]: decimal digits, most significant first, "0" for zero. *)
Fixpoint dec_fuel (fuel : nat) (n : N) : list N :=
  match fuel with
  | O => []
  | S f => if n <? 10 then [ch_0 + n]
           else dec_fuel f (n / 10) ++ [ch_0 + n mod 10]
  end.
Definition dec (n : N) : list N := dec_fuel (S (N.to_nat (N.size n))) n.

Definition undec (ds : list N) : N := fold_left (fun acc ch => acc * 10 + (ch - ch_0)) ds 0.

(* ------------------------------------------------------------------ MODEL: utils.rs push_column *)
(*  let mut rev = String::new();
    loop { let c = col % 26; rev.push((b'A' + c as u8) as char);
           if col < 26 { break; }  col = col / 26 - 1; }
    buf.extend(rev.chars().rev());
   [rev] is kept most-recent-first, i.e. already reversed: consing is "push", and the final
   [rev.chars().rev()] is the list as it stands.  b'A' + c cannot overflow (c < 26); col/26 - 1
   cannot underflow (col >= 26).  Fuel: one unit per loop iteration. *)
Fixpoint push_column_loop (fuel : nat) (col : N) (revd : list N) : outcome (list N) :=
  match fuel with
  | O => OutOfFuel
  | S f =>
      let c := col mod 26 in
      let revd' := (ch_A + c) :: revd in
      if col <? 26 then Ok revd'
      else push_column_loop f (col / 26 - 1) revd'
  end.
(* 8 iterations are enough for every u32 (7 letters at most); see push_column_is_letters *)
Definition push_column_fuel : nat := 8.
Definition push_column (col : N) (buf : list N) : outcome (list N) :=
  do ls <- push_column_loop push_column_fuel col []; Ok (buf ++ ls).

(* ------------------------------------------------------------------ MODEL: utils.rs push_cell_ref *)
(*  if col_rel & 0x4000 == 0 { buf.push('$') }
    push_column((col_rel & 0x3FFF) as u32, buf);
    if col_rel & 0x8000 == 0 { buf.push('$') }
    buf.push_str(&(row as u64 + 1).to_string());
   row : u32 (widened to u64 before the +1: no overflow), col_rel : u16. *)
Definition bit14 (x : N) : bool := N.testbit x 14.
Definition bit15 (x : N) : bool := N.testbit x 15.
Definition push_cell_ref (row col_rel : N) (buf : list N) : outcome (list N) :=
  let buf1 := if bit14 col_rel then buf else buf ++ [ch_dollar] in
  do buf2 <- push_column (N.land col_rel 16383) buf1;
  let buf3 := if bit15 col_rel then buf2 else buf2 ++ [ch_dollar] in
  Ok (buf3 ++ dec (row + 1)).

(* SPEC of a cell reference: column [c], row [r] (both 0-based), [$] exactly on the absolute
   components *)
Definition a1_ref (r c : N) (row_rel col_rel : bool) : list N :=
  (if col_rel then [] else [ch_dollar]) ++ letters c ++
  (if row_rel then [] else [ch_dollar]) ++ dec (r + 1).

(* the ColRelU / ColRelShort field that encodes (c, col_rel, row_rel) *)
Definition col_field (c : N) (row_rel col_rel : bool) : N :=
  c + (if col_rel then 16384 else 0) + (if row_rel then 32768 else 0).

(* ------------------------------------------------------------------ MODEL: xlsx column_number_to_name *)
Definition MAX_COLUMNS : N := 16384.
Definition MAX_ROWS : N := 1048576.

(*  if num >= MAX_COLUMNS { return Err }  let mut num = num + 1;
    while num > 0 { col.push(((num - 1) % 26 + 65) as u8); num = (num - 1) / 26; }  col.reverse() *)
Fixpoint cn2n_loop (fuel : nat) (num : N) (col : list N) : outcome (list N) :=
  match fuel with
  | O => OutOfFuel
  | S f => if 0 <? num then cn2n_loop f ((num - 1) / 26) (((num - 1) mod 26 + 65) :: col)
           else Ok col     (* consing = push followed by the final reverse *)
  end.
Definition E_COLUMN_OVERFLOW : N := 1.
Definition column_number_to_name (num : N) : outcome (list N) :=
  if MAX_COLUMNS <=? num then Err E_COLUMN_OVERFLOW
  else cn2n_loop 8 (num + 1) [].

(*  [column_number_to_name(cell.1)?, (cell.0 + 1).to_string().into_bytes()].concat()
    cell.0 + 1 is u32 arithmetic: row u32::MAX panics (after the column has been accepted). *)
Definition coordinate_to_name (cell : N * N) : outcome (list N) :=
  do cs <- column_number_to_name (snd cell);
  do r1 <- add32 (fst cell) 1;
  Ok (cs ++ dec r1).

(* ------------------------------------------------------------------ MODEL: xlsx get_row_and_optional_column *)
Definition E_NUMERIC_COLUMN : N := 2.
Definition E_NO_ROW : N := 3.
Definition E_ALPHANUMERIC : N := 4.
Definition E_NO_COLUMN : N := 5.
Definition E_DIMENSION_COUNT : N := 6.
Definition E_RANGE : N := 7.            (* "row / column number out of range" (u32::try_from) *)

(* u64 saturating arithmetic (since the C06 hardening the scanner accumulates in u64 with
   saturating_add / saturating_mul and converts to u32 at the end) *)
Definition U64MAX : N := 18446744073709551615.
Definition sat64 (x : N) : N := N.min x U64MAX.

Record scan_state := { s_row : N; s_col : N; s_pow : N; s_readrow : bool }.

Definition is_digit (c : N) : bool := (ch_0 <=? c) && (c <=? ch_9).
Definition is_upper (c : N) : bool := (ch_A <=? c) && (c <=? ch_Z).
Definition is_lower (c : N) : bool := (ch_a <=? c) && (c <=? ch_z).

(* the shared body of the two letter arms; [base] is b'A' or b'a' *)
Definition scan_letter (base c : N) (s : scan_state) : outcome scan_state :=
  do s1 <- (if s_readrow s then
              if s_row s =? 0 then Err E_NO_ROW
              else Ok {| s_row := s_row s; s_col := s_col s; s_pow := 1; s_readrow := false |}
            else Ok s);
  (* col = col.saturating_add(((c - b'A') as u64 + 1).saturating_mul(pow)); pow = pow.saturating_mul(26) *)
  Ok {| s_row := s_row s1; s_col := sat64 (s_col s1 + sat64 ((c - base + 1) * s_pow s1));
        s_pow := sat64 (s_pow s1 * 26); s_readrow := false |}.

Definition scan_char (c : N) (s : scan_state) : outcome scan_state :=
  if is_digit c then
    if s_readrow s then
      (* row = row.saturating_add(((c - b'0') as u64).saturating_mul(pow)); pow = pow.saturating_mul(10) *)
      Ok {| s_row := sat64 (s_row s + sat64 ((c - ch_0) * s_pow s)); s_col := s_col s;
            s_pow := sat64 (s_pow s * 10); s_readrow := true |}
    else Err E_NUMERIC_COLUMN
  else if is_upper c then scan_letter ch_A c s
  else if is_lower c then scan_letter ch_a c s
  else Err E_ALPHANUMERIC.

(* the loop runs over range.iter().rev(): [rs] is the reversed input *)
Fixpoint scan_loop (rs : list N) (s : scan_state) : outcome scan_state :=
  match rs with
  | [] => Ok s
  | c :: t => do s' <- scan_char c s; scan_loop t s'
  end.

Definition scan_init : scan_state := {| s_row := 0; s_col := 0; s_pow := 1; s_readrow := true |}.

Definition get_row_and_optional_column (range : list N) : outcome (N * option N) :=
  do s <- scan_loop (rev range) scan_init;
  if s_row s =? 0 then Err E_NO_ROW                              (* row.checked_sub(1).ok_or(..)? *)
  else if U32MAX <? s_row s - 1 then Err E_RANGE                 (* u32::try_from(row) *)
  else if negb (s_col s =? 0) && (U32MAX <? s_col s - 1) then Err E_RANGE   (* col.checked_sub(1).map(u32::try_from) *)
  else Ok (s_row s - 1, if s_col s =? 0 then None else Some (s_col s - 1)).

Definition get_row_column (range : list N) : outcome (N * N) :=
  do rc <- get_row_and_optional_column range;
  match snd rc with
  | Some c => Ok (fst rc, c)
  | None => Err E_NO_COLUMN
  end.

Definition get_row (range : list N) : outcome N :=
  do rc <- get_row_and_optional_column range; Ok (fst rc).

(* ------------------------------------------------------------------ MODEL: xlsx get_dimension *)
(* slice::split(|c| c == b':'): pieces between separators; n separators give n+1 pieces *)
Fixpoint split_on (sep : N) (l : list N) (cur : list N) : list (list N) :=
  match l with
  | [] => [rev cur]
  | c :: t => if c =? sep then rev cur :: split_on sep t [] else split_on sep t (c :: cur)
  end.

(* .map(get_row_column).collect::<Result<Vec<_>,_>>()? : left to right, stops at the first
   failure *)
Fixpoint collect_parts (ps : list (list N)) : outcome (list (N * N)) :=
  match ps with
  | [] => Ok []
  | p :: t => do x <- get_row_column p; do xs <- collect_parts t; Ok (x :: xs)
  end.

Definition get_dimension (dimension : list N) : outcome ((N * N) * (N * N)) :=
  do parts <- collect_parts (split_on ch_colon dimension []);
  match parts with
  | [] => Err E_DIMENSION_COUNT
  | [p] => Ok (p, p)
  | [p0; p1] => Ok (p0, p1)                      (* rows / columns: saturating_sub, only logged *)
  | _ => Err E_DIMENSION_COUNT
  end.

(* ASCII lower-casing of the letters A..Z (everything else unchanged) *)
Definition to_lower (c : N) : N := if is_upper c then c + 32 else c.

(* SPEC: the A1 name of a 0-based (row, column) *)
Definition a1_name (r c : N) : list N := letters c ++ dec (r + 1).
