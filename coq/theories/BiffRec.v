(* BiffRec.v — model of the BIFF8 worksheet-substream reader of calamine (src/xls.rs):
   RecordIter (record framing with CONTINUE collection), the sheet loop of parse_workbook
   (the count of open substreams: records of a substream nested in the sheet are skipped and only
   the sheet's own EOF ends it; record-type dispatch, fmla_pos and the STRING record that follows
   a FORMULA), parse_number,
   parse_rk, parse_mul_rk, parse_label_sst, parse_label/parse_string, parse_bool_err/parse_err,
   parse_formula_value, parse_dimensions, ending in Range::from_sparse (Range.v); then the
   specification side: logical items, what they denote, and the encoder.
   Definitions only (executable, extracted); proofs are in BiffRec_proofs.v.

   Two operations are outside the model and enter as Section variables:
     fdiv100  : bits of x / 100.0 from the bits of x (RK.v; RKFloat.v gives the Flocq instance);
     decode16 : encoding_rs UTF_16LE.decode(bytes) -> scalar values (C12/C19 own string decoding).
   Not modelled: the formula text (parse_formula on r.data[20..] — C14; its result does not
   reach the value range, but a panic in it would: the rgce is opaque here), the MERGECELLS list
   (C17; only its panic condition is kept), allocation by cells.reserve.
   Errors are the single class [Err 1] (the check compares classes, never messages). *)
From Calamine Require Import Prelude Range Range_spec RK.
Open Scope N_scope.
Set Implicit Arguments.

Definition lenN (A : Type) (l : list A) : N := N.of_nat (length l).

(* read a k-byte little-endian field at offset off (callers guard the length first, as the Rust
   code does; every read below is preceded by the same length test as in the source) *)
Definition rd (k off : nat) (r : list N) : N := le_val (firstn k (skipn off r)).

Definition u16 (a b : N) : N := a + 256 * b.

Record env : Type := mkEnv {
  e_formats : list cellfmt;      (* self.formats: one CellFormat per XF record *)
  e_1904 : bool;                 (* self.is_1904 *)
  e_strings : list (list N)      (* the shared string table (result of parse_sst) *)
}.

(* ---------- RecordIter ---------- *)
Record frec : Type := mkRec {
  f_typ : N;
  f_data : list N;
  f_cont : option (list (list N))
}.

(* split_at(n): None when the slice is shorter than n *)
Fixpoint take_n (s : list N) (n : N) {struct s} : option (list N * list N) :=
  if n =? 0 then Some ([], s) else
  match s with
  | [] => None
  | x :: t => match take_n t (n - 1) with
              | Some (a, b) => Some (x :: a, b)
              | None => None
              end
  end.

(* while self.stream.len() > 4 && read_u16(self.stream) == 0x003C { … } *)
Fixpoint collect_cont (fuel : nat) (s : list N) (acc : list (list N))
  : outcome (list (list N) * list N) :=
  match fuel with
  | O => OutOfFuel
  | S f =>
    match s with
    | c0 :: c1 :: l0 :: l1 :: ((_ :: _) as body) =>
        if u16 c0 c1 =? 60 then
          match take_n body (u16 l0 l1) with
          | None => Err 1                         (* EoStream("continue record length") *)
          | Some (d, rest) => collect_cont f rest (acc ++ [d])
          end
        else Ok (acc, s)
    | _ => Ok (acc, s)
    end
  end.

Definition starts_cont (s : list N) : bool :=       (* next.len() > 4 && read_u16(next) == 0x3C *)
  match s with
  | c0 :: c1 :: _ :: _ :: _ :: _ => u16 c0 c1 =? 60
  | _ => false
  end.

(* RecordIter::next.  None = end of stream; the error item does not advance (callers stop). *)
Definition next_record (fuel : nat) (s : list N) : option (outcome (frec * list N)) :=
  match s with
  | [] => None
  | t0 :: t1 :: l0 :: l1 :: body =>
      match take_n body (u16 l0 l1) with
      | None => Some (Err 1)                      (* EoStream("record length") *)
      | Some (d, next) =>
          if starts_cont next then
            Some (do cr <- collect_cont fuel next [];
                  Ok (mkRec (u16 t0 t1) d (Some (fst cr)), snd cr))
          else Some (Ok (mkRec (u16 t0 t1) d None, next))
      end
  | _ => Some (Err 1)                             (* EoStream("record type and length") *)
  end.

(* all records of a stream, as the hook verif_hooks::xls::records collects them; stops at the
   first error item (the real iterator would repeat it forever) *)
Fixpoint all_records (fuel : nat) (s : list N) : outcome (list frec) :=
  match fuel with
  | O => OutOfFuel
  | S f =>
    match next_record (S f) s with
    | None => Ok []
    | Some o => do rr <- o; do rest <- all_records f (snd rr); Ok (fst rr :: rest)
    end
  end.

(* ---------- cell record parsers ---------- *)
Definition cellv : Type := (pos * data)%type.

(* parse_err *)
Definition parse_err (e : N) : outcome data :=
  if e =? 0 then Ok (DError ENull)
  else if e =? 7 then Ok (DError EDiv0)
  else if e =? 15 then Ok (DError EValue)
  else if e =? 23 then Ok (DError ERef)
  else if e =? 29 then Ok (DError EName)
  else if e =? 36 then Ok (DError ENum)
  else if e =? 42 then Ok (DError ENA)
  else if e =? 43 then Ok (DError EGettingData)
  else Err 1.

(* parse_bool_err *)
Definition parse_bool_err (r : list N) : outcome (list cellv) :=
  if lenN r <? 8 then Err 1 else
  let p := (rd 2 0 r, rd 2 2 r) in
  let ferr := nth 7 r 0 in
  let v := nth 6 r 0 in
  if ferr =? 0 then Ok [(p, DBool (negb (v =? 0)))]
  else if ferr =? 1 then (do d <- parse_err v; Ok [(p, d)])
  else Err 1.

(* parse_dimensions: (start, end) *)
Definition parse_dimensions (r : list N) : outcome (pos * pos) :=
  let n := lenN r in
  if n =? 10 then
    let rf := rd 2 0 r in let rl := rd 2 2 r in let cf := rd 2 4 r in let cl := rd 2 6 r in
    if (1 <=? rl) && (1 <=? cl) then Ok ((rf, cf), (rl - 1, cl - 1)) else Ok ((rf, cf), (rf, cf))
  else if n =? 14 then
    let rf := rd 4 0 r in let rl := rd 4 4 r in let cf := rd 2 8 r in let cl := rd 2 10 r in
    if (1 <=? rl) && (1 <=? cl) then Ok ((rf, cf), (rl - 1, cl - 1)) else Ok ((rf, cf), (rf, cf))
  else Err 1.

(* chunks(6) *)
Fixpoint rk_chunks (l : list N) : list (list N) :=
  match l with
  | [] => []
  | a :: b :: c :: d :: e :: f :: t => [a; b; c; d; e; f] :: rk_chunks t
  | short => [short]
  end.

(* parse_merge_cells, reduced to whether it fails (since repo commit 2466241 with Err, it used
   to panic): fewer than 2 bytes, or fewer than 2 + 8 * count *)
Definition merge_cells_panics (r : list N) : bool :=
  if lenN r <? 2 then true else
  let count := rd 2 0 r in
  (0 <? count) && (lenN r <? 2 + 8 * count).

(* read_dbcs (the reader of the shared string table, used by the STRING arm since the fix of the
   StringContinue defect): the UTF-16LE bytes of [len] characters taken from [data] and then
   from the CONTINUE chunks, each chunk starting with its own fHighByte byte; compressed
   characters are widened.  One streaming decoder runs over all segments, i.e. the text is the
   decoding of the concatenation.  Errors: no chunk left (EoStream), an empty chunk. *)
Fixpoint dbcs_bytes (conts : list (list N)) (data : list N) (len : N) (hb : bool) (acc : list N)
  : outcome (list N) :=
  let l := if hb then N.min (lenN data / 2) len else N.min (lenN data) len in
  let bytes := if hb then firstn (N.to_nat (2 * l)) data
               else flat_map (fun b => [b; 0]) (firstn (N.to_nat l) data) in
  if len - l =? 0 then Ok (acc ++ bytes) else
  match conts with
  | [] => Err 1
  | [] :: _ => Err 1
  | (fl :: rest) :: conts' => dbcs_bytes conts' rest (len - l) (N.odd fl) (acc ++ bytes)
  end.

Section Biff.
Variable fdiv100 : N -> N.
Variable decode16 : list N -> list N.
Variable en : env.

(* parse_number *)
Definition parse_number (r : list N) : outcome (list cellv) :=
  if lenN r <? 14 then Err 1 else
  Ok [((rd 2 0 r, rd 2 2 r),
       format_excel_f64 (rd 8 6 r) (nthN (e_formats en) (rd 2 4 r)) (e_1904 en))].

(* parse_rk *)
Definition parse_rk (r : list N) : outcome (list cellv) :=
  if lenN r <? 10 then Err 1 else
  do d <- rk_num fdiv100 (firstn 6 (skipn 4 r)) (e_formats en) (e_1904 en);
  Ok [((rd 2 0 r, rd 2 2 r), d)].

(* the loop of parse_mul_rk: col is a u32 counter starting at col_first *)
Fixpoint mulrk_cells (row col : N) (chunks : list (list N)) : outcome (list cellv) :=
  match chunks with
  | [] => Ok []
  | c :: t =>
      do d <- rk_num fdiv100 c (e_formats en) (e_1904 en);
      do rest <- mulrk_cells row (col + 1) t;
      Ok (((row, col), d) :: rest)
  end.

(* parse_mul_rk: (col_last + 1).checked_sub(col_first) in usize — None gives an expected length
   no record has (repo commit ef32b30; it was u16 arithmetic that panicked).  col_last + 1 =
   col_first passes with a 6-byte record and no cell. *)
Definition parse_mul_rk (r : list N) : outcome (list cellv) :=
  if lenN r <? 6 then Err 1 else
  let row := rd 2 0 r in
  let cf := rd 2 2 r in
  let cl := rd 2 (length r - 2) r in
  if cl + 1 <? cf then Err 1 else
  if negb (lenN r =? 6 + 6 * (cl + 1 - cf)) then Err 1 else
  mulrk_cells row cf (rk_chunks (firstn (length r - 6) (skipn 4 r))).

(* parse_label_sst: an index outside the table and an empty string both give no cell *)
Definition parse_label_sst (r : list N) : outcome (list cellv) :=
  if lenN r <? 10 then Err 1 else
  match nthN (e_strings en) (rd 4 6 r) with
  | Some (c :: s) => Ok [((rd 2 0 r, rd 2 2 r), DString (c :: s))]
  | _ => Ok []
  end.

(* parse_string for Biff8 (XLUnicodeString): cch, fHighByte, characters; decode_to clamps the
   character count to what the record holds *)
Definition parse_string (r : list N) : outcome (list N) :=
  if lenN r <? 3 then Err 1 else
  let cch := rd 2 0 r in
  let rest := skipn 3 r in
  if N.odd (nth 2 r 0) then
    let l := N.min (lenN rest / 2) cch in
    Ok (decode16 (firstn (N.to_nat (2 * l)) rest))
  else
    let l := N.min (lenN rest) cch in
    Ok (decode16 (flat_map (fun b => [b; 0]) (firstn (N.to_nat l) rest))).

(* parse_label *)
Definition parse_label (r : list N) : outcome (list cellv) :=
  if lenN r <? 6 then Err 1 else
  do s <- parse_string (skipn 6 r);
  Ok [((rd 2 0 r, rd 2 2 r), DString s)].

(* parse_formula_value: the slice patterns of the match, in order *)
Definition parse_formula_value (r : list N) : outcome (option data) :=
  let n := length r in
  let b0 := nth 0 r 0 in
  let tail_ff := (nth (n - 2) r 0 =? 255) && (nth (n - 1) r 0 =? 255) in
  if (3 <=? n)%nat && (b0 =? 0) && tail_ff then Ok None
  else if (5 <=? n)%nat && (b0 =? 1) && tail_ff then Ok (Some (DBool (negb (nth 2 r 0 =? 0))))
  else if (5 <=? n)%nat && (b0 =? 2) && tail_ff then (do d <- parse_err (nth 2 r 0); Ok (Some d))
  else if (4 <=? n)%nat && (b0 =? 3) && tail_ff then Ok (Some (DString []))
  else if (3 <=? n)%nat && tail_ff then Err 1
  else if (n <? 8)%nat then Panic                  (* read_f64 on a short slice *)
  else Ok (Some (DFloat (rd 8 0 r))).

(* ---------- the sheet loop ---------- *)
(* state: the value cells pushed so far, fmla_pos, and the positions of the formula cells
   (the formula texts themselves are C14's; their positions matter here because the formula
   range is built by the same Range::from_sparse and panics the same way) *)
Inductive flow : Type := Next (cells : list cellv) (fpos : pos) (fmls : list pos) | Stop.

Definition step (r : frec) (cells : list cellv) (fpos : pos) (fmls : list pos) : outcome flow :=
  let t := f_typ r in
  let d := f_data r in
  if t =? 512 then                                 (* 0x0200 DIMENSIONS *)
    (* the bounds only size a capped reservation, in saturating usize arithmetic (repo commit
       5b1c54e; the u32 subtraction used to panic on inverted bounds) *)
    do _ <- parse_dimensions d;
    Ok (Next cells fpos fmls)
  else if t =? 515 then do c <- parse_number d; Ok (Next (cells ++ c) fpos fmls)      (* 0x0203 *)
  else if t =? 516 then do c <- parse_label d; Ok (Next (cells ++ c) fpos fmls)       (* 0x0204 *)
  else if t =? 517 then do c <- parse_bool_err d; Ok (Next (cells ++ c) fpos fmls)    (* 0x0205 *)
  else if t =? 519 then                                                              (* 0x0207 *)
    (* a record carrying CONTINUE data is read through read_dbcs: cch characters from the
       record and its continuation *)
    do s <- match f_cont r with
            | None => parse_string d
            | Some conts =>
                if lenN d <? 3 then parse_string d else
                do b <- dbcs_bytes conts (skipn 3 d) (rd 2 0 d) (N.odd (nth 2 d 0)) [];
                Ok (decode16 b)
            end;
    Ok (Next (cells ++ [(fpos, DString s)]) fpos fmls)
  else if t =? 638 then do c <- parse_rk d; Ok (Next (cells ++ c) fpos fmls)          (* 0x027E *)
  else if t =? 253 then do c <- parse_label_sst d; Ok (Next (cells ++ c) fpos fmls)   (* 0x00FD *)
  else if t =? 189 then do c <- parse_mul_rk d; Ok (Next (cells ++ c) fpos fmls)      (* 0x00BD *)
  else if t =? 229 then                                                              (* 0x00E5 *)
    if merge_cells_panics d then Err 1 else Ok (Next cells fpos fmls)
  else if t =? 10 then Ok Stop                                                       (* 0x000A EOF *)
  else if t =? 6 then                                                                (* 0x0006 *)
    if lenN d <? 20 then Err 1 else
    let p := (rd 2 0 d, rd 2 2 d) in
    do v <- parse_formula_value (firstn 8 (skipn 6 d));
    (* a cached number takes the cell's number format like NUMBER / RK cells *)
    let v' := match v with
              | Some (DFloat b) =>
                  Some (format_excel_f64 b (nthN (e_formats en) (rd 2 4 d)) (e_1904 en))
              | other => other
              end in
    match v' with
    | Some x => Ok (Next (cells ++ [(p, x)]) p (fmls ++ [p]))
    | None => Ok (Next cells p (fmls ++ [p]))
    end
  else Ok (Next cells fpos fmls).

(* the loop over the records of the substream.  [depth] = the substreams open at this record
   (BOF records met minus the EOF records that closed a nested substream): 0 before the sheet's
   own BOF, 1 inside the sheet, more inside a substream nested in it (the chart of an embedded
   chart object, [MS-XLS] 2.1.7.20.5 OBJECTS -> CHART = BOF CHARTSHEETCONTENT; repo commit
   "fix: records of a chart substream nested in an xls worksheet ...").  The first match of the
   loop body: BOF opens a substream; at depth > 1 an EOF closes the nested substream and every
   other record is skipped; only then the record dispatch [step] (the second match), whose EOF arm
   ends the sheet.  depth is a usize that counts records of the stream: it cannot overflow. *)
Fixpoint sheet_loop (fuel : nat) (s : list N) (cells : list cellv) (fpos : pos) (fmls : list pos)
  (depth : N) : outcome (list cellv * list pos) :=
  match fuel with
  | O => OutOfFuel
  | S f =>
    match next_record f s with
    | None => Ok (cells, fmls)
    | Some o =>
        do rr <- o;
        let t := f_typ (fst rr) in
        if t =? 2057 then sheet_loop f (snd rr) cells fpos fmls (depth + 1)       (* 0x0809 BOF *)
        else if 1 <? depth then
          sheet_loop f (snd rr) cells fpos fmls (if t =? 10 then depth - 1 else depth)
        else
        do fl <- step (fst rr) cells fpos fmls;
        match fl with
        | Stop => Ok (cells, fmls)
        | Next cells' fpos' fmls' => sheet_loop f (snd rr) cells' fpos' fmls' depth
        end
    end
  end.

(* the value cells and the formula positions of a substream, in stream order *)
Definition sheet_cells (stream : list N) : outcome (list cellv * list pos) :=
  sheet_loop (S (length stream)) stream [] (0, 0) [] 0.

(* the value range of one sheet substream: Range::from_sparse(cells), then
   Range::from_sparse(formulas) (nothing of it is observable here any more: it cannot panic) *)
Definition sheet_model (stream : list N) : outcome (range data) :=
  do cf <- sheet_cells stream;
  do r <- from_sparse DEmpty (fst cf);
  do _ <- from_sparse tt (map (fun p => (p, tt)) (snd cf));
  Ok r.

(* stream.get(pos..) for the BoundSheet8 position (Err since repo commit 992524e) *)
Definition sheet_at (workbook : list N) (p : N) : outcome (range data) :=
  if lenN workbook <? p then Err 1 else sheet_model (skipn (N.to_nat p) workbook).

(* one cell record body as the hook verif_hooks::xls::parse_cell_record dispatches it *)
Definition parse_cell_record (typ : N) (d : list N) : outcome (list cellv) :=
  if typ =? 515 then parse_number d
  else if typ =? 638 then parse_rk d
  else if typ =? 189 then parse_mul_rk d
  else if typ =? 517 then parse_bool_err d
  else if typ =? 253 then parse_label_sst d
  else if typ =? 516 then parse_label d
  else Err 1.

(* ================= specification side ================= *)

(* an XLUnicodeString as stored: UTF-16 code units, 16-bit or compressed 8-bit characters *)
Record xlstr : Type := mkStr { s_units : list N; s_wide : bool }.

Definition utf16le (units : list N) : list N := flat_map (le_bytes 2) units.
Definition str_text (s : xlstr) : list N := decode16 (utf16le (s_units s)).

Definition enc_xlstr (s : xlstr) : list N :=
  le_bytes 2 (lenN (s_units s)) ++ [flag (s_wide s)] ++
  (if s_wide s then utf16le (s_units s) else s_units s).

Definition wf_xlstr (maxlen : N) (s : xlstr) : bool :=
  (lenN (s_units s) <=? maxlen) &&
  forallb (fun u => u <? (if s_wide s then 65536 else 256)) (s_units s).

(* the cached result of a formula.  A string result lives in the STRING record that follows the
   FORMULA; when it is long (a cell holds up to 32767 characters, a record body 8224 bytes) it
   is continued in CONTINUE records, each starting with its own fHighByte flag byte:
   [CStr s more] = STRING holding cch (of the whole string), s's flag and characters, then one
   CONTINUE per element of [more] (flag byte, characters).  [more = []] is the common case. *)
Inductive cached : Type :=
| CNum (bits : N) | CBool (b : bool) | CErr (e : cerr) | CBlank
| CStr (s : xlstr) (more : list xlstr).

Definition frame (t : N) (d : list N) : list N := le_bytes 2 t ++ le_bytes 2 (lenN d) ++ d.

(* a record the sheet loop ignores, as (type, body): SHRFMLA 0x04BC, ARRAY 0x0221, TABLE 0x0236
   between a FORMULA and its STRING; ROW, DBCELL, INDEX, BLANK, MULBLANK, WINDOW2 … elsewhere *)
Definition midrec : Type := (N * list N)%type.

Definition err_code (e : cerr) : N :=
  match e with
  | ENull => 0 | EDiv0 => 7 | EValue => 15 | ERef => 23
  | EName => 29 | ENum => 36 | ENA => 42 | EGettingData => 43
  end.

(* a record of a nested substream: type, body, the bodies of the CONTINUE records behind it *)
Record srec : Type := mkSrec { sr_typ : N; sr_body : list N; sr_conts : list (list N) }.

(* physical items of a sheet substream, in stream order.  Each is one record, except IFormula:
   FORMULA, then the records [mid] ([MS-XLS] 2.1.7.20.5: Formula [Array / Table / ShrFmla / SUB]
   [String *Continue] — Excel writes SHRFMLA after the first cell of a filled-down shared formula
   and ARRAY after the anchor of an array formula), then, for a string result, STRING and its
   CONTINUE records.  Every number can be an INumber; IRk / IMulRk carry the chosen RK form. *)
Inductive item : Type :=
| INumber (row col ixfe bits : N)
| IRk (row col ixfe : N) (f : rk_form)
| IMulRk (row cf : N) (rks : list (N * rk_form))          (* (ixfe, form) per column *)
| ILabelSst (row col ixfe isst : N)
| ILabel (row col ixfe : N) (s : xlstr)
| IBool (row col ixfe : N) (b : bool)
| IErr (row col ixfe : N) (e : cerr)
| IFormula (row col ixfe : N) (c : cached) (grbit chn : N) (fmla : list N) (mid : list midrec)
| IDims (wide : bool) (rf rl cf cl : N)
| IOther (typ : N) (body : list N)                         (* any other record of the sheet itself *)
| ISub (bof : list N) (recs : list srec)
   (* a substream nested in the sheet: BOF, its records, EOF.  [MS-XLS] 2.1.7.20.5:
      WORKSHEETCONTENT = ... [CELLTABLE] OBJECTS ..., OBJECTS = *(MsoDrawing *(TEXTOBJECT / OBJ /
      CHART)), CHART = BOF CHARTSHEETCONTENT, and CHARTSHEETCONTENT holds the series cache
      SERIESDATA = Dimensions 3(SIIndex *(Number / BoolErr / Blank / Label)) and ends with its own
      EOF: Excel 97-2003 writes one for every chart object on the sheet.  The records are ANY
      records (cell record types, FORMULA, STRING, MERGECELLS, DIMENSIONS, further BOF ... EOF
      pairs, each with any CONTINUE records behind it): nothing in a nested substream belongs to
      the sheet.  The only condition is that BOF and EOF balance ([balanced]). *)
| IMerge (regs : list (N * N * N * N)).
   (* MERGECELLS 0x00E5: cmcs, then one Ref8 (rwFirst, rwLast, colFirst, colLast) per region;
      the regions are C17's (Merge.v), here the record only has to leave the cells alone *)

Definition enc_ref8 (r : N * N * N * N) : list N :=
  match r with (rf, rl, cf, cl) => le_bytes 2 rf ++ le_bytes 2 rl ++ le_bytes 2 cf ++ le_bytes 2 cl end.

Definition enc_srec (r : srec) : list N :=
  frame (sr_typ r) (sr_body r) ++ flat_map (frame 60) (sr_conts r).

Definition cell_head (row col ixfe : N) : list N :=
  le_bytes 2 row ++ le_bytes 2 col ++ le_bytes 2 ixfe.

Definition enc_rkrec (x : N * rk_form) : list N := le_bytes 2 (fst x) ++ le_bytes 4 (rk_encode (snd x)).

Definition enc_cached (c : cached) : list N :=
  match c with
  | CNum bits => le_bytes 8 bits
  | CBool b => [1; 0; flag b; 0; 0; 0; 255; 255]
  | CErr e => [2; 0; err_code e; 0; 0; 0; 255; 255]
  | CBlank => [3; 0; 0; 0; 0; 0; 255; 255]
  | CStr _ _ => [0; 0; 0; 0; 0; 0; 255; 255]
  end.

(* the units of a string result, all fragments together *)
Definition cstr_units (s : xlstr) (more : list xlstr) : list N :=
  s_units s ++ flat_map s_units more.

Definition frag_chars (s : xlstr) : list N := if s_wide s then utf16le (s_units s) else s_units s.

(* STRING: cch counts the characters of the whole string; then the first fragment *)
Definition enc_string_rec (s : xlstr) (more : list xlstr) : list N :=
  le_bytes 2 (lenN (cstr_units s more)) ++ [flag (s_wide s)] ++ frag_chars s.

(* CONTINUE: the fragment's own flag byte, then its characters *)
Definition enc_cont_rec (m : xlstr) : list N := flag (s_wide m) :: frag_chars m.

Definition enc_mid (m : midrec) : list N := frame (fst m) (snd m).

Definition enc_item (it : item) : list N :=
  match it with
  | INumber row col ixfe bits => frame 515 (cell_head row col ixfe ++ le_bytes 8 bits)
  | IRk row col ixfe f => frame 638 (le_bytes 2 row ++ le_bytes 2 col ++ enc_rkrec (ixfe, f))
  | IMulRk row cf rks =>
      frame 189 (le_bytes 2 row ++ le_bytes 2 cf ++ flat_map enc_rkrec rks
                 ++ le_bytes 2 (cf + lenN rks - 1))
  | ILabelSst row col ixfe isst => frame 253 (cell_head row col ixfe ++ le_bytes 4 isst)
  | ILabel row col ixfe s => frame 516 (cell_head row col ixfe ++ enc_xlstr s)
  | IBool row col ixfe b => frame 517 (cell_head row col ixfe ++ [flag b; 0])
  | IErr row col ixfe e => frame 517 (cell_head row col ixfe ++ [err_code e; 1])
  | IFormula row col ixfe c grbit chn fmla mid =>
      frame 6 (cell_head row col ixfe ++ enc_cached c ++ le_bytes 2 grbit ++ le_bytes 4 chn ++ fmla)
      ++ flat_map enc_mid mid
      ++ match c with
         | CStr s more => frame 519 (enc_string_rec s more)
                          ++ flat_map (fun m => frame 60 (enc_cont_rec m)) more
         | _ => []
         end
  | IDims true rf rl cf cl =>
      frame 512 (le_bytes 4 rf ++ le_bytes 4 rl ++ le_bytes 2 cf ++ le_bytes 2 cl ++ [0; 0])
  | IDims false rf rl cf cl =>
      frame 512 (le_bytes 2 rf ++ le_bytes 2 rl ++ le_bytes 2 cf ++ le_bytes 2 cl ++ [0; 0])
  | IOther typ body => frame typ body
  | ISub bof recs => frame 2057 bof ++ flat_map enc_srec recs ++ frame 10 []
  | IMerge regs => frame 229 (le_bytes 2 (lenN regs) ++ flat_map enc_ref8 regs)
  end.

(* a layout: the items of the substream and whatever follows its EOF record *)
Record layout : Type := mkLayout { l_items : list item; l_trailer : list N }.

Definition bof_body : list N := [0; 6; 16; 0; 187; 13; 204; 7; 0; 0; 0; 0; 6; 3; 0; 0].

(* E: BOF, the items, EOF, trailer *)
Definition encode_sheet (c : layout) : list N :=
  frame 2057 bof_body ++ flat_map enc_item (l_items c) ++ frame 10 [] ++ l_trailer c.

(* ---- what the items denote ---- *)
Definition num_data (ixfe : N) (r : rkval) : data :=
  rk_wrap r (nthN (e_formats en) ixfe) (e_1904 en).

Fixpoint mulrk_denote (row col : N) (rks : list (N * rk_form)) : list cellv :=
  match rks with
  | [] => []
  | x :: t => ((row, col), num_data (fst x) (rk_form_value fdiv100 (snd x)))
              :: mulrk_denote row (col + 1) t
  end.

Definition cached_data (c : cached) : data :=
  match c with
  | CNum bits => DFloat bits
  | CBool b => DBool b
  | CErr e => DError e
  | CBlank => DString []
  | CStr s more => DString (decode16 (utf16le (cstr_units s more)))
  end.

(* the value of a formula cell: its cached result; a number under the cell's number format *)
Definition formula_data (ixfe : N) (c : cached) : data :=
  match c with
  | CNum bits => num_data ixfe (RFloat bits)
  | _ => cached_data c
  end.

Definition item_cells (it : item) : list cellv :=
  match it with
  | INumber row col ixfe bits => [((row, col), num_data ixfe (RFloat bits))]
  | IRk row col ixfe f => [((row, col), num_data ixfe (rk_form_value fdiv100 f))]
  | IMulRk row cf rks => mulrk_denote row cf rks
  | ILabelSst row col ixfe isst =>
      match nthN (e_strings en) isst with
      | Some (c :: s) => [((row, col), DString (c :: s))]
      | _ => []                                   (* an empty string is an empty cell *)
      end
  | ILabel row col ixfe s => [((row, col), DString (str_text s))]
  | IBool row col ixfe b => [((row, col), DBool b)]
  | IErr row col ixfe e => [((row, col), DError e)]
  | IFormula row col ixfe c _ _ _ _ => [((row, col), formula_data ixfe c)]
  | IDims _ _ _ _ _ => []
  | IOther _ _ => []
  | ISub _ _ => []                                  (* nothing of a nested substream is a cell of the sheet *)
  | IMerge _ => []
  end.

(* the logical sheet a layout stands for: its cells in stream order *)
Definition logical (c : layout) : list cellv := flat_map item_cells (l_items c).

(* the positions of its formula cells, in stream order *)
Definition item_fmls (it : item) : list pos :=
  match it with
  | IFormula row col _ _ _ _ _ _ => [(row, col)]
  | _ => []                                         (* in particular ISub: a FORMULA inside is not the sheet's *)
  end.
Definition layout_fmls (c : layout) : list pos := flat_map item_fmls (l_items c).

(* ---- which layouts are legal BIFF8 ---- *)
(* the record types with a meaning of their own in a sheet substream: the cell records, DIMENSIONS,
   MERGECELLS, FORMULA / STRING, CONTINUE (belongs to the record before it), and the two that
   delimit substreams: BOF 2057 (opens a nested substream: item ISub) and EOF 10 *)
Definition interpreted (t : N) : bool :=
  (t =? 512) || (t =? 515) || (t =? 516) || (t =? 517) || (t =? 519) || (t =? 638) ||
  (t =? 253) || (t =? 189) || (t =? 229) || (t =? 10) || (t =? 6) || (t =? 60) || (t =? 2057).

Definition wf_cell (row col ixfe : N) : bool :=
  (row <? 65536) && (col <? 256) && (ixfe <? 65536).

(* a string result: every fragment fits its record (at most 8220 bytes of characters: 8220
   compressed or 4110 16-bit ones; a record body holds 8224 bytes), 16-bit units only in wide
   fragments, at most 32767 characters in all (Excel's cell limit) *)
Definition wf_frag (s : xlstr) : bool :=
  (lenN (frag_chars s) <=? 8220) &&
  forallb (fun u => u <? (if s_wide s then 65536 else 256)) (s_units s).

Definition wf_cached (c : cached) : bool :=
  match c with
  | CNum bits => (bits <? 18446744073709551616) && negb (bits / 281474976710656 =? 65535)
  | CStr s more =>
      wf_frag s && forallb wf_frag more && (lenN (cstr_units s more) <=? 32767)
  | _ => true
  end.

(* a record between FORMULA and STRING (and an IOther anywhere): a type the loop does not
   interpret.  Of the interpreted types the ones that would disturb the pending position are
   FORMULA (overwrites fmla_pos), STRING (pushes a second cell there), EOF (ends the sheet) and
   CONTINUE (folded into the record before it); the cell records, DIMENSIONS and MERGECELLS
   would leave fmla_pos alone but are not allowed there by the BIFF8 grammar and would put
   their own cells in between.  Lemma step_keeps_fpos (BiffRec_proofs.v) states the first part. *)
Definition wf_mid (m : midrec) : bool :=
  (fst m <? 65536) && negb (interpreted (fst m)) && (lenN (snd m) <=? 8224).

(* a record of a nested substream: any type but CONTINUE (CONTINUE records are the [sr_conts] of
   the record they follow), any body and CONTINUE bodies a record can hold; a CONTINUE body is
   not empty (RecordIter folds a CONTINUE into the record before it only when more than its
   4 header bytes are left in the stream) *)
Definition wf_srec (r : srec) : bool :=
  (sr_typ r <? 65536) && negb (sr_typ r =? 60) && (lenN (sr_body r) <=? 8224) &&
  forallb (fun c => (0 <? lenN c) && (lenN c <=? 8224)) (sr_conts r).

(* BOF and EOF records balance: [d] substreams are open inside the nested substream before the
   first record, none is left open at the end, and no EOF closes more than were opened *)
Fixpoint balanced (d : nat) (recs : list srec) : bool :=
  match recs with
  | [] => match d with O => true | S _ => false end
  | r :: rest =>
      if sr_typ r =? 2057 then balanced (S d) rest
      else if sr_typ r =? 10 then match d with O => false | S d' => balanced d' rest end
      else balanced d rest
  end.

Definition wf_item (it : item) : bool :=
  match it with
  | INumber row col ixfe bits => wf_cell row col ixfe && (bits <? 18446744073709551616)
  | IRk row col ixfe f => wf_cell row col ixfe && legal_form f
  | IMulRk row cf rks =>
      (row <? 65536) && (0 <? lenN rks) && (cf + lenN rks <=? 256) &&
      forallb (fun x => (fst x <? 65536) && legal_form (snd x)) rks
  | ILabelSst row col ixfe isst => wf_cell row col ixfe && (isst <? 4294967296)
  | ILabel row col ixfe s => wf_cell row col ixfe && wf_xlstr 255 s
  | IBool row col ixfe _ => wf_cell row col ixfe
  | IErr row col ixfe _ => wf_cell row col ixfe
  | IFormula row col ixfe c grbit chn fmla mid =>
      wf_cell row col ixfe && wf_cached c && (grbit <? 65536) && (chn <? 4294967296) &&
      (lenN fmla <=? 8000) && forallb wf_mid mid
  | IDims wide rf rl cf cl =>
      (rl <=? (if wide then 65536 else 65535)) && (cl <=? 256) &&
      ((rl =? 0) || (cl =? 0) || ((rf <? rl) && (cf <? cl))) &&
      (rf <? 65536) && (cf <? 256)
  | IOther typ body => (typ <? 65536) && negb (interpreted typ) && (lenN body <=? 8224)
  | ISub bof recs => (lenN bof <=? 8224) && forallb wf_srec recs && balanced 0 recs
  | IMerge regs => lenN regs <=? 1026               (* [MS-XLS] 2.4.168: cmcs <= 1026 *)
  end.

Definition trailer_ok (t : list N) : bool := negb (starts_cont t).

Definition wf_layout (c : layout) : bool :=
  forallb wf_item (l_items c) && trailer_ok (l_trailer c).

Fixpoint sorted_by_rowb (cs : list cellv) : bool :=
  match cs with
  | [] => true
  | c :: rest => match rest with
                 | [] => true
                 | c' :: _ => (fst (fst c) <=? fst (fst c')) && sorted_by_rowb rest
                 end
  end.

(* classes of legal layouts on which the current code is known to violate the property: none.
   Two were found while building this model and repaired in /repo: a LABEL or STRING record
   holding the empty string (commit 1abac51), and a formula string result continued in CONTINUE
   records, which was cut at the end of the STRING record (StringContinue; fix commit on branch
   c02-fixes: the STRING arm reads through read_dbcs).  Kept so that the check's plumbing
   (model|spec|known) stays uniform. *)
Definition known_C02 (c : layout) : option N := None.

(* ---- named shapes of ignored records (all are IOther items; see ignorable_wf) ---- *)
Definition blank_item (row col ixfe : N) : item := IOther 513 (cell_head row col ixfe).
Definition mulblank_item (row cf : N) (ixfes : list N) : item :=                (* 0x00BE *)
  IOther 190 (le_bytes 2 row ++ le_bytes 2 cf ++ flat_map (le_bytes 2) ixfes
              ++ le_bytes 2 (cf + lenN ixfes - 1)).
Definition row_item (row cf cl height : N) : item :=                            (* 0x0208 *)
  IOther 520 (le_bytes 2 row ++ le_bytes 2 cf ++ le_bytes 2 cl ++ le_bytes 2 height
              ++ [0; 0; 0; 0; 0; 1; 15; 0]).
Definition dbcell_item (row_off : N) (cell_offs : list N) : item :=             (* 0x00D7 *)
  IOther 215 (le_bytes 4 row_off ++ flat_map (le_bytes 2) cell_offs).
Definition index_item (rf rl : N) (dbcells : list N) : item :=                  (* 0x020B *)
  IOther 523 ([0; 0; 0; 0] ++ le_bytes 4 rf ++ le_bytes 4 rl ++ [0; 0; 0; 0]
              ++ flat_map (le_bytes 4) dbcells).

(* legal c L : c is a legal BIFF8 layout of the logical sheet L.  The cell records may come in
   ANY order (since repo commit 3140dd1 Range::from_sparse searches all four bounds; before,
   it took the rows of the first and last cell and [legal] had to ask for row order). *)
Definition legal (c : layout) (L : list cellv) : Prop :=
  wf_layout c = true /\ logical c = L.

(* the expected range of a logical sheet: tight bounding box, every cell at its position
   (the last record wins on a repeated position), Empty elsewhere *)
(* f k, f (k+1), …, n values: row-major enumeration with the index kept in N *)
Fixpoint tabulate (A : Type) (f : N -> A) (n : nat) (k : N) : list A :=
  match n with
  | O => []
  | S n' => f k :: tabulate f n' (k + 1)
  end.

Definition range_cells (s e : pos) (L : list cellv) : list data :=
  let h := fst e - fst s + 1 in
  let w := snd e - snd s + 1 in
  tabulate (fun k => last_write DEmpty L (fst s + k / w, snd s + k mod w))
           (N.to_nat (h * w)) 0.          (* row-major: index k is row k / w, column k mod w *)

Definition range_of (L : list cellv) : range data :=
  match tight_bbox (map fst L) with
  | None => empty
  | Some (s, e) => mkRange s e (range_cells s e L)
  end.

End Biff.
