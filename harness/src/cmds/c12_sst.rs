// C12: parse_sst on an SST record body plus the bodies of the CONTINUE records after it.
// args[0] = hex of the SST body, args[1] = ','-separated hex of the CONTINUE bodies ("-" = none;
// an empty field inside the list = an empty CONTINUE).
// answer: ok:<n>:<hex utf8>,<hex utf8>,…  |  err        (panic / alloc come from main.rs)
use crate::util::{hexstr, unhex};

pub fn show_strings(v: &[String]) -> String {
    format!(
        "ok:{}:{}",
        v.len(),
        v.iter().map(|s| hexstr(s)).collect::<Vec<_>>().join(",")
    )
}

pub fn run(args: &[&str]) -> String {
    let data = unhex(args[0]);
    let conts: Vec<Vec<u8>> = if args.len() < 2 || args[1] == "-" {
        vec![]
    } else {
        args[1].split(',').map(unhex).collect()
    };
    let refs: Vec<&[u8]> = conts.iter().map(|c| &c[..]).collect();
    match calamine::verif_hooks::xls::parse_sst(&data, &refs) {
        Ok(v) => show_strings(&v),
        Err(_) => "err".to_string(),
    }
}
