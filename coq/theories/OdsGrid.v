(* OdsGrid.v — property C04: ODS cells read back at their position; repeat counts expand
   faithfully.  Executable model of src/ods.rs

     get_range      (both passes, statement by statement, usize overflow sites as Panic,
                     the `take(row_max + 1)` quirk, `empty_cells` of length col_max + 1,
                     the final `as u32` casts)
     read_row       (the pending run of empty cells, materialised only when another cell
                     element follows; values and formulas pushed in lockstep)
     read_table     (cells / formulas / cols / rows_repeats, the 2^32 total-rows limit, then
                     get_range twice)
     get_datatype   (attribute loop: first value attribute wins, value-type "string" without a
                     value attribute takes the text:p content) and the repeat-count attributes

   the spec  expand / range_of  (plain expansion of every repeat count, tight bounding rectangle
   of the non-default cells), and nothing else: definitions only, proofs are in
   OdsGrid_proofs.v.

   What is NOT modelled here: XML tokenisation, the zip container, the text grammar inside a
   paragraph (property C19 owns it: a paragraph is its text here; the children of a cell —
   paragraphs, annotation, anchored drawing objects, indentation, comments — and what stands
   between the cells of a row are modelled: xitem / ritem), str::parse::<f64> (a Float carries
   the attribute text; the drivers convert it), allocation failure. *)
From Calamine Require Import Prelude Range.
Open Scope N_scope.
Set Implicit Arguments.

(* usize is 64 bits on the platforms the harness runs on; overflow checks are on (panic) *)
Definition USIZE_MAX : N := U64MAX.
Definition chk (x : N) : outcome N := if x <=? USIZE_MAX then Ok x else Panic.
Definition TWO32 : N := 4294967296.
Definition as_u32 (x : N) : N := x mod TWO32.

(* ====================================================================================== *)
(*                                      get_range                                          *)
(* ====================================================================================== *)
Section GetRange.
Variable T : Type.
Variable d : T.                 (* T::default() *)
Variable isd : T -> bool.       (* c == &T::default() *)

Definition nz (c : T) : bool := negb (isd c).

(* Iterator::position / rposition of a predicate: index of the first / last hit *)
Section Find.
Variable A : Type.
Variable P : A -> bool.
Fixpoint ffirst (l : list A) : option nat :=
  match l with
  | [] => None
  | x :: t => if P x then Some O else option_map S (ffirst t)
  end.
Fixpoint flast (l : list A) : option nat :=
  match l with
  | [] => None
  | x :: t => match flast t with
              | Some p => Some (S p)
              | None => if P x then Some O else None
              end
  end.
End Find.

Definition position (row : list T) : option nat := ffirst nz row.
Definition rposition (row : list T) : option nat := flast nz row.

(* &cells[a..b]: panics unless a <= b <= len *)
Definition slice (l : list T) (a b : N) : outcome (list T) :=
  if (a <=? b) && (b <=? N.of_nat (length l))
  then Ok (firstn (N.to_nat (b - a)) (skipn (N.to_nat a) l))
  else Panic.

(* cols.windows(2) *)
Fixpoint windows2 (l : list N) : list (N * N) :=
  match l with
  | [] => []
  | a :: t => match t with
              | [] => []
              | b :: _ => (a, b) :: windows2 t
              end
  end.

(* iter().sum::<usize>(): panics as soon as a partial sum overflows; all terms are non-negative,
   so that happens exactly when the total exceeds usize::MAX *)
Definition sum_list (l : list N) : N := fold_left N.add l 0.

(* first pass: row_min (None until the first non-empty row), row_max, col_min (None stands for
   the initial usize::MAX: `p < col_min` is then true for every index), col_max,
   first_empty_rows_repeated *)
Record p1 : Type := mkP1 {
  p_rmin : option nat; p_rmax : nat; p_cmin : option nat; p_cmax : nat; p_fer : N }.

Definition p1_init : p1 := mkP1 None 0 None 0 0.

Definition p1_row (rows_repeats : list N) (i : nat) (row : list T) (st : p1) : outcome p1 :=
  match position row with
  | None => Ok st
  | Some p =>
    do st1 <- match p_rmin st with
              | None =>
                do s <- chk (sum_list (firstn i rows_repeats));
                Ok (mkP1 (Some i) (p_rmax st) (p_cmin st) (p_cmax st) (s - N.of_nat i)) (* saturating_sub *)
              | Some _ => Ok st
              end;
    let cmin := match p_cmin st1 with
                | None => Some p
                | Some c => if (p <? c)%nat then Some p else Some c
                end in
    let cmax := match rposition row with
                | Some q => if (p_cmax st1 <? q)%nat then q else p_cmax st1
                | None => p_cmax st1
                end in
    Ok (mkP1 (p_rmin st1) i cmin cmax (p_fer st1))
  end.

Fixpoint pass1 (cells : list T) (rows_repeats : list N) (ws : list (N * N)) (i : nat) (st : p1)
  : outcome p1 :=
  match ws with
  | [] => Ok st
  | (a, b) :: ws' =>
    do row <- slice cells a b;
    do st' <- p1_row rows_repeats i row st;
    pass1 cells rows_repeats ws' (S i) st'
  end.

(* second pass: empty_row_repeats, consecutive_empty_rows, row_max, new_cells *)
Record p2 : Type := mkP2 { q_err : N; q_cons : N; q_rmax : N; q_out : list T }.

(* for _ in 0..k { out.extend_from_slice(x) } *)
Definition rep_app (k : N) (x out : list T) : list T := out ++ concat (repeat x (N.to_nat k)).

(* the three-way match on row.len().cmp(&(col_max + 1)) *)
Definition fit (c0 c1 : nat) (row empty_cells : list T) : list T :=
  match Nat.compare (length row) (c1 + 1) with
  | Lt => skipn c0 row ++ skipn (length row) empty_cells
  | Eq => skipn c0 row
  | Gt => firstn (c1 + 1 - c0) (skipn c0 row)
  end.

Definition p2_row (c0 c1 : nat) (empty_cells : list T) (row : list T) (k : N) (st : p2)
  : outcome p2 :=
  if forallb isd row then                                   (* is_empty_row *)
    do e <- chk (q_err st + k);
    Ok (mkP2 e (q_cons st + 1) (q_rmax st) (q_out st))
  else
    do st1 <- (if 0 <? q_err st then
                 do x <- chk (q_rmax st + q_err st);
                 do rm <- (if q_cons st <=? x then Ok (x - q_cons st) else Panic);
                 Ok (mkP2 0 0 rm (rep_app (q_err st) (skipn c0 empty_cells) (q_out st)))
               else Ok st);
    do rm <- (if 1 <? k then do x <- chk (q_rmax st1 + k); Ok (x - 1) else Ok (q_rmax st1));
    Ok (mkP2 (q_err st1) (q_cons st1) rm (rep_app k (fit c0 c1 row empty_cells) (q_out st1))).

Fixpoint pass2 (cells : list T) (c0 c1 : nat) (empty_cells : list T)
         (zs : list ((N * N) * N)) (st : p2) : outcome p2 :=
  match zs with
  | [] => Ok st
  | ((a, b), k) :: zs' =>
    do row <- slice cells a b;
    do st' <- p2_row c0 c1 empty_cells row k st;
    pass2 cells c0 c1 empty_cells zs' st'
  end.

Definition get_range (cells : list T) (cols rows_repeats : list N) : outcome (range T) :=
  let ws := windows2 cols in
  do st <- pass1 cells rows_repeats ws 0 p1_init;
  match p_rmin st with
  | None => Ok empty                                         (* Range::default() *)
  | Some i0 =>
    match p_cmin st with
    | None => Panic       (* col_max + 1 - usize::MAX; unreachable: set together with row_min *)
    | Some c0 =>
      let i1 := p_rmax st in
      let c1 := p_cmax st in
      do _ <- chk (N.of_nat (i1 + 1 - i0) * N.of_nat (c1 + 1 - c0));     (* cells_len *)
      let empty_cells := repeat d (c1 + 1) in
      let zs := combine (firstn (i1 + 1) (skipn i0 ws))
                        (firstn (i1 + 1) (skipn i0 rows_repeats)) in
      do st2 <- pass2 cells c0 c1 empty_cells zs (mkP2 0 0 (N.of_nat i1) []);
      do rmin <- chk (N.of_nat i0 + p_fer st);
      do rmax <- chk (q_rmax st2 + p_fer st);
      Ok (mkRange (as_u32 rmin, as_u32 (N.of_nat c0)) (as_u32 rmax, as_u32 (N.of_nat c1))
                  (q_out st2))
    end
  end.

(* ---------------------------------- spec: plain grids ---------------------------------- *)
(* A grid is a list of rows, each a list of cells; a missing cell is the default. *)
Definition grid := list (list T).

Definition cell_at (g : grid) (r c : nat) : T := nth c (nth r g []) d.

Definition row_used (row : list T) : bool := existsb nz row.

(* smallest first-used column / largest last-used column over all rows *)
Definition omin (a b : option nat) : option nat :=
  match a, b with
  | Some x, Some y => Some (Nat.min x y)
  | Some x, None => Some x
  | None, y => y
  end.
Definition min_col (g : grid) : option nat :=
  fold_right (fun row m => omin (position row) m) None g.
Definition max_col (g : grid) : nat :=
  fold_right (fun row m => match rposition row with Some q => Nat.max q m | None => m end) O g.

(* the cells of one row inside columns c0 .. c0 + w - 1 *)
Definition fitS (c0 w : nat) (row : list T) : list T :=
  map (fun c => nth c row d) (seq c0 w).

(* S: the tight bounding rectangle of the non-default cells, every cell at its position:
   rows r0 .. r1 of the grid, each cut (or padded with the default) to columns c0 .. c1 *)
Definition range_of (g : grid) : range T :=
  match ffirst row_used g, flast row_used g, min_col g with
  | Some r0, Some r1, Some c0 =>
    let c1 := max_col g in
    mkRange (N.of_nat r0, N.of_nat c0) (N.of_nat r1, N.of_nat c1)
            (flat_map (fitS c0 (c1 + 1 - c0)) (firstn (r1 + 1 - r0) (skipn r0 g)))
  | _, _, _ => empty
  end.

(* a run-length encoded list of rows and its expansion *)
Definition expand_rows (l : list (list T * N)) : grid :=
  flat_map (fun rk => repeat (fst rk) (N.to_nat (snd rk))) l.

End GetRange.

(* ====================================================================================== *)
(*                                read_row / read_table                                    *)
(* ====================================================================================== *)
Section ReadTable.
Variable V F : Type.            (* Data / String *)
Variable dV : V.
Variable dF : F.
Variable isdV : V -> bool.      (* Data::is_empty *)
Variable isdF : F -> bool.      (* String::is_empty *)

(* one table:table-cell / table:covered-table-cell element after get_datatype *)
Record cell_elem : Type := mkCell {
  ce_rep : N;                   (* table:number-columns-repeated, 1 when absent *)
  ce_val : V;
  ce_fml : F;
  ce_covered : bool }.          (* the element name; read_row treats both alike *)

Record row_elem : Type := mkRow {
  re_rep : N;                   (* table:number-rows-repeated, 1 when absent *)
  re_cells : list cell_elem }.

Definition blank (c : cell_elem) : bool := isdV (ce_val c) && isdF (ce_fml c).

(* read_row: what one row element appends to `cells` and `formulas` (kept as pairs: the two
   vectors are pushed in lockstep).  [pending] = empty_col_repeats. *)
Fixpoint read_row (cs : list cell_elem) (pending : N) : list (V * F) :=
  match cs with
  | [] => []
  | c :: cs' =>
    repeat (dV, dF) (N.to_nat pending) ++
    (if blank c then read_row cs' (ce_rep c)
     else repeat (ce_val c, ce_fml c) (N.to_nat (ce_rep c)) ++ read_row cs' 0)
  end.

(* read_table's loop: all pushed cells, the offsets pushed to `cols` after each row, and
   `rows_repeats`.  [len] = cells.len() before the row, [tot] = total_rows (u64, saturating):
   as soon as the rows announced so far exceed 2^32 the table is rejected (OdsError::Mismatch),
   before the row's cells are read. *)
Definition ERR_MISMATCH : N := 5.

Fixpoint read_rows (rows : list row_elem) (len tot : N)
  : outcome (list (V * F) * list N * list N) :=
  match rows with
  | [] => Ok ([], [], [])
  | r :: rs =>
    let tot' := N.min (tot + re_rep r) U64MAX in          (* saturating_add *)
    if TWO32 <? tot' then Err ERR_MISMATCH else           (* > u32::MAX as u64 + 1 *)
    let row := read_row (re_cells r) 0 in
    let len' := len + N.of_nat (length row) in
    do x <- read_rows rs len' tot';
    let '(cs, cols, rr) := x in
    Ok (row ++ cs, len' :: cols, re_rep r :: rr)
  end.

Definition read_table (rows : list row_elem) : outcome (range V * range F) :=
  do x <- read_rows rows 0 0;
  let '(cs, cols, rr) := x in
  do rv <- get_range dV isdV (map fst cs) (0 :: cols) rr;
  do rf <- get_range dF isdF (map snd cs) (0 :: cols) rr;
  Ok (rv, rf).

(* ---------------------------------------- spec ---------------------------------------- *)
(* E is the identity here: a list of row elements IS a run-length encoding of a grid; all the
   encodings of one grid are the lists with the same expansion (up to trailing defaults). *)
Definition expand_cells (cs : list cell_elem) : list (V * F) :=
  flat_map (fun c => repeat (ce_val c, ce_fml c) (N.to_nat (ce_rep c))) cs.

Definition expand (rows : list row_elem) : list (list (V * F)) :=
  flat_map (fun r => repeat (expand_cells (re_cells r)) (N.to_nat (re_rep r))) rows.

Definition values_of (g : list (list (V * F))) : grid V := map (map fst) g.
Definition formulas_of (g : list (list (V * F))) : grid F := map (map snd) g.

(* S *)
Definition spec_table (rows : list row_elem) : range V * range F :=
  (range_of dV isdV (values_of (expand rows)), range_of dF isdF (formulas_of (expand rows))).

(* legal: repeat counts are positive (ODF: positiveInteger) *)
Definition counts_pos (rows : list row_elem) : bool :=
  forallb (fun r => (1 <=? re_rep r) && forallb (fun c => 1 <=? ce_rep c) (re_cells r)) rows.

(* sizes *)
Definition total_rows (rows : list row_elem) : N := sum_list (map re_rep rows).
Definition row_width (r : row_elem) : N := sum_list (map ce_rep (re_cells r)).
Definition max_width (rows : list row_elem) : N := fold_right (fun r m => N.max (row_width r) m) 0 rows.

(* the guard of the main theorem: every row / column index fits u32 and the cell count of the
   full sheet fits usize.  The row part is exactly what read_table accepts (at most 2^32 rows
   announced, trailing empty rows included: beyond that the file is rejected with an error). *)
Definition extent_ok (rows : list row_elem) : bool :=
  (total_rows rows <=? TWO32) && (max_width rows <=? TWO32) &&
  (total_rows rows * max_width rows <=? USIZE_MAX).

(* the guard of the no-panic theorem: what any machine that holds the parsed rows satisfies by far
   (a Vec has at most isize::MAX elements); the product bounds get_range's `cells_len` *)
Definition ISIZE_MAX : N := 9223372036854775807.
Definition phys_ok (rows : list row_elem) : bool :=
  (N.of_nat (length rows) <=? ISIZE_MAX) &&
  (N.of_nat (length rows) * max_width rows <=? USIZE_MAX).

End ReadTable.

(* ====================================================================================== *)
(*                    cell typing: get_datatype and the repeat attributes                  *)
(* ====================================================================================== *)
Definition str := list N.

Fixpoint str_eqb (a b : str) : bool :=
  match a, b with
  | [], [] => true
  | x :: a', y :: b' => (x =? y) && str_eqb a' b'
  | _, _ => false
  end.

Module OLit.
  Import Coq.Strings.String Coq.Strings.Ascii.
  Fixpoint s2l (s : string) : list N :=
    match s with
    | EmptyString => []
    | String c r => N_of_ascii c :: s2l r
    end.
  Definition a_value         : list N := Eval vm_compute in s2l "office:value"%string.
  Definition a_string_value  : list N := Eval vm_compute in s2l "office:string-value"%string.
  Definition a_date_value    : list N := Eval vm_compute in s2l "office:date-value"%string.
  Definition a_time_value    : list N := Eval vm_compute in s2l "office:time-value"%string.
  Definition a_boolean_value : list N := Eval vm_compute in s2l "office:boolean-value"%string.
  Definition a_value_type    : list N := Eval vm_compute in s2l "office:value-type"%string.
  Definition a_formula       : list N := Eval vm_compute in s2l "table:formula"%string.
  Definition a_cols_repeated : list N := Eval vm_compute in s2l "table:number-columns-repeated"%string.
  Definition a_rows_repeated : list N := Eval vm_compute in s2l "table:number-rows-repeated"%string.
  Definition v_string        : list N := Eval vm_compute in s2l "string"%string.
  Definition v_float         : list N := Eval vm_compute in s2l "float"%string.
  Definition v_percentage    : list N := Eval vm_compute in s2l "percentage"%string.
  Definition v_currency      : list N := Eval vm_compute in s2l "currency"%string.
  Definition v_boolean       : list N := Eval vm_compute in s2l "boolean"%string.
  Definition v_date          : list N := Eval vm_compute in s2l "date"%string.
  Definition v_time          : list N := Eval vm_compute in s2l "time"%string.
  Definition v_TRUE          : list N := Eval vm_compute in s2l "TRUE"%string.
  Definition v_true          : list N := Eval vm_compute in s2l "true"%string.
  Definition k_table_table   : list N := Eval vm_compute in s2l "table:table"%string.
  Definition v_false         : list N := Eval vm_compute in s2l "false"%string.
End OLit.
Export OLit.

Definition attrs := list (str * str).

(* try_get_attribute / the `for a in e.attributes() … break` loop: first attribute with that key *)
Fixpoint get_attribute (a : attrs) (k : str) : option str :=
  match a with
  | [] => None
  | (k', v) :: r => if str_eqb k' k then Some v else get_attribute r k
  end.

(* calamine::Data as far as ods produces it.  A Float carries the text of office:value:
   str::parse::<f64> is outside the model (both drivers apply a correctly rounded decimal
   parser to it); get_range only ever compares a cell with Data::Empty. *)
Inductive data : Type :=
| DEmpty
| DFloat (s : str)
| DString (s : str)
| DBool (b : bool)
| DDateTimeIso (s : str)
| DDurationIso (s : str).

Definition data_is_empty (v : data) : bool := match v with DEmpty => true | _ => false end.
Definition str_is_empty (s : str) : bool := match s with [] => true | _ => false end.

(* the attribute loop of get_datatype: the first value attribute wins, value-type is only looked
   at before a value was seen, the last table:formula wins *)
Fixpoint ods_attrs (a : attrs) (is_string is_set : bool) (val : data) (formula : str)
  : bool * bool * data * str :=
  match a with
  | [] => (is_string, is_set, val, formula)
  | (k, v) :: r =>
    if str_eqb k a_value && negb is_set then ods_attrs r is_string true (DFloat v) formula
    else if (str_eqb k a_string_value || str_eqb k a_date_value || str_eqb k a_time_value)
            && negb is_set then
      ods_attrs r is_string true
        (if str_eqb k a_date_value then DDateTimeIso v
         else if str_eqb k a_time_value then DDurationIso v else DString v) formula
    else if str_eqb k a_boolean_value && negb is_set then
      ods_attrs r is_string true (DBool (str_eqb v v_TRUE || str_eqb v v_true)) formula
    else if str_eqb k a_value_type && negb is_set then
      ods_attrs r (str_eqb v v_string) is_set val formula
    else if str_eqb k a_formula then ods_attrs r is_string is_set val v
    else ods_attrs r is_string is_set val formula
  end.

(* the content loop restricted to <text:p>text</text:p>*: paragraphs joined by '\n' *)
Fixpoint join_nl (ps : list str) : str :=
  match ps with
  | [] => []
  | p :: rest => match rest with [] => p | _ => p ++ 10 :: join_nl rest end
  end.

Definition get_datatype (a : attrs) (paras : list str) : data * str :=
  let '(is_string, is_set, val, formula) := ods_attrs a false false DEmpty [] in
  if negb is_set && is_string then (DString (join_nl paras), formula) else (val, formula).

(* str::parse::<usize>: optional '+', at least one digit, digits only, no overflow *)
Definition is_digit (c : N) : bool := (48 <=? c) && (c <=? 57).
Definition dec_value (ds : str) : N := fold_left (fun a c => a * 10 + (c - 48)) ds 0.
Definition parse_usize (v : str) : option N :=
  let ds := match v with 43 :: t => t | _ => v end in
  match ds with
  | [] => None
  | _ => if forallb is_digit ds
         then (let n := dec_value ds in if n <=? USIZE_MAX then Some n else None)
         else None
  end.

Definition ERR_PARSEINT : N := 4.

(* str::parse::<i32>: optional sign, at least one digit, no overflow.  read_row's `repeats` and
   `empty_col_repeats` have no type annotation and no usize use, so they are i32: a
   number-columns-repeated above 2^31 - 1 is a ParseInt error (the whole file fails to open), a
   negative one makes `for _ in 0..repeats` run zero times. *)
Definition I32MAX : N := 2147483647.
Definition parse_i32 (v : str) : option Z :=
  let body (ds : str) (neg : bool) : option Z :=
    match ds with
    | [] => None
    | _ =>
      if forallb is_digit ds then
        let n := dec_value ds in
        if neg then (if n <=? I32MAX + 1 then Some (- Z.of_N n)%Z else None)
        else (if n <=? I32MAX then Some (Z.of_N n) else None)
      else None
    end in
  match v with
  | 43 :: ds => body ds false
  | 45 :: ds => body ds true
  | _ => body v false
  end.

Definition cell_repeat_attr (a : attrs) : outcome N :=
  match get_attribute a a_cols_repeated with
  | None => Ok 1
  | Some v => match parse_i32 v with Some z => Ok (Z.to_N z) | None => Err ERR_PARSEINT end
  end.

Definition repeat_attr (a : attrs) (k : str) : outcome N :=
  match get_attribute a k with
  | None => Ok 1
  | Some v => match parse_usize v with Some n => Ok n | None => Err ERR_PARSEINT end
  end.

(* the children of a cell element as they stand in content.xml (ODF 1.2 part 1, 9.1.4): its
   paragraphs, an annotation, the drawing objects anchored to it (images, shapes, text boxes: they
   hold paragraphs of their own), and between them the white space of an indented file and
   comments.  The text grammar inside a paragraph is property C19's (XmlText.v); here a paragraph
   is its text. *)
Inductive xitem : Type :=
| XPara (s : str)                            (* <text:p>text</text:p> *)
| XWs (ws : str)                             (* white space between the children *)
| XComment                                   (* <!-- … --> *)
| XShape (name : str) (paras : list str)     (* <draw:…> … <text:p>…</text:p> … </draw:…> *)
| XAnnot (paras : list str).                 (* <office:annotation> … </office:annotation> *)

(* the content loop of get_datatype over the children: `first_paragraph`, '\n' before every
   text:p child but the first, its text appended; character data outside a paragraph, comments,
   the subtree of a drawing object and the annotation add nothing (fixes ODS-1, ODS-3) *)
Definition xitem_after (sf : str * bool) (it : xitem) : str * bool :=
  match it with
  | XPara p => ((if snd sf then fst sf else fst sf ++ [10]) ++ p, false)
  | _ => sf
  end.
Definition content_loop (its : list xitem) : str := fst (fold_left xitem_after its ([], true)).

(* S: the paragraphs of the cell itself, in order *)
Definition paras_of (its : list xitem) : list str :=
  flat_map (fun it => match it with XPara p => [p] | _ => [] end) its.

Definition get_datatype_items (a : attrs) (its : list xitem) : data * str :=
  let '(is_string, is_set, val, formula) := ods_attrs a false false DEmpty [] in
  if negb is_set && is_string then (DString (content_loop its), formula) else (val, formula).

(* a cell element as it stands in content.xml *)
Record xcell : Type := mkXCell {
  xc_covered : bool;            (* table:covered-table-cell *)
  xc_attrs : attrs;
  xc_items : list xitem }.      (* its children *)
Definition xc_paras (x : xcell) : list str := paras_of (xc_items x).

(* what stands between the start and the end tag of a table:table-row, as the loop of read_row
   sees it: cell elements; text (the white space of an indented file) and comments, which it
   passes over (fix ODS-3); anything else — a CDATA section, a processing instruction, the tag of
   another element — is OdsError::Mismatch *)
Inductive ritem : Type :=
| RCell (x : xcell)
| RText (ws : str)
| RComment
| ROther.

Record xrow : Type := mkXRow { xr_attrs : attrs; xr_items : list ritem }.

(* E: the cells of a row under any indentation *)
Definition xr_cells (x : xrow) : list xcell :=
  flat_map (fun it => match it with RCell c => [c] | _ => [] end) (xr_items x).
Definition ritem_ok (it : ritem) : bool := match it with ROther => false | _ => true end.
Definition is_xml_ws (c : N) : bool := (c =? 32) || (c =? 9) || (c =? 10) || (c =? 13).
(* legal: what an XML document that is valid against the ODF schema can have between the cells
   and between the children of a cell *)
Definition ritem_legal (it : ritem) : bool :=
  match it with
  | RCell c => forallb (fun x => match x with XWs ws => forallb is_xml_ws ws | _ => true end) (xc_items c)
  | RText ws => forallb is_xml_ws ws
  | RComment => true
  | ROther => false
  end.
Definition xrow_legal (x : xrow) : bool := forallb ritem_legal (xr_items x).

(* the flat form of a cell / a row: the paragraphs alone, the cells alone (what a writer that
   does not indent and a sheet without comments and drawing objects have) *)
Definition flat_cell (c : xcell) : xcell := mkXCell (xc_covered c) (xc_attrs c) (map XPara (xc_paras c)).
Definition flat_row (x : xrow) : xrow := mkXRow (xr_attrs x) (map (fun c => RCell (flat_cell c)) (xr_cells x)).
Definition row_ok (x : xrow) : bool := forallb ritem_ok (xr_items x).

Definition read_xcell (x : xcell) : outcome (cell_elem data str) :=
  do rep <- cell_repeat_attr (xc_attrs x);
  let '(v, f) := get_datatype_items (xc_attrs x) (xc_items x) in
  Ok (mkCell rep v f (xc_covered x)).

Fixpoint map_outcome (A B : Type) (f : A -> outcome B) (l : list A) : outcome (list B) :=
  match l with
  | [] => Ok []
  | x :: t => do y <- f x; do ys <- map_outcome f t; Ok (y :: ys)
  end.

(* the loop of read_row, item by item *)
Fixpoint read_ritems (its : list ritem) : outcome (list (cell_elem data str)) :=
  match its with
  | [] => Ok []                                              (* End table:table-row *)
  | RCell x :: r => do c <- read_xcell x; do cs <- read_ritems r; Ok (c :: cs)
  | RText _ :: r => read_ritems r
  | RComment :: r => read_ritems r
  | ROther :: _ => Err ERR_MISMATCH
  end.

Definition read_xrow (x : xrow) : outcome (row_elem data str) :=
  do rep <- repeat_attr (xr_attrs x) a_rows_repeated;
  do cs <- read_ritems (xr_items x);
  Ok (mkRow rep cs).

Definition ods_read_table := read_table DEmpty (@nil N) data_is_empty str_is_empty.
Definition ods_spec_table := spec_table DEmpty (@nil N) data_is_empty str_is_empty.

(* M at the level of the element tree of one table:table *)
Definition read_xtable (rows : list xrow) : outcome (range data * range str) :=
  do rs <- map_outcome read_xrow rows;
  ods_read_table rs.

(* ---- the loop of read_table over what stands inside one table:table ----
   The reader looks at two things only: a start tag table:table-row (it then reads the row up to
   its end tag: one item [TRow] here) and the end tag table:table.  Every other start tag, end
   tag, empty element, text or comment is passed over — so the elements that may hold the rows
   (table:table-header-rows, table:table-rows, table:table-row-group, nested to any depth) and
   the ones that stand beside them (table:table-column(s), table:shapes, office:forms,
   table:named-expressions …) are transparent.  The input running out before the end tag is
   OdsError::Eof. *)
Inductive titem : Type :=
| TRow (x : xrow)
| TOpen (n : str) (a : attrs)
| TClose (n : str)
| TOther.

Definition k_table_table : str := OLit.k_table_table.
Definition ERR_EOF : N := 6.

Fixpoint table_loop (its : list titem) (acc : list xrow) : outcome (list xrow) :=
  match its with
  | [] => Err ERR_EOF
  | TRow x :: r => table_loop r (acc ++ [x])
  | TClose n :: r => if str_eqb n k_table_table then Ok acc else table_loop r acc
  | _ :: r => table_loop r acc
  end.

Definition read_table_items (its : list titem) : outcome (range data * range str) :=
  do rows <- table_loop its [];
  read_xtable rows.

(* E: the rows of a table under any arrangement of containers and neighbours *)
Fixpoint rows_of (its : list titem) : list xrow :=
  match its with
  | [] => []
  | TRow x :: r => x :: rows_of r
  | _ :: r => rows_of r
  end.
Definition item_ok (it : titem) : bool :=
  match it with TClose n => negb (str_eqb n k_table_table) | _ => true end.

(* ---- spec of the typing part (ODF 1.2 part 1, 19.385 office:value-type) ---- *)
Inductive tvalue : Type :=
| TNone                                   (* no value-type: an empty cell *)
| TFloat (kind : N) (text : str)          (* kind 0 float, 1 percentage, 2 currency *)
| TStringAttr (s : str)                   (* office:string-value *)
| TStringContent (paras : list str)       (* the text:p children *)
| TBool (b : bool)
| TDate (s : str)
| TTime (s : str).

Definition tv_data (t : tvalue) : data :=
  match t with
  | TNone => DEmpty
  | TFloat _ s => DFloat s
  | TStringAttr s => DString s
  | TStringContent ps => DString (join_nl ps)
  | TBool b => DBool b
  | TDate s => DDateTimeIso s
  | TTime s => DDurationIso s
  end.

(* the attributes that encode a typed value (value-type first; any permutation and any
   interleaving with unrelated attributes is covered by the theorem, not by this function) *)
Definition tv_attrs (t : tvalue) : attrs :=
  match t with
  | TNone => []
  | TFloat k s =>
    [(a_value_type, if k =? 0 then v_float else if k =? 1 then v_percentage else v_currency);
     (a_value, s)]
  | TStringAttr s => [(a_value_type, v_string); (a_string_value, s)]
  | TStringContent _ => [(a_value_type, v_string)]
  | TBool b => [(a_value_type, v_boolean); (a_boolean_value, if b then v_true else v_false)]
  | TDate s => [(a_value_type, v_date); (a_date_value, s)]
  | TTime s => [(a_value_type, v_time); (a_time_value, s)]
  end.

Definition tv_paras (t : tvalue) (display : list str) : list str :=
  match t with TStringContent ps => ps | _ => display end.

(* the keys get_datatype reacts to *)
Definition typing_key (k : str) : bool :=
  str_eqb k a_value || str_eqb k a_string_value || str_eqb k a_date_value ||
  str_eqb k a_time_value || str_eqb k a_boolean_value || str_eqb k a_value_type ||
  str_eqb k a_formula.
