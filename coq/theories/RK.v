(* RK.v — model of calamine's RK number decoding (src/xls.rs rk_num, src/formats.rs
   format_excel_i64 / format_excel_f64), the cell value type shared by the BIFF models, and the
   RK encoder ("every legal RK form").  Definitions only; proofs are in RK_proofs.v.

   Floats are kept as their 64 raw bits (N).  The only genuinely floating-point operation of
   rk_num, the division [x / 100.0], is the Section variable [fdiv100] (bits -> bits); RKFloat.v
   instantiates it with Flocq's binary64 division.  Everything in this file and in RK_proofs.v is
   integer arithmetic and axiom-free. *)
From Calamine Require Import Prelude.
Open Scope N_scope.
Set Implicit Arguments.

(* ---------- cell values (calamine::Data, as far as the xls reader produces them) ---------- *)
Inductive cellfmt : Type := FOther | FDateTime | FTimeDelta.           (* formats.rs CellFormat *)

Inductive cerr : Type :=                                               (* CellErrorType *)
| ENull | EDiv0 | EValue | ERef | EName | ENum | ENA | EGettingData.

Inductive data : Type :=
| DEmpty
| DInt (v : Z)
| DFloat (bits : N)                            (* f64::to_bits *)
| DString (s : list N)                         (* Unicode scalar values *)
| DBool (b : bool)
| DDateTime (bits : N) (dur : bool) (is1904 : bool)   (* ExcelDateTime {value, type, is_1904} *)
| DError (e : cerr).

(* ---------- little-endian bytes ---------- *)
Fixpoint le_bytes (k : nat) (v : N) : list N :=
  match k with
  | O => []
  | S k' => v mod 256 :: le_bytes k' (v / 256)
  end.

Fixpoint le_val (l : list N) : N :=
  match l with
  | [] => 0
  | b :: t => b + 256 * le_val t
  end.

(* Vec::get(i) with the index kept in N (no unary blow-up) *)
Fixpoint nthN (A : Type) (l : list A) (i : N) : option A :=
  match l with
  | [] => None
  | x :: t => if i =? 0 then Some x else nthN t (i - 1)
  end.

(* ---------- integers ---------- *)
(* i32::from_le_bytes of the unsigned 32-bit pattern w: two's complement *)
Definition to_i32 (w : N) : Z :=
  if w <? 2147483648 then Z.of_N w else (Z.of_N w - 4294967296)%Z.

(* the 30-bit payload p read as a signed number *)
Definition signed30 (p : N) : Z :=
  if p <? 536870912 then Z.of_N p else (Z.of_N p - 1073741824)%Z.

(* [v as f64] for an integer of magnitude below 2^53 (exact): sign, biased exponent, fraction.
   rk_num only converts |v| < 2^29. *)
Definition z2f_mag (m : N) : N :=
  match m with
  | 0 => 0
  | _ => let e := N.log2 m in (1023 + e) * 4503599627370496 + (m - 2 ^ e) * 2 ^ (52 - e)
  end.
Definition z2f (v : Z) : N :=
  match v with
  | Z0 => 0
  | Zpos p => z2f_mag (Npos p)
  | Zneg p => 9223372036854775808 + z2f_mag (Npos p)
  end.

(* ---------- format_excel_i64 / format_excel_f64 ---------- *)
Definition format_excel_i64 (v : Z) (f : option cellfmt) (is1904 : bool) : data :=
  match f with
  | Some FDateTime => DDateTime (z2f v) false is1904
  | Some FTimeDelta => DDateTime (z2f v) true is1904
  | _ => DInt v
  end.

Definition format_excel_f64 (bits : N) (f : option cellfmt) (is1904 : bool) : data :=
  match f with
  | Some FDateTime => DDateTime bits false is1904
  | Some FTimeDelta => DDateTime bits true is1904
  | _ => DFloat bits
  end.

(* the undecorated result of RK decoding *)
Inductive rkval : Type := RInt (v : Z) | RFloat (bits : N).

Definition rk_wrap (r : rkval) (f : option cellfmt) (is1904 : bool) : data :=
  match r with
  | RInt v => format_excel_i64 v f is1904
  | RFloat b => format_excel_f64 b f is1904
  end.

Section RK.
Variable fdiv100 : N -> N.       (* bits of (x / 100.0) from the bits of x; IEEE-754 binary64, RNE *)

(* rk_num on the four RK bytes rk[2..6]:
     d100 = rk[2] & 1; is_int = rk[2] & 2; v[4..8] = rk[2..6]; v[4] &= 0xFC;
     int:   (read_i32(v[4..8]) >> 2) as i64, then  v % 100 / v / 100  (Rust: truncating)
     float: read_f64(v) — the low four bytes are zero *)
Definition rk_val4 (b2 b3 b4 b5 : N) : rkval :=
  let d100 := N.odd b2 in
  let is_int := N.testbit b2 1 in
  let m := N.land b2 252 in
  let w := m + 256 * b3 + 65536 * b4 + 16777216 * b5 in
  if is_int then
    let v := Z.shiftr (to_i32 w) 2 in
    if d100 && negb (Z.rem v 100 =? 0)%Z then RFloat (fdiv100 (z2f v))
    else RInt (if d100 then Z.quot v 100 else v)
  else
    let bits := w * 4294967296 in
    RFloat (if d100 then fdiv100 bits else bits).

(* the same on a 32-bit RK word *)
Definition rk_decode (w : N) : rkval :=
  rk_val4 (w mod 256) (w / 256 mod 256) (w / 65536 mod 256) (w / 16777216).

(* rk_num(rk: &[u8], formats, is_1904): rk is the 6-byte RkRec (ixfe, RK).  rk[2] and
   copy_from_slice(&rk[2..]) panic unless the slice has exactly 6 bytes. *)
Definition rk_num (rk : list N) (formats : list cellfmt) (is1904 : bool) : outcome data :=
  match rk with
  | [i0; i1; b2; b3; b4; b5] =>
      Ok (rk_wrap (rk_val4 b2 b3 b4 b5) (nthN formats (i0 + 256 * i1)) is1904)
  | _ => Panic
  end.

(* ---------- the encoder: every RK form ---------- *)
(* RkI v x100 : the 30-bit two's-complement integer v, with or without the divide-by-100 flag;
   RkF hi x100 : the double whose top 30 bits are hi (the low 34 bits are zero), idem. *)
Inductive rk_form : Type := RkI (v : Z) (x100 : bool) | RkF (hi : N) (x100 : bool).

Definition legal_form (f : rk_form) : bool :=
  match f with
  | RkI v _ => ((-536870912 <=? v) && (v <? 536870912))%Z
  | RkF hi _ => hi <? 1073741824
  end.

Definition flag (b : bool) : N := if b then 1 else 0.

Definition rk_encode (f : rk_form) : N :=
  match f with
  | RkI v x => 4 * Z.to_N (v mod 1073741824) + 2 + flag x
  | RkF hi x => 4 * hi + flag x
  end.

(* what a form denotes (spec): integers stay integers, the flag divides by 100 — exactly when
   100 divides v, otherwise as the double quotient *)
Definition rk_form_value (f : rk_form) : rkval :=
  match f with
  | RkI v false => RInt v
  | RkI v true => if (Z.rem v 100 =? 0)%Z then RInt (Z.quot v 100) else RFloat (fdiv100 (z2f v))
  | RkF hi false => RFloat (hi * 17179869184)
  | RkF hi true => RFloat (fdiv100 (hi * 17179869184))
  end.

(* the inverse direction: the form a 32-bit pattern is *)
Definition rk_form_of_word (w : N) : rk_form :=
  if N.testbit w 1 then RkI (signed30 (w / 4)) (N.odd w) else RkF (w / 4) (N.odd w).

(* numerically equal: an Int k stands for the double k *)
Definition rk_num_eqb (r : rkval) (bits : N) : bool :=
  match r with
  | RInt k => z2f k =? bits
  | RFloat b => b =? bits
  end.

(* f is an RK form of the double [bits] *)
Definition form_of (bits : N) (f : rk_form) : bool :=
  legal_form f && rk_num_eqb (rk_form_value f) bits.

End RK.
