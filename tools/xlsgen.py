"""xlsgen — reusable BIFF8 (.xls) writer for the verification checks (owner: C02; imported by the
checks of C07, C08, C10, C16, C17, C20).  Written from [MS-XLS] / [MS-CFB], not from calamine.

Top level
---------
write_xls(wb, opts=None, rng=None) -> bytes          a complete .xls file (compound file)
workbook_stream(wb, opts=None, rng=None) -> (bytes, [sheet substream offsets])   the "Workbook" stream only
cfb_wrap(streams, version=3, rng=None, **layout) -> bytes     minimal MS-CFB v3/v4 container

wb (dict; every key optional except "sheets"):
  "date1904": bool                      DATE1904 record (0x0022), omitted when False unless opts["always_1904"]
  "codepage": 1200 | other | None       CODEPAGE record (0x0042); None omits it; key absent: a value of CODEPAGES
                                        (or no record) chosen by a hash of wb - BIFF8 text never depends on it
  "formats": {ifmt: "format string"}    FORMAT records (0x041E)
  "xfs": [ifmt, ...]                    one XF record (0x00E0) each; a cell's "xf" is an index in this list
  "sst": [str | [utf16 units] | dict, ...]   SST (0x00FC) + CONTINUE (0x003C); see opts["sst_cut"].  A dict entry is an
                                        XLUnicodeRichExtendedString with an explicit physical layout (all keys but
                                        "s" / "units" optional; the logical string is always the units alone):
                                          {"s": str | "units": [...], "wide": bool | None (packing of the first segment),
                                           "runs": [(ich, ifnt), ...]  fRichSt + rgRun (4 bytes per FormatRun),
                                           "ext": bytes                fExtSt + ExtRst (see phonetic_ext),
                                           "cut_before": bool          the string starts a new CONTINUE record,
                                           "cuts": [(ich, wide | None), ...]  CONTINUE cuts inside the characters, before
                                                       character ich (0 <= ich < cch, non-decreasing; a repeat makes a
                                                       CONTINUE holding only its flag byte): each starts with a fresh flag byte,
                                           "tail_cuts": [off, ...]     CONTINUE cuts inside rgRun ++ ExtRst, before byte off
                                                       (0 <= off < length, non-decreasing; a repeat makes an empty CONTINUE):
                                                       NO flag byte there ([MS-XLS] 2.5.293 / CONTINUE)}
  "externsheet": [(isupbook, itab_first, itab_last), ...]   SUPBOOK (internal) + EXTERNSHEET (0x0017)
  "names": [(name, rgce bytes)]         LBL records (0x0018), workbook scope
  "filepass": bytes | None              FILEPASS record body (0x002F) right after BOF
  "globals_extra": [(typ, body), ...]   extra records before the globals' EOF
  "sheets": [sheet, ...]
sheet (dict):
  "name": str   "visible": 0 visible | 1 hidden | 2 very hidden   "type": 0 worksheet | 1 macro | 2 chart | 6 vba
  "cells": [cell, ...]                  written in the given order (no sorting)
  "dimensions": "exact" (default) | "none" | (rf, rl_excl, cf, cl_excl) | ("narrow", rf, rl_excl, cf, cl_excl)
  "merges": [(row_first, row_last, col_first, col_last), ...]     MERGECELLS (0x00E5), after the cells
  "pre": [(typ, body), ...]  "post": [(typ, body), ...]          raw records after DIMENSIONS / before EOF
  "records": [(typ, body), ...]         if present, replaces DIMENSIONS + cells + merges (raw substream)
cell (dict) — "r", "c" (first column for mulrk), "xf" (default 0) plus:
  {"k": "number", "bits": u64}                      NUMBER  (0x0203); or "v": float
  {"k": "rk", "rk": u32}                            RK      (0x027E); see rk_int / rk_float
  {"k": "mulrk", "rks": [(xf, u32), ...]}           MULRK   (0x00BD), columns c .. c+len-1
  {"k": "labelsst", "isst": i}                      LABELSST(0x00FD)
  {"k": "label", "units": [...], "wide": bool}      LABEL   (0x0204); or "s": str
  {"k": "bool", "v": bool}   {"k": "error", "code": byte}        BOOLERR (0x0205)
  {"k": "formula", "cached": ("num", bits) | ("bool", b) | ("err", code) | ("blank",) | ("str", units, wide),
   "rgce": bytes (default: PtgInt 1), "grbit": 0, "chn": 0}      FORMULA (0x0006) [+ STRING (0x0207)]
   optional: "between": [(typ, body), ...]   records written between FORMULA and STRING (after FORMULA
             when the result is not a string): SHRFMLA 0x04BC, ARRAY 0x0221, TABLE 0x0236, …; see
             shrfmla_body / array_body / table_body
             "cont": [(units, wide), ...]    the string result continues in one CONTINUE (0x003C) record
             per element (flag byte + characters); STRING's cch counts all characters
             "no_string": True               omit the STRING record of a string result (malformed)
  {"k": "blank"}                                    BLANK   (0x0201)
  {"k": "raw", "typ": t, "body": bytes}             any record, verbatim
  {"k": "sub", "bof": bytes, "recs": [(typ, body, [cont, ...]), ...]}   a substream NESTED in the sheet ([MS-XLS]
             2.1.7.20.5 OBJECTS -> CHART): BOF (body "bof"), the records, each followed by one CONTINUE per element of
             its third component, EOF; see chart_sub for the shape Excel writes for an embedded chart
  {"k": "merge", "regs": [(row_first, row_last, col_first, col_last), ...]}   one MERGECELLS record, at this place
opts (dict): "cfb": kwargs for cfb_wrap (version, shuffle, …)   "stream_name": "Workbook" (default) | "Book"
             "sst_cut": None | int (max SST/CONTINUE body, >= 16; cuts fall between strings or inside characters;
                        with dict entries the limit also forces cuts inside rgRun / ExtRst)
             "sst_stats": dict filled with the number of cuts of each kind the SST writer made
                        (between / chars / runs / ext / empty-continue / records), dict entries only
             "pad_to": minimum stream length (zero padding after the last EOF; >= 4096 keeps it out of the mini stream)

Helpers: rec(typ, body), rk_int(v, x100=False), rk_float(hi30, x100=False), rk_forms_of(bits) (every RK
word that encodes the double), f64_bits(x), bits_f64(b), units_of(str), xl_unicode(units, wide),
ERR_CODES, cell_records(cell) -> [(typ, body)], sheet_stream(sheet) -> bytes, phonetic_ext(units) -> ExtRst bytes,
sst_records(strings, cut, rng, stats) -> bytes.
"""
import struct
from fractions import Fraction

MAXREC = 8224
ERR_CODES = {"null": 0x00, "div0": 0x07, "value": 0x0F, "ref": 0x17, "name": 0x1D, "num": 0x24,
             "na": 0x2A, "getting_data": 0x2B}

def rec(typ, body=b""):
    assert len(body) <= 0xFFFF and 0 <= typ <= 0xFFFF
    return struct.pack("<HH", typ, len(body)) + bytes(body)

def f64_bits(x):
    return struct.unpack("<Q", struct.pack("<d", x))[0]
def bits_f64(b):
    return struct.unpack("<d", struct.pack("<Q", b))[0]
def units_of(s):
    b = s.encode("utf-16-le", "surrogatepass")
    return [b[i] | (b[i + 1] << 8) for i in range(0, len(b), 2)]

# ------------------------------------------------------------------ RK
def rk_int(v, x100=False):
    """RK word of the 30-bit two's-complement integer v (-2^29 <= v < 2^29)"""
    assert -(1 << 29) <= v < (1 << 29)
    return ((v & 0x3FFFFFFF) << 2) | 2 | (1 if x100 else 0)
def rk_float(hi30, x100=False):
    """RK word of the double whose top 30 bits are hi30 (low 34 bits zero)"""
    assert 0 <= hi30 < (1 << 30)
    return (hi30 << 2) | (1 if x100 else 0)

def rk_value(word):
    """exact value of an RK word as a Fraction (or None for non-finite doubles), and its kind"""
    x100 = word & 1
    if word & 2:
        v = (word >> 2) & 0x3FFFFFFF
        if v >= 1 << 29:
            v -= 1 << 30
        return Fraction(v, 100 if x100 else 1), "int"
    d = bits_f64((word & 0xFFFFFFFC) << 32)
    if d != d or d in (float("inf"), float("-inf")):
        return None, "float"
    return Fraction(d) / (100 if x100 else 1), "float"

def rk_forms_of(bits):
    """every RK word whose value, computed as the reader must compute it (integer, or IEEE
    division by 100), is numerically the double `bits` (the sign of zero is kept by float forms)"""
    out = []
    d = bits_f64(bits)
    if d != d or d in (float("inf"), float("-inf")):
        return [rk_float(bits >> 34)] if bits & ((1 << 34) - 1) == 0 else []
    if bits & ((1 << 34) - 1) == 0:
        out.append(rk_float(bits >> 34))
    if d == int(d) and -(1 << 29) <= int(d) < (1 << 29) and bits != 1 << 63:
        out.append(rk_int(int(d)))
    # x100 forms: an integer v with v/100 == d, or a 30-bit double x with x/100 == d
    v = d * 100.0
    if v in (float("inf"), float("-inf")):
        return sorted(set(out))
    if v == int(v) and -(1 << 29) <= int(v) < (1 << 29) and bits != 1 << 63:
        iv = int(v)
        if iv % 100 == 0:
            if Fraction(iv, 100) == Fraction(d):
                out.append(rk_int(iv, True))
        elif f64_bits(float(iv) / 100.0) == bits:
            out.append(rk_int(iv, True))
    xb = f64_bits(v)
    xb_hi = xb & ~((1 << 34) - 1)
    for cand in (xb_hi, xb_hi + (1 << 34)):
        if cand < (1 << 64):
            x = bits_f64(cand)
            if x == x and x not in (float("inf"), float("-inf")) and f64_bits(x / 100.0) == bits:
                out.append(rk_float(cand >> 34, True))
    return sorted(set(out))

# ------------------------------------------------------------------ strings
def xl_unicode(units, wide):
    """XLUnicodeString: cch (2), fHighByte (1), characters"""
    if wide:
        return struct.pack("<HB", len(units), 1) + b"".join(struct.pack("<H", u) for u in units)
    assert all(u < 256 for u in units)
    return struct.pack("<HB", len(units), 0) + bytes(units)
def short_xl_unicode(units, wide):
    """ShortXLUnicodeString: cch (1), fHighByte (1), characters"""
    assert len(units) < 256
    if wide:
        return struct.pack("<BB", len(units), 1) + b"".join(struct.pack("<H", u) for u in units)
    assert all(u < 256 for u in units)
    return struct.pack("<BB", len(units), 0) + bytes(units)
def _units(x):
    return units_of(x) if isinstance(x, str) else list(x)
def _auto_wide(units, wide):
    return (any(u > 255 for u in units)) if wide is None else wide

# ------------------------------------------------------------------ cell records
PTG_INT_1 = bytes([0x1E, 0x01, 0x00])

def formula_value(cached):
    k = cached[0]
    if k == "num":
        return struct.pack("<Q", cached[1])
    if k == "str":
        return bytes([0, 0, 0, 0, 0, 0, 0xFF, 0xFF])
    if k == "bool":
        return bytes([1, 0, 1 if cached[1] else 0, 0, 0, 0, 0xFF, 0xFF])
    if k == "err":
        return bytes([2, 0, cached[1], 0, 0, 0, 0xFF, 0xFF])
    if k == "blank":
        return bytes([3, 0, 0, 0, 0, 0, 0xFF, 0xFF])
    raise ValueError(k)

def cell_records(c):
    """[(typ, body)] for one cell description"""
    k = c["k"]
    if k == "raw":
        return [(c["typ"], bytes(c["body"]))]
    if k == "sub":
        out = [(0x0809, bytes(c["bof"]))]
        for t, b, conts in c["recs"]:
            out.append((t, bytes(b)))
            out += [(0x003C, bytes(x)) for x in conts]
        return out + [(0x000A, b"")]
    if k == "merge":
        regs = c["regs"]
        return [(0x00E5, struct.pack("<H", len(regs)) + b"".join(struct.pack("<HHHH", *r) for r in regs))]
    head = struct.pack("<HHH", c["r"], c["c"], c.get("xf", 0))
    if k == "number":
        bits = c["bits"] if "bits" in c else f64_bits(c["v"])
        return [(0x0203, head + struct.pack("<Q", bits))]
    if k == "rk":
        return [(0x027E, head + struct.pack("<I", c["rk"]))]
    if k == "mulrk":
        rks = c["rks"]
        body = struct.pack("<HH", c["r"], c["c"])
        body += b"".join(struct.pack("<HI", xf, w) for xf, w in rks)
        body += struct.pack("<H", c.get("col_last", c["c"] + len(rks) - 1) & 0xFFFF)
        return [(0x00BD, body)]
    if k == "labelsst":
        return [(0x00FD, head + struct.pack("<I", c["isst"]))]
    if k == "label":
        units = _units(c["s"] if "s" in c else c["units"])
        return [(0x0204, head + xl_unicode(units, _auto_wide(units, c.get("wide"))))]
    if k == "bool":
        return [(0x0205, head + bytes([1 if c["v"] else 0, 0]))]
    if k == "error":
        return [(0x0205, head + bytes([c["code"], 1]))]
    if k == "blank":
        return [(0x0201, head)]
    if k == "formula":
        cached = c["cached"]
        rgce = c.get("rgce", PTG_INT_1)
        body = head + formula_value(cached) + struct.pack("<HI", c.get("grbit", 0), c.get("chn", 0))
        body += c.get("tail", struct.pack("<H", len(rgce)) + bytes(rgce))
        out = [(0x0006, body)]
        out += [(t, bytes(b)) for t, b in c.get("between", [])]
        if cached[0] == "str" and not c.get("no_string"):
            units = _units(cached[1])
            wide = _auto_wide(units, cached[2] if len(cached) > 2 else None)
            cont = [(_units(u), _auto_wide(_units(u), w)) for u, w in c.get("cont", [])]
            srec = bytearray(xl_unicode(units, wide))
            struct.pack_into("<H", srec, 0, len(units) + sum(len(u) for u, _ in cont))
            out.append((0x0207, bytes(srec)))
            for u, w in cont:
                out.append((0x003C, xl_unicode(u, w)[2:]))
        return out
    raise ValueError("unknown cell kind %r" % k)

def shrfmla_body(rf, rl, cf, cl, rgce=PTG_INT_1, cuse=2):
    """SHRFMLA (0x04BC): RefU (rows u16, cols u8), reserved, cUse, cce, rgce"""
    return struct.pack("<HHBBBBH", rf, rl, cf, cl, 0, cuse & 0xFF, len(rgce)) + bytes(rgce)
def array_body(rf, rl, cf, cl, rgce=PTG_INT_1, grbit=0):
    """ARRAY (0x0221): Ref (rows u16, cols u8), grbit, chn, cce, rgce"""
    return struct.pack("<HHBBHIH", rf, rl, cf, cl, grbit, 0, len(rgce)) + bytes(rgce)
def table_body(rf, rl, cf, cl, grbit=0, r_inp=0, c_inp=0):
    """TABLE (0x0236): Ref, grbit, rwInpRw, colInpRw, rwInpCol, colInpCol"""
    return struct.pack("<HHBBHHHHH", rf, rl, cf, cl, grbit, r_inp, c_inp, 0, 0)
def ptg_exp(row, col):
    """rgce of a cell that belongs to a shared / array formula or a data table"""
    return struct.pack("<BHH", 0x01, row, col)

def cell_positions(c):
    k = c["k"]
    if k in ("raw", "sub", "merge"):
        return []
    if k == "mulrk":
        return [(c["r"], c["c"] + i) for i in range(len(c["rks"]))]
    return [(c["r"], c["c"])]

def bof_body(dt):
    return struct.pack("<HHHHII", 0x0600, dt, 0x0DBB, 0x07CC, 0, 0x0306)
def bof(dt):
    return rec(0x0809, bof_body(dt))

def chart_sub(rng, positions=(), exotic=0.3, nest=True):
    """{"k": "sub", ...}: the chart substream of an embedded chart object as Excel 97-2003 writes it inside
    a worksheet substream ([MS-XLS] 2.1.7.20.5 CHART = BOF CHARTSHEETCONTENT): chart records, then the
    series cache SERIESDATA = Dimensions 3(SIIndex *(Number / BoolErr / Blank / Label)) whose records are
    addressed (point, series) - i.e. like the cells A1, A2, B1 ... of a sheet -, then EOF.  `positions`:
    cell positions of the enclosing sheet; most cache records are put on them so that a reader which
    takes them for cells of the sheet overwrites real values.  With probability `exotic` the substream
    also holds records no chart has but nothing forbids inside a nested substream (RK, MULRK, LABELSST,
    FORMULA + STRING, SHRFMLA, MERGECELLS, records followed by CONTINUE records, with `nest` a further
    BOF ... EOF pair): none of them belongs to the sheet."""
    positions = list(positions)
    def pos():
        if positions and rng.random() < 0.8:
            return rng.choice(positions)
        return (rng.randrange(0, 6), rng.randrange(0, 4))
    def head(p, xf=0):
        return struct.pack("<HHH", p[0], p[1], xf)
    def cache_cell():
        p, k = pos(), rng.random()
        if k < 0.45:
            return (0x0203, head(p) + struct.pack("<d", float(rng.randrange(-50, 1000))), [])
        if k < 0.75:
            u = [rng.choice([0x61, 0x62, 0x7A, 0xE9, 0x20AC]) for _ in range(rng.randrange(0, 5))]
            return (0x0204, head(p) + xl_unicode(u, _auto_wide(u, None)), [])
        if k < 0.9:
            return (0x0205, head(p) + (bytes([rng.randrange(2), 0]) if rng.random() < 0.5 else bytes([rng.choice([0x07, 0x2A, 0x0F]), 1])), [])
        return (0x0201, head(p), [])
    recs = [(0x1001, struct.pack("<H", 0), []), (0x1002, struct.pack("<iiii", 0, 0, rng.randrange(1 << 20), rng.randrange(1 << 20)), []),
            (0x1033, b"", [])]
    for _ in range(rng.randrange(0, 3)):        # Series … (bodies opaque to every spreadsheet reader)
        recs += [(0x1003, struct.pack("<HHHHHH", 1, 1, 2, 2, 1, 0), []), (0x1033, b"", []),
                 (0x1051, bytes([rng.randrange(4), 1, 0, 0, 0, 0, 0, 0]), []), (0x1034, b"", [])]
    recs.append((0x1034, b"", []))
    recs.append((0x0200, struct.pack("<IIHHH", 0, rng.randrange(1, 6), 0, rng.randrange(1, 4), 0), []))
    for si in (1, 2, 3):
        recs.append((0x1065, struct.pack("<H", si), []))
        recs += [cache_cell() for _ in range(rng.choice([0, 1, 2, 2, 3, 5]))]
    if rng.random() < exotic:
        extra = []
        for _ in range(rng.randrange(1, 5)):
            p, k = pos(), rng.randrange(9)
            if k == 0:
                extra.append((0x027E, struct.pack("<HHHI", p[0], p[1], 0, rk_int(rng.randrange(-9, 99))), []))
            elif k == 1:
                n = rng.choice([1, 2, 3])
                c0 = min(p[1], 256 - n)
                extra.append((0x00BD, struct.pack("<HH", p[0], c0) + b"".join(struct.pack("<HI", 0, rk_int(7 + i)) for i in range(n)) +
                              struct.pack("<H", c0 + n - 1), []))
            elif k == 2:
                extra.append((0x00FD, head(p) + struct.pack("<I", rng.randrange(4)), []))
            elif k == 3:
                f = {"k": "formula", "r": p[0], "c": p[1], "cached": rng.choice([("num", f64_bits(3.5)), ("str", [0x78, 0x79], False), ("bool", True)])}
                extra += [(t, b, []) for t, b in cell_records(f)]
            elif k == 4:
                extra.append((0x0006, head(p) + formula_value(("num", f64_bits(1.0))) + struct.pack("<HI", 8, 0) +
                              struct.pack("<H", 5) + ptg_exp(p[0], p[1]), []))
                extra.append((0x04BC, shrfmla_body(p[0], min(p[0] + 1, 65535), p[1], p[1]), []))
            elif k == 5:
                extra.append((0x00E5, struct.pack("<HHHHH", 1, p[0], min(p[0] + 1, 65535), p[1], min(p[1] + 1, 255)), []))
            elif k == 6:
                extra.append((rng.choice([0x00EC, 0x01B6, 0x1025, 0x0207]), bytes(rng.getrandbits(8) for _ in range(rng.choice([3, 8, 20]))),
                              [bytes(rng.getrandbits(8) for _ in range(rng.choice([1, 2, 9]))) for _ in range(rng.choice([1, 2, 3]))]))
            elif k == 7 and nest:
                inner = chart_sub(rng, positions, exotic=0.2, nest=False)
                extra += [(0x0809, inner["bof"], [])] + inner["recs"] + [(0x000A, b"", [])]
            else:
                extra.append((0x0200, struct.pack("<IIHHH", 0, 9, 0, 9, 0), []))
        at = rng.randrange(len(recs) + 1)
        recs[at:at] = extra
    return {"k": "sub", "bof": bof_body(0x0020) if rng.random() < 0.8 else bytes(rng.getrandbits(8) for _ in range(rng.choice([0, 4, 8, 16]))),
            "recs": recs}

def dimensions_record(spec, cells):
    if spec == "none":
        return b""
    if spec == "exact" or spec is None:
        ps = [p for c in cells for p in cell_positions(c) if c["k"] != "blank"]
        if not ps:
            return rec(0x0200, struct.pack("<IIHHH", 0, 0, 0, 0, 0))
        return rec(0x0200, struct.pack("<IIHHH", min(p[0] for p in ps), max(p[0] for p in ps) + 1,
                                       min(p[1] for p in ps), max(p[1] for p in ps) + 1, 0))
    if spec[0] == "narrow":
        return rec(0x0200, struct.pack("<HHHHH", spec[1], spec[2], spec[3], spec[4], 0))
    return rec(0x0200, struct.pack("<IIHHH", spec[0], spec[1], spec[2], spec[3], 0))

def merge_records(merges):
    out = b""
    for i in range(0, len(merges), 1026):
        part = merges[i:i + 1026]
        out += rec(0x00E5, struct.pack("<H", len(part)) +
                   b"".join(struct.pack("<HHHH", a, b, c, d) for a, b, c, d in part))
    return out

def sheet_stream(sheet):
    """one worksheet substream: BOF … EOF"""
    dt = {0: 0x0010, 1: 0x0040, 2: 0x0020, 6: 0x0006}.get(sheet.get("type", 0), 0x0010)
    out = bof(dt)
    if "records" in sheet:
        out += b"".join(rec(t, b) for t, b in sheet["records"])
    else:
        cells = sheet.get("cells", [])
        out += dimensions_record(sheet.get("dimensions", "exact"), cells)
        out += b"".join(rec(t, b) for t, b in sheet.get("pre", []))
        for c in cells:
            for t, b in cell_records(c):
                out += rec(t, b)
        out += merge_records(sheet.get("merges", []))
        out += b"".join(rec(t, b) for t, b in sheet.get("post", []))
    return out + rec(0x000A)

# ------------------------------------------------------------------ SST
def phonetic_ext(units, ifnt=0, flags=0x0037, runs=((0, 0, 0),)):
    """ExtRst ([MS-XLS] 2.5.87) carrying the phonetic string `units`: reserved = 1, cb, Phs (ifnt,
    flags), RPHSSub (crun, cch, LPWideString), rgphruns (ichFirst, ichMom, cchMom each)"""
    units = _units(units)
    sub = struct.pack("<HH", len(runs), len(units)) + struct.pack("<H", len(units))
    sub += b"".join(struct.pack("<H", u) for u in units)
    body = struct.pack("<HH", ifnt, flags) + sub + b"".join(struct.pack("<HHH", *r) for r in runs)
    return struct.pack("<HH", 1, len(body)) + body

def _sst_records_ex(strings, lim, rng, stats):
    """SST writer with explicit physical layouts (dict entries, see the module docstring)"""
    st = stats if stats is not None else {}
    def bump(k):
        st[k] = st.get(k, 0) + 1
    frags = [bytearray(struct.pack("<II", len(strings), len(strings)))]
    def new_frag(kind):
        frags.append(bytearray())
        bump(kind)
    for e in strings:
        if not isinstance(e, dict):
            e = {"units": _units(e), "wide": None if rng is None else (True if rng.random() < 0.5 else None)}
        units = _units(e["s"] if "s" in e else e["units"])
        n = len(units)
        runs, ext = e.get("runs"), e.get("ext")
        cuts = sorted(((int(p), w) for p, w in e.get("cuts", [])), key=lambda c: c[0])
        assert all(0 <= p < n for p, _ in cuts), "a cut inside the characters must leave a character after it"
        tail = b"".join(struct.pack("<HH", a, b) for a, b in (runs or [])) + bytes(ext or b"")
        nruns = 4 * len(runs or [])
        tcuts = sorted(int(t) for t in e.get("tail_cuts", []))
        assert all(0 <= t < len(tail) for t in tcuts), "a cut inside rgRun/ExtRst must leave a byte after it"
        # packing of the segment that starts at character a
        stops = sorted(set([p for p, _ in cuts] + [n]))
        def seg_wide(a, w):
            b = min([x for x in stops if x > a] or [n])
            return bool(w) or any(u > 255 for u in units[a:b])
        wide = seg_wide(0, e.get("wide")) if n else bool(e.get("wide"))
        hdr = struct.pack("<HB", n, (1 if wide else 0) | (4 if ext is not None else 0) | (8 if runs is not None else 0))
        if runs is not None:
            hdr += struct.pack("<H", len(runs))
        if ext is not None:
            hdr += struct.pack("<I", len(ext))
        if e.get("cut_before") or len(frags[-1]) + len(hdr) + ((2 if wide else 1) if n else 0) > lim:
            new_frag("between")
        frags[-1] += hdr
        ci = 0
        for i in range(n):
            while ci < len(cuts) and cuts[ci][0] == i:            # explicit cut(s) before character i
                if ci > 0 and cuts[ci - 1][0] == i:
                    bump("flag-only-continue")
                new_frag("chars")
                if i > 0 and 0xD800 <= units[i - 1] < 0xDC00 and 0xDC00 <= units[i] < 0xE000:
                    bump("chars-inside-pair")
                wide = seg_wide(i, cuts[ci][1])
                frags[-1].append(1 if wide else 0)
                ci += 1
            if len(frags[-1]) + (2 if wide else 1) > lim:          # forced by the record limit
                new_frag("chars")
                frags[-1].append(1 if wide else 0)
            frags[-1] += struct.pack("<H", units[i]) if wide else bytes([units[i]])
        ti = 0
        for j in range(len(tail)):
            while ti < len(tcuts) and tcuts[ti] == j:
                if ti > 0 and tcuts[ti - 1] == j:
                    bump("empty-continue")
                new_frag("runs" if j < nruns else "ext")
                ti += 1
            if len(frags[-1]) + 1 > lim:
                new_frag("runs" if j < nruns else "ext")
            frags[-1].append(tail[j])
    st["records"] = st.get("records", 0) + len(frags)
    assert all(len(f) <= 0xFFFF for f in frags)
    return rec(0x00FC, bytes(frags[0])) + b"".join(rec(0x003C, bytes(f)) for f in frags[1:])

def sst_records(strings, cut=None, rng=None, stats=None):
    """SST + CONTINUE records.  cut = maximum record body (default 8224).  A cut inside the
    characters of a string restarts with a one-byte fHighByte flag (chosen per fragment:
    compressed when every remaining unit is < 256 and rng says so).  Entries given as dicts carry
    an explicit layout (rich runs, ExtRst, cuts anywhere); plain entries are written as before."""
    lim = cut or MAXREC
    assert lim >= 16
    if any(isinstance(e, dict) for e in strings):
        return _sst_records_ex(strings, lim, rng, stats)
    frags = [bytearray(struct.pack("<II", len(strings), len(strings)))]
    for s in strings:
        units = _units(s)
        wide = any(u > 255 for u in units) or (rng is not None and rng.random() < 0.5)
        hdr = struct.pack("<HB", len(units), 1 if wide else 0)
        if len(frags[-1]) + len(hdr) + (2 if wide else 1) * (1 if units else 0) > lim:
            frags.append(bytearray())
        frags[-1] += hdr
        i = 0
        while i < len(units):
            w = 2 if wide else 1
            if len(frags[-1]) + w > lim:
                frags.append(bytearray())
                wide = any(u > 255 for u in units[i:]) or (rng is not None and rng.random() < 0.5)
                frags[-1].append(1 if wide else 0)
                w = 2 if wide else 1
            if not wide and units[i] > 255:      # switch to 16-bit needs a new fragment
                frags.append(bytearray())
                wide = True
                frags[-1].append(1)
            frags[-1] += struct.pack("<H", units[i]) if wide else bytes([units[i]])
            i += 1
    return rec(0x00FC, bytes(frags[0])) + b"".join(rec(0x003C, bytes(f)) for f in frags[1:])

# ------------------------------------------------------------------ workbook stream
# The CodePage record ([MS-XLS] 2.4.52) of a BIFF8 workbook may name any code page - Excel writes 1200,
# JExcelApi 1252 (tests/sheet_name_parsing.xls of the repository), localised writers their ANSI / DBCS
# page, some UTF-8 - or be missing; BIFF8 text is Unicode whatever it says (audit-2 finding XLS-1: the
# reader used to decode every string through it).  A workbook description without a "codepage" key gets
# one of these, chosen by a hash of the description (no PRNG draw: the callers' case sequences stay as
# they were); 437 / 0 / 54321 / 65535 are values the `codepage` crate does not know.
CODEPAGES = [1200, 1200, 1200, 1252, 1252, 1251, 1250, 932, 936, 949, 950, 874, 65001, 10000, 1201, 437,
             0, 54321, 65535, None, None]

def default_codepage(wb):
    import zlib
    return CODEPAGES[zlib.crc32(repr(sorted((k, repr(v)) for k, v in wb.items())).encode("utf-8", "replace")) % len(CODEPAGES)]

def workbook_stream(wb, opts=None, rng=None):
    opts = opts or {}
    pre = bof(0x0005)
    if wb.get("filepass") is not None:
        pre += rec(0x002F, wb["filepass"])
    cp = wb["codepage"] if "codepage" in wb else default_codepage(wb)
    if cp is not None:
        pre += rec(0x0042, struct.pack("<H", cp))
    if wb.get("date1904") or opts.get("always_1904"):
        pre += rec(0x0022, struct.pack("<H", 1 if wb.get("date1904") else 0))
    for ifmt, s in sorted(wb.get("formats", {}).items()):
        u = units_of(s)
        pre += rec(0x041E, struct.pack("<H", ifmt) + xl_unicode(u, any(x > 255 for x in u)))
    for ifmt in wb.get("xfs", []):
        pre += rec(0x00E0, struct.pack("<HHHHHHIIH", 0, ifmt, 0x0001, 0x0020, 0, 0, 0, 0, 0x20C0))
    post = b""
    if wb.get("externsheet") is not None:
        xt = wb["externsheet"]
        post += rec(0x01AE, struct.pack("<HH", len(wb["sheets"]), 0x0401))          # internal SUPBOOK
        post += rec(0x0017, struct.pack("<H", len(xt)) + b"".join(struct.pack("<Hhh", *x) for x in xt))
    for name, rgce in wb.get("names", []):
        u = units_of(name)
        wide = any(x > 255 for x in u)
        body = struct.pack("<HBBHHHBBBB", 0, 0, len(u), len(rgce), 0, 0, 0, 0, 0, 0)
        body += bytes([1 if wide else 0]) + (b"".join(struct.pack("<H", x) for x in u) if wide else bytes(u))
        post += rec(0x0018, body + bytes(rgce))
    if "sst" in wb:
        post += sst_records(wb["sst"], opts.get("sst_cut"), rng, opts.get("sst_stats"))
    post += b"".join(rec(t, b) for t, b in wb.get("globals_extra", []))
    post += rec(0x000A)
    subs = [sheet_stream(s) for s in wb["sheets"]]
    def bound(pos, s):
        u = units_of(s.get("name", "Sheet"))
        return rec(0x0085, struct.pack("<IBB", pos, s.get("visible", 0), s.get("type", 0)) +
                   short_xl_unicode(u, any(x > 255 for x in u)))
    blen = sum(len(bound(0, s)) for s in wb["sheets"])
    base = len(pre) + blen + len(post)
    # the sheet substreams may be stored in any order: lbPlyPos says where each one starts (a
    # deterministic permutation of the physical order for every third workbook with several sheets)
    order = list(range(len(subs)))
    if len(subs) > 1 and (base + len(subs)) % 3 == 0 and not opts.get("sheets_in_order"):
        k = 1 + base % (len(subs) - 1)
        order = order[k:] + order[:k]
    offs, p = [0] * len(subs), base
    for i in order:
        offs[i] = p
        p += len(subs[i])
    stream = pre + b"".join(bound(o, s) for o, s in zip(offs, wb["sheets"])) + post + b"".join(subs[i] for i in order)
    if opts.get("pad_to") and len(stream) < opts["pad_to"]:
        stream += b"\0" * (opts["pad_to"] - len(stream))
    return stream, offs

# ------------------------------------------------------------------ compound file
FREE, EOC, FATSECT = 0xFFFFFFFF, 0xFFFFFFFE, 0xFFFFFFFD

def cfb_wrap(streams, version=3, rng=None, shuffle=False, extra_free=0, links=True):
    """streams: [(name, bytes)] at the root.  Streams below 4096 bytes go to the mini stream.
    shuffle (needs rng) permutes sector assignment; chains stay valid."""
    ss = 512 if version == 3 else 4096
    big = [(n, b) for n, b in streams if len(b) >= 4096]
    small = [(n, b) for n, b in streams if len(b) < 4096]
    nmini = sum((len(b) + 63) // 64 for _, b in small)
    order = list(range(nmini))
    if shuffle and rng:
        rng.shuffle(order)
    mini = bytearray(nmini * 64)
    minifat = [FREE] * nmini
    mini_start, k = {}, 0
    for n, b in small:
        cnt = (len(b) + 63) // 64
        ids = order[k:k + cnt]
        k += cnt
        mini_start[n] = ids[0] if ids else EOC
        for i, sid in enumerate(ids):
            chunk = b[i * 64:(i + 1) * 64]
            mini[sid * 64:sid * 64 + len(chunk)] = chunk
            minifat[sid] = ids[i + 1] if i + 1 < len(ids) else EOC
    objs = [("s:" + n, bytes(b)) for n, b in big]
    if nmini:
        objs.append(("mini", bytes(mini)))
        mf = b"".join(struct.pack("<I", x) for x in minifat)
        objs.append(("minifat", mf.ljust(((len(mf) + ss - 1) // ss) * ss, b"\xff")))
    ndir = 1 + len(streams)
    dir_secs = (ndir * 128 + ss - 1) // ss
    objs.append(("dir", b"\0" * (dir_secs * ss)))
    ndata = sum((len(b) + ss - 1) // ss for _, b in objs) + extra_free
    nfat = 1
    while nfat * (ss // 4) < ndata + nfat:
        nfat += 1
    assert nfat <= 109, "stream too large for a DIFAT-less container"
    total = ndata + nfat
    ids = list(range(total))
    if shuffle and rng:
        rng.shuffle(ids)
    fat = [FREE] * (nfat * (ss // 4))
    fat_ids, p = ids[:nfat], nfat
    for f in fat_ids:
        fat[f] = FATSECT
    chains = {}
    for name, b in objs:
        cnt = (len(b) + ss - 1) // ss
        c = ids[p:p + cnt]
        p += cnt
        chains[name] = c
        for i, sid in enumerate(c):
            fat[sid] = c[i + 1] if i + 1 < len(c) else EOC
    sectors = [b"\0" * ss for _ in range(total)]
    for name, b in objs:
        if name == "dir":
            continue
        for i, sid in enumerate(chains[name]):
            sectors[sid] = b[i * ss:(i + 1) * ss].ljust(ss, b"\0")
    def dirent(name, typ, start, size, child=FREE, left=FREE, right=FREE):
        n = name.encode("utf-16-le") + b"\0\0"
        return (n.ljust(64, b"\0") + struct.pack("<H", len(n)) + bytes([typ, 1]) +
                struct.pack("<III", left, right, child) + b"\0" * 36 +
                struct.pack("<I", start) + struct.pack("<Q", size))
    # a right-leaning sibling chain under the root (readers that walk the tree and readers that
    # scan the entry array both find every stream)
    ents = []
    for i, (n, b) in enumerate(streams):
        start = chains["s:" + n][0] if len(b) >= 4096 else mini_start[n]
        ents.append(dirent(n, 2, start, len(b), right=(i + 2 if links and i + 1 < len(streams) else FREE)))
    # links=False: no hierarchy written at all (the reader then finds entries by name alone): used
    # when the streams of a storage tree (a VBA project) are put side by side at the root
    root = dirent("Root Entry", 5, chains["mini"][0] if nmini else EOC, nmini * 64,
                  child=(1 if streams and links else FREE))
    d = (root + b"".join(ents)).ljust(dir_secs * ss, b"\0")
    for i, sid in enumerate(chains["dir"]):
        sectors[sid] = d[i * ss:(i + 1) * ss]
    fb = b"".join(struct.pack("<I", x) for x in fat)
    for i, sid in enumerate(fat_ids):
        sectors[sid] = fb[i * ss:(i + 1) * ss]
    hdr = bytes.fromhex("D0CF11E0A1B11AE1") + b"\0" * 16
    hdr += struct.pack("<HHHHH", 0x3E, version, 0xFFFE, 9 if version == 3 else 12, 6) + b"\0" * 6
    hdr += struct.pack("<III", 0 if version == 3 else dir_secs, nfat, chains["dir"][0])
    hdr += struct.pack("<II", 0, 4096)
    hdr += struct.pack("<II", chains["minifat"][0] if nmini else EOC, len(chains["minifat"]) if nmini else 0)
    hdr += struct.pack("<II", EOC, 0)
    hdr += b"".join(struct.pack("<I", x) for x in fat_ids) + struct.pack("<I", FREE) * (109 - nfat)
    assert len(hdr) == 512
    return hdr.ljust(ss, b"\0") + b"".join(sectors)

def write_xls(wb, opts=None, rng=None):
    opts = opts or {}
    stream, _ = workbook_stream(wb, opts, rng)
    cfb = dict(opts.get("cfb", {}))
    extra = list(opts.get("extra_streams", []))
    return cfb_wrap([(opts.get("stream_name", "Workbook"), stream)] + extra, rng=rng, **cfb)
