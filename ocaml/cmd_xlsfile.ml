(* Whole-file composition (xls): the extracted XlsFile.v.
     xlsfile stream <tail…>                  -> <hex of the Workbook stream>|<lbPlyPos,…>
     xlsfile enc <book 0/1> <ss> <storages> <pre> <post> <parents> <layout> <links> <tail…>
                                             -> <hex of the file>|<legal 0/1>|<fuel>|spec=<answer>
        storages / streams / parents / layout / links as in cmd_cfb.ml (the Workbook stream is put
        between the <pre> and <post> streams; the layout counts it there)
     xlsfile open <hex of a file> <fuel>     -> <answer>
   tail (the logical workbook and the choices below the container):
     <1904 0/1> <strings> <sst total> <sst layouts> <sst at> <j0> <j1> <j2> <j3> <omit1904 0/1>
     <sheet> … <sheet>
        strings / layouts as in cmd_c12.ml (c12_sstenc); j0..j3: '-' or ';'-separated
          J <typ> <hex> | X <ifnt> <ifmt> <hex> | F <ifmt> <wide 0/1> <hex utf8>
        sheet: <name hex utf8> <v|h|vh> <ws|mac|chart|vba> <wide 0/1> <hi> <hex after EOF>#<items>
          items as in cmd_biffrec.ml (biffrec enc)
     The style table is read off the XF / FORMAT items; the cells of the logical workbook are
     what the items denote (BiffRec.logical under env_of); lbPlyPos is set by set_positions.
   answer = what `open xls <path> meta;names;range <n1>;range <n2>…` prints in the harness:
     <name hex>:<v|h|vh>:<ws|…>,… ;; <name hex>=<formula hex>,… ;; R[…] ;; R[…] …
     openerr:password | openerr:other | panic | fuel for a failing open; unmodelled where a
     component model declines the input (VBA project storage, non-BIFF8 BOF). *)
open Conv
open BinNums
open Prelude
open XlsFile

let b01 b = if b then "1" else "0"
let fdiv100 = Cmd_biffrec.fdiv100
let decode16 = Cmd_biffrec.decode16
let show_f64 = Cmd_meta.show_f64
let hexarg = Cmd_biffrec.hexarg

let split c s = if s = "" || s = "-" then [] else String.split_on_char c s

let gitem_of_str (s : string) : gitem =
  match String.split_on_char ' ' s with
  | ["J"; t; h] -> GJunk (n_of_string t, hexarg h)
  | ["X"; a; b; h] -> GXf (n_of_string a, n_of_string b, hexarg h)
  | ["F"; i; w; h] -> GFormat (n_of_string i, w = "1", scalars_of_hex (if h = "-" then "" else h))
  | _ -> failwith "bad globals item"
let gitems (s : string) : gitem list = List.map gitem_of_str (split ';' s)

let vis_of = function "h" -> Meta.Hidden | "vh" -> Meta.VeryHidden | _ -> Meta.Visible
let kind_of = function
  | "mac" -> Meta.MacroSheet | "chart" -> Meta.ChartSheet | "vba" -> Meta.Vba | "dlg" -> Meta.DialogSheet
  | _ -> Meta.WorkSheet
let vis_str = function Meta.Visible -> "v" | Meta.Hidden -> "h" | Meta.VeryHidden -> "vh"
let kind_str = function
  | Meta.WorkSheet -> "ws" | Meta.DialogSheet -> "dlg" | Meta.MacroSheet -> "mac"
  | Meta.ChartSheet -> "chart" | Meta.Vba -> "vba"

let sheet_of_str (s : string) : Meta.meta * sheet_choice =
  let i = String.index s '#' in
  let head = String.sub s 0 i and items = String.sub s (i + 1) (String.length s - i - 1) in
  match String.split_on_char ' ' head with
  | [name; v; k; wide; hi; trailer] ->
    let its = List.map Cmd_biffrec.item_of_str (split ';' items) in
    ({ Meta.m_name = scalars_of_hex (if name = "-" then "" else name); m_vis = vis_of v; m_kind = kind_of k },
     { sc_wide = (wide = "1"); sc_hi = n_of_string hi; sc_pos = N0;
       sc_layout = { BiffRec.l_items = its; l_trailer = hexarg trailer } })
  | _ -> failwith "bad sheet"

let empty_layout : Cfb.layout =
  { Cfb.l_nsect = N0; l_fat_ids = []; l_difat_ids = []; l_dir_ids = []; l_minifat_ids = [];
    l_root_ids = []; l_nmini = N0; l_chains = []; l_slots = []; l_pad = N0; l_size_hi = N0;
    l_empty_start = N0; l_links = [] }

(* the logical workbook and the choice from the tail; the container part is filled by [enc] *)
let parse_tail (tail : string list) : lwb * xchoice =
  match tail with
  | d1904 :: strs :: total :: lays :: sstat :: j0 :: j1 :: j2 :: j3 :: omit :: sheets ->
    let shs = List.map sheet_of_str sheets in
    let j0 = gitems j0 and j1 = gitems j1 and j2 = gitems j2 and j3 = gitems j3 in
    let all = j0 @ j1 @ j2 @ j3 in
    let styles = { NumFmt.customs = gi_formats all; xfs = List.map (fun i -> Some i) (gi_xfs all) } in
    let ch = { xc_sheets = List.map snd shs; xc_names = []; xc_xtis = [];
               xc_j0 = j0; xc_j1 = j1; xc_j2 = j2; xc_j3 = j3; xc_omit_1904 = (omit = "1");
               xc_sst_at = nat_of_int (int_of_string sstat);
               xc_sst_lay = { BiffSst.lay_total = n_of_string total; lay_strs = Cmd_c12.parse_layouts lays };
               xc_book = false; xc_ss = n_of_int 512; xc_storages = []; xc_pre = []; xc_post = [];
               xc_parents = []; xc_layout = empty_layout } in
    let wb0 = { lw_sheets = List.map (fun (m, _) -> { ls_meta = m; ls_cells = [] }) shs;
                lw_names = []; lw_1904 = (d1904 = "1"); lw_styles = styles;
                lw_strings = Cmd_c12.parse_strings strs } in
    let cells = cells_of_choice fdiv100 decode16 wb0 ch in
    let wb = { wb0 with lw_sheets = List.map2 (fun (m, _) c -> { ls_meta = m; ls_cells = c }) shs cells } in
    (wb, ch)
  | _ -> failwith "bad tail"

(* the harness's range_str (cmds/open.rs): all cells, row by row *)
let range_str (r : RK.data Range.range) : string =
  match Range.start r, Range.end_ r with
  | Some (sr, sc), Some (er, ec) ->
    let rows = Range.rows r in
    Printf.sprintf "R[%s,%s,%s,%s|%s]" (string_of_n sr) (string_of_n sc) (string_of_n er) (string_of_n ec)
      (String.concat "/" (List.map (fun row -> String.concat "," (List.map Cmd_biffrec.data_str row)) rows))
  | _ -> "R[-]"

let result_str (r : wbresult) : string =
  String.concat ";;"
    ([ String.concat "," (List.map (fun m ->
           hex_of_scalars m.Meta.m_name ^ ":" ^ vis_str m.Meta.m_vis ^ ":" ^ kind_str m.Meta.m_kind) r.wr_sheets);
       String.concat "," (List.map (fun (n, f) -> hex_of_scalars n ^ "=" ^ hex_of_scalars f) r.wr_names) ]
     @ List.map (fun (_, rg) -> range_str rg) r.wr_ranges)

let outcome_str (o : wbresult outcome) : string =
  match o with
  | Ok r -> result_str r
  | Err e -> if int_of_n e = 5 then "openerr:password"
             else if int_of_n e = 99 then "unmodelled"      (* a _VBA_PROJECT_CUR storage, a BIFF5 BOF *)
             else "openerr:other"
  | Panic -> "panic"
  | OutOfFuel -> "fuel"

let run (args : string list) : string =
  match args with
  | "stream" :: tail ->
    let wb, ch0 = parse_tail tail in
    let ch = set_positions wb ch0 in
    Cmd_cfb.hex_of_bytes_fast (xls_stream_write wb ch) ^ "|" ^
    String.concat "," (List.map (fun sc -> string_of_n sc.sc_pos) ch.xc_sheets)
  | "enc" :: book :: ss :: storages :: pre :: post :: parents :: lay :: links :: tail ->
    let wb, ch0 = parse_tail tail in
    let cpre = Cmd_cfb.parse_container ss storages pre parents in
    let cpost = Cmd_cfb.parse_container ss "-" post "-" in
    let ch1 = { ch0 with xc_book = (book = "1"); xc_ss = cpre.Cfb.c_ss; xc_storages = cpre.Cfb.c_storages;
                         xc_pre = cpre.Cfb.c_streams; xc_post = cpost.Cfb.c_streams;
                         xc_parents = cpre.Cfb.c_parents; xc_layout = Cmd_cfb.parse_layout lay links } in
    let ch = set_positions wb ch1 in
    let file = xls_file_write wb ch in
    String.concat "|" [
      Cmd_cfb.hex_of_bytes_fast file;
      b01 (xfile_legalb wb ch);
      string_of_int (int_of_nat (Cfb.fuel_for ch.xc_layout));
      "spec=" ^ result_str (spec_result show_f64 wb ch) ]
  | ["open"; hx; fuel] ->
    outcome_str (xls_open_model fdiv100 decode16 show_f64 (nat_of_int (int_of_string fuel))
                   (Cmd_cfb.bytes_of_hex_shared hx))
  | _ -> "bad-args"

let () = Registry.register "xlsfile" run
let init () = ()
