(* C07, cache part: run a call history on the extracted cached-reader state machine
   (ReaderCache.krun) with symbolic file semantics.  The merged-region table and the table list of
   the file are the unit value (what matters is WHETHER a cache holds the file's table); the
   answer of a cache-free call is the pair (option in force, index of the call).
   readercache <m1|m0> <t1|t0> <ops>     ops separated by ';':
     hdr <n|-> | loadmerges | rawmerges | rawmergesby <x> | loadtables | rawtables |
     rawtablesin <x> | rawtable <x> | any other call text
   answer per op, joined by ';':  - | loaded:<0|1> | panic | M | MB:<x> | TN | TI:<x> | TB:<h>:<x> | R:<h>
   (<h> = d for the default option, else the header row) *)
open Conv
open ReaderCache
open HeaderRow

let hs h = match h with FirstNonEmptyRow -> "d" | HRow n -> string_of_n n

let run_ops args =
  match args with
  | [fm; ft; ops] ->
    let file_merged = if fm = "m1" then Some () else None in
    let file_tables = if ft = "t1" then Some () else None in
    let ops = if ops = "" then [] else String.split_on_char ';' ops in
    let arg s k = String.sub s k (String.length s - k) in
    let starts s p = String.length s >= String.length p && String.sub s 0 (String.length p) = p in
    let parse (i : int) (s : string) =
      if starts s "hdr " then
        let a = arg s 4 in KSetHeader (if a = "-" then FirstNonEmptyRow else HRow (n_of_string a))
      else if s = "loadmerges" then KLoadMerged
      else if s = "rawmerges" then KMergedAll
      else if starts s "rawmergesby " then KMergedBy (arg s 12)
      else if s = "loadtables" then KLoadTables
      else if s = "rawtables" then KTableNames
      else if starts s "rawtablesin " then KTablesIn (arg s 12)
      else if starts s "rawtable " then KTableBy (arg s 9)
      else KOther i in
    let kops = List.mapi parse ops in
    let sem h (_c : int) = h in
    let (_, ans) = krun file_merged file_tables sem kinit kops in
    String.concat ";" (List.map (fun a ->
        match a with
        | ANone -> "-"
        | ALoaded b -> if b then "loaded:1" else "loaded:0"
        | AMerged () -> "M"
        | AMergedBy ((), n) -> "MB:" ^ n
        | ATableNames () -> "TN"
        | ATablesIn ((), n) -> "TI:" ^ n
        | ATableBy ((), h, n) -> "TB:" ^ hs h ^ ":" ^ n
        | AResult h -> "R:" ^ hs h
        | APanic -> "panic") ans)
  | _ -> "badargs"

let () = Registry.register "readercache" run_ops
let init () = ()
