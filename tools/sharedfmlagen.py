"""sharedfmlagen — generator for property C15: formulas over the token grammar of
coq/theories/SharedFmla.v (render / translate written independently here and cross-checked
against the Coq spec on every case), and a minimal .xlsx writer for sheets whose cells carry
plain formulas, shared-formula masters (<f t="shared" ref=".." si="..">) and members
(<f t="shared" si=".."/>)."""
import zipfile

MAX_ROWS, MAX_COLS = 1048576, 16384

# ----------------------------------------------------------------------------- A1 helpers
def letters(c):
    s = ""
    c += 1
    while c > 0:
        s = chr(65 + (c - 1) % 26) + s
        c = (c - 1) // 26
    return s

def a1(r, c):
    return letters(c) + str(r + 1)

# ----------------------------------------------------------------------------- tokens
# ("R", cabs, col, rabs, row) ("S", quoted, name) ("F", name) ("N", name)
# ("M", ip, fp|None, ex|None) with ex = (neg, digits)   ("Q", s)  ("Y", ch)  ("E", k)
ERRS = ["#NULL!", "#DIV/0!", "#VALUE!", "#REF!", "#NAME?", "#NUM!", "#N/A"]

def render(t):
    k = t[0]
    if k == "R":
        _, ca, c, ra, r = t
        return ("$" if ca else "") + letters(c) + ("$" if ra else "") + str(r + 1)
    if k == "S":
        return ("'" + t[2].replace("'", "''") + "'!") if t[1] else (t[2] + "!")
    if k == "F":
        return t[1] + "("
    if k == "N":
        return t[1]
    if k == "M":
        _, ip, fp, ex = t
        s = ip
        if fp is not None:
            s += "." + fp
        if ex is not None:
            s += "E" + ("-" if ex[0] else "+") + ex[1]
        return s
    if k == "Q":
        return '"' + t[1].replace('"', '""') + '"'
    if k == "Y":
        return t[1]
    if k == "E":
        return ERRS[t[1]]
    raise ValueError(k)

def render_all(ts):
    return "".join(render(t) for t in ts)

def translate(ts, dr, dc):
    out = []
    for t in ts:
        if t[0] == "R":
            _, ca, c, ra, r = t
            out.append(("R", ca, c if ca else max(c + dc, 0), ra, r if ra else max(r + dr, 0)))
        else:
            out.append(t)
    return out

def in_range(ts, dr, dc):
    if not (-MAX_ROWS < dr < MAX_ROWS and -MAX_COLS < dc < MAX_COLS):
        return False
    for t in ts:
        if t[0] == "R":
            _, ca, c, ra, r = t
            if not (c < MAX_COLS and r < MAX_ROWS):
                return False
            if not ca and not (0 <= c + dc < MAX_COLS):
                return False
            if not ra and not (0 <= r + dr < MAX_ROWS):
                return False
    return True

def hx(s):
    return s.encode("utf-8").hex()

def wire_token(t):
    k = t[0]
    if k == "R":
        return "R%d%d:%d:%d" % (t[1], t[3], t[2], t[4])
    if k == "S":
        return "S%d:%s" % (t[1], hx(t[2]))
    if k in ("F", "N", "Q"):
        return "%s:%s" % (k, hx(t[1]))
    if k == "M":
        _, ip, fp, ex = t
        return "M:%s:%s:%s" % (hx(ip), "-" if fp is None else hx(fp),
                                "-" if ex is None else ("~" if ex[0] else "+") + hx(ex[1]))
    if k == "Y":
        return "Y:%d" % ord(t[1])
    if k == "E":
        return "E:%d" % t[1]
    raise ValueError(k)

def wire_tokens(ts):
    return ",".join(wire_token(t) for t in ts)

# ----------------------------------------------------------------------------- formula generator
FUNCS_SAFE = ["SUM", "IF", "MAX", "MIN", "AVERAGE", "VLOOKUP", "INDEX", "ROUND", "LOG", "ATAN", "DAYS360",
              "_xlfn.STDEV.S", "IFERROR", "COUNTIFS", "T.DIST.2T", "DEC2BIN", "IMLOG10", "SUMXMY2", "N"]
FUNCS_LOOKALIKE = ["LOG10", "ATAN2", "SUMX2MY2", "SUMX2PY2"]
NAMES_SAFE = ["rate", "TRUE", "FALSE", "Total", "my_rate", "Sales.Total", "_x", "tax_rate", "AAAAA1", "Data2024"]
NAMES_LOOKALIKE = ["my_A1", "Sales.Q1", "tax1", "x_B2", "AAAA1"]
SHEETS_SAFE = [(0, "Sheet1"), (0, "Data"), (1, "My Sheet"), (1, "Bob's"), (0, "Sheet10"), (1, "2024 data"),
               (0, "Data2024"), (1, "a \"b\" c")]
SHEETS_LOOKALIKE = [(1, "Q1"), (1, "My Q1"), (1, "FY24"), (0, "P1x_Q2"), (1, "A1 B2")]
SHEETS_OVERFLOW = [(0, "Revenue2024"), (1, "Accounts2023 v2"), (0, "Quarterly1")]
SHEETS_QUOTE = [(1, 'a"b'), (1, 'x "y'), (1, '5" pipe')]
NONASCII_STR = ["é", "naïve", "日本", "€5", "Ł1", "ǃƂ", "😀"]
OPS = ["+", "-", "*", "/", "^", "&", "=", "<", ">", "<=", ">=", "<>"]

def sym_tokens(s):
    return [("Y", ch) for ch in s]

class FormulaGen:
    """formulas from the grammar; `stream` selects a known class to visit (None = known-free)"""
    def __init__(self, rng, base=(0, 0), span=12, stream=None, abs_ok=True, mixed_ok=False):
        self.rng, self.base, self.span, self.stream = rng, base, span, stream
        self.abs_ok, self.mixed_ok = abs_ok, mixed_ok
        self.used_stream = False

    def ref(self):
        rng = self.rng
        r = min(max(self.base[0] + rng.randrange(-2, self.span), 0), MAX_ROWS - 1)
        c = min(max(self.base[1] + rng.randrange(-2, self.span), 0), MAX_COLS - 1)
        if rng.random() < 0.04:
            r = rng.choice([0, MAX_ROWS - 1, 99999, 999999])
        if rng.random() < 0.04:
            c = rng.choice([0, MAX_COLS - 1, 25, 26, 701, 702])
        ca = ra = 0
        if self.stream == "mixed" and (not self.used_stream or rng.random() < 0.3):
            ca, ra = rng.choice([(0, 1), (1, 0)])
            self.used_stream = True
        elif self.abs_ok and rng.random() < 0.25:
            if self.mixed_ok and rng.random() < 0.5:
                ca, ra = rng.choice([(0, 1), (1, 0)])
            else:
                ca = ra = 1
        return ("R", ca, c, ra, r)

    def sheet_prefix(self):
        rng = self.rng
        if self.stream in ("lookalike", "overflow", "quote", "nonascii") and not self.used_stream and rng.random() < 0.5:
            self.used_stream = True
            if self.stream == "nonascii":
                return ("S", 1, rng.choice(["Données", "シート1", "Übersicht 1"]))
            q, n = rng.choice({"lookalike": SHEETS_LOOKALIKE, "overflow": SHEETS_OVERFLOW,
                               "quote": SHEETS_QUOTE}[self.stream])
            return ("S", q, n)
        q, n = rng.choice(SHEETS_SAFE)
        return ("S", q, n)

    def operand(self, depth):
        rng = self.rng
        x = rng.random()
        if x < 0.38:
            ts = [self.ref()]
            if rng.random() < 0.25:
                ts += [("Y", ":"), self.ref()]
            if rng.random() < 0.2:
                ts = [self.sheet_prefix()] + ts
            return ts
        if x < 0.50:
            return [self.number()]
        if x < 0.60:
            return [self.string()]
        if x < 0.68:
            return [self.name()]
        if x < 0.72:
            return [("E", rng.randrange(7))]
        if x < 0.80 or depth <= 0:
            return [("Y", "(")] + self.expr(depth - 1) + [("Y", ")")]
        # function call
        args = []
        for i in range(rng.randrange(1, 4)):
            if i:
                args += [("Y", ",")] + ([("Y", " ")] if rng.random() < 0.2 else [])
            args += self.expr(depth - 1)
        return [("F", self.func())] + args + [("Y", ")")]

    def func(self):
        if self.stream == "lookalike" and not self.used_stream and self.rng.random() < 0.6:
            self.used_stream = True
            return self.rng.choice(FUNCS_LOOKALIKE)
        return self.rng.choice(FUNCS_SAFE)

    def name(self):
        if self.stream == "lookalike" and not self.used_stream and self.rng.random() < 0.6:
            self.used_stream = True
            return ("N", self.rng.choice(NAMES_LOOKALIKE))
        if self.stream == "nonascii" and not self.used_stream and self.rng.random() < 0.4:
            self.used_stream = True
            return ("N", self.rng.choice(["größe", "税率", "Año"]))
        return ("N", self.rng.choice(NAMES_SAFE))

    def number(self):
        rng = self.rng
        if self.stream == "overflow" and not self.used_stream and rng.random() < 0.6:
            self.used_stream = True
            return ("M", rng.choice(["1000000000", "12345678901", "4294967296"]), None, None)
        ip = str(rng.choice([0, 1, 2, 10, 100, 365, 1024, 999999999, rng.randrange(10 ** rng.randrange(1, 10))]))
        fp = str(rng.randrange(1000)) if rng.random() < 0.3 else None
        ex = (rng.random() < 0.5, str(rng.randrange(1, 300))) if rng.random() < 0.15 else None
        return ("M", ip, fp, ex)

    def string(self):
        rng = self.rng
        if self.stream == "nonascii" and not self.used_stream and rng.random() < 0.7:
            self.used_stream = True
            return ("Q", rng.choice(NONASCII_STR))
        return ("Q", rng.choice(["", "A1", "x", "B2:C3", 'say "hi"', "a,b", "$A$1+1", "LOG10(", "'Q1'!A1",
                                 "100%", "it's", "A1 \"\" B1"]))

    def expr(self, depth):
        rng = self.rng
        ts = []
        if rng.random() < 0.1:
            ts += [("Y", "-")]
        ts += self.operand(depth)
        for _ in range(rng.choice([0, 0, 1, 1, 2])):
            op = rng.choice(OPS)
            sp = rng.random() < 0.15
            ts += ([("Y", " ")] if sp else []) + sym_tokens(op) + ([("Y", " ")] if sp else [])
            ts += self.operand(depth)
        if rng.random() < 0.05:
            ts += [("Y", "%")]
        return ts

    def formula(self):
        for _ in range(20):
            self.used_stream = False
            ts = self.expr(2)
            if self.stream is None or self.used_stream:
                return ts
        # force one item of the stream
        extra = {"mixed": lambda: [self.ref()],
                 "lookalike": lambda: [("F", "LOG10"), self.ref(), ("Y", ")")],
                 "nonascii": lambda: [("Q", "é")],
                 "quote": lambda: [("S", 1, 'a"b'), self.ref()],
                 "overflow": lambda: [("M", "1000000000", None, None)]}[self.stream]
        self.used_stream = False
        return ts + [("Y", "+")] + extra()

# ----------------------------------------------------------------------------- xlsx writer
def esc_text(s):
    return s.replace("&", "&amp;").replace("<", "&lt;").replace(">", "&gt;")

def esc_attr(s):
    return esc_text(s).replace('"', "&quot;")

CT = ('<?xml version="1.0" encoding="UTF-8" standalone="yes"?>'
      '<Types xmlns="http://schemas.openxmlformats.org/package/2006/content-types">'
      '<Default Extension="rels" ContentType="application/vnd.openxmlformats-package.relationships+xml"/>'
      '<Default Extension="xml" ContentType="application/xml"/>'
      '<Override PartName="/xl/workbook.xml" ContentType="application/vnd.openxmlformats-officedocument.spreadsheetml.sheet.main+xml"/>'
      '<Override PartName="/xl/worksheets/sheet1.xml" ContentType="application/vnd.openxmlformats-officedocument.spreadsheetml.worksheet+xml"/>'
      '</Types>')
RELS = ('<?xml version="1.0" encoding="UTF-8" standalone="yes"?>'
        '<Relationships xmlns="http://schemas.openxmlformats.org/package/2006/relationships">'
        '<Relationship Id="rId1" Type="http://schemas.openxmlformats.org/officeDocument/2006/relationships/officeDocument" Target="xl/workbook.xml"/>'
        '</Relationships>')
WBRELS = ('<?xml version="1.0" encoding="UTF-8" standalone="yes"?>'
          '<Relationships xmlns="http://schemas.openxmlformats.org/package/2006/relationships">'
          '<Relationship Id="rId1" Type="http://schemas.openxmlformats.org/officeDocument/2006/relationships/worksheet" Target="worksheets/sheet1.xml"/>'
          '</Relationships>')

def workbook_xml(name):
    return ('<?xml version="1.0" encoding="UTF-8" standalone="yes"?>'
            '<workbook xmlns="http://schemas.openxmlformats.org/spreadsheetml/2006/main" '
            'xmlns:r="http://schemas.openxmlformats.org/officeDocument/2006/relationships">'
            '<sheets><sheet name="%s" sheetId="1" r:id="rId1"/></sheets></workbook>' % esc_attr(name))

def sheet_xml(cells, rng=None):
    """cells: list of (row, col, kind) in document order (sorted by row, then column);
    kind = ("none",) | ("plain", text) | ("master", si, ref_text, text) | ("member", si, own) |
    ("bad",)"""
    out = ['<?xml version="1.0" encoding="UTF-8" standalone="yes"?>'
           '<worksheet xmlns="http://schemas.openxmlformats.org/spreadsheetml/2006/main">']
    if cells:
        r0 = min(c[0] for c in cells); r1 = max(c[0] for c in cells)
        c0 = min(c[1] for c in cells); c1 = max(c[1] for c in cells)
        out.append('<dimension ref="%s:%s"/>' % (a1(r0, c0), a1(r1, c1)))
    out.append("<sheetData>")
    cur = None
    for (r, c, kind) in cells:
        if r != cur:
            if cur is not None:
                out.append("</row>")
            out.append('<row r="%d">' % (r + 1))
            cur = r
        f = ""
        k = kind[0]
        if k == "plain":
            f = "<f>%s</f>" % esc_text(kind[1])
        elif k == "master":
            f = '<f t="shared" ref="%s" si="%d">%s</f>' % (esc_attr(kind[2]), kind[1], esc_text(kind[3]))
        elif k == "member":
            if kind[2] == "" and (rng is None or rng.random() < 0.8):
                f = '<f t="shared" si="%d"/>' % kind[1]
            else:
                f = '<f t="shared" si="%d">%s</f>' % (kind[1], esc_text(kind[2]))
        elif k == "bad":
            f = '<f t="shared"/>'
        out.append('<c r="%s">%s<v>0</v></c>' % (a1(r, c), f))
    if cur is not None:
        out.append("</row>")
    out.append("</sheetData></worksheet>")
    return "".join(out)

def write_xlsx(path, sheet_name, cells, rng=None):
    with zipfile.ZipFile(path, "w", zipfile.ZIP_STORED) as z:
        z.writestr("[Content_Types].xml", CT)
        z.writestr("_rels/.rels", RELS)
        z.writestr("xl/workbook.xml", workbook_xml(sheet_name))
        z.writestr("xl/_rels/workbook.xml.rels", WBRELS)
        z.writestr("xl/worksheets/sheet1.xml", sheet_xml(cells, rng))

def wire_cells(cells):
    out = []
    for (r, c, kind) in cells:
        k = kind[0]
        if k == "none":
            s = "-"
        elif k == "plain":
            s = "P." + hx(kind[1])
        elif k == "master":
            s = "M.%d.%s.%s" % (kind[1], hx(kind[2]), hx(kind[3]))
        elif k == "member":
            s = "m.%d.%s" % (kind[1], hx(kind[2]))
        else:
            s = "B"
        out.append("%d:%d:%s" % (r, c, s))
    return ";".join(out)

def range_text(vals):
    """canonical text of Range::from_sparse over {(r,c): hexstring} (non-empty values only),
    in the format of harness/src/cmds/open.rs range_string_str"""
    vals = {p: v for p, v in vals.items() if v != ""}
    if not vals:
        return "R[-]"
    r0 = min(p[0] for p in vals); r1 = max(p[0] for p in vals)
    c0 = min(p[1] for p in vals); c1 = max(p[1] for p in vals)
    rows = []
    for r in range(r0, r1 + 1):
        rows.append(",".join(vals.get((r, c), "") for c in range(c0, c1 + 1)))
    return "R[%d,%d,%d,%d|%s]" % (r0, c0, r1, c1, "/".join(rows))

def parse_range_text(s):
    """inverse of range_text: {(r,c): hex} or None when s is not a range"""
    if s == "R[-]":
        return {}
    if not (s.startswith("R[") and s.endswith("]") and "|" in s):
        return None
    head, body = s[2:-1].split("|", 1)
    r0, c0, r1, c1 = (int(x) for x in head.split(","))
    out = {}
    for i, row in enumerate(body.split("/")):
        for j, v in enumerate(row.split(",")):
            if v != "":
                out[(r0 + i, c0 + j)] = v
    return out
