# xlsb_1: C14 — PtgMemArea (0x26/0x46/0x66) in a cell formula.
# Excel prefixes every union / intersection / range expression whose operands are constant
# references with PtgMemArea (cce = size of the sub-expression; the pre-computed areas go to rgcb
# as PtgExtraMem); with a non-constant operand it writes PtgMemFunc instead (handled).
# =SUM((A1:A2,C1:C2)) in B5, plus a plain =A1+1 in A5 of the same sheet.
import struct, sys
sys.path.insert(0, '/tmp/ag/audit2/repro')
from xlsb_common import *

def area(r1, r2, c1, c2, ptg=0x25):
    return bytes([ptg]) + struct.pack('<IIHH', r1, r2, c1 | 0xC000, c2 | 0xC000)
sub = area(0, 1, 0, 0) + area(0, 1, 2, 2) + b'\x10'
memarea = b'\x26' + bytes(4) + struct.pack('<H', len(sub))
rgce = memarea + sub + b'\x15' + b'\x42\x01\x04\x00'
# PtgExtraMem: count, then UncheckedRfX (rwFirst, rwLast, colFirst, colLast)
rgcb = struct.pack('<I', 2) + struct.pack('<IIII', 0, 1, 0, 0) + struct.pack('<IIII', 0, 1, 2, 2)
plain = b'\x24' + struct.pack('<IH', 0, 0xC000) + b'\x1e\x01\x00' + b'\x03'

body = (rowhdr(0) + rec(0x0005, cell(0) + struct.pack('<d', 1.0)) + rec(0x0005, cell(2) + struct.pack('<d', 2.0)) +
        rowhdr(4) + rec(0x0009, cell(0) + struct.pack('<d', 2.0) + fml_tail(plain)) +
        rec(0x0009, cell(1) + struct.pack('<d', 3.0) + fml_tail(rgce, rgcb)))
p = OUT + '/xlsb_1_memarea.xlsb'
package(p, [('Sheet1', sheet(body, (0, 4, 0, 2)))])
print('with PtgMemArea   :', pretty(run(p, ['range ' + hx('Sheet1'), 'formula ' + hx('Sheet1')])))

# control: the same formula with PtgMemFunc (what Excel writes when an operand is not constant)
rgce2 = b'\x29' + struct.pack('<H', len(sub)) + sub + b'\x15' + b'\x42\x01\x04\x00'
body2 = (rowhdr(0) + rec(0x0005, cell(0) + struct.pack('<d', 1.0)) +
         rowhdr(4) + rec(0x0009, cell(0) + struct.pack('<d', 2.0) + fml_tail(plain)) +
         rec(0x0009, cell(1) + struct.pack('<d', 3.0) + fml_tail(rgce2)))
p2 = OUT + '/xlsb_1_memfunc.xlsb'
package(p2, [('Sheet1', sheet(body2, (0, 4, 0, 2)))])
print('control PtgMemFunc:', pretty(run(p2, ['formula ' + hx('Sheet1')])))
