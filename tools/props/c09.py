"""C09 — Serde deserialization maps rows to records faithfully.
Correspondence through the public API only: a Range<Data> (any origin, every cell kind), a header
configuration and a target shape go through calamine's RangeDeserializer (vh de) and through the
extracted Coq model De.run_std (vm de); the model side also prints the specification De.spec_std
(records = map row_to_record (rows after the header), size hints = items still to come).
  impl != model  -> the tie between the Coq model and the Rust code is broken (disagreement)
  impl != spec   -> the code breaks the property on that input (violation)"""
import struct
import vlib

U32 = 2**32 - 1
ASSUMPTIONS = [
    "the range is a Range<Data> built through Range::new/set_value or Range::empty (well formed, C05)",
    "serde's visitors for tuples, Vec, derived structs, HashMap, Option and primitives are modelled from serde 1.0.229 / serde_derive semantics (first error wins, missing Option field = None, duplicate field = error, unknown column = IgnoredAny)",
    "decimal text -> f64/f32 (core dec2flt), f64 -> text (core flt2dec shortest), atoi_simd::parse::<i64> and fast_float2::parse are Section variables of the theorems; the correspondence instantiates them with the exact reference versions of DeNum.v",
    "an f32 NaN is compared as 'NaN' (payload of `f64 as f32` not modelled)",
    "DeError::Custom is compared as a class, never by message text",
]

def hx(s):
    return s.encode("utf-8").hex()

def f64bits(x):
    return struct.unpack("<Q", struct.pack("<d", x))[0]

# ---------------------------------------------------------------- cell pools
INTS = [0, 1, -1, 2, 7, 42, 72, 127, 128, -128, -129, 255, 256, 32767, 32768, -32768, -32769, 65535,
        65536, 2**31 - 1, 2**31, -2**31, -2**31 - 1, 2**32 - 1, 2**32, 2**53, 2**53 + 1, -2**53 - 1,
        2**63 - 1, -2**63, 16777217, 16777216, 33554433, 123456789012345678, 2**63 - 513, 2**62 + 2**8]
FLOATS = [0.0, -0.0, 1.0, -1.0, 1.5, -1.5, 0.5, 22.2222, 0.1, 0.2, 0.30000000000000004, 1e21, 1e22, 1e23,
          1e-7, 1e-5, 123456.789, 255.0, 255.9, 256.0, -0.9, 0.9999999999999999, 127.5, 128.0, -128.9,
          -129.0, 3e9, 4294967295.0, 4294967296.0, 1e19, -1e19, 2.0**63, -2.0**63, 2.0**64,
          1.8446744073709552e19, 9.223372036854775e18, 5e-324, 2.2250738585072014e-308,
          1.7976931348623157e308, 1.0 / 3.0, 2.0 / 3.0, 100.0, 1e15, 1e16, 1e17, 9007199254740993.0,
          44197.5, 36526.0, 0.041666666666666664, 3.4028234663852886e38, 3.4028235677973366e38,
          3.5e38, 1e-45, 7e-46, 1.401298464324817e-45, 1.1754943508222875e-38, 16777217.0,
          1.0000000596046448, 1.00000017881393432617187499, 2.0**100, 2.0**-100, 72.0, 1234.5678e-10]
FLOAT_BITS = [0x7FF8000000000000, 0xFFF8000000000000, 0x7FF0000000000001, 0x7FF4000000000123,
              0x7FF0000000000000, 0xFFF0000000000000, 1, 2, 0x000FFFFFFFFFFFFF, 0x0010000000000000,
              0x8000000000000001, 0x36A0000000000000, 0x369FFFFFFFFFFFFF, 0x36A0000000000001,
              0x47EFFFFFF0000000, 0x47EFFFFFEFFFFFFF, 0x3FF0000010000000, 0x3FF0000030000000,
              0x3FF0000010000001, 0x4340000000000000, 0x433FFFFFFFFFFFFF]
NUMSTR = ["42", "-7", "+5", "007", "-0", "+0", "0", "3.14", "1e3", "1E3", "1e+3", "1e-3", " 42", "42 ",
          "0x10", "1_000", "-", "+", "--1", "+-1", "inf", "Inf", "INF", "-inf", "+inf", "infinity",
          "-Infinity", "INFINITY", "infinit", "nan", "NaN", "-nan", "+NAN", "nane", ".5", "5.", "-.5",
          "+5.e2", ".", "e5", ".e5", "1e", "1e+", "1e-", "1.5.2", "1e5e", "256", "255", "-128", "-129",
          "127", "128", "65535", "65536", "32767", "32768", "-32768", "-32769", "2147483647",
          "2147483648", "-2147483648", "-2147483649", "4294967295", "4294967296",
          "9223372036854775807", "9223372036854775808", "-9223372036854775808", "-9223372036854775809",
          "18446744073709551615", "18446744073709551616", "0000000000000000000000000000123",
          "-000000000000000000000000128", "+00000000000000000000000000000000000255",
          "123456789012345678901234567890", "0.30000000000000004", "1.7976931348623157e308",
          "1.7976931348623159e308", "1.797693134862315808e308", "4.9e-324", "2.4703282292062327e-324",
          "2.4703282292062328e-324", "2.47032822920623272088284396434110686182529901307162382212792841250337753635104375932649918180817996189898282347722858865463328355177969898199387398005390939063150356595155702263922908583924491051844359318028499365361525003193704576782492193656236698636584807570015857692699037063119282795585513329278343384093519780155312465972635795746227664652728272200563740064854999770965994704540208281662262378573934507363390079677619305775067401763246736009689513405355374585166611342237666786041621596804619144672918403005300575308490487653917113865916462395249126236538818796362393732804238910186723484976682350898633885879256283027559956575244555072551893136908362547791869486679949683240497058210285131854513962138377228261454376934125320985913276672363281251e-324",
          "1e-400", "1e400", "1e309", "1e308", "0e99999", "1e99999999999999999999", "1e-99999999999999999999",
          "0.000000000000000000000000000000000000000000001e45", "16777217", "16777216.5", "33554433",
          "1.00000017881393432617187499", "1.000000178813934326171875", "1.00000017881393432617187501",
          "3.4028235677973366e38", "3.40282356779733661637539395458142568448e38", "3.4028236e38",
          "1.401298464324817e-45", "7.006492321624085e-46", "7.0064923216240853546186479164495807e-46",
          "7.00649232162408535461864791644958065640130970938257885878534141944895541342930300743319094181060791015626e-46",
          "9007199254740993", "9007199254740992.5", "100000000000000000000000", "1e23", "8.5e22",
          "179769313486231580793728971405303415079934132710037826936173778980444968292764750946649017977587207096330286416692887910946555547851940402630657488671505820681908902000708383676273854845817711531764475730270069855571366959622842914819860834936475292719074168444365510704342711559699508093042880177904174497791.9999999999999999999999999999999999999999999999999999999999999999999999",
          "TRUE", "true", "True", "FALSE", "false", "False", "tRue", "T", "1", "yes"]
WORDS = ["", "x", "y", "é", "€", "😀", " ", "ab", "celsius", "fahrenheit", "hello world", "Red", "Green",
         "Dark Blue", "Blue", "red", " Red", "label", "value", "a", "b", "c", "d", "First Name", "A",
         " c　", " a", "b ", "\tc\n", "x y", " d ", "​", "\u0085a", "᠎"]
ISO = ["2020-01-01T00:00:00", "2021-12-31", "12:34:56", "PT1H30M", "P1D", ""]
HEADER_POOL = ["label", "value", "a", "b", "c", "d", "First Name", " a", "b ", " c　", "", "A",
               "x y", " label ", "value ", "\tvalue", "e", "f", " First Name ", "first", "second",
               "a ", " d ", "B", "1", "true"]

def cell_int(rng):
    return "I%d" % (rng.choice(INTS) if rng.random() < 0.7 else rng.randrange(-2**63, 2**63))
def cell_float(rng):
    r = rng.random()
    if r < 0.55:
        return "F%d" % f64bits(rng.choice(FLOATS) * rng.choice([1, 1, 1, -1]))
    if r < 0.7:
        return "F%d" % rng.choice(FLOAT_BITS)
    if r < 0.85:
        return "F%d" % f64bits(round(rng.uniform(-1000, 1000), rng.randrange(0, 6)))
    if r < 0.93:
        return "F%d" % f64bits(rng.uniform(-1, 1) * 10.0 ** rng.randrange(-30, 40))
    return "F%d" % rng.getrandbits(64)
def rand_numstr(rng):
    r = rng.random()
    if r < 0.5:
        return rng.choice(NUMSTR)
    if r < 0.65:
        return str(rng.choice(INTS))
    if r < 0.8:
        return repr(rng.choice(FLOATS))
    if r < 0.9:
        return "%s%d.%0*de%d" % (rng.choice(["", "-", "+"]), rng.randrange(0, 1000), rng.randrange(1, 25),
                                 rng.randrange(0, 10**20), rng.randrange(-340, 320))
    return "%s%d" % (rng.choice(["", "-", "+"]), rng.randrange(0, 10**rng.randrange(1, 22)))
def cell_string(rng):
    r = rng.random()
    if r < 0.5:
        return "S" + hx(rand_numstr(rng))
    return "S" + hx(rng.choice(WORDS))
def cell_datetime(rng):
    return "D%d:%d:%d" % (f64bits(rng.choice([0.0, -0.0, 44197.5, 1.25, 36526.0, 0.5, -3.0, 1e10, 60.0])),
                          rng.randrange(2), rng.randrange(2))
def cell_any(rng, p_empty=0.18, p_err=0.07):
    r = rng.random()
    if r < p_empty:
        return "E"
    r = rng.random()
    if r < p_err:
        return "X%d" % rng.randrange(8)
    k = rng.choice(["I", "I", "F", "F", "S", "S", "S", "B", "D", "T", "U"])
    if k == "I":
        return cell_int(rng)
    if k == "F":
        return cell_float(rng)
    if k == "S":
        return cell_string(rng)
    if k == "B":
        return "B%d" % rng.randrange(2)
    if k == "D":
        return cell_datetime(rng)
    if k == "T":
        return "T" + hx(rng.choice(ISO))
    return "U" + hx(rng.choice(ISO))

# ---------------------------------------------------------------- shapes
BASE_KINDS = ["bool", "i8", "i16", "i32", "i64", "u8", "u16", "u32", "u64", "f32", "f64", "char", "string",
              "bytes", "bytesref", "unit", "enum", "data", "ign", "i64n", "i64s", "f64n", "f64s"]
OPT_KINDS = ["opt(bool)", "opt(i8)", "opt(i64)", "opt(u8)", "opt(u64)", "opt(f32)", "opt(f64)", "opt(char)",
             "opt(string)", "opt(bytes)", "opt(unit)", "opt(enum)", "opt(data)", "opt(opt(i64))", "nt(i64)",
             "nt(opt(string))", "opt(nt(f64))"]
ALL_KINDS = BASE_KINDS + OPT_KINDS
BARE_KINDS = ["bool", "i64", "u8", "f64", "string", "char", "unit", "data", "enum", "opt(i64)", "bytes"]
STRUCTS = {"S1": ["label", "value"], "S2": ["a", "b", "c", "d"], "S3": ["First Name", "b", "c"],
           "S4": ["a", "b", "c", "d", "label"], "S5": ["value", "label", "a"]}
MIXES = ["M1", "M2", "M3", "M4"]

def gen_shape(rng):
    r = rng.random()
    if r < 0.22:
        return "vec:" + rng.choice(ALL_KINDS)
    if r < 0.32:
        return "t2:" + rng.choice(ALL_KINDS)
    if r < 0.37:
        return "t1:" + rng.choice(ALL_KINDS)
    if r < 0.50:
        return "mix:" + rng.choice(MIXES)
    if r < 0.78:
        return "st:" + rng.choice(sorted(STRUCTS))
    if r < 0.97:
        return "map:" + rng.choice(["data", "data", "opt(i64)", "string", "f64", "i64s", "ign", "opt(data)",
                                    "bool", "u8"])
    return "bare:" + rng.choice(BARE_KINDS)

ORIGINS = [(0, 0), (0, 0), (1, 2), (5, 3), (1048570, 16380), (U32 - 9, U32 - 9), (0, U32 - 6), (U32 - 7, 0),
           (3, 0), (65535, 255)]

def gen_case(rng):
    """returns (range_text, cfg_text, shape_text, meta)"""
    shape = gen_shape(rng)
    fam, arg = shape.split(":")
    cfg_kind = rng.choice(["N", "A", "A", "H", "C", "C", "W"]) if fam != "st" else \
        rng.choice(["N", "A", "A", "H", "C", "W", "W"])
    if rng.random() < 0.03:
        rng_text, h, w = "-", 0, 0
        header = []
    else:
        h, w = rng.randrange(1, 7), rng.randrange(1, 7)
        sr, sc = rng.choice(ORIGINS)
        cells = []
        header = []
        names = list(HEADER_POOL)
        if fam == "st":
            names = STRUCTS[arg] * 4 + HEADER_POOL
        p_err = rng.choice([0.0, 0.0, 0.05, 0.15])
        p_empty = rng.choice([0.05, 0.2, 0.5])
        for i in range(h):
            for j in range(w):
                if i == 0 and cfg_kind != "N":
                    r = rng.random()
                    if r < 0.85:
                        name = rng.choice(names)
                        if rng.random() < 0.12:
                            name = rng.choice([" ", "\t", " ", ""]) + name + rng.choice([" ", "　", ""])
                        c = "S" + hx(name)
                    elif r < 0.985:
                        c = cell_any(rng, 0.2, 0.0)
                    else:
                        c = "X%d" % rng.randrange(8)
                    header.append(c)
                else:
                    c = cell_any(rng, p_empty, p_err)
                cells.append(c)
        rng_text = "%d,%d,%d,%d;%s" % (sr, sc, h, w, ",".join(cells))
    if cfg_kind == "C":
        pool = []
        for c in header:
            if c.startswith("S"):
                pool.append(bytes.fromhex(c[1:]).decode("utf-8"))
        sel = []
        n = rng.randrange(0, 5)
        for _ in range(n):
            r = rng.random()
            if pool and r < 0.8:
                s = rng.choice(pool)
                if rng.random() < 0.5:
                    s = s.strip()
                if rng.random() < 0.2:
                    s = rng.choice([" ", " ", "\n"]) + s + rng.choice([" ", "", " "])
                sel.append(s)
            elif r < 0.93:
                sel.append(rng.choice(HEADER_POOL))
            else:
                sel.append(rng.choice(["nope", "missing ", "LABEL"]))
        cfg = "C:" + ",".join(hx(s) if s else "-" for s in sel)
    else:
        cfg = cfg_kind
    return rng_text, cfg, shape, {"h": h, "w": w, "cfg": cfg_kind, "fam": fam}

def gen_cell_case(rng, kind=None, cell=None):
    """one cell, one kind: the conversion table"""
    kind = kind or rng.choice(ALL_KINDS)
    cell = cell or cell_any(rng, 0.05, 0.05)
    sr, sc = rng.choice(ORIGINS)
    return "%d,%d,1,1;%s" % (sr, sc, cell), "N", "vec:" + kind, {"h": 1, "w": 1, "cfg": "N", "fam": "cell"}

def cell_pool():
    pool = ["E", "B0", "B1"] + ["X%d" % i for i in range(8)]
    pool += ["I%d" % i for i in INTS]
    pool += ["F%d" % f64bits(x) for x in FLOATS] + ["F%d" % f64bits(-x) for x in FLOATS[:40]]
    pool += ["F%d" % b for b in FLOAT_BITS]
    pool += ["S" + hx(s) for s in NUMSTR + WORDS]
    pool += ["D%d:0:0" % f64bits(44197.5), "D0:1:1", "D%d:1:0" % f64bits(-0.0), "D%d:0:1" % f64bits(1.25)]
    pool += ["T" + hx(s) for s in ISO[:3]] + ["U" + hx(s) for s in ISO[3:]]
    return pool

# ---------------------------------------------------------------- known classes
def known_class(case, impl, spec):
    """class id of a known deviation of the code from the specification, or None.
    (none is registered for C09: F4/F5 were repaired by fix: fd8f53b)"""
    return None

# ---------------------------------------------------------------- running
def parse_trace(t):
    """'lo/hi:item|…' -> (list of (lo, hi or None), list of item texts) or None for a construction error"""
    if t is None or t.startswith("new-") or t in ("panic", "alloc", "abort", "timeout") or ":" not in t:
        return None
    hints, items = [], []
    for part in t.split("|"):
        h, it = part.split(":", 1)
        lo, hi = h.split("/")
        hints.append((int(lo), None if hi == "-" else int(hi)))
        items.append(it)
    return hints, items

def property_holds(impl, spec):
    """the property itself, decided against the specification's records: same construction outcome,
    same items in the same order (then 'end' twice), and every size_hint BRACKETS the number of
    items still to come (the statement does not demand an exact hint)"""
    ps = parse_trace(spec)
    pi = parse_trace(impl)
    if ps is None or pi is None:
        return impl == spec, "construction outcome differs from the specification"
    if pi[1] != ps[1]:
        return False, "items differ from the records of the rows after the header (count, order, value or error position)"
    n = sum(1 for it in ps[1] if it != "end")
    for k, (lo, hi) in enumerate(pi[0]):
        remaining = max(n - k, 0)
        if lo > remaining or (hi is not None and hi < remaining):
            return False, "size_hint %s does not bracket the %d items still to come after %d calls" % ((lo, hi), remaining, k)
    return True, ""

def classify(ctx, lid, line, meta, impl, modelspec):
    if modelspec is None or "##" not in modelspec:
        ctx.disagreements.append({"function": "de", "case": line, "impl": impl, "model": modelspec})
        return
    model, spec = modelspec.split("##", 1)
    if impl and "|ITERMISMATCH:" in impl:
        # the harness drives every case also through nth / skip / step_by / last / count and compares
        # with what plain next() yielded (records and error positions)
        kind = impl.split("|ITERMISMATCH:", 1)[1]
        ctx.violations.append({"case": line, "expected": spec, "actual": impl, "model": model,
                               "what": "the items reached through %s differ from the items next() yields" % kind})
        return
    ok, what = property_holds(impl, spec)
    if not ok:
        kc = known_class(line, impl, spec)
        if kc is not None and impl == model:
            ctx.known_hits[kc] = line
            return
        ctx.violations.append({"case": line, "expected": spec, "actual": impl, "model": model, "what": what})
        return
    if impl != model:
        ctx.disagreements.append({"function": "de", "case": line, "impl": impl, "model": model})

def run_cases(ctx, cases, tag):
    lines = []
    for k, (r, c, s, meta) in enumerate(cases):
        lines.append("%s%d\tde\t%s\t%s\t%s" % (tag, k, r, c, s))
    impl, model = ctx.run_both(lines)
    for k, (r, c, s, meta) in enumerate(cases):
        lid = "%s%d" % (tag, k)
        classify(ctx, lid, lines[k], meta, impl.get(lid), model.get(lid))
        ctx.traces += 1
        ctx.count("cfg:" + meta["cfg"])
        ctx.count("shape:" + meta["fam"])
        ctx.count("rows:%d" % meta["h"])
        a = impl.get(lid) or ""
        if a.startswith("new-err:hnf"):
            ctx.count("outcome:HeaderNotFound")
        elif a.startswith("new-err"):
            ctx.count("outcome:header-row error")
        elif "err:cell" in a:
            ctx.count("outcome:some CellError item")
        elif "err:custom" in a:
            ctx.count("outcome:some Custom item")
        else:
            ctx.count("outcome:all ok")
        if meta["h"] >= 2 or meta["fam"] == "cell":
            ctx.nontrivial(lines[k].split("\t", 2)[2])
        if k < 2:
            ctx.sample({"case": lines[k].split("\t", 2)[2][:300], "impl": (impl.get(lid) or "")[:300],
                        "impl_equals_model_and_spec": impl.get(lid) is not None and
                        model.get(lid) == impl.get(lid) + "##" + impl.get(lid)})

def L(s): return "S" + hx(s)
CORPUS = [
    # the doc examples of src/de.rs on a range that does not start at A1
    ("5,3,3,2;%s,%s,%s,F%d,%s,I72" % (L("label"), L("value"), L("celsius"), f64bits(22.2222), L("fahrenheit")), "A", "mix:M1"),
    ("5,3,3,2;%s,%s,%s,F%d,%s,I72" % (L("label"), L("value"), L("celsius"), f64bits(22.2222), L("fahrenheit")), "C:%s,%s" % (hx("value"), hx("label")), "t2:data"),
    ("5,3,3,2;%s,%s,%s,F%d,%s,I72" % (L("label"), L("value"), L("celsius"), f64bits(22.2222), L("fahrenheit")), "W", "st:S1"),
    ("5,3,3,2;%s,%s,%s,F%d,%s,I72" % (L("label"), L("value"), L("celsius"), f64bits(22.2222), L("fahrenheit")), "N", "vec:data"),
    # F4 (fixed by fd8f53b): 4 rows without headers; one-row range with headers
    ("0,0,4,1;I1,I2,I3,I4", "N", "vec:i64"),
    ("7,7,1,2;%s,%s" % (L("a"), L("b")), "A", "vec:data"),
    ("7,7,1,2;%s,%s" % (L("a"), L("b")), "C:%s" % hx("b"), "vec:data"),
    # F5 (fixed by fd8f53b): error cell at absolute (4,2)
    ("2,1,3,2;%s,%s,I1,I2,I3,X0" % (L("a"), L("b")), "A", "t2:i64"),
    ("2,1,3,2;%s,%s,I1,I2,I3,X0" % (L("a"), L("b")), "A", "st:S2"),
    ("2,1,3,2;%s,%s,I1,I2,I3,X4" % (L("a"), L("b")), "H", "map:data"),
    ("4294967293,4294967294,3,2;%s,%s,I1,X2,X3,I2" % (L("a"), L("b")), "A", "vec:opt(i64)"),
    ("4294967293,4294967294,3,2;I0,X1,I1,X2,X3,I2", "N", "vec:opt(i64)"),
    # header binding independent of column order, untrimmed sheet headers, duplicates, unknown columns
    ("0,0,3,4;%s,%s,%s,%s,B1,%s,F%d,I5,E,E,E,E" % (L("d"), L("b"), L("c"), L("a"), L("x"), f64bits(1.5)), "A", "st:S2"),
    ("0,0,2,3;%s,%s,%s,I1,I2,I3" % (L(" a "), L("b"), L("a")), "A", "st:S2"),
    ("0,0,2,3;%s,%s,%s,I1,I2,I3" % (L("a"), L("b"), L("a")), "A", "st:S2"),
    ("0,0,2,3;%s,%s,%s,I1,I2,I3" % (L("a"), L("b"), L("a")), "A", "map:data"),
    ("0,0,2,3;%s,%s,%s,I1,E,X3" % (L("a"), L("b"), L("zz")), "A", "st:S2"),
    ("0,0,2,3;%s,%s,%s,I1,E,X3" % (L("a"), L("b"), L("zz")), "C:%s,%s" % (hx("b"), hx(" a")), "st:S2"),
    ("0,0,2,2;%s,X5,I1,I2" % L("a"), "A", "vec:data"),
    ("-", "C:%s" % hx("a"), "vec:data"), ("-", "N", "st:S1"), ("-", "W", "st:S1"),
    ("0,0,2,2;%s,%s,I1,I2" % (L("a"), L("b")), "C:", "vec:data"),
    ("0,0,2,2;%s,%s,I1,I2" % (L("a"), L("b")), "C:%s,%s,%s" % (hx("b"), hx("b"), hx("a")), "vec:i64"),
    ("0,0,2,2;%s,%s,I1,I2" % (L("a"), L("b")), "C:%s,%s" % (hx("b"), hx("q")), "vec:i64"),
    ("0,0,2,2;F%d,B1,I1,I2" % f64bits(1.5), "C:%s,%s" % (hx("true"), hx("1.5")), "vec:i64"),
]

FILES = ["temperature.xlsx", "temperature-in-middle.xlsx", "temperature-table.xlsx", "errors.xlsx",
         "date.xlsx", "date_1904.xlsx", "date_iso.xlsx", "date.xls", "date.xlsb", "date.ods", "issues.xlsx",
         "any_sheets.xlsx", "any_sheets.ods", "no-header.xlsx", "header-row.xlsx", "issue127.xlsx",
         "issue127.xls", "issue127.xlsb", "issue127.ods", "merged_range.xlsx", "special_cells.ods",
         "empty_sheet.xlsx", "richtext_issue.ods", "xls_wrong_decimals.xls"]
FILE_SHAPES = ["vec:data", "vec:string", "vec:opt(string)", "vec:opt(f64)", "vec:f64s", "vec:i64n", "map:data",
               "map:string", "st:S1", "st:S5", "mix:M1", "mix:M2", "t2:data", "vec:bool", "vec:opt(i64)"]

def run_files(ctx):
    """ranges produced by calamine's own readers from the fixture workbooks of /repo/tests (they do
    not start at A1, hold DateTime / error / empty cells): dumped once, then deserialized by the real
    code from the file and by the model from the dump"""
    import os
    repo = os.environ.get("VERIF_REPO", "/repo")
    specs = []
    for f in FILES:
        path = os.path.join(repo, "tests", f)
        if os.path.exists(path):
            for n in range(3):
                specs.append("@%s|%d" % (path, n))
    dumps = ctx.run_impl(["d%d\tde\t%s\tN\tdump" % (k, sp) for k, sp in enumerate(specs)])
    limpl, lmodel, metas = [], [], []
    for k, sp in enumerate(specs):
        text = dumps.get("d%d" % k)
        if not text or text in ("panic", "alloc", "abort", "timeout") or len(text) > 150000:
            continue
        hdr = []
        if text != "-":
            dims, cells = text.split(";", 1)
            w = int(dims.split(",")[3])
            hdr = [bytes.fromhex(c[1:]).decode("utf-8") for c in cells.split(",")[:w] if c.startswith("S")]
        cfgs = ["N", "A", "H", "W", "C:"]
        if hdr:
            sel = list(reversed(hdr))[:3]
            cfgs.append("C:" + ",".join(hx(" " + h + " ") if h else "-" for h in sel))
            cfgs.append("C:" + ",".join([hx(hdr[0]), hx("no such header")]))
        for cfg in cfgs:
            for sh in FILE_SHAPES:
                lid = "f%d" % len(limpl)
                limpl.append("%s\tde\t%s\t%s\t%s" % (lid, sp, cfg, sh))
                lmodel.append("%s\tde\t%s\t%s\t%s" % (lid, text, cfg, sh))
                metas.append({"h": 2, "w": 0, "cfg": cfg[0], "fam": "file"})
    impl = ctx.run_impl(limpl)
    model = ctx.run_model(lmodel)
    for k, meta in enumerate(metas):
        lid = "f%d" % k
        classify(ctx, lid, limpl[k] + "   [model input: " + lmodel[k].split("\t", 3)[2][:200] + "]", meta,
                 impl.get(lid), model.get(lid))
        ctx.traces += 1
        ctx.count("shape:file")
        ctx.nontrivial(limpl[k].split("\t", 2)[2])
    ctx.extra["workbook_sheets_deserialized"] = len(set(l.split("\t")[2] for l in limpl))

def run(ctx):
    run_files(ctx)
    cases = [(r, c, s, {"h": int(r.split(",")[2]) if r != "-" else 0, "w": 0, "cfg": c[0], "fam": s.split(":")[0]})
             for (r, c, s) in CORPUS]
    run_cases(ctx, cases, "k")
    # the conversion table: every kind against a fixed pool of cell payloads (finite sweep)
    pool = cell_pool()
    sweep = [gen_cell_case(ctx.rng, k, c) for k in ALL_KINDS for c in pool]
    if ctx.tier != "thorough":
        sweep = ctx.rng.sample(sweep, 5000)
    run_cases(ctx, sweep, "t")
    run_cases(ctx, [gen_cell_case(ctx.rng) for _ in range(ctx.scale(3000, 150000))], "c")
    run_cases(ctx, [gen_case(ctx.rng) for _ in range(ctx.scale(12000, 400000))], "r")

def search(ctx):
    run_cases(ctx, [gen_case(ctx.rng) for _ in range(ctx.scale(60000, 600000))], "s")

def replay(ctx, rep):
    case = rep.get("case")
    print("replaying:", case)
    impl, model = ctx.run_both([case])
    lid = case.split("\t", 1)[0]
    print("impl :", impl.get(lid))
    print("model##spec:", model.get(lid))
    print("expected:", rep.get("expected"))
    ok, what = property_holds(impl.get(lid), rep.get("expected"))
    print("property holds on this case:", ok, what)
    return 0 if ok else 1
