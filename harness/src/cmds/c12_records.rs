// C12: RecordIter over a stream (hex in args[0]) up to and including the first error.
// answer: ';'-separated items  <typ>:<hex body>:<conts>  with conts = "-" (None) or
// '+'-separated hex bodies prefixed by 'c' ("c" alone = Some(vec![])); an error item is "err".
use crate::util::{hex, unhex};

pub fn run(args: &[&str]) -> String {
    let stream = unhex(args[0]);
    let items = calamine::verif_hooks::xls::records_until_err(&stream);
    items
        .iter()
        .map(|it| match it {
            Ok((t, d, c)) => format!(
                "{}:{}:{}",
                t,
                hex(d),
                match c {
                    None => "-".to_string(),
                    Some(v) => format!("c{}", v.iter().map(|b| hex(b)).collect::<Vec<_>>().join("+")),
                }
            ),
            Err(_) => "err".to_string(),
        })
        .collect::<Vec<_>>()
        .join(";")
}
