#!/usr/bin/env python3
"""xls_2: reference sub-expressions as Excel writes them: every use of the reference operators
(union ',', intersection ' ', range ':') is preceded by a PtgMemArea (0x26) / PtgMemFunc (0x29) token
([MS-XLS] 2.5.198.70-73; formula grammar 2.2.2: mem-area-expression).  Print_Titles with rows AND
columns and multi-area Print_Area names are PtgMemFunc + PtgArea3d + PtgArea3d + PtgUnion - present in
a large share of real workbooks.
Expected (C14): worksheet_formula gives SUM((A1:A2,C1:C2)) etc.
Expected (C16): defined_names gives Sheet1!$A$1:$B$65536,Sheet1!$A$1:$IV$2 for the title name."""
import sys, struct
sys.path.insert(0, '/verif/tools'); sys.path.insert(0, '/tmp/ag/audit2')
import xlsgen
from vhrun import vh, hx
OUT = '/tmp/ag/audit2/repro/out/'
def area(r1, r2, c1, c2, rel=0xC000): return struct.pack('<BHHHH', 0x25, r1, r2, c1 | rel, c2 | rel)
def ref(r, c, rel=0xC000): return struct.pack('<BHH', 0x24, r, c | rel)
def area3d(ixti, r1, r2, c1, c2): return struct.pack('<BHHHHH', 0x3B, ixti, r1, r2, c1, c2)
def ref3d(ixti, r, c): return struct.pack('<BHHH', 0x3A, ixti, r, c)
def memarea(sub, refs):      # PtgMemArea: reserved(4), cce(2) ; extra data PtgExtraMem goes to rgcb
    return struct.pack('<BIH', 0x26, 0, len(sub)) + sub, struct.pack('<H', len(refs)) + b''.join(struct.pack('<HHHH', *r) for r in refs)
def memfunc(sub): return struct.pack('<BH', 0x29, len(sub)) + sub
SUM1 = bytes([0x22, 1, 4, 0])
def fcell(r, c, rgce, rgcb=b''):
    return {"k": "formula", "r": r, "c": c, "cached": ("num", xlsgen.f64_bits(0.0)),
            "tail": struct.pack('<H', len(rgce)) + rgce + rgcb}
# A4: =SUM((A1:A2,C1:C2))
m1, x1 = memarea(area(0, 1, 0, 0) + area(0, 1, 2, 2) + b'\x10', [(0, 1, 0, 0), (0, 1, 2, 2)])
f1 = m1 + b'\x15' + SUM1
# B4: =SUM(A1:B2 B1:C2)
m2, x2 = memarea(area(0, 1, 0, 1) + area(0, 1, 1, 2) + b'\x0F', [(0, 1, 1, 1)])
f2 = m2 + SUM1
# C4: =SUM(A1:INDEX(A:A,3))   (PtgMemFunc: the sub-expression contains a function)
f3 = memfunc(ref(0, 0) + area(0, 65535, 0, 0) + bytes([0x1E, 3, 0]) + bytes([0x22, 2, 29, 0]) + b'\x11') + SUM1
# D4 control: =SUM(A1:A2,C1:C2)  (two arguments, no reference operator)
f4 = area(0, 1, 0, 0) + area(0, 1, 2, 2) + bytes([0x22, 2, 4, 0])
def lbl(flags, name_bytes, rgce, itab=0):
    return struct.pack('<HBBHHH', flags, 0, len(name_bytes), len(rgce), 0, itab) + b'\0\0\0\0' + b'\0' + name_bytes + rgce
titles = memfunc(area3d(0, 0, 65535, 0, 1) + area3d(0, 0, 1, 0, 255) + b'\x10')
multi = memfunc(area3d(0, 0, 1, 0, 0) + ref3d(0, 0, 2) + b'\x10')
single = area3d(0, 0, 1, 0, 0)
wb = {"externsheet": [(0, 0, 0)],
      "globals_extra": [(0x18, lbl(0x0020, b'\x07', titles, itab=1)),     # _xlnm.Print_Titles, local to sheet 1
                        (0x18, lbl(0x0000, b'Multi', multi)),
                        (0x18, lbl(0x0000, b'Single', single))],
      "sheets": [{"name": "Sheet1", "cells": [
          {"k": "number", "r": 0, "c": 0, "v": 1.0}, {"k": "number", "r": 1, "c": 0, "v": 2.0},
          {"k": "number", "r": 0, "c": 2, "v": 3.0}, {"k": "number", "r": 1, "c": 2, "v": 4.0},
          fcell(3, 0, f1, x1), fcell(3, 1, f2, x2), fcell(3, 2, f3), fcell(3, 3, f4),
          # E4: =SUM({1,2})  (array constant: PtgArray + PtgExtraArray in rgcb; outside C14's grammar)
          fcell(3, 4, b'\x60' + b'\0' * 7 + SUM1, b'\x01\x00\x00' + b'\x01' + struct.pack('<d', 1.0) + b'\x01' + struct.pack('<d', 2.0))]}]}
p = OUT + 'xls_2_memtokens.xls'
open(p, 'wb').write(xlsgen.write_xls(wb, {"pad_to": 4096}))
out = vh('xls', p, ['names', 'formula ' + hx('Sheet1')])
print(out)
import re
for h in re.findall(r'S([0-9a-f]+)', out): print('  ', bytes.fromhex(h).decode('utf-8', 'replace'))
for part in out.split(';;')[0].split(','):
    try: print('  name:', [bytes.fromhex(x).decode('utf-8','replace') for x in part.split('=')])
    except Exception as e: print('  ?', part)
