(* F64: IEEE-754 binary64 as used by the Rust code (f64), on top of Flocq 4.1.
   Definitions only (lemmas are in F64_proofs.v); everything here computes under vm_compute and
   extracts with ExtrOcamlBasic.

   Rust operation                      model
   ---------------------------------   --------------------------------------------------------
   f64::from_bits(b) / x.to_bits()     f64_of_bits b / bits_of_f64 x
   a + b, a - b, a * b, a / b          f64_add, f64_sub, f64_mul, f64_div   (round to nearest even)
   a < b, a <= b, a >= b, a > b, ==    f64_lt, f64_le, f64_ge, f64_gt, f64_eq (all false on NaN)
   -x, x.abs()                         f64_neg, f64_abs
   x.round()                           f64_round   (to integer, ties away from zero; keeps the sign
                                                    of zero; NaN and infinities unchanged)
   x.trunc() as an integer             f64_trunc   (finite x; 0 otherwise)
   x as i64 / i32 / u32 / u8 …         f64_to_int lo hi  (saturating, NaN -> 0), f64_to_i64, …
   n as f64  (n an integer type)       f64_of_Z n  (round to nearest even; exact below 2^53)
   x.is_nan(), is_finite, is_infinite  f64_is_nan, f64_is_finite, f64_is_infinite

   NaN payloads and the sign of a NaN follow Flocq's conventions (first NaN operand wins, no
   quieting); no model in this tree observes them — every consumer goes through the comparisons or
   the casts above, which treat all NaNs alike. *)
From Calamine Require Import Prelude.
From Flocq Require Import Core.Core IEEE754.BinarySingleNaN IEEE754.Binary IEEE754.Bits.
Open Scope Z_scope.
Set Implicit Arguments.

Definition f64 : Type := binary64.

Lemma f64_prec_gt_0 : Prec_gt_0 53. Proof. reflexivity. Qed.
Lemma f64_prec_lt_emax : Prec_lt_emax 53 1024. Proof. reflexivity. Qed.

(* ---------- bits ---------- *)
(* [b] is the 64-bit pattern as an unsigned integer (0 <= b < 2^64) *)
Definition f64_of_bits (b : Z) : f64 := b64_of_bits b.
Definition bits_of_f64 (x : f64) : Z := bits_of_b64 x.

(* ---------- arithmetic (round to nearest, ties to even) ---------- *)
Definition f64_add (a b : f64) : f64 := b64_plus mode_NE a b.
Definition f64_sub (a b : f64) : f64 := b64_minus mode_NE a b.
Definition f64_mul (a b : f64) : f64 := b64_mult mode_NE a b.
Definition f64_div (a b : f64) : f64 := b64_div mode_NE a b.
Definition f64_neg (a : f64) : f64 := b64_opp a.
Definition f64_abs (a : f64) : f64 := b64_abs a.

(* ---------- classification ---------- *)
Definition f64_is_nan (x : f64) : bool := Binary.is_nan 53 1024 x.
Definition f64_is_finite (x : f64) : bool := Binary.is_finite 53 1024 x.
Definition f64_is_infinite (x : f64) : bool :=
  match x with Binary.B754_infinity _ _ _ => true | _ => false end.
Definition f64_sign (x : f64) : bool := Binary.Bsign 53 1024 x.

(* ---------- comparisons (IEEE: every comparison with a NaN is false) ---------- *)
Definition f64_cmp (a b : f64) : option comparison := b64_compare a b.
Definition f64_lt (a b : f64) : bool := match f64_cmp a b with Some Lt => true | _ => false end.
Definition f64_le (a b : f64) : bool :=
  match f64_cmp a b with Some Lt | Some Eq => true | _ => false end.
Definition f64_gt (a b : f64) : bool := match f64_cmp a b with Some Gt => true | _ => false end.
Definition f64_ge (a b : f64) : bool :=
  match f64_cmp a b with Some Gt | Some Eq => true | _ => false end.
Definition f64_eq (a b : f64) : bool := match f64_cmp a b with Some Eq => true | _ => false end.

(* ---------- integers ---------- *)
(* [n as f64] for an integer n of any width: the nearest double, ties to even *)
Definition f64_of_Z (n : Z) : f64 :=
  Binary.binary_normalize 53 1024 f64_prec_gt_0 f64_prec_lt_emax mode_NE n 0 false.

(* f64::round(): nearest integer, ties away from zero (Flocq's nearbyint in mode NA) *)
Definition f64_round (x : f64) : f64 :=
  @Binary.Bnearbyint 53 1024 f64_prec_lt_emax unop_nan_pl64 mode_NA x.

(* integer part, toward zero (0 for NaN and infinities: callers test those first) *)
Definition f64_trunc (x : f64) : Z := Binary.Btrunc 53 1024 x.

(* Rust's saturating float-to-integer cast [x as T] for an integer type with range lo..=hi *)
Definition f64_to_int (lo hi : Z) (x : f64) : Z :=
  match x with
  | Binary.B754_nan _ _ _ _ _ => 0
  | Binary.B754_infinity _ _ s => if s then lo else hi
  | _ => let t := f64_trunc x in if t <? lo then lo else if hi <? t then hi else t
  end.

Definition I64MAX : Z := 9223372036854775807.
Definition I64MIN : Z := -9223372036854775808.
Definition I32MAX : Z := 2147483647.
Definition I32MIN : Z := -2147483648.
Definition f64_to_i64 (x : f64) : Z := f64_to_int I64MIN I64MAX x.
Definition f64_to_i32 (x : f64) : Z := f64_to_int I32MIN I32MAX x.
Definition f64_to_u32 (x : f64) : Z := f64_to_int 0 4294967295 x.
Definition f64_to_u8 (x : f64) : Z := f64_to_int 0 255 x.

(* the exact value of a finite double as a fraction num / 2^sh (sh >= 0), for specifications
   that need the real number a double stands for without leaving Z *)
Definition f64_exact (x : f64) : option (Z * Z) :=
  match x with
  | Binary.B754_zero _ _ _ => Some (0, 0)
  | Binary.B754_finite _ _ s m e _ =>
      let n := if s then Zneg m else Zpos m in
      if 0 <=? e then Some (n * 2 ^ e, 0) else Some (n, - e)
  | _ => None
  end.
