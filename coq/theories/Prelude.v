(* Prelude: common imports, the outcome type, list helpers shared by all models.
   No proofs about calamine here; only general-purpose definitions and lemmas. *)
From Coq Require Export List NArith ZArith Lia Bool ZifyBool ZifyNat ZifyN.
Export ListNotations.
Set Implicit Arguments.

Arguments N.add : simpl never.
Arguments N.mul : simpl never.
Arguments N.sub : simpl never.
Arguments N.div : simpl never.
Arguments N.modulo : simpl never.
Arguments N.eqb : simpl never.
Arguments N.ltb : simpl never.
Arguments N.leb : simpl never.
Arguments N.pow : simpl never.
Arguments Z.add : simpl never.
Arguments Z.mul : simpl never.
Arguments Z.sub : simpl never.
Arguments Z.div : simpl never.
Arguments Z.modulo : simpl never.

Ltac Zify.zify_post_hook ::= Z.div_mod_to_equations.

(* ---------- outcomes ---------- *)
(* Every modelled Rust function that can fail returns an outcome.  [Err] carries a small
   error-class number (never message text); [Panic] stands for any Rust panic (index, slice,
   unwrap, assert, checked arithmetic); [OutOfFuel] is never a normal-looking value. *)
Inductive outcome (A : Type) : Type :=
| Ok (a : A)
| Err (e : N)
| Panic
| OutOfFuel.
Arguments Ok {A} a.
Arguments Err {A} e.
Arguments Panic {A}.
Arguments OutOfFuel {A}.

Definition obind {A B} (o : outcome A) (f : A -> outcome B) : outcome B :=
  match o with
  | Ok a => f a
  | Err e => Err e
  | Panic => Panic
  | OutOfFuel => OutOfFuel
  end.
Notation "'do' x <- o ; k" := (obind o (fun x => k))
  (at level 200, x pattern, o at level 100, k at level 200, right associativity).

Definition omap {A B} (f : A -> B) (o : outcome A) : outcome B :=
  do x <- o; Ok (f x).

Definition of_option {A} (o : option A) : outcome A :=
  match o with Some a => Ok a | None => Panic end.

(* machine-integer bounds *)
Definition U8MAX  : N := 255.
Definition U16MAX : N := 65535.
Definition U32MAX : N := 4294967295.
Definition U64MAX : N := 18446744073709551615.

(* checked u32 arithmetic (overflow checks are on in the harness build: overflow = panic) *)
Definition add32 (a b : N) : outcome N :=
  if (a + b <=? U32MAX)%N then Ok (a + b)%N else Panic.
Definition sub32 (a b : N) : outcome N :=
  if (b <=? a)%N then Ok (a - b)%N else Panic.
Definition mul32 (a b : N) : outcome N :=
  if (a * b <=? U32MAX)%N then Ok (a * b)%N else Panic.

(* ---------- list helpers ---------- *)
Section ListHelpers.
Variable T : Type.

Lemma nth_error_firstn_lt : forall n (l : list T) i,
  (i < n)%nat -> nth_error (firstn n l) i = nth_error l i.
Proof.
  induction n as [|n IH]; intros l i Hi; [lia|].
  destruct l as [|x l]; [reflexivity|]. destruct i as [|i]; [reflexivity|].
  cbn. apply IH. lia.
Qed.

Lemma nth_error_firstn_ge : forall n (l : list T) i,
  (n <= i)%nat -> nth_error (firstn n l) i = None.
Proof.
  intros n l i H. apply nth_error_None. rewrite firstn_length. lia.
Qed.

Lemma nth_error_skipn_add : forall n (l : list T) i,
  nth_error (skipn n l) i = nth_error l (n + i).
Proof.
  induction n as [|n IH]; intros l i; [reflexivity|].
  destruct l as [|x l]; [destruct i; reflexivity|]. cbn. apply IH.
Qed.

(* slice::chunks(n) for n > 0: consecutive pieces of n elements, the last one possibly short.
   Structural on fuel = length of the list (each step consumes at least one element). *)
Fixpoint chunks_aux (fuel n : nat) (l : list T) : list (list T) :=
  match fuel with
  | O => []
  | S f => match l with
           | [] => []
           | _ => firstn n l :: chunks_aux f n (skipn n l)
           end
  end.
Definition chunks (n : nat) (l : list T) : list (list T) := chunks_aux (length l) n l.

(* replace the element at index i (no-op when out of range; callers guard) *)
Fixpoint list_set (l : list T) (i : nat) (v : T) : list T :=
  match l, i with
  | [], _ => []
  | _ :: t, O => v :: t
  | x :: t, S i' => x :: list_set t i' v
  end.

Lemma list_set_length : forall l i v, length (list_set l i v) = length l.
Proof. induction l as [|x l IH]; intros [|i] v; cbn; auto. Qed.

Lemma nth_error_list_set_eq : forall l i v, (i < length l)%nat ->
  nth_error (list_set l i v) i = Some v.
Proof.
  induction l as [|x l IH]; intros [|i] v H; cbn in *; try lia; auto. apply IH. lia.
Qed.

Lemma nth_error_list_set_neq : forall l i j v, i <> j ->
  nth_error (list_set l i v) j = nth_error l j.
Proof.
  induction l as [|x l IH]; intros [|i] [|j] v H; cbn; auto; try congruence.
Qed.

End ListHelpers.
