(* XlsFile.v — the WHOLE xls file: composition of the per-mechanism models.

   M  xls_open_model : Xls::new (src/xls.rs) followed by worksheet_range for every sheet of the
      metadata, assembled from the models that exist per mechanism:
        Cfb.cfb_new, Cfb.has_directory, Cfb.workbook_or_book     (compound file, C13)
        BiffSst.records                                           (RecordIter, C12)
        Meta.xls_globals, Meta.xls_resolve                        (globals loop of parse_workbook:
                                                                   every arm and every check, C16)
        BiffSst.parse_sst                                         (SST arm, C12)
        NumFmt.xls_formats                                        (self.formats = xfs.map(..), C10)
        BiffRec.sheet_at = BiffRec.sheet_model at lbPlyPos        (sheet loop, C02; Range, C05)
      Glue defined here (nothing else is new): what the globals arms STORE for the sheet loop and
      that Meta's loop only checks — the string table (SST arm), the FORMAT map and the XF list
      (parse_format, parse_xf) — as total projections of the records the loop visits; they are
      applied after Meta.xls_globals has succeeded, i.e. after every length check of these arms
      has passed.  The BTreeMap `sheets` (insert per BoundSheet8 entry, looked up by name).
      A compound file with a _VBA_PROJECT_CUR storage makes Xls::new read the VBA project first
      (C18's domain): the model answers Err E_UNMODELLED there.
   S  the logical workbook [lwb]: ordered sheets (name, visibility, kind, cells), defined names,
      date system, number formats / XFs (NumFmt.style_table), shared strings.
   E  xls_file_write: Cfb.cfb_write of a container holding the Workbook (or Book) stream among
      arbitrary other streams and storages, in any valid layout; the stream = the globals of
      Meta.xls_stream (BoundSheet8 names 8/16 bit, unused hsState bits, Lbl / ExternSheet, ignorable
      records, XF and FORMAT records anywhere among them) with the SST of BiffSst.sst_encode
      (any legal CONTINUE layout) inserted at ANY record boundary of the globals, followed by one
      BiffRec.encode_sheet substream per sheet (any legal record layout, optional bytes after its
      EOF).  lbPlyPos of each BoundSheet8 = the byte offset of its substream.
   Definitions only; proofs: XlsFile_proofs.v; statements: Properties/Whole.v. *)
From Calamine Require Import Prelude Range Range_spec RK.
From Calamine Require BiffSst BiffRec Meta NumFmt Cfb Utf16.
Open Scope N_scope.
Set Implicit Arguments.

Notation bytes := BiffSst.bytes (only parsing).
Notation str := Meta.str (only parsing).
Notation grec := (N * BiffSst.bytes)%type (only parsing).   (* a record without CONTINUE: type, body *)

Definition E_UNMODELLED : N := 99.
Definition E_NOTFOUND : N := 6.

(* ===================================================================================== *)
(** * M — the whole-file model *)

(* the records the globals loop visits: up to the first EOF record or iterator error *)
Fixpoint before_eof (recs : list (outcome BiffSst.rec_item)) : list BiffSst.rec_item :=
  match recs with
  | Ok r :: rest => if fst (fst r) =? 10 then [] else r :: before_eof rest
  | _ => []
  end.

(* parse_format: (ifmt, the format string); detect_custom_number_format is applied by
   NumFmt.xls_formats *)
Definition format_of_record (d : bytes) : N * str :=
  (BiffSst.u16_at d 0,
   snd (BiffSst.decode_to (BiffSst.drop 5 d) (BiffSst.u16_at d 2) (Some (N.odd (nth 4 d 0))))).

(* formats.insert(idx, format) per FORMAT record, in stream order *)
Definition g_formats (rs : list BiffSst.rec_item) : list (N * str) :=
  flat_map (fun r => if fst (fst r) =? 1054 then [format_of_record (snd (fst r))] else []) rs.
(* xfs.push(parse_xf(&r)?) per XF record: read_u16(&r.data[2..]) *)
Definition g_xfs (rs : list BiffSst.rec_item) : list N :=
  flat_map (fun r => if fst (fst r) =? 224 then [BiffSst.u16_at (snd (fst r)) 2] else []) rs.
(* strings = parse_sst(..)? per SST record: the last one stays *)
Fixpoint g_strings (rs : list BiffSst.rec_item) (acc : list (list N)) : list (list N) :=
  match rs with
  | [] => acc
  | r :: rest =>
    g_strings rest
      (if fst (fst r) =? 252 then
         match BiffSst.parse_sst (snd (fst r), BiffSst.conts_of (snd r)) with
         | Ok s => s
         | _ => acc
         end
       else acc)
  end.

Definition fmt_conv (f : NumFmt.cell_format) : cellfmt :=
  match f with
  | NumFmt.Other => FOther
  | NumFmt.DateTime => FDateTime
  | NumFmt.TimeDelta => FTimeDelta
  end.

(* self.formats, self.is_1904 and the strings the sheet loop works with *)
Definition globals_env (recs : list (outcome BiffSst.rec_item)) (is1904 : bool) : BiffRec.env :=
  let rs := before_eof recs in
  BiffRec.mkEnv
    (map fmt_conv (NumFmt.xls_formats (NumFmt.mkBiffStyles (g_formats rs) (g_xfs rs))))
    is1904 (g_strings rs []).

(* BTreeMap<String, SheetData>: insert in BoundSheet8 order (a repeated name replaces the earlier
   entry), get by name *)
Fixpoint lookup_last (A : Type) (n : str) (es : list (str * A)) : option A :=
  match es with
  | [] => None
  | (k, v) :: r =>
    match lookup_last n r with
    | Some x => Some x
    | None => if Meta.str_eqb k n then Some v else None
    end
  end.

(* what a caller sees: metadata().sheets, metadata().names, the date system, and
   worksheet_range(name) for every sheet name of the metadata, in order *)
Record wbresult : Type := mkRes {
  wr_sheets : list Meta.meta;
  wr_names : list (str * str);
  wr_1904 : bool;
  wr_ranges : list (str * range data)
}.

Section Model.
Variable fdiv100 : N -> N.               (* RK.v *)
Variable decode16 : list N -> list N.    (* BiffRec.v *)
Variable show_f64 : N -> list N.         (* Meta.v / Ptg.v: f64 Display inside defined names *)

(* parse_workbook on the bytes of the Workbook stream *)
Definition xls_stream_model (stream : bytes) : outcome wbresult :=
  let recs := BiffSst.records stream in
  do st <- Meta.xls_globals recs Meta.xls_state0;
  do names <- Meta.xls_resolve show_f64 st;
  let en := globals_env recs (Meta.xg_1904 st) in
  do entries <- Meta.map_o (fun pm : N * Meta.meta =>
                              do r <- BiffRec.sheet_at fdiv100 decode16 en stream (fst pm);
                              Ok (Meta.m_name (snd pm), r)) (Meta.xg_sheets st);
  do ranges <- Meta.map_o (fun pm : N * Meta.meta =>
                             match lookup_last (Meta.m_name (snd pm)) entries with
                             | Some r => Ok (Meta.m_name (snd pm), r)
                             | None => Err E_NOTFOUND
                             end) (Meta.xg_sheets st);
  Ok (mkRes (map snd (Meta.xg_sheets st)) names (Meta.xg_1904 st) ranges).

Definition VBA_CUR : list N :=          (* "_VBA_PROJECT_CUR" *)
  [95; 86; 66; 65; 95; 80; 82; 79; 74; 69; 67; 84; 95; 67; 85; 82].

(* Xls::new + worksheet_range per sheet; fuel bounds the DIFAT walk of Cfb::new only *)
Definition xls_open_model (fuel : nat) (file : bytes) : outcome wbresult :=
  do (c, r) <- Cfb.cfb_new fuel file;
  if Cfb.has_directory c VBA_CUR then Err E_UNMODELLED else
  do stream <- Cfb.workbook_or_book c r;
  xls_stream_model stream.

End Model.

(* ===================================================================================== *)
(** * S — the logical workbook *)

Record lsheet : Type := mkLSheet {
  ls_meta : Meta.meta;                       (* name, visibility, kind *)
  ls_cells : list BiffRec.cellv              (* position -> value, in record order; a repeated
                                                position keeps the last value (range_of) *)
}.
Record lwb : Type := mkLwb {
  lw_sheets : list lsheet;
  lw_names : list (str * Ptg.expr);         (* defined names *)
  lw_1904 : bool;
  lw_styles : NumFmt.style_table;            (* custom number formats, ifmt of every cell XF *)
  lw_strings : list BiffSst.ustring          (* shared strings, as UTF-16 code units *)
}.

(* the environment the cells of the logical workbook are read in: formats resolved as C10
   specifies (NumFmt.resolve), the date system, the text of the shared strings *)
Definition env_of (wb : lwb) : BiffRec.env :=
  BiffRec.mkEnv (map fmt_conv (NumFmt.spec_formats (lw_styles wb))) (lw_1904 wb)
                (map BiffSst.utf16_decode (lw_strings wb)).

Definition meta_wb (wb : lwb) : Meta.workbook Ptg.expr :=
  Meta.mkWb (map ls_meta (lw_sheets wb)) (lw_names wb) (lw_1904 wb).

(* ===================================================================================== *)
(** * E — the whole-file encoder *)

(* records of the globals that are not sheets, names or the XTI table *)
Inductive gitem : Type :=
| GJunk (t : N) (b : bytes)                        (* any record the globals loop ignores, CodePage *)
| GXf (ifnt ifmt : N) (rest : bytes)               (* XF: font index, ifmt, the other 16 bytes *)
| GFormat (ifmt : N) (wide : bool) (s : str).      (* FORMAT: ifmt, XLUnicodeString *)

Definition gi_rec (g : gitem) : grec :=
  match g with
  | GJunk t b => (t, b)
  | GXf ifnt ifmt rest => (224, BiffSst.le16 ifnt ++ BiffSst.le16 ifmt ++ rest)
  | GFormat ifmt wide s => (1054, BiffSst.le16 ifmt ++ BiffSst.xl_string wide (Meta.units_of s))
  end.
Definition gi_xfs (js : list gitem) : list N :=
  flat_map (fun g => match g with GXf _ ifmt _ => [ifmt] | _ => [] end) js.
Definition gi_formats (js : list gitem) : list (N * str) :=
  flat_map (fun g => match g with GFormat ifmt _ s => [(ifmt, s)] | _ => [] end) js.
Definition gitem_ok (g : gitem) : bool :=
  match g with
  (* a record the globals loop ignores, or a CodePage record (0x0042) of any value — Excel writes
     1200, JExcelApi 1252, ...: BIFF8 text never goes through it; its length (at least two bytes)
     is Meta.xjunk_ok's condition *)
  | GJunk t _ => negb (Meta.xls_interpreted t) || (t =? 66)
  | GXf ifnt ifmt _ => (ifnt <? 65536) && (ifmt <? 65536)
  | GFormat ifmt wide s => (ifmt <? 65536) && forallb Meta.scalarb s && Meta.wide_ok wide s
  end.

Record sheet_choice : Type := mkSc {
  sc_wide : bool;                 (* 16-bit storage of the sheet name in BoundSheet8 *)
  sc_hi : N;                      (* the six unused bits of hsState *)
  sc_pos : N;                     (* lbPlyPos (legal: the offset of the substream) *)
  sc_layout : BiffRec.layout      (* the records of the substream; l_trailer = bytes after EOF *)
}.

Record xchoice : Type := mkXch {
  xc_sheets : list sheet_choice;
  xc_names : list Meta.ln_choice;
  xc_xtis : list (N * N * N);
  xc_j0 : list gitem; xc_j1 : list gitem; xc_j2 : list gitem; xc_j3 : list gitem;
  xc_omit_1904 : bool;
  xc_sst_at : nat;                       (* number of globals records in front of the SST *)
  xc_sst_lay : BiffSst.layout;           (* CONTINUE cuts and packings of the SST *)
  xc_book : bool;                        (* the stream is called Book instead of Workbook *)
  xc_ss : N;                             (* sector size of the compound file *)
  xc_storages : list (list N);
  xc_pre : list (list N * bytes);        (* other streams listed before / after the workbook *)
  xc_post : list (list N * bytes);
  xc_parents : list N;
  xc_layout : Cfb.layout
}.

(* Meta's choice record: positions and the bytes after the globals EOF are parameters *)
(* zero = true: every lbPlyPos written as 0 (Meta's legality conditions other than the positions
   are stated on this variant) *)
Definition ls_choices (zero : bool) (scs : list sheet_choice) : list Meta.ls_choice :=
  map (fun sc => Meta.mkLs (if zero then 0 else sc_pos sc) (sc_wide sc) (sc_hi sc)) scs.
Definition meta_choice (zero : bool) (ch : xchoice) (tail : bytes) : Meta.xls_choice :=
  (* the XTI array is written into the ExternSheet record alone (no CONTINUE records: [lc_xcuts] = []);
     Meta's own theorem covers every split *)
  Meta.mkLc (ls_choices zero (xc_sheets ch)) (xc_names ch) (xc_xtis ch) []
            (map gi_rec (xc_j0 ch)) (map gi_rec (xc_j1 ch))
            (map gi_rec (xc_j2 ch)) (map gi_rec (xc_j3 ch))
            (xc_omit_1904 ch) tail.

(* the records of Meta.xls_stream in front of its EOF, as a list (xls_stream_frames in the
   proofs: Meta.xls_stream c wb = frames (grecs c wb) ++ frame 10 [] ++ lc_tail c) *)
Definition grecs (c : Meta.xls_choice) (wb : Meta.workbook Ptg.expr) : list grec :=
  (2057, Meta.bof_globals) :: Meta.lc_junk0 c
  ++ (if Meta.lc_omit_1904 c && negb (Meta.wb_1904 wb) then []
      else [(34, BiffSst.le16 (BiffSst.b2n (Meta.wb_1904 wb)))])
  ++ Meta.lc_junk1 c
  ++ map (fun sc : Meta.meta * Meta.ls_choice =>
            (133, BiffSst.boundsheet_body (Meta.ls_pos (snd sc))
                    (Meta.xls_vis_code (Meta.m_vis (fst sc)) + 4 * Meta.ls_hi (snd sc))
                    (Meta.xls_kind_code (Meta.m_kind (fst sc))) (Meta.ls_wide (snd sc))
                    (Meta.units_of (Meta.m_name (fst sc)))))
         (combine (Meta.wb_sheets wb) (Meta.lc_sheets c))
  ++ Meta.lc_junk2 c
  ++ (match Meta.lc_xtis c with
      | [] => []
      | xs => [(430, [1; 0; 1; 4]);
               (23, BiffSst.le16 (BiffSst.len xs) ++ flat_map Meta.xti6 xs)]
      end)
  ++ map (fun nc : (str * Ptg.expr) * Meta.ln_choice => (24, Meta.lbl_body (fst nc) (snd nc)))
         (combine (Meta.wb_names wb) (Meta.lc_names c))
  ++ Meta.lc_junk3 c.

(* the globals substream: the records of Meta's encoder with the SST (and its CONTINUE records)
   after the first k of them, then EOF *)
Definition globals_bytes (c : Meta.xls_choice) (wb : Meta.workbook Ptg.expr) (k : nat)
           (sst : BiffSst.rstate) : bytes :=
  Meta.frames (firstn k (grecs c wb)) ++ BiffSst.frame_sst sst
  ++ Meta.frames (skipn k (grecs c wb)) ++ BiffSst.frame 10 [].

Definition sheets_bytes (cs : list BiffRec.layout) : bytes := flat_map BiffRec.encode_sheet cs.

(* offsets of the substreams when the first one starts at p *)
Fixpoint positions (p : N) (cs : list BiffRec.layout) : list N :=
  match cs with
  | [] => []
  | c :: r => p :: positions (p + BiffSst.len (BiffRec.encode_sheet c)) r
  end.

Definition sst_of (wb : lwb) (ch : xchoice) : BiffSst.rstate :=
  BiffSst.sst_encode (lw_strings wb) (xc_sst_lay ch).

Definition xls_globals_write (wb : lwb) (ch : xchoice) : bytes :=
  globals_bytes (meta_choice false ch []) (meta_wb wb) (xc_sst_at ch) (sst_of wb ch).

(* the Workbook stream *)
Definition xls_stream_write (wb : lwb) (ch : xchoice) : bytes :=
  xls_globals_write wb ch ++ sheets_bytes (map sc_layout (xc_sheets ch)).

Definition wb_stream_name (ch : xchoice) : list N := if xc_book ch then Cfb.BOOK else Cfb.WORKBOOK.

Definition xls_container (wb : lwb) (ch : xchoice) : Cfb.container :=
  {| Cfb.c_ss := xc_ss ch;
     Cfb.c_storages := xc_storages ch;
     Cfb.c_streams := xc_pre ch ++ (wb_stream_name ch, xls_stream_write wb ch) :: xc_post ch;
     Cfb.c_parents := xc_parents ch |}.

(* the workbook stream as an object of the container (storages first, then the streams) *)
Definition wb_object (ch : xchoice) : nat := (length (xc_storages ch) + length (xc_pre ch))%nat.

(* the whole file *)
Definition xls_file_write (wb : lwb) (ch : xchoice) : bytes :=
  Cfb.cfb_write (xls_container wb ch) (xc_layout ch).

(* lbPlyPos of every sheet set to the offset of its substream (the globals have the same length
   whatever the positions are: le32) *)
Definition set_positions (wb : lwb) (ch : xchoice) : xchoice :=
  let p0 := BiffSst.len (xls_globals_write wb ch) in
  let ps := positions p0 (map sc_layout (xc_sheets ch)) in
  mkXch (map (fun sp : sheet_choice * N =>
                mkSc (sc_wide (fst sp)) (sc_hi (fst sp)) (snd sp) (sc_layout (fst sp)))
             (combine (xc_sheets ch) ps))
        (xc_names ch) (xc_xtis ch) (xc_j0 ch) (xc_j1 ch) (xc_j2 ch) (xc_j3 ch) (xc_omit_1904 ch)
        (xc_sst_at ch) (xc_sst_lay ch) (xc_book ch) (xc_ss ch) (xc_storages ch) (xc_pre ch)
        (xc_post ch) (xc_parents ch) (xc_layout ch).

(* ===================================================================================== *)
(** * legal choices *)

(* the substream of a sheet as the sheet loop meets it: everything up to the end of the
   Workbook stream follows its EOF *)
Fixpoint eff_layouts (cs : list BiffRec.layout) : list BiffRec.layout :=
  match cs with
  | [] => []
  | c :: r =>
    BiffRec.mkLayout (BiffRec.l_items c) (BiffRec.l_trailer c ++ sheets_bytes r) :: eff_layouts r
  end.

Definition all_junk (ch : xchoice) : list gitem := xc_j0 ch ++ xc_j1 ch ++ xc_j2 ch ++ xc_j3 ch.

(* the computable part *)
Definition xfile_legalb (wb : lwb) (ch : xchoice) : bool :=
  let cs := map sc_layout (xc_sheets ch) in
  let cont := xls_container wb ch in
  (* globals: Meta's conditions (names, visibility, kind, ignorable records, Lbl, XTI) *)
  Meta.xls_legal (meta_choice true ch []) (meta_wb wb)
  && forallb gitem_ok (all_junk ch)
  (* the SST: any legal layout whose records fit *)
  && BiffSst.legal_layout (lw_strings wb) (xc_sst_lay ch)
  && BiffSst.fits_records (sst_of wb ch)
  (* every substream is well formed where it stands *)
  && forallb BiffRec.wf_layout (eff_layouts cs)
  (* lbPlyPos = offset of the substream *)
  && Cfb.list_eqb (map sc_pos (xc_sheets ch))
                  (positions (BiffSst.len (xls_globals_write wb ch)) cs)
  && (BiffSst.len (xls_stream_write wb ch) <=? 4294967295)
  (* the container; its links: none written (root child id NOSTREAM: the reader scans the flat
     directory array) or a tree over the hierarchy, of any shape, with the workbook stream in the
     ROOT storage (Cfb::find follows the child / sibling ids since the fix of audit finding G8) *)
  && (Cfb.flat_rootb cont (xc_layout ch)
      || (Cfb.linked_treeb cont (xc_layout ch) && (Cfb.parent_of cont (wb_object ch) =? 0)))
  && Cfb.valid_layoutb cont (xc_layout ch) && Cfb.names_uniqueb cont
  (* (names compare up to ASCII case since the fix of CFB-1: Cfb.mem_name, Cfb.names_uniqueb) *)
  && negb (Cfb.mem_name VBA_CUR (Cfb.all_names cont))
  && (negb (xc_book ch) || negb (Cfb.mem_name Cfb.WORKBOOK (Cfb.all_names cont))).

Section Legal.
Variable fdiv100 : N -> N.
Variable decode16 : list N -> list N.

Definition xfile_legal (wb : lwb) (ch : xchoice) : Prop :=
  xfile_legalb wb ch = true
  (* the XF and FORMAT records among the ignorable ones carry the style table *)
  /\ map Some (gi_xfs (all_junk ch)) = NumFmt.xfs (lw_styles wb)
  /\ gi_formats (all_junk ch) = NumFmt.customs (lw_styles wb)
  (* sheet names are distinct *)
  /\ NoDup (map (fun s => Meta.m_name (ls_meta s)) (lw_sheets wb))
  (* the records of each substream denote the cells of the sheet (C02's [legal]) *)
  /\ Forall2 (fun c s => BiffRec.logical fdiv100 decode16 (env_of wb) c = ls_cells s)
             (map sc_layout (xc_sheets ch)) (lw_sheets wb).

(* the expected answer *)
Definition spec_result (show_f64 : N -> list N) (wb : lwb) (ch : xchoice) : wbresult :=
  mkRes (map ls_meta (lw_sheets wb))
        (Meta.spec_names_xls show_f64 (meta_choice true ch []) (meta_wb wb))
        (lw_1904 wb)
        (map (fun s => (Meta.m_name (ls_meta s), BiffRec.range_of (ls_cells s))) (lw_sheets wb)).

(* the logical workbook a choice denotes, for the cells (used by the generator) *)
Definition cells_of_choice (wb : lwb) (ch : xchoice) : list (list BiffRec.cellv) :=
  map (fun sc => BiffRec.logical fdiv100 decode16 (env_of wb) (sc_layout sc)) (xc_sheets ch).
End Legal.
