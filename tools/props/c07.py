"""C07 — read calls are pure and the alternative access paths agree.
Metamorphic correspondence: a random call history runs on ONE opened workbook (`open` harness
command); the extracted reader model (Reader.v) says which header-row option is in force for
every call; the expected answer of each call is then obtained from a FRESHLY opened workbook with
that option.  Access-path agreement (range / ref / at(n) / worksheets() / unknown names / auto
detection) is checked directly on the implementation's answers."""
import os, vlib
from vlib import hexs, unhexs, parse_range

ASSUMPTIONS = [
    "the model covers the reader's own state (the header-row option); the zip crate's cursor and caches are runtime state outside the model and are only sampled by this run",
    "in the random and pairwise histories load_tables + table_by_name, and load_merged_regions + merged_regions_by_sheet, count as one read call each; the cache histories (ReaderCache model) separate loading from reading",
    "a cache-reading call on a cache that was never loaded panics by documented contract (.expect): the model predicts it and it is not counted as a violation",
]
HAS_REF = ("xlsx", "xlsb")

# the header-row option belongs to the VALUE reads (worksheet_range / _ref / _at, worksheets, tables cut
# out of them): formulas, merged regions, metadata, names and VBA are functions of the file alone, so
# their reference answer is the one a fresh reader gives under the DEFAULT option
OPTION_FREE = ("formula", "merges", "mergesat", "mergesby", "allmerges", "meta", "names", "sheets", "vba", "tables", "tablesin")
def ref_option(op, h):
    return "d" if op.split(" ")[0] in OPTION_FREE else h

def sources(ctx):
    src = [(vlib.fmt_of_ext(e), p) for e, p in vlib.fixtures(("xlsx", "xlsm", "xlsb", "xls", "ods"))]
    try:
        import gensheets
        src += gensheets.generate(ctx, n=ctx.scale(16, 150))
    except ImportError:
        ctx.notes.append("generated workbooks unavailable (tools/gensheets.py missing): fixtures only")
    return src

def gen_history(rng, fmt, names, tables):
    k = rng.randrange(3, 13)
    ops = []
    pick = lambda: rng.choice(names) if names and rng.random() < 0.9 else hexs("no such sheet " + str(rng.randrange(100)))
    for _ in range(k):
        r = rng.random()
        if r < 0.18:
            ops.append("hdr " + rng.choice(["-", "0", "1", "2", "3", "5", "40", "4294967295"]))
        elif r < 0.45:
            ops.append("range " + pick())
        elif r < 0.55 and fmt in HAS_REF:
            ops.append("ref " + pick())
        elif r < 0.63:
            ops.append("at %d" % rng.randrange(0, len(names) + 2))
        elif r < 0.73:
            ops.append("formula " + pick())
        elif r < 0.78:
            ops.append("wsall")
        elif r < 0.83:
            ops.append(rng.choice(["sheets", "meta", "names"]))
        elif r < 0.88 and fmt in ("xlsx", "xls"):
            k2 = rng.random()
            if k2 < 0.4:
                ops.append("merges " + pick())
            elif k2 < 0.55:
                ops.append("mergesat %d" % rng.randrange(0, len(names) + 1))
            elif k2 < 0.8 and fmt == "xlsx":
                ops.append("mergesby " + pick())
            elif fmt == "xlsx":
                ops.append("allmerges")
            else:
                ops.append("merges " + pick())
        elif r < 0.93 and fmt == "xlsx":
            k2 = rng.random()
            if k2 < 0.5:
                ops.append("table " + (rng.choice(tables) if tables and rng.random() < 0.8 else hexs("NoTable")))
            elif k2 < 0.75:
                ops.append("tables")
            else:
                ops.append("tablesin " + pick())
        elif r < 0.95 and fmt in HAS_REF:
            ops.append("atref %d" % rng.randrange(0, len(names) + 1))
        elif r < 0.97:
            ops.append("vba")
        else:
            ops.append("range " + pick())
    return ops

def vocabulary(fmt, names, tables):
    """every kind of read call, instantiated on the first sheets — for the pairwise interleavings"""
    v = ["hdr 1", "hdr -", "wsall", "sheets", "meta", "names", "vba"]
    for i, n in enumerate(names[:2]):
        v += ["range " + n, "formula " + n, "at %d" % i]
        if fmt in HAS_REF:
            v += ["ref " + n, "atref %d" % i]
        if fmt in ("xlsx", "xls"):
            v += ["merges " + n, "mergesat %d" % i]
        if fmt == "xlsx":
            v += ["mergesby " + n, "tablesin " + n]
    if fmt == "xlsx":
        v += ["allmerges", "tables"] + ["table " + t for t in tables[:2]]
    return v

def pairwise(rng, fmt, names, tables, limit):
    """histories [a, b] for ordered pairs of distinct read calls: every call after every other call"""
    v = vocabulary(fmt, names, tables)
    pairs = [(a, b) for a in v for b in v if a != b and not (a.startswith("hdr") and b.startswith("hdr"))]
    rng.shuffle(pairs)
    return [[a, b] for a, b in pairs[:limit]]

def cache_histories(ctx, books):
    """xlsx only: histories over the raw cache operations (load / read separately) interleaved
    with the other read calls; the extracted ReaderCache model says, per call, which kind of
    answer is due (panic on an unloaded cache, the file's table, the file's answer under the option
    in force); each due answer is resolved on a freshly opened reader."""
    rng = ctx.rng
    xb = [b for b in books if b[0] == "xlsx"]
    if not xb:
        return
    probe = ctx.run_impl(["k%d\topen\txlsx\t%s\tloadmerges;loadtables" % (k, p) for k, (f, p, n, t) in enumerate(xb)])
    hist = []
    # a load that fails must fail the same way every time (no half-filled cache left behind that
    # makes the next load report success): [load, load, other reads, load]
    fl = []
    for k, (f, p, names, tables) in enumerate(xb):
        a = (probe.get("k%d" % k) or "").split(";;")
        if len(a) == 2 and not all(x.startswith("loaded:") for x in a):
            n0 = names[0] if names else hexs("x")
            fl.append("f%d\topen\txlsx\t%s\tloadtables;loadtables;range %s;loadmerges;loadmerges;loadtables;rawtables;loadmerges" % (k, p, n0))
    fimpl = ctx.run_impl(fl)
    for line in fl:
        lid = line.split("\t", 1)[0]
        a = (fimpl.get(lid) or "abort").split(";;")
        ctx.traces += 1
        ctx.count("failing_load_repeated")
        why = None
        if len(a) < 8:
            why = "the call sequence did not complete"
        elif not (a[0] == a[1] == a[5]):
            why = "load_tables answers %s, %s, %s on the same workbook" % (a[0][:40], a[1][:40], a[5][:40])
        elif not (a[3] == a[4] == a[7]):
            why = "load_merged_regions answers %s, %s, %s on the same workbook" % (a[3][:40], a[4][:40], a[7][:40])
        elif a[0].startswith("err") and not a[6].startswith(("panic", "err")):
            why = "tables are listed (%s) although loading them failed" % a[6][:60]
        if why:
            ctx.violations.append({"case": line.split("\t", 1)[1], "expected": "a failing load fails every time", "actual": ";;".join(a)[:300], "model": "", "what": why})
        else:
            ctx.nontrivial("failload|" + line)
    for k, (f, p, names, tables) in enumerate(xb):
        a = (probe.get("k%d" % k) or "").split(";;")
        if len(a) != 2 or not all(x.startswith("loaded:") for x in a):
            continue
        fm, ft = "m" + a[0][-1], "t" + a[1][-1]
        pick = lambda: rng.choice(names) if names and rng.random() < 0.9 else hexs("nosheet")
        tpick = lambda: rng.choice(tables) if tables and rng.random() < 0.8 else hexs("NoTable")
        for _ in range(ctx.scale(4, 40)):
            ops = []
            for _ in range(rng.randrange(2, 11)):
                r = rng.random()
                if r < 0.12: ops.append("hdr " + rng.choice(["-", "0", "1", "2", "5"]))
                elif r < 0.24: ops.append("loadmerges")
                elif r < 0.34: ops.append("rawmerges")
                elif r < 0.46: ops.append("rawmergesby " + pick())
                elif r < 0.56: ops.append("loadtables")
                elif r < 0.62: ops.append("rawtables")
                elif r < 0.68: ops.append("rawtablesin " + pick())
                elif r < 0.78: ops.append("rawtable " + tpick())
                elif r < 0.88: ops.append("merges " + pick())
                elif r < 0.94: ops.append("range " + pick())
                else: ops.append(rng.choice(["formula " + pick(), "wsall", "meta", "mergesat 0"]))
            hist.append((p, fm, ft, ops))
    hl = ["c%d\topen\txlsx\t%s\t%s" % (k, p, ";".join(ops)) for k, (p, fm, ft, ops) in enumerate(hist)]
    himpl = ctx.run_impl(hl)
    hmodel = ctx.run_model(["c%d\treadercache\t%s\t%s\t%s" % (k, fm, ft, ";".join(ops)) for k, (p, fm, ft, ops) in enumerate(hist)])
    need = {}
    def ref_calls(sym, op):
        if sym == "M": return "loadmerges;rawmerges"
        if sym.startswith("MB:"): return "loadmerges;" + op
        if sym == "TN": return "loadtables;rawtables"
        if sym.startswith("TI:"): return "loadtables;" + op
        if sym.startswith("TB:"): return "hdr %s;loadtables;%s" % ("-" if sym.split(":")[1] == "d" else sym.split(":")[1], op)
        if sym.startswith("R:"): return "hdr %s;%s" % ("-" if sym[2:] == "d" else sym[2:], op)
        return None
    for k, (p, fm, ft, ops) in enumerate(hist):
        syms = (hmodel.get("c%d" % k) or "").split(";")
        if len(syms) != len(ops):
            ctx.disagreements.append({"function": "ReaderCache state machine", "case": hl[k], "impl": "", "model": hmodel.get("c%d" % k)})
            continue
        for sym, op in zip(syms, ops):
            rc = ref_calls(sym, op)
            if rc:
                need.setdefault((p, rc), "f%d" % len(need))
    rimpl = ctx.run_impl(["%s\topen\txlsx\t%s\t%s" % (rid, p, rc) for (p, rc), rid in need.items()])
    for k, (p, fm, ft, ops) in enumerate(hist):
        syms = (hmodel.get("c%d" % k) or "").split(";")
        if len(syms) != len(ops):
            continue
        ans = (himpl.get("c%d" % k) or "abort").split(";;")
        case = hl[k].split("\t", 1)[1]
        ctx.traces += 1
        ctx.count("cache_history")
        okall = True
        for i, (sym, op) in enumerate(zip(syms, ops)):
            ctx.count("kop:" + op.split(" ")[0])
            if i >= len(ans):
                ctx.violations.append({"case": case, "expected": "all calls complete", "actual": ";;".join(ans)[:300], "model": ";".join(syms),
                                       "what": "history stopped at call %d (%s)" % (i, op)})
                okall = False
                break
            if sym == "-":
                continue
            if sym in ("panic", "loaded:0", "loaded:1"):
                exp = sym
            else:
                ref = (rimpl.get(need[(p, ref_calls(sym, op))]) or "abort").split(";;")
                exp = ref[-1]
            if ans[i] != exp:
                okall = False
                if (ans[i] == "panic") != (sym == "panic") or ans[i].startswith("loaded:") != sym.startswith("loaded:"):
                    ctx.disagreements.append({"function": "xlsx cache state (ReaderCache.kstep)", "case": case, "impl": ans[i][:200], "model": sym})
                ctx.violations.append({"case": case, "expected": exp[:300], "actual": ans[i][:300], "model": sym,
                                       "what": "call %d (%s): a cache-reading or other call answers differently after this history than the file's own answer (fresh reader)" % (i, op)})
                break
        if okall and len(ops) >= 3:
            ctx.nontrivial("cache|" + case)

def bad(a):
    return a is None or a.startswith(("openerr", "nofile")) or a in ("abort", "timeout", "panic", "alloc", "")

def run(ctx):
    srcs = sources(ctx)
    lines = ["a%d\topen\t%s\t%s\tsheets;tables" % (k, f, p) for k, (f, p) in enumerate(srcs)]
    info = ctx.run_impl(lines)
    books = []
    for k, (f, p) in enumerate(srcs):
        a = info.get("a%d" % k)
        if bad(a):
            ctx.count("unopenable:" + f)
            continue
        parts = a.split(";;")
        names = [h for h in parts[0].split(",") if h]
        tables = [h for h in parts[1].split(",") if h] if len(parts) > 1 and not parts[1].startswith(("err", "unsupported")) else []
        books.append((f, p, names, tables))
    reps = ctx.scale(3, 25)
    hist = []
    for (f, p, names, tables) in books:
        for _ in range(reps):
            hist.append((f, p, names, gen_history(ctx.rng, f, names, tables)))
    # pairwise interleavings (every read call after every other one) on the books that have
    # several sheets, merged regions or tables: generated workbooks first, then fixtures
    rich = [b for b in books if len(b[2]) >= 2 and os.path.basename(b[1]).startswith("g")] + \
           [b for b in books if b[3] or "merge" in os.path.basename(b[1])]
    per_book = ctx.scale(60, 100000)
    for (f, p, names, tables) in rich[:ctx.scale(12, 200)]:
        for ops in pairwise(ctx.rng, f, names, tables, per_book):
            hist.append((f, p, names, ops))
            ctx.count("pairwise")
    # the option in force survives every read call, also a call that fails on one sheet:
    # [hdr n, X, range s] for every kind of call X (generated books first: some hold a sheet
    # whose read fails)
    gen_first = [b for b in books if os.path.basename(b[1]).startswith("g")] + [b for b in books if not os.path.basename(b[1]).startswith("g")]
    for (f, p, names, tables) in gen_first[:ctx.scale(40, 400)]:
        if not names:
            continue
        v = [x for x in vocabulary(f, names, tables) if not x.startswith("hdr")]
        ctx.rng.shuffle(v)
        # worksheets() reads every sheet (some of the generated workbooks hold one that fails) and
        # is therefore always among the calls tried
        v = ["wsall"] + [x for x in v if x != "wsall"]
        for x in v[:ctx.scale(6, 100)]:
            n = ctx.rng.choice(names)
            hist.append((f, p, names, ["hdr %s" % ctx.rng.choice(["1", "2", "3"]), x, "range " + n] + (["ref " + n] if f in HAS_REF else [])))
            ctx.count("option_survives")
    # the same read call under changing options on ONE reader: [X, hdr n, X, hdr -, X] — a result
    # memoised under one option must not be served under another (tables first: table_by_name
    # cuts the table out of the sheet read under the option in force)
    with_tables = [b for b in books if b[3]]
    for (f, p, names, tables) in with_tables + [b for b in gen_first if not b[3]][:ctx.scale(50, 400)]:
        if not names:
            continue
        v = [x for x in vocabulary(f, names, tables) if not x.startswith("hdr")]
        v = [x for x in v if x.startswith("table ")] + [x for x in v if not x.startswith("table ")]
        rest = v[2:]
        ctx.rng.shuffle(rest)
        for x in v[:2] + rest[:ctx.scale(3, 100)]:
            for n in (["1", "2", "3", "5", "7", "12"] if x.startswith("table ") else [ctx.rng.choice(["1", "2", "3", "5", "7"])]):
                hist.append((f, p, names, [x, "hdr " + n, x, "hdr -", x]))
            ctx.count("same_call_two_options")
    # 1. the histories on one opened workbook each
    hl = ["h%d\topen\t%s\t%s\t%s" % (k, f, p, ";".join(ops)) for k, (f, p, names, ops) in enumerate(hist)]
    himpl = ctx.run_impl(hl)
    # 2. the model: which option is in force for each call
    ml = ["h%d\treader\t%s" % (k, ";".join(ops)) for k, (f, p, names, ops) in enumerate(hist)]
    hmodel = ctx.run_model(ml)
    # 3. fresh-open references for every distinct (file, option, call)
    need = {}
    for k, (f, p, names, ops) in enumerate(hist):
        inforce = (hmodel.get("h%d" % k) or "").split(";")
        if len(inforce) != len(ops):
            ctx.disagreements.append({"function": "Reader state machine", "case": hl[k], "impl": "", "model": hmodel.get("h%d" % k)})
            continue
        for op, h in zip(ops, inforce):
            if h != "-":
                need.setdefault((f, p, ref_option(op, h), op), "r%d" % len(need))
    rl = ["%s\topen\t%s\t%s\thdr %s;%s" % (rid, f, p, "-" if h == "d" else h, op) for (f, p, h, op), rid in need.items()]
    rimpl = ctx.run_impl(rl)
    for k, (f, p, names, ops) in enumerate(hist):
        ans = (himpl.get("h%d" % k) or "abort").split(";;")
        inforce = (hmodel.get("h%d" % k) or "").split(";")
        if len(inforce) != len(ops):
            continue
        ctx.traces += 1
        ctx.count("fmt:" + f)
        ctx.count("len:%d" % len(ops))
        case = hl[k].split("\t", 1)[1]
        for i, (op, h) in enumerate(zip(ops, inforce)):
            ctx.count("op:" + op.split(" ")[0])
            if i >= len(ans):
                ctx.violations.append({"case": case, "expected": "all calls complete", "actual": ";;".join(ans)[:300], "model": ";".join(inforce),
                                       "what": "history stopped at call %d (%s): panic/abort" % (i, op)})
                break
            if h == "-":
                continue
            ref = (rimpl.get(need[(f, p, ref_option(op, h), op)]) or "abort").split(";;")
            exp = ref[1] if len(ref) > 1 else "(fresh call failed: %s)" % ";;".join(ref)
            if ans[i] != exp:
                ctx.violations.append({"case": case, "expected": exp[:300], "actual": ans[i][:300], "model": "option in force: " + h,
                                       "what": "call %d (%s) answers differently after this history than on a freshly opened workbook with the same header-row option" % (i, op)})
                break
        else:
            if len(ops) >= 3:
                ctx.nontrivial(case)
            ctx.sample({"history": case[:200]})
    # 3b. the xlsx caches as reader state (ReaderCache.v)
    cache_histories(ctx, books)
    # 4. access paths agree (default option) — checked on the implementation's answers
    al = []
    near_of = {}
    for k, (f, p, names, tables) in enumerate(books):
        calls = ["wsall"]
        for i, n in enumerate(names[:5]):
            calls += ["range " + n, "at %d" % i] + (["ref " + n] if f in HAS_REF else [])
        calls += ["range " + hexs("~no~such~sheet~"), "at %d" % (len(names) + 3)]
        # names that are ALMOST a sheet name are unknown names too: an error, not that sheet
        near = []
        for n in names[:2]:
            t = unhexs(n)
            for v in (t.swapcase(), t.upper(), t.lower(), t + " ", " " + t, t[:-1], t + "x", "'" + t + "'"):
                if v and hexs(v) not in names and hexs(v) not in near:
                    near.append(hexs(v))
        near = near[:10]
        near_of[k] = near
        for v in near:
            calls += ["range " + v, "formula " + v] + (["ref " + v] if f in HAS_REF else [])
        al.append("p%d\topen\t%s\t%s\t%s" % (k, f, p, ";".join(calls)))
        al.append("q%d\topen\tauto\t%s\t%s" % (k, p, ";".join(calls)))
        # through auto-detection every format answers worksheet_range_ref (xls / ods by converting
        # the stored range): it must equal worksheet_range cell by cell, also under a header row
        rcalls = []
        for n in names[:3]:
            rcalls += ["range " + n, "ref " + n]
        rcalls += ["hdr 1"] + [x for n in names[:2] for x in ("range " + n, "ref " + n)]
        al.append("u%d\topen\tauto\t%s\t%s" % (k, p, ";".join(rcalls)))
    aimpl = ctx.run_impl(al)
    for k, (f, p, names, tables) in enumerate(books):
        a = (aimpl.get("p%d" % k) or "abort").split(";;")
        q = (aimpl.get("q%d" % k) or "abort")
        case = al[2 * k].split("\t", 1)[1]
        ctx.traces += 1
        ws = dict(x.split("=", 1) for x in a[0].split("&") if "=" in x)
        idx = 1
        why = None
        for i, n in enumerate(names[:5]):
            if idx + 1 >= len(a):
                why = "call sequence stopped early"
                break
            r, at = a[idx], a[idx + 1]
            idx += 2
            if at != r:
                why = "worksheet_range_at(%d) differs from worksheet_range(%s)" % (i, unhexs(n))
            if f in HAS_REF:
                rf = a[idx]; idx += 1
                if rf != r:
                    why = "worksheet_range_ref converted cell by cell differs from worksheet_range(%s)" % unhexs(n)
            if not r.startswith("err") and n in ws and ws[n] != r:
                why = "worksheets() entry %s differs from worksheet_range" % unhexs(n)
            if not r.startswith("err") and n not in ws:
                why = "worksheets() lacks sheet %s" % unhexs(n)
            if why:
                break
        if why is None and len(a) >= idx + 2:
            if not a[idx].startswith("err:notfound"):
                why = "an unknown sheet name did not yield a not-found error: " + a[idx][:80]
            if a[idx + 1] != "none":
                why = "worksheet_range_at past the last sheet is not None"
            idx += 2
            for v in near_of.get(k, []):
                kinds = ["range", "formula"] + (["ref"] if f in HAS_REF else [])
                for kind in kinds:
                    if idx >= len(a):
                        why = why or "call sequence stopped early"
                        break
                    ans = a[idx]; idx += 1
                    ok = ans.startswith("err:notfound") or (kind == "merges" and ans in ("none", "[]", "err:notfound") )
                    if not ok and why is None:
                        why = "%s(%r), a name that is not a sheet of the workbook, answered %s" % (kind, unhexs(v), ans[:80])
        if why is None:
            qs = q.split(";;")
            if q.startswith("openerr"):
                why = "auto-detection failed to open a workbook its own reader opens"
            elif qs[0] != "auto=" + f:
                why = "auto-detection chose %s for a %s workbook" % (qs[0], f)
            elif qs[1:] != a:
                why = "a workbook opened through auto-detection answers differently from the format's own reader"
        if why is None:
            u = (aimpl.get("u%d" % k) or "abort").split(";;")[1:]
            pairs = [x for x in u if x != "ok" and not x.startswith("hdr")]
            j = 0
            while j + 1 < len(u):
                if u[j] in ("ok", "") or u[j].startswith("hdr="):
                    j += 1
                    continue
                if u[j] != u[j + 1]:
                    why = "through auto-detection worksheet_range_ref differs from worksheet_range: %s vs %s" % (u[j + 1][:80], u[j][:80])
                    break
                j += 2
        if why:
            ctx.violations.append({"case": case, "expected": "C07 access-path agreement", "actual": ";;".join(a)[:300], "model": "", "what": why})
        else:
            ctx.nontrivial("paths|" + p)

    import shutil
    shutil.rmtree(vlib.tmpdir(ctx), ignore_errors=True)

def search(ctx):
    run(ctx)
