(* OdsGrid_proofs.v — proofs for property C04 (model and spec in OdsGrid.v).
   Plan:
     1. generic facts about ffirst / flast (Iterator::position / rposition)
     2. refinement: get_range on (cells, cols) offsets = the same passes on a list of rows
     3. pass 1 computes the summary (first / last used row, min / max used column)
     4. pass 2 invariant (pending empty rows, repeated rows, row_max bookkeeping)
     5. the expansion of a run-length encoded row list: where its used rows / columns are
     6. range_of depends only on the cell function (cell_at): trailing defaults are invisible
     7. get_range_correct, read_table_correct (C04 main), corollaries
     8. soundness of range_of: tight bounding rectangle, every value at its position *)
From Calamine Require Import Prelude Range Range_spec OdsGrid.
Open Scope N_scope.
Set Implicit Arguments.

(* ====================================================================================== *)
(* 1. ffirst / flast                                                                       *)
(* ====================================================================================== *)
Section FindLemmas.
Variable A : Type.
Variable P : A -> bool.

Lemma ffirst_app : forall a b, ffirst P (a ++ b) =
  match ffirst P a with
  | Some i => Some i
  | None => option_map (Nat.add (length a)) (ffirst P b)
  end.
Proof.
  induction a as [|x a IH]; intros b; cbn [app ffirst length].
  - destruct (ffirst P b); reflexivity.
  - destruct (P x); [reflexivity|]. rewrite IH. destruct (ffirst P a); cbn; [reflexivity|].
    destruct (ffirst P b); reflexivity.
Qed.

Lemma flast_app : forall a b, flast P (a ++ b) =
  match flast P b with
  | Some i => Some (length a + i)%nat
  | None => flast P a
  end.
Proof.
  induction a as [|x a IH]; intros b; cbn [app flast length].
  - destruct (flast P b); reflexivity.
  - rewrite IH. destruct (flast P b); reflexivity.
Qed.

Lemma ffirst_repeat : forall x n, ffirst P (repeat x n) =
  if P x then match n with O => None | S _ => Some O end else None.
Proof.
  intros x n. destruct (P x) eqn:E; induction n as [|n IH]; cbn [repeat ffirst];
    rewrite ?E; try reflexivity.
  rewrite IH. reflexivity.
Qed.

Lemma flast_repeat : forall x n, flast P (repeat x n) =
  if P x then match n with O => None | S m => Some m end else None.
Proof.
  intros x n. destruct (P x) eqn:E; induction n as [|n IH]; cbn [repeat flast];
    rewrite ?E; try reflexivity.
  - rewrite IH. destruct n; reflexivity.
  - rewrite IH. reflexivity.
Qed.

Lemma ffirst_none : forall l, ffirst P l = None <-> existsb P l = false.
Proof.
  induction l as [|x l IH]; cbn [ffirst existsb]; [tauto|].
  destruct (P x); cbn [orb]; [split; discriminate|].
  destruct (ffirst P l); cbn [option_map].
  - split; [discriminate|]. intros H. apply IH in H. discriminate.
  - split; intros _; [apply IH|]; reflexivity.
Qed.

Lemma flast_none : forall l, flast P l = None <-> existsb P l = false.
Proof.
  induction l as [|x l IH]; cbn [flast existsb]; [tauto|].
  destruct (flast P l).
  - split; [discriminate|]. intros H. apply orb_false_elim in H. destruct H as [_ H].
    apply IH in H. discriminate.
  - assert (E : existsb P l = false) by (apply IH; reflexivity). rewrite E, orb_false_r.
    destruct (P x); split; congruence.
Qed.

Lemma ffirst_some : forall l i, ffirst P l = Some i ->
  (i < length l)%nat /\ (forall a0, P (nth i l a0) = true) /\
  (forall j a0, (j < i)%nat -> P (nth j l a0) = false).
Proof.
  induction l as [|x l IH]; intros i H; cbn [ffirst] in H; [discriminate|].
  destruct (P x) eqn:E.
  - inversion H; subst. cbn [length nth]. repeat split; [lia|auto|intros; lia].
  - destruct (ffirst P l) as [i'|] eqn:E'; [|discriminate]. inversion H; subst.
    destruct (IH i' eq_refl) as (H1 & H2 & H3). cbn [length]. repeat split; [lia|exact H2|].
    intros [|j] a0 Hj; cbn [nth]; [exact E|apply H3; lia].
Qed.

Lemma flast_some : forall l i, flast P l = Some i ->
  (i < length l)%nat /\ (forall a0, P (nth i l a0) = true) /\
  (forall j a0, (i < j)%nat -> (j < length l)%nat -> P (nth j l a0) = false).
Proof.
  induction l as [|x l IH]; intros i H; cbn [flast] in H; [discriminate|].
  destruct (flast P l) as [i'|] eqn:E'.
  - inversion H; subst. destruct (IH i' eq_refl) as (H1 & H2 & H3). cbn [length].
    repeat split; [lia|exact H2|].
    intros [|j] a0 Hj Hl; [lia|]. cbn [nth]. apply H3; cbn [length] in Hl; lia.
  - destruct (P x) eqn:E; [|discriminate]. inversion H; subst. cbn [length].
    repeat split; [lia|auto|].
    intros [|j] a0 Hj Hl; [lia|]. cbn [nth]. cbn [length] in Hl.
    apply flast_none in E'. rewrite <- not_true_iff_false in E'.
    apply not_true_is_false. intros Hc. apply E'. apply existsb_exists.
    exists (nth j l a0). split; [apply nth_In; lia|exact Hc].
Qed.

Lemma ffirst_flast_some : forall l i, ffirst P l = Some i -> exists j, flast P l = Some j /\ (i <= j)%nat.
Proof.
  intros l i H. destruct (flast P l) as [j|] eqn:E.
  - exists j. split; [reflexivity|].
    destruct (ffirst_some _ H) as (H1 & H2 & H3). destruct (flast_some _ E) as (G1 & G2 & G3).
    destruct l as [|a0 l']; [cbn in H1; lia|].
    destruct (Nat.le_gt_cases i j) as [|Hlt]; [assumption|].
    specialize (G3 i a0 Hlt H1). rewrite (H2 a0) in G3. discriminate.
  - apply flast_none in E. apply ffirst_none in E. congruence.
Qed.

Lemma ffirst_snoc : forall l x, ffirst P (l ++ [x]) =
  match ffirst P l with
  | Some i => Some i
  | None => if P x then Some (length l) else None
  end.
Proof.
  intros l x. rewrite ffirst_app. destruct (ffirst P l); [reflexivity|].
  cbn [ffirst]. destruct (P x); cbn [option_map]; [f_equal; lia|reflexivity].
Qed.

Lemma flast_snoc : forall l x, flast P (l ++ [x]) = if P x then Some (length l) else flast P l.
Proof.
  intros l x. rewrite flast_app. cbn [flast]. destruct (P x); [f_equal; lia|reflexivity].
Qed.

(* the two searches only see the values P takes along the list, missing entries counting as
   "not P" *)
Lemma ffirst_all_false : forall a0 l, (forall i, P (nth i l a0) = false) -> ffirst P l = None.
Proof.
  intros a0 l H. apply ffirst_none. apply not_true_is_false. intros Hc.
  apply existsb_exists in Hc. destruct Hc as (x & Hin & Hx).
  destruct (In_nth _ _ a0 Hin) as (i & _ & Hi). specialize (H i). congruence.
Qed.

Lemma ffirst_nth_ext : forall a0, P a0 = false -> forall l1 l2,
  (forall i, P (nth i l1 a0) = P (nth i l2 a0)) -> ffirst P l1 = ffirst P l2.
Proof.
  intros a0 H0. induction l1 as [|x l1 IH]; intros l2 H.
  - symmetry. apply ffirst_all_false with (a0 := a0). intros i. rewrite <- H.
    destruct i; exact H0.
  - destruct l2 as [|y l2].
    + apply ffirst_all_false with (a0 := a0). intros i. rewrite H. destruct i; exact H0.
    + cbn [ffirst]. pose proof (H O) as E0. cbn [nth] in E0. rewrite E0.
      rewrite (IH l2); [reflexivity|]. intros i. exact (H (S i)).
Qed.

Lemma flast_nth_ext : forall a0, P a0 = false -> forall l1 l2,
  (forall i, P (nth i l1 a0) = P (nth i l2 a0)) -> flast P l1 = flast P l2.
Proof.
  intros a0 H0.
  assert (AF : forall l, (forall i, P (nth i l a0) = false) -> flast P l = None).
  { intros l H. apply flast_none. apply ffirst_none. apply ffirst_all_false with (a0 := a0). exact H. }
  induction l1 as [|x l1 IH]; intros l2 H.
  - symmetry. apply AF. intros i. rewrite <- H. destruct i; exact H0.
  - destruct l2 as [|y l2].
    + apply AF. intros i. rewrite H. destruct i; exact H0.
    + cbn [flast]. pose proof (H O) as E0. cbn [nth] in E0. rewrite E0.
      rewrite (IH l2); [reflexivity|]. intros i. exact (H (S i)).
Qed.

End FindLemmas.

Lemma ffirst_map : forall (A B : Type) (P : A -> bool) (f : B -> A) l,
  ffirst P (map f l) = ffirst (fun x => P (f x)) l.
Proof. induction l as [|x l IH]; cbn [map ffirst]; [reflexivity|]. rewrite IH. reflexivity. Qed.

Lemma flast_map : forall (A B : Type) (P : A -> bool) (f : B -> A) l,
  flast P (map f l) = flast (fun x => P (f x)) l.
Proof. induction l as [|x l IH]; cbn [map flast]; [reflexivity|]. rewrite IH. reflexivity. Qed.

(* ---------- small list facts ---------- *)
Lemma sum_list_acc : forall l a, fold_left N.add l a = a + fold_left N.add l 0.
Proof.
  induction l as [|x l IH]; intros a; cbn [fold_left]; [lia|].
  rewrite (IH (a + x)), (IH (0 + x)). lia.
Qed.
Lemma sum_list_cons : forall x l, sum_list (x :: l) = x + sum_list l.
Proof. intros. unfold sum_list. cbn [fold_left]. rewrite sum_list_acc. lia. Qed.
Lemma sum_list_nil : sum_list [] = 0.
Proof. reflexivity. Qed.
Lemma sum_list_app : forall a b, sum_list (a ++ b) = sum_list a + sum_list b.
Proof.
  induction a as [|x a IH]; intros b; cbn [app]; [rewrite sum_list_nil; lia|].
  rewrite !sum_list_cons, IH. lia.
Qed.
Lemma sum_firstn_le : forall n l, sum_list (firstn n l) <= sum_list l.
Proof.
  intros n l. rewrite <- (firstn_skipn n l) at 2. rewrite sum_list_app. lia.
Qed.

Lemma skipn_repeat : forall (A : Type) (x : A) n m, skipn n (repeat x m) = repeat x (m - n).
Proof.
  induction n as [|n IH]; intros m; [rewrite Nat.sub_0_r; reflexivity|].
  destruct m as [|m]; [reflexivity|]. cbn [repeat skipn]. apply IH.
Qed.

Lemma concat_repeat_add : forall (A : Type) (x : list A) a b,
  concat (repeat x (a + b)) = concat (repeat x a) ++ concat (repeat x b).
Proof. intros. rewrite repeat_app, concat_app. reflexivity. Qed.

Lemma map_const_seq : forall (A : Type) (x : A) n a, map (fun _ => x) (seq a n) = repeat x n.
Proof. induction n as [|n IH]; intros a; cbn [seq map repeat]; [reflexivity|]. rewrite IH. reflexivity. Qed.

Lemma combine_fst_snd : forall (A B : Type) (l : list (A * B)), combine (map fst l) (map snd l) = l.
Proof. induction l as [|[a b] l IH]; cbn; [reflexivity|]. rewrite IH. reflexivity. Qed.

Lemma firstn_add : forall (A : Type) a b (l : list A),
  firstn (a + b) l = firstn a l ++ firstn b (skipn a l).
Proof.
  induction a as [|a IH]; intros b l; [reflexivity|].
  destruct l as [|x l]; [cbn; rewrite firstn_nil; reflexivity|].
  cbn [Nat.add firstn skipn app]. rewrite IH. reflexivity.
Qed.

Lemma skipn_skipn' : forall (A : Type) a b (l : list A), skipn a (skipn b l) = skipn (b + a) l.
Proof.
  intros A a b. induction b as [|b IH]; intros l; [reflexivity|].
  destruct l as [|x l]; [rewrite !skipn_nil; reflexivity|]. cbn [skipn Nat.add]. apply IH.
Qed.

(* ====================================================================================== *)
(* 2. refinement: offsets into one vector  =  a list of rows                                *)
(* ====================================================================================== *)
Section Refine.
Variable T : Type.
Variable d : T.
Variable isd : T -> bool.

Fixpoint spans (b : N) (rows : list (list T)) : list (N * N) :=
  match rows with
  | [] => []
  | row :: rs => (b, b + N.of_nat (length row)) :: spans (b + N.of_nat (length row)) rs
  end.
Fixpoint offs (b : N) (rows : list (list T)) : list N :=
  match rows with
  | [] => []
  | row :: rs => (b + N.of_nat (length row)) :: offs (b + N.of_nat (length row)) rs
  end.

Lemma windows2_cons2 : forall a b t, windows2 (a :: b :: t) = (a, b) :: windows2 (b :: t).
Proof. reflexivity. Qed.

Lemma windows2_offs : forall rows b, windows2 (b :: offs b rows) = spans b rows.
Proof.
  induction rows as [|row rs IH]; intros b; [reflexivity|].
  cbn [offs spans]. rewrite windows2_cons2, IH. reflexivity.
Qed.

Lemma slice_mid : forall (pre row post : list T),
  slice (pre ++ row ++ post) (N.of_nat (length pre))
        (N.of_nat (length pre) + N.of_nat (length row)) = Ok row.
Proof.
  intros. unfold slice. rewrite !app_length.
  assert (E : (N.of_nat (length pre) <=? N.of_nat (length pre) + N.of_nat (length row)) &&
              (N.of_nat (length pre) + N.of_nat (length row) <=?
               N.of_nat (length pre + (length row + length post))) = true).
  { apply andb_true_intro; split; apply N.leb_le; lia. }
  rewrite E.
  replace (N.to_nat (N.of_nat (length pre) + N.of_nat (length row) - N.of_nat (length pre)))
    with (length row) by lia.
  rewrite Nat2N.id. rewrite skipn_app, skipn_all, Nat.sub_diag. cbn [skipn app].
  rewrite firstn_app, firstn_all, Nat.sub_diag. cbn [firstn]. rewrite app_nil_r. reflexivity.
Qed.

Fixpoint pass1R (rr : list N) (rows : list (list T)) (i : nat) (st : p1) : outcome p1 :=
  match rows with
  | [] => Ok st
  | row :: rs => do st' <- p1_row isd rr i row st; pass1R rr rs (S i) st'
  end.

Lemma pass1_refine : forall rows pre post rr i st,
  pass1 isd (pre ++ concat rows ++ post) rr (spans (N.of_nat (length pre)) rows) i st
  = pass1R rr rows i st.
Proof.
  induction rows as [|row rs IH]; intros; [reflexivity|].
  cbn [spans pass1 pass1R concat]. rewrite <- app_assoc. rewrite slice_mid. cbn [obind].
  destruct (p1_row isd rr i row st) as [st'| | |]; cbn [obind]; try reflexivity.
  specialize (IH (pre ++ row) post rr (S i) st').
  rewrite app_length, Nat2N.inj_add in IH. rewrite <- IH. f_equal.
  rewrite <- !app_assoc. reflexivity.
Qed.

Fixpoint pass2R (c0 c1 : nat) (ec : list T) (l : list (list T * N)) (st : p2 T)
  : outcome (p2 T) :=
  match l with
  | [] => Ok st
  | (row, k) :: l' => do st' <- p2_row isd c0 c1 ec row k st; pass2R c0 c1 ec l' st'
  end.

Lemma pass2_refine : forall rows ks pre post c0 c1 ec st,
  pass2 isd (pre ++ concat rows ++ post) c0 c1 ec
        (combine (spans (N.of_nat (length pre)) rows) ks) st
  = pass2R c0 c1 ec (combine rows ks) st.
Proof.
  induction rows as [|row rs IH]; intros; [reflexivity|].
  destruct ks as [|k ks]; [reflexivity|].
  cbn [spans combine pass2 pass2R concat]. rewrite <- app_assoc. rewrite slice_mid. cbn [obind].
  destruct (p2_row isd c0 c1 ec row k st) as [st'| | |]; cbn [obind]; try reflexivity.
  specialize (IH ks (pre ++ row) post c0 c1 ec st').
  rewrite app_length, Nat2N.inj_add in IH. rewrite <- IH. f_equal.
  rewrite <- !app_assoc. reflexivity.
Qed.

Lemma firstn_spans : forall n rows b, firstn n (spans b rows) = spans b (firstn n rows).
Proof.
  induction n as [|n IH]; intros rows b; [reflexivity|].
  destruct rows as [|row rs]; [reflexivity|]. cbn [spans firstn]. rewrite IH. reflexivity.
Qed.

Lemma skipn_spans : forall n rows b,
  skipn n (spans b rows) = spans (b + N.of_nat (length (concat (firstn n rows)))) (skipn n rows).
Proof.
  induction n as [|n IH]; intros rows b.
  - cbn [firstn skipn concat length]. f_equal. lia.
  - destruct rows as [|row rs].
    + cbn [spans skipn firstn]. reflexivity.
    + cbn [spans skipn firstn concat]. rewrite IH. rewrite app_length. f_equal. lia.
Qed.

(* ====================================================================================== *)
(* 3. pass 1 computes the summary of the rows                                              *)
(* ====================================================================================== *)
Hypothesis isd_spec : forall x, isd x = true <-> x = d.

Lemma isd_d : isd d = true.
Proof. apply isd_spec. reflexivity. Qed.
Lemma nz_d : nz isd d = false.
Proof. unfold nz. rewrite isd_d. reflexivity. Qed.

Lemma row_used_forallb : forall row, row_used isd row = negb (forallb isd row).
Proof.
  induction row as [|x row IH]; [reflexivity|].
  cbn [row_used existsb forallb]. unfold row_used in IH. rewrite IH. unfold nz.
  destruct (isd x); reflexivity.
Qed.

Lemma position_none : forall row, position isd row = None <-> row_used isd row = false.
Proof. intros. apply ffirst_none. Qed.
Lemma rposition_none : forall row, rposition isd row = None <-> row_used isd row = false.
Proof. intros. apply flast_none. Qed.

Lemma omin_none_r : forall a, omin a None = a.
Proof. destruct a; reflexivity. Qed.
Lemma omin_assoc : forall a b c, omin a (omin b c) = omin (omin a b) c.
Proof. intros [a|] [b|] [c|]; cbn; try reflexivity. f_equal. lia. Qed.

Lemma min_col_app : forall a b, min_col isd (a ++ b) = omin (min_col isd a) (min_col isd b).
Proof.
  induction a as [|row a IH]; intros b; [reflexivity|].
  cbn [app min_col fold_right]. fold (min_col isd (a ++ b)). fold (min_col isd a).
  rewrite IH. apply omin_assoc.
Qed.
Lemma max_col_app : forall a b, max_col isd (a ++ b) = Nat.max (max_col isd a) (max_col isd b).
Proof.
  induction a as [|row a IH]; intros b; [reflexivity|].
  cbn [app max_col fold_right]. fold (max_col isd (a ++ b)). fold (max_col isd a).
  rewrite IH. destruct (rposition isd row); lia.
Qed.

Definition summ (rr : list N) (g : list (list T)) : p1 :=
  mkP1 (ffirst (row_used isd) g)
       (match flast (row_used isd) g with Some j => j | None => O end)
       (min_col isd g) (max_col isd g)
       (match ffirst (row_used isd) g with
        | Some i0 => sum_list (firstn i0 rr) - N.of_nat i0
        | None => 0
        end).

Lemma chk_ok : forall x, x <= USIZE_MAX -> chk x = Ok x.
Proof. intros x H. unfold chk. apply N.leb_le in H. rewrite H. reflexivity. Qed.

Lemma p1_row_summ : forall rr g row, sum_list rr <= USIZE_MAX ->
  p1_row isd rr (length g) row (summ rr g) = Ok (summ rr (g ++ [row])).
Proof.
  intros rr g row Hs. unfold p1_row, summ.
  rewrite ffirst_snoc, flast_snoc, min_col_app, max_col_app.
  cbn [min_col max_col fold_right]. rewrite omin_none_r.
  destruct (position isd row) as [p|] eqn:Ep.
  - assert (Hu : row_used isd row = true).
    { destruct (row_used isd row) eqn:E; [reflexivity|]. apply position_none in E. congruence. }
    rewrite Hu.
    destruct (rposition isd row) as [q|] eqn:Eq;
      [|apply rposition_none in Eq; congruence].
    cbn [p_rmin p_rmax p_cmin p_cmax p_fer].
    destruct (ffirst (row_used isd) g) as [i0|] eqn:Ei0; cbn [obind p_rmin p_rmax p_cmin p_cmax p_fer].
    + f_equal. f_equal.
      * destruct (min_col isd g) as [c|]; cbn [omin]; [|reflexivity].
        destruct (Nat.ltb_spec p c); f_equal; lia.
      * destruct (Nat.ltb_spec (max_col isd g) q); lia.
    + rewrite chk_ok by (pose proof (sum_firstn_le (length g) rr); lia).
      cbn [obind p_rmin p_rmax p_cmin p_cmax p_fer]. f_equal. f_equal.
      * destruct (min_col isd g) as [c|]; cbn [omin]; [|reflexivity].
        destruct (Nat.ltb_spec p c); f_equal; lia.
      * destruct (Nat.ltb_spec (max_col isd g) q); lia.
  - assert (Hu : row_used isd row = false) by (apply position_none; exact Ep).
    rewrite Hu.
    assert (Eq : rposition isd row = None) by (apply rposition_none; exact Hu).
    rewrite Eq. rewrite omin_none_r, Nat.max_0_r.
    destruct (ffirst (row_used isd) g); reflexivity.
Qed.

Lemma pass1R_summ : forall rr g2 g1, sum_list rr <= USIZE_MAX ->
  pass1R rr g2 (length g1) (summ rr g1) = Ok (summ rr (g1 ++ g2)).
Proof.
  induction g2 as [|row g2 IH]; intros g1 Hs.
  - rewrite app_nil_r. reflexivity.
  - cbn [pass1R]. rewrite p1_row_summ by exact Hs. cbn [obind].
    specialize (IH (g1 ++ [row]) Hs). rewrite app_length in IH. cbn [length] in IH.
    replace (length g1 + 1)%nat with (S (length g1)) in IH by lia.
    rewrite IH. rewrite <- app_assoc. reflexivity.
Qed.

(* ====================================================================================== *)
(* 4. pass 2                                                                                *)
(* ====================================================================================== *)
Lemma nth_all_default : forall row c, forallb isd row = true -> nth c row d = d.
Proof.
  induction row as [|x row IH]; intros c H; [destruct c; reflexivity|].
  cbn [forallb] in H. apply andb_prop in H. destruct H as [Hx Hr].
  destruct c as [|c]; cbn [nth]; [apply isd_spec; exact Hx|apply IH; exact Hr].
Qed.

Lemma fitS_length : forall c0 w row, length (fitS d c0 w row) = w.
Proof. intros. unfold fitS. rewrite map_length, seq_length. reflexivity. Qed.

Lemma fitS_nth : forall c0 w row i, (i < w)%nat -> nth i (fitS d c0 w row) d = nth (c0 + i) row d.
Proof.
  intros c0 w row i Hi. unfold fitS.
  rewrite nth_indep with (d' := nth O row d) by (rewrite map_length, seq_length; exact Hi).
  rewrite (map_nth (fun c => nth c row d)). rewrite seq_nth by exact Hi. reflexivity.
Qed.

Lemma fitS_empty : forall c0 w row, forallb isd row = true -> fitS d c0 w row = repeat d w.
Proof.
  intros c0 w row H. unfold fitS. rewrite <- (map_const_seq d w c0). apply map_ext.
  intros c. apply nth_all_default. exact H.
Qed.

Lemma nth_skipn' : forall n (l : list T) i, nth i (skipn n l) d = nth (n + i) l d.
Proof.
  induction n as [|n IH]; intros l i; [reflexivity|].
  destruct l as [|x l]; [destruct i; reflexivity|]. cbn [skipn Nat.add nth]. apply IH.
Qed.

Lemma nth_firstn' : forall n (l : list T) i, (i < n)%nat -> nth i (firstn n l) d = nth i l d.
Proof.
  induction n as [|n IH]; intros l i Hi; [lia|].
  destruct l as [|x l]; [reflexivity|]. destruct i as [|i]; [reflexivity|].
  cbn [firstn nth]. apply IH. lia.
Qed.

Lemma fit_fitS : forall c0 c1 row, (c0 <= length row)%nat -> (c0 <= c1)%nat ->
  fit c0 c1 row (repeat d (c1 + 1)) = fitS d c0 (c1 + 1 - c0) row.
Proof.
  intros c0 c1 row H0 H1. unfold fit.
  destruct (Nat.compare_spec (length row) (c1 + 1)) as [E|E|E].
  - apply nth_ext with (d := d) (d' := d).
    + rewrite fitS_length, skipn_length. lia.
    + intros i Hi. rewrite skipn_length in Hi. rewrite fitS_nth by lia. apply nth_skipn'.
  - apply nth_ext with (d := d) (d' := d).
    + rewrite fitS_length, app_length, !skipn_length, repeat_length. lia.
    + intros i Hi. rewrite app_length, !skipn_length, repeat_length in Hi.
      rewrite fitS_nth by lia. rewrite skipn_repeat.
      destruct (Nat.lt_ge_cases i (length row - c0)) as [Hlt|Hge].
      * rewrite app_nth1 by (rewrite skipn_length; exact Hlt). apply nth_skipn'.
      * rewrite app_nth2 by (rewrite skipn_length; exact Hge).
        rewrite nth_repeat. symmetry. apply nth_overflow. lia.
  - apply nth_ext with (d := d) (d' := d).
    + rewrite fitS_length, firstn_length, skipn_length. lia.
    + intros i Hi. rewrite firstn_length, skipn_length in Hi.
      rewrite fitS_nth by lia. rewrite nth_firstn' by lia. apply nth_skipn'.
Qed.

Fixpoint trim (l : list (list T * N)) : list (list T * N) :=
  match l with
  | [] => []
  | x :: l' => match trim l' with
               | [] => if forallb isd (fst x) then [] else [x]
               | t => x :: t
               end
  end.
Definition sumk (l : list (list T * N)) : N := sum_list (map snd l).
Definition sumk1 (l : list (list T * N)) : N := sum_list (map (fun rk => snd rk - 1) l).
Definition bodyS (c0 w : nat) (l : list (list T * N)) : list T :=
  flat_map (fun rk => concat (repeat (fitS d c0 w (fst rk)) (N.to_nat (snd rk)))) l.

Lemma sumk_cons : forall row k l, sumk ((row, k) :: l) = k + sumk l.
Proof. intros. unfold sumk. cbn [map snd]. apply sum_list_cons. Qed.
Lemma sumk1_cons : forall row k l, sumk1 ((row, k) :: l) = (k - 1) + sumk1 l.
Proof. intros. unfold sumk1. cbn [map snd]. apply sum_list_cons. Qed.
Lemma bodyS_cons : forall c0 w row k l,
  bodyS c0 w ((row, k) :: l) = concat (repeat (fitS d c0 w row) (N.to_nat k)) ++ bodyS c0 w l.
Proof. reflexivity. Qed.
Lemma sumk_app : forall a b, sumk (a ++ b) = sumk a + sumk b.
Proof. intros. unfold sumk. rewrite map_app. apply sum_list_app. Qed.

Lemma p2_row_empty : forall c0 c1 ec row k E C rm out,
  forallb isd row = true -> E + k <= USIZE_MAX ->
  p2_row isd c0 c1 ec row k (mkP2 E C rm out) = Ok (mkP2 (E + k) (C + 1) rm out).
Proof.
  intros until out. intros Hrow Hb. unfold p2_row. rewrite Hrow.
  cbn [q_err q_cons q_rmax q_out]. rewrite chk_ok by assumption. reflexivity.
Qed.

Lemma p2_row_used : forall c0 c1 ec row k E C rm out,
  forallb isd row = false -> C <= E -> 1 <= k -> rm + E + k <= USIZE_MAX ->
  p2_row isd c0 c1 ec row k (mkP2 E C rm out) =
  Ok (mkP2 0 0 (rm + (E - C) + (k - 1))
        ((out ++ concat (repeat (skipn c0 ec) (N.to_nat E))) ++
         concat (repeat (fit c0 c1 row ec) (N.to_nat k)))).
Proof.
  intros until out. intros Hrow HC Hk Hb. unfold p2_row. rewrite Hrow.
  cbn [q_err q_cons q_rmax q_out].
  destruct (N.ltb_spec 0 E) as [HE|HE].
  - rewrite chk_ok by lia. cbn [obind].
    assert (E1 : (C <=? rm + E) = true) by (apply N.leb_le; lia).
    rewrite E1. cbn [obind q_err q_cons q_rmax q_out].
    destruct (N.ltb_spec 1 k).
    + rewrite chk_ok by lia. cbn [obind]. unfold rep_app.
      replace (rm + E - C + k - 1) with (rm + (E - C) + (k - 1)) by lia. reflexivity.
    + cbn [obind]. unfold rep_app.
      replace (rm + E - C) with (rm + (E - C) + (k - 1)) by lia. reflexivity.
  - assert (E = 0) by lia. assert (C = 0) by lia. subst.
    cbn [obind q_err q_cons q_rmax q_out].
    destruct (N.ltb_spec 1 k).
    + rewrite chk_ok by lia. cbn [obind]. unfold rep_app.
      cbn [N.to_nat repeat concat]. rewrite app_nil_r.
      replace (rm + k - 1) with (rm + (0 - 0) + (k - 1)) by lia. reflexivity.
    + cbn [obind]. unfold rep_app. cbn [N.to_nat repeat concat]. rewrite app_nil_r.
      replace rm with (rm + (0 - 0) + (k - 1)) at 1 by lia. reflexivity.
Qed.

Lemma pass2R_inv : forall c0 c1 l E C rm out,
  Forall (fun rk => 1 <= snd rk) l -> C <= E -> rm + E + sumk l <= USIZE_MAX ->
  (forall rk, In rk l -> forallb isd (fst rk) = false ->
     fit c0 c1 (fst rk) (repeat d (c1 + 1)) = fitS d c0 (c1 + 1 - c0) (fst rk)) ->
  exists E' C', pass2R c0 c1 (repeat d (c1 + 1)) l (mkP2 E C rm out) =
    Ok (mkP2 E' C'
          (match trim l with [] => rm | _ => rm + (E - C) + sumk1 (trim l) end)
          (match trim l with
           | [] => out
           | t => out ++ concat (repeat (repeat d (c1 + 1 - c0)) (N.to_nat E)) ++
                  bodyS c0 (c1 + 1 - c0) t
           end)).
Proof.
  intros c0 c1. induction l as [|[row k] l IH]; intros E C rm out Hk HC Hb Hfit.
  - exists E, C. reflexivity.
  - inversion Hk as [|? ? Hk1 Hk2]; subst. cbn [snd] in Hk1.
    rewrite sumk_cons in Hb.
    cbn [pass2R]. destruct (forallb isd row) eqn:Erow.
    + rewrite p2_row_empty by (assumption || lia). cbn [obind].
      destruct (IH (E + k) (C + 1) rm out Hk2) as (E' & C' & HI);
        [lia|lia|intros rk0 Hin; apply Hfit; right; exact Hin|].
      exists E', C'. rewrite HI. cbn [trim fst]. rewrite Erow.
      destruct (trim l) as [|t0 t] eqn:Et; [reflexivity|].
      rewrite sumk1_cons, bodyS_cons. rewrite (fitS_empty _ _ _ Erow).
      rewrite N2Nat.inj_add, concat_repeat_add. rewrite <- !app_assoc.
      replace (rm + (E + k - (C + 1)) + sumk1 (t0 :: t))
        with (rm + (E - C) + (k - 1 + sumk1 (t0 :: t))) by lia.
      reflexivity.
    + rewrite p2_row_used by (assumption || lia). cbn [obind].
      match goal with |- context [pass2R _ _ _ l (mkP2 0 0 ?r ?o)] =>
        destruct (IH 0 0 r o Hk2) as (E' & C' & HI);
          [lia|lia|intros rk0 Hin; apply Hfit; right; exact Hin|] end.
      exists E', C'. rewrite HI. cbn [trim fst]. rewrite Erow.
      rewrite skipn_repeat.
      pose proof (Hfit (row, k) (or_introl eq_refl) Erow) as Hf. cbn [fst] in Hf. rewrite Hf.
      destruct (trim l) as [|t0 t] eqn:Et.
      * rewrite sumk1_cons, bodyS_cons. unfold sumk1, bodyS. cbn [map flat_map].
        rewrite sum_list_nil, app_nil_r, N.add_0_r. rewrite <- app_assoc. reflexivity.
      * rewrite (sumk1_cons row k (t0 :: t)), (bodyS_cons c0 (c1 + 1 - c0) row k (t0 :: t)).
        cbn [N.to_nat repeat concat app]. rewrite <- !app_assoc.
        replace (rm + (E - C) + (k - 1) + (0 - 0) + sumk1 (t0 :: t))
          with (rm + (E - C) + (k - 1 + sumk1 (t0 :: t))) by lia.
        reflexivity.
Qed.

Lemma trim_app_empty : forall a b, Forall (fun rk => forallb isd (fst rk) = true) b ->
  trim (a ++ b) = trim a.
Proof.
  intros a b Hb.
  assert (Tb : trim b = []).
  { induction Hb as [|x b Hx Hb IH]; [reflexivity|]. cbn [trim]. rewrite IH, Hx. reflexivity. }
  induction a as [|x a IH]; [exact Tb|]. cbn [app trim]. rewrite IH. reflexivity.
Qed.

Lemma trim_last_used : forall a x, forallb isd (fst x) = false -> trim (a ++ [x]) = a ++ [x].
Proof.
  induction a as [|y a IH]; intros x Hx.
  - cbn [app trim]. rewrite Hx. reflexivity.
  - cbn [app trim]. rewrite (IH x Hx). destruct (a ++ [x]) eqn:E; [|reflexivity].
    destruct a; discriminate.
Qed.

(* ====================================================================================== *)
(* 5. where the used rows / columns of an expanded run-length list are                      *)
(* ====================================================================================== *)
Definition usedL (rk : list T * N) : bool := row_used isd (fst rk).

Lemma expand_rows_cons : forall (row : list T) k l,
  expand_rows ((row, k) :: l) = repeat row (N.to_nat k) ++ expand_rows l.
Proof. reflexivity. Qed.
Lemma expand_rows_app : forall (a b : list (list T * N)),
  expand_rows (a ++ b) = expand_rows a ++ expand_rows b.
Proof. intros. unfold expand_rows. apply flat_map_app. Qed.
Lemma expand_rows_length : forall (l : list (list T * N)),
  N.of_nat (length (expand_rows l)) = sumk l.
Proof.
  induction l as [|[row k] l IH]; [reflexivity|].
  rewrite expand_rows_cons, app_length, repeat_length, sumk_cons. lia.
Qed.

Lemma ffirst_ex : forall l, Forall (fun rk : list T * N => 1 <= snd rk) l ->
  ffirst (row_used isd) (expand_rows l) =
  option_map (fun i => length (expand_rows (firstn i l))) (ffirst usedL l).
Proof.
  induction l as [|[row k] l IH]; intros Hk; [reflexivity|].
  inversion Hk as [|? ? Hk1 Hk2]; subst. cbn [snd] in Hk1.
  rewrite expand_rows_cons, ffirst_app, ffirst_repeat. cbn [ffirst]. unfold usedL at 1. cbn [fst].
  destruct (row_used isd row) eqn:Eu.
  - destruct (N.to_nat k) eqn:En; [lia|]. reflexivity.
  - rewrite repeat_length, (IH Hk2).
    destruct (ffirst usedL l) as [i|]; cbn [option_map]; [|reflexivity].
    f_equal. cbn [firstn]. rewrite expand_rows_cons, app_length, repeat_length. reflexivity.
Qed.

Lemma flast_ex : forall l, Forall (fun rk : list T * N => 1 <= snd rk) l ->
  match flast usedL l with
  | Some i => exists j, flast (row_used isd) (expand_rows l) = Some j /\
                        S j = length (expand_rows (firstn (S i) l))
  | None => flast (row_used isd) (expand_rows l) = None
  end.
Proof.
  induction l as [|[row k] l IH]; intros Hk; [reflexivity|].
  inversion Hk as [|? ? Hk1 Hk2]; subst. cbn [snd] in Hk1.
  rewrite expand_rows_cons, flast_app, flast_repeat. cbn [flast]. specialize (IH Hk2).
  destruct (flast usedL l) as [i|].
  - destruct IH as (j & Hj & Sj). exists (N.to_nat k + j)%nat. rewrite Hj, repeat_length.
    split; [reflexivity|].
    change (firstn (S (S i)) ((row, k) :: l)) with ((row, k) :: firstn (S i) l).
    rewrite expand_rows_cons, app_length, repeat_length. lia.
  - rewrite IH. unfold usedL at 1. cbn [fst]. destruct (row_used isd row) eqn:Eu.
    + destruct (N.to_nat k) as [|m] eqn:En; [lia|]. exists m. split; [reflexivity|].
      change (firstn 1 ((row, k) :: l)) with [(row, k)].
      rewrite expand_rows_cons. cbn [expand_rows flat_map]. rewrite app_nil_r, repeat_length. lia.
    + reflexivity.
Qed.

Lemma omin_idem : forall a, omin a a = a.
Proof. destruct a; cbn; [f_equal; lia|reflexivity]. Qed.
Lemma min_col_cons : forall row g,
  min_col isd (row :: g) = omin (position isd row) (min_col isd g).
Proof. reflexivity. Qed.
Lemma max_col_cons : forall row g,
  max_col isd (row :: g) =
  match rposition isd row with Some q => Nat.max q (max_col isd g) | None => max_col isd g end.
Proof. reflexivity. Qed.
Lemma min_col_repeat : forall row n, min_col isd (repeat row (S n)) = position isd row.
Proof.
  induction n as [|n IH].
  - cbn [repeat]. rewrite min_col_cons. apply omin_none_r.
  - change (repeat row (S (S n))) with (row :: repeat row (S n)).
    rewrite min_col_cons, IH. apply omin_idem.
Qed.
Lemma max_col_repeat : forall row n,
  max_col isd (repeat row (S n)) = match rposition isd row with Some q => q | None => O end.
Proof.
  induction n as [|n IH].
  - cbn [repeat]. rewrite max_col_cons. cbn [max_col fold_right].
    destruct (rposition isd row); lia.
  - change (repeat row (S (S n))) with (row :: repeat row (S n)).
    rewrite max_col_cons, IH. destruct (rposition isd row); lia.
Qed.

Lemma min_col_ex : forall l, Forall (fun rk : list T * N => 1 <= snd rk) l ->
  min_col isd (expand_rows l) = min_col isd (map fst l).
Proof.
  induction l as [|[row k] l IH]; intros Hk; [reflexivity|].
  inversion Hk as [|? ? Hk1 Hk2]; subst. cbn [snd] in Hk1.
  rewrite expand_rows_cons, min_col_app, (IH Hk2). cbn [map fst]. rewrite min_col_cons.
  destruct (N.to_nat k) eqn:En; [lia|]. rewrite min_col_repeat. reflexivity.
Qed.
Lemma max_col_ex : forall l, Forall (fun rk : list T * N => 1 <= snd rk) l ->
  max_col isd (expand_rows l) = max_col isd (map fst l).
Proof.
  induction l as [|[row k] l IH]; intros Hk; [reflexivity|].
  inversion Hk as [|? ? Hk1 Hk2]; subst. cbn [snd] in Hk1.
  rewrite expand_rows_cons, max_col_app, (IH Hk2). cbn [map fst]. rewrite max_col_cons.
  destruct (N.to_nat k) eqn:En; [lia|]. rewrite max_col_repeat.
  destruct (rposition isd row); lia.
Qed.

Lemma flat_map_fit_ex : forall c0 w l, flat_map (fitS d c0 w) (expand_rows l) = bodyS c0 w l.
Proof.
  induction l as [|[row k] l IH]; [reflexivity|].
  rewrite expand_rows_cons, flat_map_app, IH, bodyS_cons. f_equal.
  induction (N.to_nat k) as [|n IHn]; [reflexivity|].
  cbn [repeat flat_map concat]. rewrite IHn. reflexivity.
Qed.

Lemma skipn_ex : forall i (l : list (list T * N)),
  skipn (length (expand_rows (firstn i l))) (expand_rows l) = expand_rows (skipn i l).
Proof.
  intros i l.
  replace (expand_rows l) with (expand_rows (firstn i l ++ skipn i l))
    by (rewrite firstn_skipn; reflexivity).
  rewrite expand_rows_app, skipn_app, skipn_all, Nat.sub_diag. reflexivity.
Qed.
Lemma firstn_ex : forall i (l : list (list T * N)),
  firstn (length (expand_rows (firstn i l))) (expand_rows l) = expand_rows (firstn i l).
Proof.
  intros i l.
  replace (expand_rows l) with (expand_rows (firstn i l ++ skipn i l))
    by (rewrite firstn_skipn; reflexivity).
  rewrite expand_rows_app, firstn_app, firstn_all, Nat.sub_diag. cbn [firstn].
  apply app_nil_r.
Qed.

(* ====================================================================================== *)
(* 6. range_of only depends on the cell function                                           *)
(* ====================================================================================== *)
Definition row_eq (a b : list T) : Prop := forall c, nth c a d = nth c b d.
Definition grid_eq (g1 g2 : list (list T)) : Prop :=
  forall r c, cell_at d g1 r c = cell_at d g2 r c.

Lemma position_row_eq : forall a b, row_eq a b -> position isd a = position isd b.
Proof.
  intros a b H. unfold position. apply ffirst_nth_ext with (a0 := d); [exact nz_d|].
  intros i. rewrite (H i). reflexivity.
Qed.
Lemma rposition_row_eq : forall a b, row_eq a b -> rposition isd a = rposition isd b.
Proof.
  intros a b H. unfold rposition. apply flast_nth_ext with (a0 := d); [exact nz_d|].
  intros i. rewrite (H i). reflexivity.
Qed.
Lemma row_used_row_eq : forall a b, row_eq a b -> row_used isd a = row_used isd b.
Proof.
  intros a b H. pose proof (position_row_eq H) as E.
  destruct (row_used isd a) eqn:Ea; destruct (row_used isd b) eqn:Eb; try reflexivity.
  - apply position_none in Eb. rewrite <- E in Eb. apply position_none in Eb. congruence.
  - apply position_none in Ea. rewrite E in Ea. apply position_none in Ea. congruence.
Qed.
Lemma fitS_row_eq : forall c0 w a b, row_eq a b -> fitS d c0 w a = fitS d c0 w b.
Proof. intros c0 w a b H. unfold fitS. apply map_ext. intros c. apply H. Qed.

Lemma min_col_all_none : forall g,
  (forall r, position isd (nth r g []) = None) -> min_col isd g = None.
Proof.
  induction g as [|row g IH]; intros H; [reflexivity|].
  rewrite min_col_cons. pose proof (H O) as H0. cbn [nth] in H0. rewrite H0.
  cbn [omin]. apply IH. intros r. exact (H (S r)).
Qed.
Lemma min_col_ext : forall g1 g2,
  (forall r, position isd (nth r g1 []) = position isd (nth r g2 [])) ->
  min_col isd g1 = min_col isd g2.
Proof.
  induction g1 as [|x g1 IH]; intros g2 H.
  - symmetry. apply min_col_all_none. intros r. rewrite <- H. destruct r; reflexivity.
  - destruct g2 as [|y g2].
    + apply min_col_all_none. intros r. rewrite H. destruct r; reflexivity.
    + rewrite !min_col_cons. pose proof (H O) as H0. cbn [nth] in H0. rewrite H0.
      rewrite (IH g2); [reflexivity|]. intros r. exact (H (S r)).
Qed.
Lemma max_col_all_none : forall g,
  (forall r, rposition isd (nth r g []) = None) -> max_col isd g = O.
Proof.
  induction g as [|row g IH]; intros H; [reflexivity|].
  rewrite max_col_cons. pose proof (H O) as H0. cbn [nth] in H0. rewrite H0.
  apply IH. intros r. exact (H (S r)).
Qed.
Lemma max_col_ext : forall g1 g2,
  (forall r, rposition isd (nth r g1 []) = rposition isd (nth r g2 [])) ->
  max_col isd g1 = max_col isd g2.
Proof.
  induction g1 as [|x g1 IH]; intros g2 H.
  - symmetry. apply max_col_all_none. intros r. rewrite <- H. destruct r; reflexivity.
  - destruct g2 as [|y g2].
    + apply max_col_all_none. intros r. rewrite H. destruct r; reflexivity.
    + rewrite !max_col_cons. pose proof (H O) as H0. cbn [nth] in H0. rewrite H0.
      rewrite (IH g2); [reflexivity|]. intros r. exact (H (S r)).
Qed.

Lemma firstn_skipn_seq : forall (A : Type) (a0 : A) r0 n (g : list A),
  (r0 + n <= length g)%nat ->
  firstn n (skipn r0 g) = map (fun r => nth r g a0) (seq r0 n).
Proof.
  intros A a0. induction r0 as [|r0 IH]; intros n g Hl.
  - cbn [skipn]. revert g Hl. induction n as [|n IHn]; intros g Hl; [reflexivity|].
    destruct g as [|x g]; [cbn [length] in Hl; lia|].
    cbn [firstn seq map nth]. f_equal. rewrite <- seq_shift, map_map. cbn [nth].
    apply IHn. cbn [length] in Hl. lia.
  - destruct g as [|x g]; [cbn [length] in Hl; lia|].
    cbn [skipn]. rewrite <- seq_shift, map_map. cbn [nth]. apply IH. cbn [length] in Hl. lia.
Qed.

Theorem range_of_ext : forall g1 g2, grid_eq g1 g2 -> range_of d isd g1 = range_of d isd g2.
Proof.
  intros g1 g2 H.
  assert (Hrow : forall r, row_eq (nth r g1 []) (nth r g2 [])) by (intros r c; apply H).
  assert (E1 : ffirst (row_used isd) g1 = ffirst (row_used isd) g2).
  { apply ffirst_nth_ext with (a0 := @nil T); [reflexivity|].
    intros i. apply row_used_row_eq. apply Hrow. }
  assert (E2 : flast (row_used isd) g1 = flast (row_used isd) g2).
  { apply flast_nth_ext with (a0 := @nil T); [reflexivity|].
    intros i. apply row_used_row_eq. apply Hrow. }
  assert (E3 : min_col isd g1 = min_col isd g2).
  { apply min_col_ext. intros r. apply position_row_eq. apply Hrow. }
  assert (E4 : max_col isd g1 = max_col isd g2).
  { apply max_col_ext. intros r. apply rposition_row_eq. apply Hrow. }
  assert (LL : forall r1, flast (row_used isd) g1 = Some r1 ->
                (r1 < length g1)%nat /\ (r1 < length g2)%nat).
  { intros r1 F. split; [apply (flast_some _ _ F)|]. rewrite E2 in F. apply (flast_some _ _ F). }
  unfold range_of. rewrite <- E1, <- E2, <- E3, <- E4. clear E1 E2 E3 E4.
  destruct (ffirst (row_used isd) g1) as [r0|] eqn:F1; [|reflexivity].
  destruct (flast (row_used isd) g1) as [r1|] eqn:F2; [|reflexivity].
  destruct (min_col isd g1) as [c0|]; [|reflexivity].
  f_equal.
  destruct (ffirst_flast_some _ _ F1) as (j & Hj & Hle). rewrite F2 in Hj. inversion Hj; subst j.
  destruct (LL r1 eq_refl) as (L1 & L2).
  rewrite (firstn_skipn_seq (@nil T)) by lia. rewrite (firstn_skipn_seq (@nil T)) by lia.
  rewrite !flat_map_concat_map, !map_map. f_equal. apply map_ext.
  intros r. apply fitS_row_eq. apply Hrow.
Qed.

(* ====================================================================================== *)
(* 7. get_range is range_of of the expansion                                               *)
(* ====================================================================================== *)
Lemma firstn_map' : forall (A B : Type) (f : A -> B) n l, firstn n (map f l) = map f (firstn n l).
Proof.
  induction n as [|n IH]; intros l; [reflexivity|]. destruct l; [reflexivity|].
  cbn [map firstn]. rewrite IH. reflexivity.
Qed.
Lemma skipn_map' : forall (A B : Type) (f : A -> B) n l, skipn n (map f l) = map f (skipn n l).
Proof.
  induction n as [|n IH]; intros l; [reflexivity|]. destruct l; [reflexivity|].
  cbn [map skipn]. apply IH.
Qed.
Lemma nth_skipn_gen : forall (A : Type) (a0 : A) n l i, nth i (skipn n l) a0 = nth (n + i) l a0.
Proof.
  induction n as [|n IH]; intros l i; [reflexivity|].
  destruct l as [|x l]; [destruct i; reflexivity|]. cbn [skipn Nat.add nth]. apply IH.
Qed.
Lemma nth_firstn_gen : forall (A : Type) (a0 : A) n l i, (i < n)%nat ->
  nth i (firstn n l) a0 = nth i l a0.
Proof.
  induction n as [|n IH]; intros l i Hi; [lia|].
  destruct l as [|x l]; [reflexivity|]. destruct i as [|i]; [reflexivity|].
  cbn [firstn nth]. apply IH. lia.
Qed.
Lemma Forall_firstn' : forall (A : Type) (P : A -> Prop) n l, Forall P l -> Forall P (firstn n l).
Proof.
  induction n as [|n IH]; intros l H; [constructor|].
  destruct H; cbn [firstn]; constructor; auto.
Qed.
Lemma Forall_skipn' : forall (A : Type) (P : A -> Prop) n l, Forall P l -> Forall P (skipn n l).
Proof.
  induction n as [|n IH]; intros l H; [exact H|]. destruct H; cbn [skipn]; [constructor|auto].
Qed.
Lemma In_firstn_skipn : forall (A : Type) a b (l : list A) x, In x (firstn a (skipn b l)) -> In x l.
Proof.
  intros A a b l x Hin.
  assert (F : Forall (fun y => In y l) (firstn a (skipn b l))).
  { apply Forall_firstn', Forall_skipn'. apply Forall_forall. auto. }
  rewrite Forall_forall in F. apply F. exact Hin.
Qed.

Lemma sumk_firstn_le : forall n l, sumk (firstn n l) <= sumk l.
Proof. intros. unfold sumk. rewrite <- firstn_map'. apply sum_firstn_le. Qed.
Lemma sumk_skipn_le : forall n l, sumk (skipn n l) <= sumk l.
Proof.
  intros n l. rewrite <- (firstn_skipn n l) at 2. rewrite sumk_app. lia.
Qed.
Lemma len_le_sumk : forall l, Forall (fun rk : list T * N => 1 <= snd rk) l ->
  N.of_nat (length l) <= sumk l.
Proof.
  induction 1 as [|[row k] l Hk _ IH]; [reflexivity|].
  cbn [snd] in Hk. rewrite sumk_cons. cbn [length]. lia.
Qed.
Lemma sumk1_eq : forall l, Forall (fun rk : list T * N => 1 <= snd rk) l ->
  sumk1 l + N.of_nat (length l) = sumk l.
Proof.
  induction 1 as [|[row k] l Hk _ IH]; [reflexivity|].
  cbn [snd] in Hk. rewrite sumk_cons, sumk1_cons. cbn [length]. lia.
Qed.

Lemma min_col_le : forall g row p, In row g -> position isd row = Some p ->
  exists c0, min_col isd g = Some c0 /\ (c0 <= p)%nat.
Proof.
  induction g as [|a g IH]; intros row p Hin Hp; [contradiction|].
  rewrite min_col_cons. destruct Hin as [->|Hin].
  - rewrite Hp. destruct (min_col isd g) as [m|]; cbn [omin]; eexists; split;
      try reflexivity; lia.
  - destruct (IH _ _ Hin Hp) as (c & Hc & Hle). rewrite Hc.
    destruct (position isd a) as [pa|]; cbn [omin]; eexists; split; try reflexivity; lia.
Qed.
Lemma max_col_ge : forall g row q, In row g -> rposition isd row = Some q ->
  (q <= max_col isd g)%nat.
Proof.
  induction g as [|a g IH]; intros row q Hin Hq; [contradiction|].
  rewrite max_col_cons. destruct Hin as [->|Hin].
  - rewrite Hq. lia.
  - pose proof (IH _ _ Hin Hq). destruct (rposition isd a); lia.
Qed.
Lemma max_col_lt : forall g M, (0 < M)%nat ->
  (forall row, In row g -> (length row <= M)%nat) -> (max_col isd g < M)%nat.
Proof.
  induction g as [|a g IH]; intros M HM H; [exact HM|].
  rewrite max_col_cons.
  assert (IHg : (max_col isd g < M)%nat) by (apply IH; [exact HM|intros; apply H; right; assumption]).
  destruct (rposition isd a) as [q|] eqn:Eq; [|exact IHg].
  unfold rposition in Eq. destruct (flast_some _ _ Eq) as (Lq & _ & _).
  pose proof (H a (or_introl eq_refl)). lia.
Qed.

Lemma trim_id_last : forall l x0, l <> [] ->
  forallb isd (fst (nth (length l - 1) l x0)) = false -> trim l = l.
Proof.
  induction l as [|x l IH]; intros x0 Hne Hu; [congruence|].
  destruct l as [|y l].
  - cbn [length Nat.sub nth] in Hu. cbn [trim]. rewrite Hu. reflexivity.
  - change (trim (x :: y :: l)) with
      (match trim (y :: l) with
       | [] => if forallb isd (fst x) then [] else [x]
       | t => x :: t
       end).
    rewrite (IH x0); [reflexivity|discriminate|].
    cbn [length] in Hu |- *.
    replace (S (S (length l)) - 1)%nat with (S (length l)) in Hu by lia. cbn [nth] in Hu.
    replace (S (length l) - 1)%nat with (length l) by lia. exact Hu.
Qed.

Lemma as_u32_small : forall x, x < TWO32 -> as_u32 x = x.
Proof. intros. unfold as_u32. apply N.mod_small. assumption. Qed.

Theorem get_range_correct : forall (L : list (list T * N)) (W : N),
  Forall (fun rk => 1 <= snd rk) L ->
  sumk L <= TWO32 ->
  Forall (fun rk => N.of_nat (length (fst rk)) <= W) L -> W <= TWO32 ->
  sumk L * W <= USIZE_MAX ->
  get_range d isd (concat (map fst L)) (0 :: offs 0 (map fst L)) (map snd L)
  = Ok (range_of d isd (expand_rows L)).
Proof.
  intros L W Hk Hsum HW HW32 Hcells.
  set (g := map fst L). set (rr := map snd L).
  assert (Hrr : sum_list rr = sumk L) by reflexivity.
  assert (H32 : 4 * TWO32 <= USIZE_MAX) by (unfold TWO32, USIZE_MAX, U64MAX; lia).
  assert (Hs64 : sum_list rr <= USIZE_MAX) by lia.
  unfold get_range. rewrite windows2_offs.
  pose proof (pass1_refine g [] [] rr 0 p1_init) as P1.
  cbn [app length N.of_nat] in P1. rewrite app_nil_r in P1. rewrite P1. clear P1.
  pose proof (pass1R_summ rr g [] Hs64) as P1. cbn [length app] in P1.
  change (summ rr []) with p1_init in P1. rewrite P1. clear P1. cbn [obind].
  unfold summ. cbn [p_rmin p_rmax p_cmin p_cmax p_fer].
  assert (EU : ffirst (row_used isd) g = ffirst usedL L)
    by (unfold g; rewrite ffirst_map; reflexivity).
  assert (EL : flast (row_used isd) g = flast usedL L)
    by (unfold g; rewrite flast_map; reflexivity).
  pose proof (ffirst_ex Hk) as FE. pose proof (flast_ex Hk) as LE.
  pose proof (min_col_ex Hk) as MC. pose proof (max_col_ex Hk) as XC. fold g in MC, XC.
  rewrite <- EU in FE. rewrite <- EL in LE. clear EU EL.
  unfold range_of. rewrite FE, MC, XC. clear FE MC XC.
  destruct (ffirst (row_used isd) g) as [i0|] eqn:Ei0; cbn [option_map]; [|reflexivity].
  destruct (ffirst_flast_some _ _ Ei0) as (i1 & Ei1 & Hle).
  destruct (ffirst_some _ _ Ei0) as (Li0 & Ui0 & _).
  destruct (flast_some _ _ Ei1) as (Li1 & Ui1 & Ti1).
  rewrite Ei1 in LE |- *. destruct LE as (r1 & Er1 & Sr1). rewrite Er1.
  assert (Lg : length g = length L) by (unfold g; apply map_length).
  set (row0 := nth i0 g []).
  assert (In0 : In row0 g) by (apply nth_In; exact Li0).
  destruct (position isd row0) as [p0|] eqn:Ep0;
    [|apply position_none in Ep0; unfold row0 in Ep0; rewrite (Ui0 []) in Ep0; discriminate].
  destruct (min_col_le _ _ In0 Ep0) as (c0 & Ec0 & _). rewrite Ec0.
  set (c1 := max_col isd g).
  assert (Hrows : forall row, In row g -> row_used isd row = true ->
                    (c0 <= length row)%nat /\ (c0 <= c1)%nat).
  { intros row Hin Hu.
    destruct (position isd row) as [p|] eqn:Ep; [|apply position_none in Ep; congruence].
    destruct (min_col_le _ _ Hin Ep) as (c & Ec & Hc). rewrite Ec0 in Ec. inversion Ec; subst c.
    unfold position in Ep. destruct (ffirst_flast_some _ _ Ep) as (q & Eq & Hpq).
    pose proof (max_col_ge _ _ Hin Eq) as Hq. destruct (flast_some _ _ Eq) as (Lq & _ & _).
    fold c1 in Hq. split; lia. }
  assert (HWg : forall row, In row g -> N.of_nat (length row) <= W).
  { intros row Hin. unfold g in Hin. apply in_map_iff in Hin. destruct Hin as (rk & <- & Hin).
    rewrite Forall_forall in HW. apply HW. exact Hin. }
  assert (Hc1 : N.of_nat c1 < W).
  { unfold position in Ep0. destruct (ffirst_some _ _ Ep0) as (Lp0 & _ & _).
    pose proof (HWg row0 In0) as Hw0.
    assert (Hlt : (c1 < N.to_nat W)%nat).
    { apply max_col_lt; [lia|]. intros row Hin. pose proof (HWg row Hin). lia. }
    lia. }
  destruct (Hrows row0 In0 (Ui0 [])) as (_ & Hc01).
  assert (Hlen : N.of_nat (length L) <= sumk L) by (apply len_le_sumk; exact Hk).
  rewrite chk_ok.
  2:{ apply N.le_trans with (sumk L * W); [|exact Hcells]. apply N.mul_le_mono; lia. }
  cbn [obind].
  (* the rows pass 2 runs over *)
  rewrite skipn_spans, firstn_spans. rewrite N.add_0_l.
  remember (firstn (i1 + 1) (skipn i0 L)) as L' eqn:DL'.
  assert (Eg' : firstn (i1 + 1) (skipn i0 g) = map fst L')
    by (subst L'; unfold g; rewrite skipn_map', firstn_map'; reflexivity).
  assert (Er' : firstn (i1 + 1) (skipn i0 rr) = map snd L')
    by (subst L'; unfold rr; rewrite skipn_map', firstn_map'; reflexivity).
  rewrite Eg', Er'.
  replace (concat g) with
    (concat (firstn i0 g) ++ concat (map fst L') ++ concat (skipn (i1 + 1) (skipn i0 g))).
  2:{ rewrite <- Eg', <- !concat_app, !firstn_skipn. reflexivity. }
  rewrite pass2_refine, combine_fst_snd.
  assert (InL' : forall rk, In rk L' -> In rk L)
    by (intros rk Hin; subst L'; eapply In_firstn_skipn; exact Hin).
  destruct (@pass2R_inv c0 c1 L' 0 0 (N.of_nat i1) []) as (E' & C' & HI).
  { subst L'. apply Forall_firstn', Forall_skipn'. exact Hk. }
  { lia. }
  { assert (sumk L' <= sumk L).
    { subst L'. eapply N.le_trans; [apply sumk_firstn_le|apply sumk_skipn_le]. }
    lia. }
  { intros rk Hin Hne.
    assert (Hg : In (fst rk) g) by (unfold g; apply in_map; apply InL'; exact Hin).
    assert (Hu : row_used isd (fst rk) = true) by (rewrite row_used_forallb, Hne; reflexivity).
    destruct (Hrows _ Hg Hu). apply fit_fitS; assumption. }
  rewrite HI. clear HI. cbn [obind q_rmax q_out].
  (* trim: rows after the last used one (the take(row_max + 1) overshoot) are empty *)
  remember (firstn (i1 + 1 - i0) (skipn i0 L)) as L'' eqn:DL''.
  assert (EL' : L' = L'' ++ firstn i0 (skipn (i1 + 1 - i0) (skipn i0 L))).
  { subst L' L''. replace (i1 + 1)%nat with ((i1 + 1 - i0) + i0)%nat at 1 by lia.
    apply firstn_add. }
  assert (LenL'' : length L'' = (i1 + 1 - i0)%nat).
  { subst L''. rewrite firstn_length, skipn_length. lia. }
  assert (Nth1 : forall j, nth j g [] = fst (nth j L ([], 0))).
  { intros j. unfold g. apply (map_nth fst L ([], 0) j). }
  assert (Tr : trim L' = L'').
  { rewrite EL', trim_app_empty.
    - apply trim_id_last with (x0 := ([], 0)).
      + intros Hc. rewrite Hc in LenL''. cbn [length] in LenL''. lia.
      + rewrite LenL''. subst L''. rewrite nth_firstn_gen by lia. rewrite nth_skipn_gen.
        replace (i0 + (i1 + 1 - i0 - 1))%nat with i1 by lia.
        rewrite <- Nth1. pose proof (Ui1 []) as U. rewrite row_used_forallb in U.
        destruct (forallb isd (nth i1 g [])); [discriminate|reflexivity].
    - apply Forall_firstn'. rewrite skipn_skipn'. apply Forall_nth. intros i a0 Hi.
      rewrite skipn_length in Hi. rewrite nth_skipn_gen.
      rewrite nth_indep with (d' := ([], 0)) by lia. rewrite <- Nth1.
      pose proof (Ti1 (i0 + (i1 + 1 - i0) + i)%nat [] ltac:(lia) ltac:(lia)) as U.
      rewrite row_used_forallb in U.
      destruct (forallb isd (nth (i0 + (i1 + 1 - i0) + i) g [])); [reflexivity|discriminate]. }
  rewrite Tr.
  destruct L'' as [|x0 t] eqn:EL''; [cbn [length] in LenL''; lia|]. rewrite <- EL'' in *.
  (* row numbers *)
  assert (Ei0L : length (firstn i0 L) = i0) by (rewrite firstn_length; lia).
  assert (Hk0 : Forall (fun rk : list T * N => 1 <= snd rk) (firstn i0 L))
    by (apply Forall_firstn'; exact Hk).
  assert (Hk'' : Forall (fun rk : list T * N => 1 <= snd rk) L'')
    by (rewrite DL''; apply Forall_firstn', Forall_skipn'; exact Hk).
  assert (Sfer : sum_list (firstn i0 rr) = sumk (firstn i0 L))
    by (unfold rr, sumk; rewrite firstn_map'; reflexivity).
  pose proof (len_le_sumk Hk0) as Hl0. rewrite Ei0L in Hl0.
  pose proof (sumk1_eq Hk'') as Hs1. rewrite LenL'' in Hs1.
  assert (Split : firstn (S i1) L = firstn i0 L ++ L'').
  { rewrite DL''. replace (S i1) with (i0 + (i1 + 1 - i0))%nat by lia. apply firstn_add. }
  pose proof (expand_rows_length (firstn i0 L)) as Hr0.
  pose proof (expand_rows_length (firstn (S i1) L)) as Hr1.
  rewrite Split, expand_rows_app, app_length in Sr1.
  rewrite Split, sumk_app in Hr1. rewrite expand_rows_app, app_length in Hr1.
  pose proof (expand_rows_length L'') as Hr''.
  pose proof (sumk_firstn_le (S i1) L) as Hle1. rewrite Split, sumk_app in Hle1.
  rewrite Sfer.
  rewrite chk_ok by lia. cbn [obind]. rewrite chk_ok by lia. cbn [obind].
  rewrite !as_u32_small by lia.
  f_equal. f_equal.
  - f_equal. lia.
  - f_equal. lia.
  - cbn [N.to_nat repeat concat app].
    rewrite skipn_ex.
    replace (r1 + 1 - length (expand_rows (firstn i0 L)))%nat with (length (expand_rows L'')) by lia.
    rewrite DL''. rewrite firstn_ex. symmetry. apply flat_map_fit_ex.
Qed.


(* ---------- no panic: get_range on consistent offsets, any repeat counts (zero, huge) ---------- *)
Lemma pass2R_nopanic : forall c0 c1 ec l st,
  q_cons st + N.of_nat (length l) <= q_rmax st + 1 ->
  q_rmax st + q_err st + sumk l <= USIZE_MAX ->
  exists st', pass2R c0 c1 ec l st = Ok st' /\
              q_rmax st' + q_err st' <= q_rmax st + q_err st + sumk l.
Proof.
  intros c0 c1 ec. induction l as [|[row k] l IH]; intros [E C rm out] H1 H2.
  - exists (mkP2 E C rm out). split; [reflexivity|]. lia.
  - cbn [q_err q_cons q_rmax q_out length] in H1, H2. rewrite sumk_cons in H2.
    cbn [pass2R]. unfold p2_row. cbn [q_err q_cons q_rmax q_out].
    destruct (forallb isd row).
    + rewrite chk_ok by lia. cbn [obind].
      destruct (IH (mkP2 (E + k) (C + 1) rm out)) as (st' & HS & HB);
        cbn [q_err q_cons q_rmax q_out]; [lia|lia|].
      exists st'. split; [exact HS|]. cbn [q_err q_cons q_rmax q_out] in HB |- *.
      rewrite sumk_cons. lia.
    + destruct (N.ltb_spec 0 E) as [HE|HE].
      * rewrite chk_ok by lia. cbn [obind].
        assert (E1 : (C <=? rm + E) = true) by (apply N.leb_le; lia).
        rewrite E1. cbn [obind q_err q_cons q_rmax q_out].
        destruct (N.ltb_spec 1 k) as [Hk|Hk].
        -- rewrite chk_ok by lia. cbn [obind].
           match goal with |- context [pass2R _ _ _ l ?s] =>
             destruct (IH s) as (st' & HS & HB); cbn [q_err q_cons q_rmax q_out]; [lia|lia|] end.
           exists st'. split; [exact HS|]. cbn [q_err q_cons q_rmax q_out] in HB |- *.
           rewrite sumk_cons. lia.
        -- cbn [obind].
           match goal with |- context [pass2R _ _ _ l ?s] =>
             destruct (IH s) as (st' & HS & HB); cbn [q_err q_cons q_rmax q_out]; [lia|lia|] end.
           exists st'. split; [exact HS|]. cbn [q_err q_cons q_rmax q_out] in HB |- *.
           rewrite sumk_cons. lia.
      * cbn [obind q_err q_cons q_rmax q_out].
        destruct (N.ltb_spec 1 k) as [Hk|Hk].
        -- rewrite chk_ok by lia. cbn [obind].
           match goal with |- context [pass2R _ _ _ l ?s] =>
             destruct (IH s) as (st' & HS & HB); cbn [q_err q_cons q_rmax q_out]; [lia|lia|] end.
           exists st'. split; [exact HS|]. cbn [q_err q_cons q_rmax q_out] in HB |- *.
           rewrite sumk_cons. lia.
        -- cbn [obind].
           match goal with |- context [pass2R _ _ _ l ?s] =>
             destruct (IH s) as (st' & HS & HB); cbn [q_err q_cons q_rmax q_out]; [lia|lia|] end.
           exists st'. split; [exact HS|]. cbn [q_err q_cons q_rmax q_out] in HB |- *.
           rewrite sumk_cons. lia.
Qed.

Theorem get_range_nopanic : forall (L : list (list T * N)) (W : N),
  sumk L <= TWO32 -> N.of_nat (length L) <= ISIZE_MAX ->
  Forall (fun rk => N.of_nat (length (fst rk)) <= W) L ->
  N.of_nat (length L) * W <= USIZE_MAX ->
  exists r, get_range d isd (concat (map fst L)) (0 :: offs 0 (map fst L)) (map snd L) = Ok r.
Proof.
  intros L W Hsum Hlen HW Hcells.
  set (g := map fst L). set (rr := map snd L).
  assert (Hrr : sum_list rr = sumk L) by reflexivity.
  assert (H32 : 4 * TWO32 + ISIZE_MAX <= USIZE_MAX)
    by (unfold TWO32, USIZE_MAX, U64MAX, ISIZE_MAX; lia).
  assert (Hs64 : sum_list rr <= USIZE_MAX) by lia.
  unfold get_range. rewrite windows2_offs.
  pose proof (pass1_refine g [] [] rr 0 p1_init) as P1.
  cbn [app length N.of_nat] in P1. rewrite app_nil_r in P1. rewrite P1. clear P1.
  pose proof (pass1R_summ rr g [] Hs64) as P1. cbn [length app] in P1.
  change (summ rr []) with p1_init in P1. rewrite P1. clear P1. cbn [obind].
  unfold summ. cbn [p_rmin p_rmax p_cmin p_cmax p_fer].
  destruct (ffirst (row_used isd) g) as [i0|] eqn:Ei0; [|eexists; reflexivity].
  destruct (ffirst_flast_some _ _ Ei0) as (i1 & Ei1 & Hle).
  destruct (ffirst_some _ _ Ei0) as (Li0 & Ui0 & _).
  destruct (flast_some _ _ Ei1) as (Li1 & _ & _).
  rewrite Ei1.
  assert (Lg : length g = length L) by (unfold g; apply map_length).
  set (row0 := nth i0 g []).
  assert (In0 : In row0 g) by (apply nth_In; exact Li0).
  destruct (position isd row0) as [p0|] eqn:Ep0;
    [|apply position_none in Ep0; unfold row0 in Ep0; rewrite (Ui0 []) in Ep0; discriminate].
  destruct (min_col_le _ _ In0 Ep0) as (c0 & Ec0 & _). rewrite Ec0.
  set (c1 := max_col isd g).
  assert (HWg : forall row, In row g -> N.of_nat (length row) <= W).
  { intros row Hin. unfold g in Hin. apply in_map_iff in Hin. destruct Hin as (rk & <- & Hin).
    rewrite Forall_forall in HW. apply HW. exact Hin. }
  assert (Hc1 : N.of_nat c1 < W).
  { unfold position in Ep0. destruct (ffirst_some _ _ Ep0) as (Lp0 & _ & _).
    pose proof (HWg row0 In0) as Hw0.
    assert (Hlt : (c1 < N.to_nat W)%nat).
    { apply max_col_lt; [lia|]. intros row Hin. pose proof (HWg row Hin). lia. }
    lia. }
  rewrite chk_ok.
  2:{ apply N.le_trans with (N.of_nat (length L) * W); [|exact Hcells]. apply N.mul_le_mono; lia. }
  cbn [obind].
  rewrite skipn_spans, firstn_spans. rewrite N.add_0_l.
  remember (firstn (i1 + 1) (skipn i0 L)) as L' eqn:DL'.
  assert (Eg' : firstn (i1 + 1) (skipn i0 g) = map fst L')
    by (subst L'; unfold g; rewrite skipn_map', firstn_map'; reflexivity).
  assert (Er' : firstn (i1 + 1) (skipn i0 rr) = map snd L')
    by (subst L'; unfold rr; rewrite skipn_map', firstn_map'; reflexivity).
  rewrite Eg', Er'.
  replace (concat g) with
    (concat (firstn i0 g) ++ concat (map fst L') ++ concat (skipn (i1 + 1) (skipn i0 g))).
  2:{ rewrite <- Eg', <- !concat_app, !firstn_skipn. reflexivity. }
  rewrite pass2_refine, combine_fst_snd.
  assert (SL' : sumk L' <= sumk L).
  { subst L'. eapply N.le_trans; [apply sumk_firstn_le|apply sumk_skipn_le]. }
  assert (LL' : (length L' <= i1 + 1)%nat) by (subst L'; rewrite firstn_length; lia).
  destruct (@pass2R_nopanic c0 c1 (repeat d (c1 + 1)) L' (mkP2 0 0 (N.of_nat i1) []))
    as (st' & HS & HB); cbn [q_err q_cons q_rmax q_out]; [lia|lia|].
  cbn [q_err q_cons q_rmax q_out] in HB.
  rewrite HS. cbn [obind].
  pose proof (sum_firstn_le i0 rr) as Hf.
  rewrite chk_ok by lia. cbn [obind]. rewrite chk_ok by lia. cbn [obind].
  eexists; reflexivity.
Qed.

Lemma nth_app_default : forall (a : list T) n c, nth c (a ++ repeat d n) d = nth c a d.
Proof.
  intros a n c. destruct (Nat.lt_ge_cases c (length a)) as [Hlt|Hge].
  - apply app_nth1. exact Hlt.
  - rewrite app_nth2 by exact Hge. rewrite nth_repeat. symmetry. apply nth_overflow. exact Hge.
Qed.

Lemma Forall2_row_eq_grid_eq : forall g1 g2, Forall2 row_eq g1 g2 -> grid_eq g1 g2.
Proof.
  induction 1 as [|a b g1 g2 Hab _ IH]; intros r c; [reflexivity|].
  unfold cell_at. destruct r as [|r]; cbn [nth]; [apply Hab|apply IH].
Qed.

Lemma Forall2_repeat : forall (A B : Type) (R : A -> B -> Prop) a b n,
  R a b -> Forall2 R (repeat a n) (repeat b n).
Proof. induction n; intros; cbn [repeat]; constructor; auto. Qed.

End Refine.

Lemma map_repeat' : forall (A B : Type) (f : A -> B) x n, map f (repeat x n) = repeat (f x) n.
Proof. induction n as [|n IH]; cbn [repeat map]; [reflexivity|]. rewrite IH. reflexivity. Qed.

Lemma offs_map : forall (U T : Type) (f : U -> T) (rows : list (list U)) b,
  offs b (map (map f) rows) = offs b rows.
Proof.
  induction rows as [|row rows IH]; intros b; [reflexivity|].
  cbn [map offs]. rewrite map_length, IH. reflexivity.
Qed.


(* ====================================================================================== *)
(* 7b. read_row / read_table                                                               *)
(* ====================================================================================== *)
Section Table.
Variable V F : Type.
Variable dV : V.
Variable dF : F.
Variable isdV : V -> bool.
Variable isdF : F -> bool.
Hypothesis isdV_spec : forall x, isdV x = true <-> x = dV.
Hypothesis isdF_spec : forall x, isdF x = true <-> x = dF.

Local Notation rrow := (read_row dV dF isdV isdF).
Local Notation cellT := (cell_elem V F).
Local Notation rowT := (row_elem V F).

Lemma read_row_expand : forall (cs : list cellT) p, exists n,
  repeat (dV, dF) (N.to_nat p) ++ expand_cells cs = rrow cs p ++ repeat (dV, dF) n.
Proof.
  induction cs as [|c cs IH]; intros p.
  - exists (N.to_nat p). cbn [expand_cells flat_map read_row]. rewrite app_nil_r. reflexivity.
  - cbn [read_row]. unfold expand_cells. cbn [flat_map]. fold (expand_cells cs).
    destruct (blank isdV isdF c) eqn:Eb.
    + unfold blank in Eb. apply andb_prop in Eb. destruct Eb as [Ev Ef].
      apply isdV_spec in Ev. apply isdF_spec in Ef. rewrite Ev, Ef.
      destruct (IH (ce_rep c)) as (n & Hn). exists n. rewrite <- !app_assoc. rewrite Hn. reflexivity.
    + destruct (IH 0) as (n & Hn). exists n. cbn [N.to_nat repeat app] in Hn.
      rewrite <- !app_assoc. rewrite Hn. reflexivity.
Qed.

Definition prow (r : rowT) : list (V * F) := rrow (re_cells r) 0.

Lemma prow_expand : forall r, exists n, expand_cells (re_cells r) = prow r ++ repeat (dV, dF) n.
Proof. intros r. destruct (read_row_expand (re_cells r) 0) as (n & Hn). exists n. exact Hn. Qed.

Lemma expand_cells_length : forall (cs : list cellT),
  N.of_nat (length (expand_cells cs)) = sum_list (map (@ce_rep V F) cs).
Proof.
  induction cs as [|c cs IH]; [reflexivity|].
  unfold expand_cells. cbn [flat_map map]. fold (expand_cells cs).
  rewrite app_length, repeat_length, sum_list_cons. lia.
Qed.

Lemma total_rows_cons : forall (r : rowT) rows, total_rows (r :: rows) = re_rep r + total_rows rows.
Proof. intros. unfold total_rows. cbn [map]. apply sum_list_cons. Qed.

(* the 2^32 limit of read_table: accepted exactly when the announced rows are at most 2^32 *)
Lemma read_rows_cases : forall (rows : list rowT) len tot, tot <= TWO32 ->
  (tot + total_rows rows <= TWO32 /\
   read_rows dV dF isdV isdF rows len tot =
   Ok (concat (map prow rows), offs len (map prow rows), map (@re_rep V F) rows)) \/
  (TWO32 < tot + total_rows rows /\ exists e, read_rows dV dF isdV isdF rows len tot = Err e).
Proof.
  assert (H32 : TWO32 < U64MAX) by (unfold TWO32, U64MAX; lia).
  induction rows as [|r rows IH]; intros len tot Ht.
  - left. split; [unfold total_rows; cbn [map]; rewrite sum_list_nil; lia|reflexivity].
  - rewrite total_rows_cons. cbn [read_rows].
    change (read_row dV dF isdV isdF (re_cells r) 0) with (prow r).
    destruct (N.ltb_spec TWO32 (N.min (tot + re_rep r) U64MAX)) as [Hgt|Hle].
    + right. split; [lia|]. eexists; reflexivity.
    + assert (Em : N.min (tot + re_rep r) U64MAX = tot + re_rep r) by lia. rewrite Em in *.
      destruct (IH (len + N.of_nat (length (prow r))) (tot + re_rep r) Hle)
        as [(Hs & HI)|(Hs & e & HI)].
      * left. split; [lia|]. rewrite HI. reflexivity.
      * right. split; [lia|]. exists e. rewrite HI. reflexivity.
Qed.

Lemma max_width_ge : forall (rows : list rowT) r, In r rows -> row_width r <= max_width rows.
Proof.
  induction rows as [|a rows IH]; intros r Hin; [contradiction|].
  cbn [max_width fold_right]. fold (max_width rows). destruct Hin as [->|Hin]; [lia|].
  specialize (IH r Hin). lia.
Qed.

Lemma counts_pos_rows : forall (rows : list rowT), counts_pos rows = true ->
  Forall (fun r => 1 <= re_rep r) rows.
Proof.
  intros rows H. unfold counts_pos in H. rewrite forallb_forall in H. apply Forall_forall.
  intros r Hin. specialize (H r Hin). apply andb_prop in H. destruct H as [H _].
  apply N.leb_le in H. exact H.
Qed.

(* get_range over one of the two projections *)
Lemma get_range_proj : forall (U : Type) (dU : U) (isdU : U -> bool) (pr : V * F -> U)
  (rows : list rowT),
  (forall x, isdU x = true <-> x = dU) -> pr (dV, dF) = dU ->
  counts_pos rows = true -> extent_ok rows = true ->
  get_range dU isdU (map pr (concat (map prow rows))) (0 :: offs 0 (map prow rows))
            (map (@re_rep V F) rows)
  = Ok (range_of dU isdU (map (map pr) (expand rows))).
Proof.
  intros U dU isdU pr rows HU Hpr Hpos Hext.
  set (LV := map (fun r => (map pr (prow r), re_rep r)) rows).
  assert (E1 : map pr (concat (map prow rows)) = concat (map fst LV)).
  { unfold LV. rewrite concat_map, !map_map. reflexivity. }
  assert (E2 : offs 0 (map prow rows) = offs 0 (map fst LV)).
  { unfold LV. rewrite map_map. cbn [fst]. rewrite <- (offs_map pr (map prow rows)).
    rewrite map_map. reflexivity. }
  assert (E3 : map (@re_rep V F) rows = map snd LV).
  { unfold LV. rewrite map_map. reflexivity. }
  rewrite E1, E2, E3.
  unfold extent_ok in Hext. apply andb_prop in Hext. destruct Hext as [Hext H3].
  apply andb_prop in Hext. destruct Hext as [H1 H2].
  apply N.leb_le in H1, H2, H3.
  assert (Sk : sumk LV = total_rows rows).
  { unfold sumk, total_rows. rewrite <- E3. reflexivity. }
  rewrite (@get_range_correct U dU isdU HU LV (max_width rows)).
  - f_equal. apply range_of_ext; [exact HU|]. apply Forall2_row_eq_grid_eq.
    unfold LV, expand. clear -Hpr isdV_spec isdF_spec.
    induction rows as [|r rows IH]; [constructor|].
    cbn [map flat_map]. rewrite expand_rows_cons, map_app. apply Forall2_app; [|exact IH].
    rewrite map_repeat'. apply Forall2_repeat.
    destruct (prow_expand r) as (n & Hn). rewrite Hn, map_app, map_repeat', Hpr.
    intros c. symmetry. apply nth_app_default.
  - apply Forall_forall. intros rk Hin. unfold LV in Hin. apply in_map_iff in Hin.
    destruct Hin as (r & <- & Hin). cbn [snd].
    pose proof (counts_pos_rows _ Hpos) as Hp. rewrite Forall_forall in Hp. apply Hp. exact Hin.
  - rewrite Sk. exact H1.
  - apply Forall_forall. intros rk Hin. unfold LV in Hin. apply in_map_iff in Hin.
    destruct Hin as (r & <- & Hin). cbn [fst]. rewrite map_length.
    pose proof (max_width_ge _ _ Hin) as Hw. unfold row_width in Hw.
    rewrite <- expand_cells_length in Hw.
    destruct (prow_expand r) as (n & Hn). rewrite Hn, app_length in Hw. lia.
  - exact H2.
  - rewrite Sk. exact H3.
Qed.

(* C04 main: for every list of row elements with positive counts whose extent fits the
   machine integers, read_table returns exactly the spec: the tight bounding rectangle of the
   plain expansion, for the values and for the formulas *)
Theorem read_table_correct : forall rows : list rowT,
  counts_pos rows = true -> extent_ok rows = true ->
  read_table dV dF isdV isdF rows = Ok (spec_table dV dF isdV isdF rows).
Proof.
  intros rows Hpos Hext. unfold read_table, spec_table, values_of, formulas_of.
  assert (H1 : total_rows rows <= TWO32).
  { unfold extent_ok in Hext. apply andb_prop in Hext. destruct Hext as [Hext _].
    apply andb_prop in Hext. destruct Hext as [H1 _]. apply N.leb_le in H1. exact H1. }
  destruct (@read_rows_cases rows 0 0) as [(_ & HR)|(Hs & _)]; [unfold TWO32; lia| |lia].
  rewrite HR. cbn [obind].
  rewrite (@get_range_proj _ dV isdV fst rows isdV_spec eq_refl Hpos Hext). cbn [obind].
  rewrite (@get_range_proj _ dF isdF snd rows isdF_spec eq_refl Hpos Hext). cbn [obind].
  reflexivity.
Qed.

(* read_table rejects (with an error, never a panic) exactly the tables announcing more than
   2^32 rows *)
Theorem read_table_row_limit : forall rows : list rowT,
  TWO32 < total_rows rows -> exists e, read_table dV dF isdV isdF rows = Err e.
Proof.
  intros rows H. unfold read_table.
  destruct (@read_rows_cases rows 0 0) as [(Hs & _)|(_ & e & HR)]; [unfold TWO32; lia|lia|].
  exists e. rewrite HR. reflexivity.
Qed.

Lemma get_range_proj_nopanic : forall (U : Type) (dU : U) (isdU : U -> bool) (pr : V * F -> U)
  (rows : list rowT),
  (forall x, isdU x = true <-> x = dU) ->
  total_rows rows <= TWO32 -> phys_ok rows = true ->
  exists r, get_range dU isdU (map pr (concat (map prow rows))) (0 :: offs 0 (map prow rows))
                      (map (@re_rep V F) rows) = Ok r.
Proof.
  intros U dU isdU pr rows HU Htot Hph.
  set (LV := map (fun r => (map pr (prow r), re_rep r)) rows).
  assert (E1 : map pr (concat (map prow rows)) = concat (map fst LV)).
  { unfold LV. rewrite concat_map, !map_map. reflexivity. }
  assert (E2 : offs 0 (map prow rows) = offs 0 (map fst LV)).
  { unfold LV. rewrite map_map. cbn [fst]. rewrite <- (offs_map pr (map prow rows)).
    rewrite map_map. reflexivity. }
  assert (E3 : map (@re_rep V F) rows = map snd LV).
  { unfold LV. rewrite map_map. reflexivity. }
  rewrite E1, E2, E3.
  unfold phys_ok in Hph. apply andb_prop in Hph. destruct Hph as [P1 P2].
  apply N.leb_le in P1, P2.
  assert (Sk : sumk LV = total_rows rows).
  { unfold sumk, total_rows. rewrite <- E3. reflexivity. }
  assert (Ln : length LV = length rows) by (unfold LV; apply map_length).
  apply (@get_range_nopanic U dU isdU HU LV (max_width rows)).
  - rewrite Sk. exact Htot.
  - rewrite Ln. exact P1.
  - apply Forall_forall. intros rk Hin. unfold LV in Hin. apply in_map_iff in Hin.
    destruct Hin as (r & <- & Hin). cbn [fst]. rewrite map_length.
    pose proof (max_width_ge _ _ Hin) as Hw. unfold row_width in Hw.
    rewrite <- expand_cells_length in Hw.
    destruct (prow_expand r) as (n & Hn). rewrite Hn, app_length in Hw. lia.
  - rewrite Ln. exact P2.
Qed.

(* totality: for EVERY list of row elements (zero counts, huge counts, anything) that a machine
   can hold, read_table returns Ok or Err, never a panic *)
Theorem read_table_no_panic : forall rows : list rowT,
  phys_ok rows = true -> read_table dV dF isdV isdF rows <> Panic.
Proof.
  intros rows Hph. unfold read_table.
  destruct (@read_rows_cases rows 0 0) as [(Hs & HR)|(_ & e & HR)]; [unfold TWO32; lia| |].
  - rewrite HR. cbn [obind].
    destruct (@get_range_proj_nopanic _ dV isdV fst rows isdV_spec) as (rv & Hv); [lia|exact Hph|].
    destruct (@get_range_proj_nopanic _ dF isdF snd rows isdF_spec) as (rf & Hf); [lia|exact Hph|].
    rewrite Hv, Hf. cbn [obind]. discriminate.
  - rewrite HR. cbn [obind]. discriminate.
Qed.

(* the cell function of the expansion *)
Definition pair_at (g : list (list (V * F))) (r c : nat) : V * F := nth c (nth r g []) (dV, dF).

Lemma cell_at_map : forall (U : Type) (dU : U) (pr : V * F -> U) g r c,
  pr (dV, dF) = dU -> cell_at dU (map (map pr) g) r c = pr (pair_at g r c).
Proof.
  intros U dU pr g r c Hpr. unfold cell_at, pair_at.
  change (@nil U) with (map pr []). rewrite map_nth. rewrite <- Hpr. apply map_nth.
Qed.

(* run-length independence: two encodings denoting the same cell function (in particular two
   encodings with the same expansion, or differing by trailing empty cells / rows) read the
   same *)
Theorem rle_independent : forall r1 r2 : list rowT,
  counts_pos r1 = true -> extent_ok r1 = true ->
  counts_pos r2 = true -> extent_ok r2 = true ->
  (forall r c, pair_at (expand r1) r c = pair_at (expand r2) r c) ->
  read_table dV dF isdV isdF r1 = read_table dV dF isdV isdF r2.
Proof.
  intros r1 r2 P1 X1 P2 X2 H.
  rewrite (read_table_correct _ P1 X1), (read_table_correct _ P2 X2). f_equal.
  unfold spec_table, values_of, formulas_of. f_equal.
  - apply range_of_ext; [exact isdV_spec|]. intros r c.
    rewrite !(@cell_at_map _ dV fst) by reflexivity. rewrite H. reflexivity.
  - apply range_of_ext; [exact isdF_spec|]. intros r c.
    rewrite !(@cell_at_map _ dF snd) by reflexivity. rewrite H. reflexivity.
Qed.

Corollary rle_same_expansion : forall r1 r2 : list rowT,
  counts_pos r1 = true -> extent_ok r1 = true ->
  counts_pos r2 = true -> extent_ok r2 = true ->
  expand r1 = expand r2 ->
  read_table dV dF isdV isdF r1 = read_table dV dF isdV isdF r2.
Proof. intros r1 r2 P1 X1 P2 X2 H. apply rle_independent; try assumption. intros. rewrite H. reflexivity. Qed.

End Table.

(* ====================================================================================== *)
(* 8. instances for ods: Data / String                                                     *)
(* ====================================================================================== *)
Lemma data_is_empty_spec : forall x, data_is_empty x = true <-> x = DEmpty.
Proof. intros x. destruct x; cbn; split; intros H; congruence. Qed.
Lemma str_is_empty_spec : forall x : str, str_is_empty x = true <-> x = [].
Proof. intros x. destruct x; cbn; split; intros H; congruence. Qed.

Theorem ods_grid_main : forall rows : list (row_elem data str),
  counts_pos rows = true -> extent_ok rows = true ->
  ods_read_table rows = Ok (ods_spec_table rows).
Proof.
  intros rows Hp He. unfold ods_read_table, ods_spec_table.
  apply read_table_correct; [exact data_is_empty_spec|exact str_is_empty_spec|exact Hp|exact He].
Qed.

Theorem ods_read_table_no_panic : forall rows : list (row_elem data str),
  phys_ok rows = true -> ods_read_table rows <> Panic.
Proof.
  intros rows H. unfold ods_read_table.
  apply read_table_no_panic; [exact data_is_empty_spec|exact str_is_empty_spec|exact H].
Qed.

Theorem ods_read_table_row_limit : forall rows : list (row_elem data str),
  TWO32 < total_rows rows -> exists e, ods_read_table rows = Err e.
Proof.
  intros rows H. unfold ods_read_table.
  apply read_table_row_limit; first [exact H|exact data_is_empty_spec|exact str_is_empty_spec].
Qed.

Theorem ods_rle_independent : forall r1 r2 : list (row_elem data str),
  counts_pos r1 = true -> extent_ok r1 = true ->
  counts_pos r2 = true -> extent_ok r2 = true ->
  (forall r c, pair_at DEmpty (@nil N) (expand r1) r c = pair_at DEmpty (@nil N) (expand r2) r c) ->
  ods_read_table r1 = ods_read_table r2.
Proof.
  intros. unfold ods_read_table.
  apply rle_independent; try assumption; [exact data_is_empty_spec|exact str_is_empty_spec].
Qed.

Theorem ods_rle_same_expansion : forall r1 r2 : list (row_elem data str),
  counts_pos r1 = true -> extent_ok r1 = true ->
  counts_pos r2 = true -> extent_ok r2 = true ->
  expand r1 = expand r2 -> ods_read_table r1 = ods_read_table r2.
Proof.
  intros r1 r2 P1 X1 P2 X2 H. apply ods_rle_independent; try assumption.
  intros. rewrite H. reflexivity.
Qed.

(* the element-tree level: repeat attributes parsed, cells typed by get_datatype *)
Theorem ods_xtable_main : forall (xrows : list xrow) (rows : list (row_elem data str)),
  map_outcome read_xrow xrows = Ok rows ->
  counts_pos rows = true -> extent_ok rows = true ->
  read_xtable xrows = Ok (ods_spec_table rows).
Proof.
  intros xrows rows H Hp He. unfold read_xtable. rewrite H. cbn [obind].
  apply ods_grid_main; assumption.
Qed.

(* ---- layout: what stands between the cells of a row and between the children of a cell ---- *)
Lemma join_nl_cons_flat : forall x l, join_nl (x :: l) = x ++ flat_map (fun t => 10 :: t) l.
Proof.
  intros x l. revert x. induction l as [|y l IH]; intro x.
  - cbn. rewrite app_nil_r. reflexivity.
  - change (join_nl (x :: y :: l)) with (x ++ 10 :: join_nl (y :: l)).
    rewrite (IH y). reflexivity.
Qed.

Lemma fold_xitem_after_false : forall its s,
  fold_left xitem_after its (s, false) = (s ++ flat_map (fun t => 10 :: t) (paras_of its), false).
Proof.
  induction its as [|it its IH]; intro s.
  - cbn. rewrite app_nil_r. reflexivity.
  - cbn [fold_left]. destruct it as [p|ws| |n ps|ps]; cbn [xitem_after fst snd];
      try (rewrite IH; reflexivity).
    rewrite IH. unfold paras_of. cbn [flat_map app]. rewrite <- !app_assoc. reflexivity.
Qed.

(* the content loop keeps the paragraphs of the cell itself, joined by a newline, and nothing
   else: indentation, comments, the annotation and anchored drawing objects (with every paragraph
   they hold) contribute nothing *)
Lemma content_loop_spec : forall its, content_loop its = join_nl (paras_of its).
Proof.
  unfold content_loop. induction its as [|it its IH]; [reflexivity|].
  cbn [fold_left]. destruct it as [p|ws| |n ps|ps]; cbn [xitem_after fst snd]; try exact IH.
  rewrite fold_xitem_after_false. unfold paras_of. cbn [flat_map app fst].
  rewrite join_nl_cons_flat. reflexivity.
Qed.

Lemma get_datatype_items_spec : forall a its,
  get_datatype_items a its = get_datatype a (paras_of its).
Proof.
  intros a its. unfold get_datatype_items, get_datatype.
  destruct (ods_attrs a false false DEmpty []) as [[[is_string is_set] val] formula].
  rewrite content_loop_spec. reflexivity.
Qed.

Lemma paras_of_map_XPara : forall ps, paras_of (map XPara ps) = ps.
Proof. induction ps as [|p ps IH]; [reflexivity|]. unfold paras_of in *. cbn [map flat_map app]. rewrite IH. reflexivity. Qed.


Theorem cell_layout_transparent : forall c, read_xcell c = read_xcell (flat_cell c).
Proof.
  intro c. unfold read_xcell, flat_cell. cbn [xc_attrs xc_items xc_covered].
  rewrite !get_datatype_items_spec. rewrite paras_of_map_XPara. reflexivity.
Qed.

Theorem cell_layout_independent : forall c1 c2,
  xc_covered c1 = xc_covered c2 -> xc_attrs c1 = xc_attrs c2 -> xc_paras c1 = xc_paras c2 ->
  read_xcell c1 = read_xcell c2.
Proof.
  intros c1 c2 H1 H2 H3. rewrite (cell_layout_transparent c1), (cell_layout_transparent c2).
  unfold flat_cell. rewrite H1, H2, H3. reflexivity.
Qed.

Lemma read_ritems_cells : forall its, forallb ritem_ok its = true ->
  read_ritems its = map_outcome read_xcell (flat_map (fun it => match it with RCell c => [c] | _ => [] end) its).
Proof.
  induction its as [|it its IH]; intro H; [reflexivity|].
  cbn [forallb] in H. apply andb_true_iff in H. destruct H as [H1 H2].
  destruct it as [c|ws| |]; cbn [read_ritems flat_map app map_outcome]; try (apply IH; exact H2).
  - rewrite (IH H2). reflexivity.
  - discriminate.
Qed.

Lemma map_outcome_flat : forall cs,
  map_outcome read_xcell (map flat_cell cs) = map_outcome read_xcell cs.
Proof.
  induction cs as [|c cs IH]; [reflexivity|]. cbn [map map_outcome].
  rewrite <- cell_layout_transparent, IH. reflexivity.
Qed.

Lemma xr_cells_map_RCell : forall cs, flat_map (fun it => match it with RCell c => [c] | _ => [] end)
                                              (map (fun c => RCell (flat_cell c)) cs) = map flat_cell cs.
Proof. induction cs as [|c cs IH]; [reflexivity|]. cbn [map flat_map app]. rewrite IH. reflexivity. Qed.

Lemma forallb_ritem_ok_flat : forall cs, forallb ritem_ok (map (fun c => RCell (flat_cell c)) cs) = true.
Proof. induction cs as [|c cs IH]; [reflexivity|]. cbn [map forallb ritem_ok andb]. exact IH. Qed.

(* reading a row is transparent to its layout: the white space and comments between the cells
   and between the children of every cell, the annotation and the drawing objects anchored to a
   cell change nothing — the row reads as its flat form (cells alone, paragraphs alone) *)
Theorem row_layout_transparent : forall x, row_ok x = true -> read_xrow x = read_xrow (flat_row x).
Proof.
  intros x H. unfold read_xrow, flat_row. cbn [xr_attrs xr_items].
  unfold row_ok in H. rewrite (read_ritems_cells _ H).
  rewrite (read_ritems_cells _ (forallb_ritem_ok_flat (xr_cells x))).
  rewrite xr_cells_map_RCell, map_outcome_flat. reflexivity.
Qed.

Theorem row_layout_independent : forall x1 x2, row_ok x1 = true -> row_ok x2 = true ->
  xr_attrs x1 = xr_attrs x2 -> map flat_cell (xr_cells x1) = map flat_cell (xr_cells x2) ->
  read_xrow x1 = read_xrow x2.
Proof.
  intros x1 x2 H1 H2 Ha Hc. rewrite (row_layout_transparent x1 H1), (row_layout_transparent x2 H2).
  unfold flat_row. rewrite Ha. f_equal. f_equal.
  rewrite <- !(map_map flat_cell RCell). rewrite Hc. reflexivity.
Qed.

(* anything else between the cells: the row is not read (OdsError::Mismatch, or the error of an
   earlier cell) — the file does not open *)
Theorem row_foreign_item_rejected : forall its1 its2 r,
  read_ritems (its1 ++ ROther :: its2) <> Ok r.
Proof.
  induction its1 as [|it its1 IH]; intros its2 r; cbn [app read_ritems]; [discriminate|].
  destruct it as [c|ws| |]; try apply IH; try discriminate.
  destruct (read_xcell c); cbn [obind]; try discriminate.
  specialize (IH its2).
  destruct (read_ritems (its1 ++ ROther :: its2)) as [cs|e| |]; cbn [obind]; try discriminate.
  exfalso. eapply IH. reflexivity.
Qed.

Lemma read_ritems_total : forall its, read_ritems its <> Panic /\ read_ritems its <> OutOfFuel.
Proof.
  induction its as [|it its IH]; cbn [read_ritems]; [split; discriminate|].
  destruct it as [c|ws| |]; try exact IH; [|split; discriminate].
  unfold read_xcell. unfold cell_repeat_attr.
  destruct (get_attribute (xc_attrs c) a_cols_repeated) as [v|]; [destruct (parse_i32 v)|];
    cbn [obind]; try (split; discriminate);
    destruct (get_datatype_items (xc_attrs c) (xc_items c)); cbn [obind];
    destruct IH as [I1 I2]; destruct (read_ritems its); cbn [obind]; split; try discriminate; tauto.
Qed.

Lemma map_outcome_flat_rows : forall xrows, forallb row_ok xrows = true ->
  map_outcome read_xrow xrows = map_outcome read_xrow (map flat_row xrows).
Proof.
  induction xrows as [|x xs IH]; intro H; [reflexivity|].
  cbn [forallb] in H. apply andb_true_iff in H. destruct H as [H1 H2].
  cbn [map map_outcome]. rewrite (row_layout_transparent x H1), (IH H2). reflexivity.
Qed.

Theorem xtable_layout_transparent : forall xrows, forallb row_ok xrows = true ->
  read_xtable xrows = read_xtable (map flat_row xrows).
Proof. intros xrows H. unfold read_xtable. rewrite (map_outcome_flat_rows _ H). reflexivity. Qed.

(* the loop over the children of table:table: whatever holds or accompanies the rows is
   transparent — the rows come out in document order, whatever follows the end tag is not read *)
Lemma table_loop_rows : forall (its rest : list titem) (acc : list xrow),
  forallb item_ok its = true ->
  table_loop (its ++ TClose k_table_table :: rest) acc = Ok (acc ++ rows_of its).
Proof.
  induction its as [|it its IH]; intros rest acc H.
  - cbn [app table_loop rows_of]. change (str_eqb k_table_table k_table_table) with true.
    cbn iota. rewrite app_nil_r. reflexivity.
  - cbn [forallb] in H. apply andb_true_iff in H. destruct H as [H1 H2].
    destruct it as [x|n a|n|]; cbn [app table_loop rows_of].
    + rewrite (IH rest (acc ++ [x]) H2). rewrite <- app_assoc. reflexivity.
    + apply IH. exact H2.
    + cbn [item_ok] in H1. apply negb_true_iff in H1. rewrite H1. apply IH. exact H2.
    + apply IH. exact H2.
Qed.

Theorem ods_containers_transparent : forall (its rest : list titem),
  forallb item_ok its = true ->
  read_table_items (its ++ TClose k_table_table :: rest) = read_xtable (rows_of its).
Proof.
  intros its rest H. unfold read_table_items. rewrite (table_loop_rows its rest [] H).
  cbn [app obind]. reflexivity.
Qed.

(* two arrangements of the same rows read the same *)
Theorem ods_containers_independent : forall (its1 its2 rest1 rest2 : list titem),
  forallb item_ok its1 = true -> forallb item_ok its2 = true ->
  rows_of its1 = rows_of its2 ->
  read_table_items (its1 ++ TClose k_table_table :: rest1) =
  read_table_items (its2 ++ TClose k_table_table :: rest2).
Proof.
  intros its1 its2 rest1 rest2 H1 H2 E.
  rewrite (ods_containers_transparent its1 rest1 H1), (ods_containers_transparent its2 rest2 H2), E.
  reflexivity.
Qed.

Theorem ods_table_items_main : forall (its rest : list titem) (rows : list (row_elem data str)),
  forallb item_ok its = true ->
  map_outcome read_xrow (rows_of its) = Ok rows ->
  counts_pos rows = true -> extent_ok rows = true ->
  read_table_items (its ++ TClose k_table_table :: rest) = Ok (ods_spec_table rows).
Proof.
  intros its rest rows H Hr Hp He. rewrite (ods_containers_transparent its rest H).
  apply ods_xtable_main; assumption.
Qed.

(* the same with the layout of the rows: under any arrangement of row holders and neighbours AND
   any indentation / comments between the cells and inside them, any annotation and any drawing
   objects anchored to cells, the table reads as the spec of its flat rows *)
Theorem ods_table_items_layout_main : forall (its rest : list titem) (rows : list (row_elem data str)),
  forallb item_ok its = true -> forallb row_ok (rows_of its) = true ->
  map_outcome read_xrow (map flat_row (rows_of its)) = Ok rows ->
  counts_pos rows = true -> extent_ok rows = true ->
  read_table_items (its ++ TClose k_table_table :: rest) = Ok (ods_spec_table rows).
Proof.
  intros its rest rows H Hk Hr Hp He. rewrite (ods_containers_transparent its rest H).
  rewrite (xtable_layout_transparent _ Hk). apply ods_xtable_main; assumption.
Qed.

Theorem ods_table_layout_independent : forall (its1 its2 rest1 rest2 : list titem),
  forallb item_ok its1 = true -> forallb item_ok its2 = true ->
  forallb row_ok (rows_of its1) = true -> forallb row_ok (rows_of its2) = true ->
  map flat_row (rows_of its1) = map flat_row (rows_of its2) ->
  read_table_items (its1 ++ TClose k_table_table :: rest1) =
  read_table_items (its2 ++ TClose k_table_table :: rest2).
Proof.
  intros its1 its2 rest1 rest2 H1 H2 K1 K2 E.
  rewrite (ods_containers_transparent its1 rest1 H1), (ods_containers_transparent its2 rest2 H2).
  rewrite (xtable_layout_transparent _ K1), (xtable_layout_transparent _ K2), E. reflexivity.
Qed.

(* an unterminated table is an error, never a loop or a panic *)
Lemma table_loop_total : forall (its : list titem) (acc : list xrow),
  table_loop its acc <> Panic /\ table_loop its acc <> OutOfFuel.
Proof.
  induction its as [|it its IH]; intros acc; cbn [table_loop]; [split; discriminate|].
  destruct it as [x|n a|n|]; try apply IH.
  destruct (str_eqb n k_table_table); [split; discriminate|apply IH].
Qed.

(* the limits of a LibreOffice sheet (1048576 rows, 16384 columns) are inside the guard *)
Lemma sheet_limits_extent_ok : forall (V F : Type) (rows : list (row_elem V F)),
  total_rows rows <= 1048576 -> max_width rows <= 16384 -> extent_ok rows = true.
Proof.
  intros V F rows H1 H2. unfold extent_ok.
  assert (total_rows rows * max_width rows <= 1048576 * 16384) by (apply N.mul_le_mono; assumption).
  repeat (apply andb_true_intro; split); apply N.leb_le; unfold TWO32, USIZE_MAX, U64MAX; lia.
Qed.

(* typing: the canonical attribute set of each value kind reads as that kind *)
Theorem typing_canonical : forall (t : tvalue) (display : list str) (formula : str),
  get_datatype (tv_attrs t ++ [(a_formula, formula)]) (tv_paras t display)
  = (tv_data t, formula).
Proof.
  intros t display formula.
  destruct t as [|k s|s|ps|b|s|s]; cbn [tv_attrs tv_paras tv_data app];
    try reflexivity;
    try (destruct b; reflexivity);
    try (destruct (k =? 0); [reflexivity|]; destruct (k =? 1); reflexivity).
Qed.

(* ---------- empty runs are inert ---------- *)
Section Inert.
Variable V F : Type.
Variable dV : V.
Variable dF : F.
Variable isdV : V -> bool.
Variable isdF : F -> bool.
Hypothesis isdV_spec : forall x, isdV x = true <-> x = dV.
Hypothesis isdF_spec : forall x, isdF x = true <-> x = dF.

Lemma expand_app : forall (a b : list (row_elem V F)), expand (a ++ b) = expand a ++ expand b.
Proof. intros. unfold expand. apply flat_map_app. Qed.

Lemma expand_cells_blank : forall (cs : list (cell_elem V F)),
  forallb (blank isdV isdF) cs = true -> forall c, nth c (expand_cells cs) (dV, dF) = (dV, dF).
Proof.
  induction cs as [|x cs IH]; intros H c; [destruct c; reflexivity|].
  cbn [forallb] in H. apply andb_prop in H. destruct H as [Hx Hc].
  unfold blank in Hx. apply andb_prop in Hx. destruct Hx as [Hv Hf].
  apply isdV_spec in Hv. apply isdF_spec in Hf.
  unfold expand_cells. cbn [flat_map]. fold (expand_cells cs). rewrite Hv, Hf.
  destruct (Nat.lt_ge_cases c (length (repeat (dV, dF) (N.to_nat (ce_rep x))))) as [Hlt|Hge].
  - rewrite app_nth1 by exact Hlt. apply nth_repeat.
  - rewrite app_nth2 by exact Hge. apply IH. exact Hc.
Qed.

(* a trailing row element made of empty cells only (any repeat count, any number of cells) and
   trailing empty cells in a row do not change the cell function, hence not the result *)
Lemma pair_at_trailing_row : forall (rows : list (row_elem V F)) k cs,
  forallb (blank isdV isdF) cs = true ->
  forall r c, pair_at dV dF (expand (rows ++ [mkRow k cs])) r c = pair_at dV dF (expand rows) r c.
Proof.
  intros rows k cs Hb r c. rewrite expand_app. unfold pair_at.
  destruct (Nat.lt_ge_cases r (length (expand rows))) as [Hlt|Hge].
  - rewrite app_nth1 by exact Hlt. reflexivity.
  - rewrite app_nth2 by exact Hge. rewrite (nth_overflow (expand rows)) by exact Hge.
    unfold expand. cbn [flat_map re_rep re_cells]. rewrite app_nil_r.
    set (i := (r - length (flat_map (fun r0 : row_elem V F =>
                 repeat (expand_cells (re_cells r0)) (N.to_nat (re_rep r0))) rows))%nat).
    destruct (Nat.lt_ge_cases i (N.to_nat k)) as [Hi|Hi].
    + rewrite nth_indep with (d' := expand_cells cs) by (rewrite repeat_length; exact Hi).
      rewrite nth_repeat. rewrite expand_cells_blank by exact Hb. destruct c; reflexivity.
    + rewrite (nth_overflow (repeat (expand_cells cs) (N.to_nat k))) by (rewrite repeat_length; exact Hi).
      reflexivity.
Qed.

Theorem empties_inert_trailing_rows : forall (rows : list (row_elem V F)) k cs,
  forallb (blank isdV isdF) cs = true ->
  counts_pos rows = true -> extent_ok rows = true ->
  counts_pos (rows ++ [mkRow k cs]) = true -> extent_ok (rows ++ [mkRow k cs]) = true ->
  read_table dV dF isdV isdF (rows ++ [mkRow k cs]) = read_table dV dF isdV isdF rows.
Proof.
  intros rows k cs Hb P1 X1 P2 X2.
  apply rle_independent; try assumption.
  intros r c. apply pair_at_trailing_row. exact Hb.
Qed.

Lemma nth_app_repeat_pair : forall (a : list (V * F)) n c,
  nth c (a ++ repeat (dV, dF) n) (dV, dF) = nth c a (dV, dF).
Proof.
  intros a n c. destruct (Nat.lt_ge_cases c (length a)) as [Hlt|Hge].
  - apply app_nth1. exact Hlt.
  - rewrite app_nth2 by exact Hge. rewrite nth_repeat. symmetry. apply nth_overflow. exact Hge.
Qed.

Lemma pair_at_trailing_cells : forall (A B : list (row_elem V F)) k cs ts,
  forallb (blank isdV isdF) ts = true ->
  forall r c, pair_at dV dF (expand (A ++ mkRow k (cs ++ ts) :: B)) r c
            = pair_at dV dF (expand (A ++ mkRow k cs :: B)) r c.
Proof.
  intros A B k cs ts Hb r c.
  change (A ++ mkRow k (cs ++ ts) :: B) with (A ++ [mkRow k (cs ++ ts)] ++ B).
  change (A ++ mkRow k cs :: B) with (A ++ [mkRow k cs] ++ B).
  rewrite !expand_app. unfold pair_at.
  destruct (Nat.lt_ge_cases r (length (expand A))) as [Hlt|Hge].
  - rewrite !app_nth1 by exact Hlt. reflexivity.
  - rewrite !(app_nth2 (expand A)) by exact Hge.
    set (i := (r - length (expand A))%nat).
    assert (L1 : length (expand [mkRow k (cs ++ ts)]) = N.to_nat k)
      by (unfold expand; cbn [flat_map re_rep re_cells]; rewrite app_nil_r, repeat_length; reflexivity).
    assert (L2 : length (expand [mkRow k cs]) = N.to_nat k)
      by (unfold expand; cbn [flat_map re_rep re_cells]; rewrite app_nil_r, repeat_length; reflexivity).
    destruct (Nat.lt_ge_cases i (N.to_nat k)) as [Hi|Hi].
    + rewrite !app_nth1 by lia.
      unfold expand. cbn [flat_map re_rep re_cells]. rewrite !app_nil_r.
      rewrite nth_indep with (d' := expand_cells (cs ++ ts)) by (rewrite repeat_length; exact Hi).
      rewrite nth_repeat.
      rewrite (nth_indep (repeat (expand_cells cs) (N.to_nat k)) [] (expand_cells cs))
        by (rewrite repeat_length; exact Hi).
      rewrite nth_repeat.
      unfold expand_cells. rewrite flat_map_app. fold (expand_cells cs). fold (expand_cells ts).
      destruct (Nat.lt_ge_cases c (length (expand_cells cs))) as [Hc|Hc].
      * apply app_nth1. exact Hc.
      * rewrite app_nth2 by exact Hc. rewrite expand_cells_blank by exact Hb.
        symmetry. apply nth_overflow. exact Hc.
    + rewrite !app_nth2 by lia. rewrite L1, L2. reflexivity.
Qed.

Theorem empties_inert_trailing_cells : forall (A B : list (row_elem V F)) k cs ts,
  forallb (blank isdV isdF) ts = true ->
  counts_pos (A ++ mkRow k cs :: B) = true -> extent_ok (A ++ mkRow k cs :: B) = true ->
  counts_pos (A ++ mkRow k (cs ++ ts) :: B) = true ->
  extent_ok (A ++ mkRow k (cs ++ ts) :: B) = true ->
  read_table dV dF isdV isdF (A ++ mkRow k (cs ++ ts) :: B)
  = read_table dV dF isdV isdF (A ++ mkRow k cs :: B).
Proof.
  intros A B k cs ts Hb P1 X1 P2 X2.
  apply rle_independent; try assumption.
  intros r c. apply pair_at_trailing_cells. exact Hb.
Qed.

(* leading / interior empty rows: a row element of empty cells with count k inserted after the
   rows A shifts every later row down by exactly k, leaves the earlier ones alone and adds only
   empty cells: it displaces values by its own length and by nothing else *)
Theorem empties_shift_rows : forall (A B : list (row_elem V F)) k cs,
  forallb (blank isdV isdF) cs = true ->
  forall r c,
    pair_at dV dF (expand (A ++ mkRow k cs :: B)) r c =
    let n := length (expand A) in
    if (r <? n)%nat then pair_at dV dF (expand (A ++ B)) r c
    else if (r <? n + N.to_nat k)%nat then (dV, dF)
    else pair_at dV dF (expand (A ++ B)) (r - N.to_nat k) c.
Proof.
  intros A B k cs Hb r c. cbv zeta.
  change (A ++ mkRow k cs :: B) with (A ++ [mkRow k cs] ++ B).
  rewrite !expand_app. unfold pair_at.
  assert (L1 : length (expand [mkRow k cs]) = N.to_nat k)
    by (unfold expand; cbn [flat_map re_rep re_cells]; rewrite app_nil_r, repeat_length; reflexivity).
  destruct (Nat.ltb_spec r (length (expand A))) as [Hlt|Hge].
  - rewrite !app_nth1 by exact Hlt. reflexivity.
  - rewrite (app_nth2 (expand A)) by exact Hge.
    destruct (Nat.ltb_spec r (length (expand A) + N.to_nat k)) as [Hi|Hi].
    + rewrite app_nth1 by lia.
      assert (E1 : expand [mkRow k cs] = repeat (expand_cells cs) (N.to_nat k))
        by (unfold expand; cbn [flat_map re_rep re_cells]; apply app_nil_r).
      rewrite E1.
      rewrite nth_indep with (d' := expand_cells cs) by (rewrite repeat_length; lia).
      rewrite nth_repeat. apply expand_cells_blank. exact Hb.
    + rewrite app_nth2 by lia. rewrite L1.
      rewrite (app_nth2 (expand A)) by lia. f_equal. f_equal. lia.
Qed.

End Inert.

(* non-vacuity: a concrete sheet with a blank row between data that starts in column B, repeated
   rows and cells, a covered cell and LibreOffice-style trailing repeats meets the guards *)
Definition ex_rows : list (row_elem data str) :=
  let f1 := DFloat [49] in let s := DString [97] in
  [ mkRow 2 [mkCell 16384 DEmpty [] false];
    mkRow 1 [mkCell 1 DEmpty [] false; mkCell 2 f1 [] false; mkCell 1 DEmpty [] true; mkCell 1 s [61; 49] false;
             mkCell 16379 DEmpty [] false];
    mkRow 3 [mkCell 1024 DEmpty [] false];
    mkRow 2 [mkCell 2 DEmpty [] false; mkCell 1 s [] false];
    mkRow 1048568 [mkCell 16384 DEmpty [] false] ].

Example main_nonvacuous :
  counts_pos ex_rows = true /\ extent_ok ex_rows = true /\
  exists rv rf, ods_read_table ex_rows = Ok (rv, rf) /\
    r_start rv = (2, 1) /\ r_end rv = (7, 4) /\ length (r_inner rv) = 24%nat /\
    r_start rf = (2, 4) /\ r_end rf = (2, 4).
Proof.
  split; [vm_compute; reflexivity|]. split; [vm_compute; reflexivity|].
  eexists. eexists. split; [vm_compute; reflexivity|]. vm_compute. repeat split; reflexivity.
Qed.

(* ====================================================================================== *)
(* 9. range_of is the tight bounding rectangle with every value at its position            *)
(* ====================================================================================== *)
Section Sound.
Variable T : Type.
Variable d : T.
Variable isd : T -> bool.
Hypothesis isd_spec : forall x, isd x = true <-> x = d.

Local Notation used g r c := (nz isd (cell_at d g r c) = true).

Lemma nz_default : nz isd d = false.
Proof. unfold nz. replace (isd d) with true; [reflexivity|]. symmetry. apply isd_spec. reflexivity. Qed.

Lemma used_row_lt : forall (g : list (list T)) r c, used g r c ->
  (r < length g)%nat /\ (c < length (nth r g []))%nat.
Proof.
  intros g r c H. unfold cell_at in H.
  destruct (Nat.lt_ge_cases c (length (nth r g []))) as [Hc|Hc].
  - split; [|exact Hc]. destruct (Nat.lt_ge_cases r (length g)) as [Hr|Hr]; [exact Hr|].
    rewrite (nth_overflow g) in Hc by exact Hr. cbn [length] in Hc. lia.
  - rewrite (nth_overflow (nth r g [])) in H by exact Hc. rewrite nz_default in H. discriminate.
Qed.

Lemma used_row_used : forall (g : list (list T)) r c, used g r c -> row_used isd (nth r g []) = true.
Proof.
  intros g r c H. destruct (used_row_lt _ _ _ H) as (_ & Hc). unfold row_used.
  apply existsb_exists. exists (nth c (nth r g []) d). split; [apply nth_In; exact Hc|exact H].
Qed.

(* 1. nothing used: the empty range *)
Theorem range_of_nothing : forall g : list (list T),
  (forall r c, nz isd (cell_at d g r c) = false) -> range_of d isd g = empty.
Proof.
  intros g H. unfold range_of.
  replace (ffirst (row_used isd) g) with (@None nat); [reflexivity|]. symmetry.
  apply ffirst_all_false with (a0 := @nil T). intros r.
  apply position_none.
  apply ffirst_all_false with (a0 := d). intros c. apply H.
Qed.

(* 2. every used cell lies inside the rectangle *)
Theorem range_of_contains : forall (g : list (list T)) r0 r1 c0,
  ffirst (row_used isd) g = Some r0 -> flast (row_used isd) g = Some r1 ->
  min_col isd g = Some c0 ->
  forall r c, used g r c ->
    (r0 <= r <= r1)%nat /\ (c0 <= c <= max_col isd g)%nat.
Proof.
  intros g r0 r1 c0 F1 F2 MC r c H.
  destruct (used_row_lt _ _ _ H) as (Hr & Hc). pose proof (used_row_used _ _ _ H) as Hu.
  destruct (ffirst_some _ _ F1) as (_ & _ & B0). destruct (flast_some _ _ F2) as (_ & _ & B1).
  assert (R0 : (r0 <= r)%nat).
  { destruct (Nat.le_gt_cases r0 r) as [|Hlt]; [assumption|].
    rewrite (B0 r [] Hlt) in Hu. discriminate. }
  assert (R1 : (r <= r1)%nat).
  { destruct (Nat.le_gt_cases r r1) as [|Hlt]; [assumption|].
    rewrite (B1 r [] Hlt Hr) in Hu. discriminate. }
  set (row := nth r g []) in *.
  assert (Hin : In row g) by (apply nth_In; exact Hr).
  destruct (position isd row) as [p|] eqn:Ep; [|apply position_none in Ep; congruence].
  assert (X : exists c0', min_col isd g = Some c0' /\ (c0' <= p)%nat) by (eapply min_col_le; eassumption).
  destruct X as (c0' & E0 & Hp0). rewrite MC in E0. inversion E0; subst c0'.
  unfold position in Ep. destruct (ffirst_some _ _ Ep) as (_ & _ & Bp).
  assert (P0 : (p <= c)%nat).
  { destruct (Nat.le_gt_cases p c) as [|Hlt]; [assumption|].
    unfold cell_at in H. fold row in H. rewrite (Bp c d Hlt) in H. discriminate. }
  destruct (ffirst_flast_some _ _ Ep) as (q & Eq & _).
  assert (Hq : (q <= max_col isd g)%nat) by (eapply max_col_ge; eassumption).
  destruct (flast_some _ _ Eq) as (_ & _ & Bq).
  assert (Q0 : (c <= q)%nat).
  { destruct (Nat.le_gt_cases c q) as [|Hlt]; [assumption|].
    unfold cell_at in H. fold row in H. rewrite (Bq c d Hlt Hc) in H. discriminate. }
  lia.
Qed.


Lemma flat_map_length_fixed : forall (A B : Type) (f : A -> list B) w (l : list A),
  (forall x, length (f x) = w) -> length (flat_map f l) = (length l * w)%nat.
Proof.
  intros A B f w l Hw. induction l as [|x l IH]; [reflexivity|].
  cbn [flat_map length]. rewrite app_length, Hw, IH. cbn [Nat.mul]. reflexivity.
Qed.

Lemma classic_used : forall (g : list (list T)),
  (exists row, In row g /\ row_used isd row = true) \/ (forall row, In row g -> row_used isd row = false).
Proof.
  induction g as [|a g IH]; [right; intros row []|].
  destruct (row_used isd a) eqn:Ea.
  - left. exists a. split; [left; reflexivity|exact Ea].
  - destruct IH as [(row & Hin & Hu)|Hno].
    + left. exists row. split; [right; exact Hin|exact Hu].
    + right. intros row [<-|Hin]; [exact Ea|apply Hno; exact Hin].
Qed.

Lemma max_col_no_used : forall (g : list (list T)),
  (forall row, In row g -> row_used isd row = false) -> max_col isd g = O.
Proof.
  induction g as [|a g IH]; intros H; [reflexivity|].
  rewrite max_col_cons.
  assert (Ea : rposition isd a = None) by (apply rposition_none; apply H; left; reflexivity).
  rewrite Ea. apply IH. intros row Hin. apply H. right. exact Hin.
Qed.

(* 3. the inner vector is the rectangle, row-major, every value at its position *)
Lemma nth_error_flat_map_fixed : forall (A B : Type) (f : A -> list B) w (l : list A) a0 i j,
  (forall x, length (f x) = w) -> (i < length l)%nat -> (j < w)%nat ->
  nth_error (flat_map f l) (i * w + j) = nth_error (f (nth i l a0)) j.
Proof.
  intros A B f w. induction l as [|x l IH]; intros a0 i j Hw Hi Hj; [cbn [length] in Hi; lia|].
  cbn [flat_map]. destruct i as [|i].
  - cbn [Nat.mul Nat.add nth]. apply nth_error_app1. rewrite Hw. exact Hj.
  - cbn [nth]. rewrite nth_error_app2 by (rewrite Hw; cbn [Nat.mul]; lia).
    rewrite Hw. replace (S i * w + j - w)%nat with (i * w + j)%nat by (cbn [Nat.mul]; lia).
    apply IH; [exact Hw|cbn [length] in Hi; lia|exact Hj].
Qed.

Theorem range_of_values : forall (g : list (list T)) r0 r1 c0,
  ffirst (row_used isd) g = Some r0 -> flast (row_used isd) g = Some r1 ->
  min_col isd g = Some c0 ->
  let c1 := max_col isd g in
  let R := range_of d isd g in
  r_start R = (N.of_nat r0, N.of_nat c0) /\ r_end R = (N.of_nat r1, N.of_nat c1) /\
  length (r_inner R) = ((r1 + 1 - r0) * (c1 + 1 - c0))%nat /\
  forall i j, (i < r1 + 1 - r0)%nat -> (j < c1 + 1 - c0)%nat ->
    nth_error (r_inner R) (i * (c1 + 1 - c0) + j) = Some (cell_at d g (r0 + i) (c0 + j)).
Proof.
  intros g r0 r1 c0 F1 F2 MC c1 R. unfold R, range_of. rewrite F1, F2, MC. fold c1.
  cbn [r_start r_end r_inner].
  destruct (ffirst_flast_some _ _ F1) as (j1 & Ej & Hle). rewrite F2 in Ej. inversion Ej; subst j1.
  destruct (flast_some _ _ F2) as (L1 & _ & _).
  assert (Ln : length (firstn (r1 + 1 - r0) (skipn r0 g)) = (r1 + 1 - r0)%nat)
    by (rewrite firstn_length, skipn_length; lia).
  split; [reflexivity|]. split; [reflexivity|]. split.
  - rewrite (@flat_map_length_fixed _ _ (fitS d c0 (c1 + 1 - c0)) (c1 + 1 - c0)%nat)
      by (intros; apply fitS_length).
    rewrite Ln. reflexivity.
  - intros i j Hi Hj.
    rewrite (@nth_error_flat_map_fixed _ _ (fitS d c0 (c1 + 1 - c0)) (c1 + 1 - c0)%nat _ [] i j);
      [|intros; apply fitS_length|rewrite Ln; exact Hi|exact Hj].
    rewrite (nth_firstn_gen isd isd_spec) by exact Hi. rewrite nth_skipn_gen.
    rewrite nth_error_nth' with (d := d) by (rewrite fitS_length; exact Hj).
    rewrite fitS_nth by exact Hj. reflexivity.
Qed.

(* 4. the rectangle is tight: each of its four edges holds a used cell *)
Lemma existsb_nth : forall (row : list T), row_used isd row = true -> exists c, nz isd (nth c row d) = true.
Proof.
  intros row H. unfold row_used in H. apply existsb_exists in H. destruct H as (x & Hin & Hx).
  destruct (In_nth _ _ d Hin) as (c & _ & Hc). exists c. rewrite Hc. exact Hx.
Qed.

Lemma min_col_attained : forall (g : list (list T)) c0, min_col isd g = Some c0 ->
  exists row, In row g /\ position isd row = Some c0.
Proof.
  induction g as [|a g IH]; intros c0 H; [discriminate|].
  rewrite min_col_cons in H.
  destruct (position isd a) as [p|] eqn:Ep; destruct (min_col isd g) as [m|] eqn:Em; cbn [omin] in H.
  - inversion H; subst c0. destruct (Nat.le_ge_cases p m) as [Hle|Hle].
    + exists a. split; [left; reflexivity|]. rewrite Ep. f_equal. lia.
    + destruct (IH m eq_refl) as (row & Hin & Hp). exists row. split; [right; exact Hin|].
      rewrite Hp. f_equal. lia.
  - inversion H; subst c0. exists a. split; [left; reflexivity|exact Ep].
  - destruct (IH c0 H) as (row & Hin & Hp). exists row. split; [right; exact Hin|exact Hp].
  - discriminate.
Qed.

Lemma max_col_attained : forall (g : list (list T)),
  (exists row, In row g /\ row_used isd row = true) ->
  exists row, In row g /\ rposition isd row = Some (max_col isd g).
Proof.
  induction g as [|a g IH]; intros (row & Hin & Hu); [contradiction|].
  rewrite max_col_cons.
  destruct (rposition isd a) as [q|] eqn:Eq.
  - destruct (Nat.le_ge_cases (max_col isd g) q) as [Hle|Hle].
    + exists a. split; [left; reflexivity|]. rewrite Eq. f_equal. lia.
    + destruct (classic_used g) as [Hex|Hno].
      * destruct (IH Hex) as (row' & Hin' & Hq'). exists row'. split; [right; exact Hin'|].
        rewrite Hq'. f_equal. lia.
      * exists a. split; [left; reflexivity|]. rewrite Eq. f_equal.
        rewrite (max_col_no_used g Hno) in *. lia.
  - destruct Hin as [->|Hin]; [apply rposition_none in Eq; congruence|].
    destruct (IH (ex_intro _ row (conj Hin Hu))) as (row' & Hin' & Hq').
    exists row'. split; [right; exact Hin'|exact Hq'].
Qed.


(* soundness of the spec: as soon as one cell is used, range_of is the rectangle r0..r1 x c0..c1
   that contains every used cell, touches a used cell on each of its four edges, and holds the
   cell function row-major *)
Theorem range_of_sound : forall (g : list (list T)) r c, used g r c ->
  exists r0 r1 c0 c1,
    r_start (range_of d isd g) = (N.of_nat r0, N.of_nat c0) /\
    r_end (range_of d isd g) = (N.of_nat r1, N.of_nat c1) /\
    length (r_inner (range_of d isd g)) = ((r1 + 1 - r0) * (c1 + 1 - c0))%nat /\
    (forall r' c', used g r' c' -> (r0 <= r' <= r1)%nat /\ (c0 <= c' <= c1)%nat) /\
    (forall i j, (i < r1 + 1 - r0)%nat -> (j < c1 + 1 - c0)%nat ->
       nth_error (r_inner (range_of d isd g)) (i * (c1 + 1 - c0) + j)
       = Some (cell_at d g (r0 + i) (c0 + j))) /\
    (exists c', used g r0 c') /\ (exists c', used g r1 c') /\
    (exists r', used g r' c0) /\ (exists r', used g r' c1).
Proof.
  intros g r c H.
  destruct (used_row_lt _ _ _ H) as (Hr & Hc). pose proof (used_row_used _ _ _ H) as Hu.
  assert (Hin : In (nth r g []) g) by (apply nth_In; exact Hr).
  destruct (ffirst (row_used isd) g) as [r0|] eqn:F1.
  2:{ apply ffirst_none in F1. rewrite <- not_true_iff_false in F1. exfalso. apply F1.
      apply existsb_exists. exists (nth r g []). split; assumption. }
  destruct (ffirst_flast_some _ _ F1) as (r1 & F2 & Hle).
  destruct (position isd (nth r g [])) as [p|] eqn:Ep; [|apply position_none in Ep; congruence].
  assert (X : exists c0, min_col isd g = Some c0 /\ (c0 <= p)%nat) by (eapply min_col_le; eassumption).
  destruct X as (c0 & MC & _).
  exists r0, r1, c0, (max_col isd g).
  destruct (range_of_values _ F1 F2 MC) as (S1 & S2 & S3 & S4).
  split; [exact S1|]. split; [exact S2|]. split; [exact S3|].
  split; [intros r' c' H'; eapply range_of_contains; eassumption|].
  split; [exact S4|].
  destruct (ffirst_some _ _ F1) as (_ & U0 & _). destruct (flast_some _ _ F2) as (_ & U1 & _).
  split; [apply existsb_nth; apply U0|]. split; [apply existsb_nth; apply U1|].
  split.
  - destruct (min_col_attained _ MC) as (row & Hrow & Hp). unfold position in Hp.
    destruct (ffirst_some _ _ Hp) as (_ & Up & _).
    destruct (In_nth _ _ [] Hrow) as (r' & _ & Er'). exists r'. unfold cell_at. rewrite Er'. apply Up.
  - destruct (@max_col_attained g (ex_intro _ (nth r g []) (conj Hin Hu))) as (row & Hrow & Hq).
    unfold rposition in Hq. destruct (flast_some _ _ Hq) as (_ & Uq & _).
    destruct (In_nth _ _ [] Hrow) as (r' & _ & Er'). exists r'. unfold cell_at. rewrite Er'. apply Uq.
Qed.

End Sound.

(* non-vacuity of phys_ok: lists with zero and huge counts are inside it; one is rejected by the
   row limit, the other is read (both without panic) *)
Definition ex_huge : list (row_elem data str) :=
  [ mkRow 0 [mkCell 0 (DFloat [49]) [] false];
    mkRow 4294967296 [];
    mkRow 1 [mkCell 3 DEmpty [] false; mkCell 2 (DFloat [49]) [] true] ].
Definition ex_zero : list (row_elem data str) :=
  [ mkRow 0 [mkCell 1 DEmpty [] false];
    mkRow 4294967294 [mkCell 2147483647 DEmpty [] false];
    mkRow 2 [mkCell 0 (DString [97]) [] false; mkCell 2 (DFloat [49]) [] false] ].

Example no_panic_nonvacuous :
  phys_ok ex_huge = true /\ (exists e, ods_read_table ex_huge = Err e) /\
  phys_ok ex_zero = true /\ (exists r, ods_read_table ex_zero = Ok r).
Proof.
  split; [vm_compute; reflexivity|]. split; [eexists; vm_compute; reflexivity|].
  split; [vm_compute; reflexivity|]. eexists; vm_compute; reflexivity.
Qed.
