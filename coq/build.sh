#!/bin/bash
# Regenerate _CoqProject from the files present and run a full .vo build (never -vos).
# usage: coq/build.sh [make targets...]
set -e
cd "$(dirname "$0")"
{
  echo "-Q theories Calamine"
  echo "-Q gen CalamineGen"
  echo "-arg -w -arg -notation-overridden,-deprecated-hint-without-locality,-deprecated-instance-without-locality"
  find theories gen -name '*.v' 2>/dev/null | LC_ALL=C sort
} > _CoqProject.new
if ! cmp -s _CoqProject.new _CoqProject 2>/dev/null; then
  mv _CoqProject.new _CoqProject
  coq_makefile -f _CoqProject -o Makefile >/dev/null
else
  rm -f _CoqProject.new
  [ -f Makefile ] || coq_makefile -f _CoqProject -o Makefile >/dev/null
fi
exec timeout ${COQ_BUILD_TIMEOUT:-3000} make -j16 "$@"
