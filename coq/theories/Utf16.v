(* Utf16: UTF-16 encoding / decoding with replacement of lone surrogates and the little- /
   big-endian byte views, i.e. encoding_rs `UTF_16LE.decode_without_bom_handling`, the entry
   point used by xlsb `wide_str` and by cfb `XlsEncoding::decode_to` since commit 98c2838
   (before it, `decode` sniffed a BOM on every call).  Also the model of xlsb `wide_str` and its
   encoder.  Definitions only; proofs are in Utf16_proofs.v.
   Strings are lists of Unicode scalar values (N); code units and bytes are N. *)
From Calamine Require Import Prelude.
Open Scope N_scope.
Set Implicit Arguments.

Definition REPL : N := 65533.                                    (* U+FFFD *)

Definition is_high (u : N) : bool := (55296 <=? u) && (u <=? 56319).   (* D800..DBFF *)
Definition is_low  (u : N) : bool := (56320 <=? u) && (u <=? 57343).   (* DC00..DFFF *)
Definition is_surr (u : N) : bool := (55296 <=? u) && (u <=? 57343).   (* D800..DFFF *)

(* Unicode scalar value: 0..10FFFF without the surrogate block *)
Definition scalarb (c : N) : bool := (c <=? 1114111) && negb (is_surr c).
Definition scalar (c : N) : Prop := scalarb c = true.

(* ---------- encoder (specification side: The Unicode Standard, D91) ---------- *)
Definition enc_scalar (c : N) : list N :=
  if c <? 65536 then [c]
  else [55296 + (c - 65536) / 1024; 56320 + (c - 65536) mod 1024].

Definition utf16_encode (s : list N) : list N := flat_map enc_scalar s.

(* number of 16-bit code units of a string (what cch / the xlsb length prefix counts) *)
Definition utf16_len (s : list N) : N := N.of_nat (length (utf16_encode s)).

(* ---------- decoder over code units (what encoding_rs does for UTF-16) ---------- *)
(* A high surrogate followed by a low one is a pair; any other surrogate is replaced by
   U+FFFD and decoding resumes at the next unit (a unit following a lone high surrogate is
   examined again). *)
Fixpoint utf16_decode (us : list N) : list N :=
  match us with
  | [] => []
  | u :: r =>
    if is_high u then
      match r with
      | l :: r' =>
        if is_low l then (65536 + (u - 55296) * 1024 + (l - 56320)) :: utf16_decode r'
        else REPL :: utf16_decode r
      | [] => [REPL]
      end
    else if is_low u then REPL :: utf16_decode r
    else u :: utf16_decode r
  end.

(* well-formed UTF-16: no lone surrogate *)
Fixpoint wf_utf16 (us : list N) : bool :=
  match us with
  | [] => true
  | u :: r =>
    if is_high u then
      match r with
      | l :: r' => is_low l && wf_utf16 r'
      | [] => false
      end
    else negb (is_low u) && (u <? 65536) && wf_utf16 r
  end.

(* ---------- byte views ---------- *)
Definition bytes_le_of_units (us : list N) : list N :=
  flat_map (fun u => [u mod 256; u / 256]) us.
Definition bytes_be_of_units (us : list N) : list N :=
  flat_map (fun u => [u / 256; u mod 256]) us.

(* pairs of bytes to units; a trailing odd byte is reported separately *)
Fixpoint units_of_bytes_le (bs : list N) : list N * bool :=
  match bs with
  | [] => ([], false)
  | [_] => ([], true)
  | b0 :: b1 :: r => let '(us, odd) := units_of_bytes_le r in ((b0 + 256 * b1) :: us, odd)
  end.
Fixpoint units_of_bytes_be (bs : list N) : list N * bool :=
  match bs with
  | [] => ([], false)
  | [_] => ([], true)
  | b0 :: b1 :: r => let '(us, odd) := units_of_bytes_be r in ((256 * b0 + b1) :: us, odd)
  end.

(* The callers modelled here always pass an even number of bytes (2*len); for an odd tail the
   decoder reports one more malformed sequence. *)
Definition utf16le_decode_bytes (bs : list N) : list N :=
  let '(us, odd) := units_of_bytes_le bs in
  utf16_decode us ++ (if odd then [REPL] else []).
Definition utf16be_decode_bytes (bs : list N) : list N :=
  let '(us, odd) := units_of_bytes_be bs in
  utf16_decode us ++ (if odd then [REPL] else []).

(* ---------- xlsb wide_str ---------- *)
Definition read_u32_le (b : list N) : outcome N :=
  match b with
  | b0 :: b1 :: b2 :: b3 :: _ => Ok (b0 + 256 * b1 + 65536 * b2 + 16777216 * b3)
  | _ => Panic                                  (* s[..4] on a shorter slice: wide_str checks first *)
  end.

Definition ERR_WIDESTR : N := 1.

(* fn wide_str(buf, &mut str_len): (decoded text, str_len) *)
Definition wide_str (buf : list N) : outcome (list N * N) :=
  if N.of_nat (length buf) <? 4 then Err ERR_WIDESTR else       (* buf.len() < 4 (C06 hardening) *)
  do len <- read_u32_le buf;
  let total := 4 + len * 2 in                    (* usize is 64 bits: no overflow for len < 2^32 *)
  if N.of_nat (length buf) <? total then Err ERR_WIDESTR
  else
    let s := firstn (N.to_nat (len * 2)) (skipn 4 buf) in
    Ok (utf16le_decode_bytes s, total).

(* encoder: length prefix in code units, then UTF-16LE *)
Definition u32_le (n : N) : list N :=
  [n mod 256; (n / 256) mod 256; (n / 65536) mod 256; (n / 16777216) mod 256].
Definition enc_wide (s : list N) : list N :=
  u32_le (utf16_len s) ++ bytes_le_of_units (utf16_encode s).


(* ---------- cfb XlsEncoding::decode_to for code page 1200 (UTF-16LE), one fragment ---------- *)
(* high_byte = Some(false): every byte is widened with a zero high byte ("compressed" 8-bit
   storage); Some(true): two bytes per unit.  Returns (text appended, characters consumed l,
   bytes consumed ub). *)
Definition decode_to_utf16 (high : bool) (stream : list N) (len : N) : list N * N * N :=
  if high then
    let l := N.min (N.of_nat (length stream) / 2) len in
    (utf16le_decode_bytes (firstn (N.to_nat (2 * l)) stream), l, 2 * l)
  else
    let l := N.min (N.of_nat (length stream)) len in
    (utf16_decode (firstn (N.to_nat l) stream), l, l).
