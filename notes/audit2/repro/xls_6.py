#!/usr/bin/env python3
"""xls_6: compound-file naming variants.
 (a) the workbook stream is called WORKBOOK (some third-party writers; POI accepts Workbook / WORKBOOK /
     Book / BOOK / WorkBook).  MS-CFB compares names case-insensitively, but [MS-XLS] 2.1.7.20 fixes the
     name "Workbook", so this is NOT a legal xls per the format text: recorded as unclear.
 (b) the root entry is not called "Root Entry" (old StarOffice / some Java writers use "R"): the name of
     the root is not significant in MS-CFB readers."""
import struct
from xls_helper import *
import xlsgen
sh = sheet([number(0, 0, 7.0)])
st = workbook([(0x0042, struct.pack('<H', 1200)), xf(0)], [('Sheet1', 0, 0, sh)], [])
p = write(OUT + 'xls_6a_upper.xls', st, name='WORKBOOK')
print('6a', unhex(vh('xls', p, ['sheets', 'at 0'])))
b = bytearray(xlsgen.cfb_wrap([('Workbook', st)]))
i = b.find('Root Entry'.encode('utf-16-le'))
b[i:i + 64] = 'R'.encode('utf-16-le').ljust(64, b'\0'); struct.pack_into('<H', b, i + 64, 4)
p = OUT + 'xls_6b_root_R.xls'; open(p, 'wb').write(b)
print('6b', unhex(vh('xls', p, ['sheets', 'at 0'])))
