#!/bin/bash
# Builds the whole framework offline from files on disk: Coq development (full .vo build),
# extraction, OCaml model driver, Rust harness against /repo's working tree.
set -e
cd "$(dirname "$0")"
export CARGO_NET_OFFLINE=true
mkdir -p .cache evidence replays ocaml/gen coq/gen
[ -f tools/gen_tables.py ] && python3 tools/gen_tables.py
echo "[setup] Coq build"
(cd coq && COQ_BUILD_TIMEOUT=5000 ./build.sh) > .cache/coq_build.log 2>&1 || { tail -40 .cache/coq_build.log; echo "[setup] Coq build FAILED (checks of the affected properties will report it)"; }
echo "[setup] forbidden-construct scan"
python3 - <<'PY'
import sys; sys.path.insert(0, "tools")
import vlib
bad = vlib.forbidden_scan()
for b in bad: print("FORBIDDEN %s:%d: %s" % b)
sys.exit(1 if bad else 0)
PY
echo "[setup] extraction + OCaml driver"
python3 - <<'PY'
import sys; sys.path.insert(0, "tools")
import vlib
ok, out = vlib.extract_and_build_vm()
if not ok:
    print(out[-4000:]); sys.exit(1)
PY
echo "[setup] Rust harness"
python3 - <<'PY'
import sys; sys.path.insert(0, "tools")
import vlib
ok, hooks, out = vlib.cargo_build()
if not ok:
    print(out[-4000:]); sys.exit(1)
PY
echo "[setup] done"
