// C14 end to end: worksheet_formula of one sheet of an .xls file through the public API.
//   xlsformula PATH SHEETNAME_HEX  ->  ok:empty | ok:r0,c0,r1,c1|hex;hex;…(row-major, "." = "") | err
use crate::util::{hexstr, unhex};
use calamine::{open_workbook, Reader, Xls};

pub fn run(args: &[&str]) -> String {
    let path = args[0];
    let sheet = String::from_utf8(unhex(args[1])).unwrap();
    let mut wb: Xls<_> = match open_workbook(path) {
        Ok(w) => w,
        Err(_) => return "err-open".to_string(),
    };
    let r = match wb.worksheet_formula(&sheet) {
        Ok(r) => r,
        Err(_) => return "err".to_string(),
    };
    match (r.start(), r.end()) {
        (Some(s), Some(e)) => {
            let cells: Vec<String> = r
                .rows()
                .flat_map(|row| row.iter())
                .map(|c| if c.is_empty() { ".".to_string() } else { hexstr(c) })
                .collect();
            format!("ok:{},{},{},{}|{}", s.0, s.1, e.0, e.1, cells.join(";"))
        }
        _ => "ok:empty".to_string(),
    }
}
