(* FormulaEnv — C14, where the environment handed to the formula decoders comes from, and the
   formula range of the stored-text formats.  Definitions only (proofs: FormulaEnv_proofs.v).

   Modelled Rust code (current /repo tree), from the framed records on (the framing itself —
   RecordIter of xls / xlsb — is C02 / C03 material):
     src/xlsb/mod.rs  read_workbook, second loop: BrtExternSheet (0x016A) -> extern_sheets,
                      BrtName (0x0027) -> defined_names, the nine "after the names" record types,
                      wide_str, check_len.  (Before the C06 hardening both arms indexed the WHOLE
                      reused Vec, stale tail included, and panicked on short records; now every read
                      is bounded by the record's own length and answers Err, so the buffer is no
                      longer part of the state.)
     src/xls.rs       parse_workbook, globals loop: Lbl (0x0018), ExternSheet (0x0017), EOF;
                      read_unicode_string_no_cch (name), parse_defined_names, the sheet prefix
                      added after the loop
     src/xls.rs / xlsb/mod.rs / xlsx/mod.rs worksheet_formula: Range::from_sparse over the formula
                      cells, empty texts dropped first by xlsb and xlsx (kept by xls)
   No record is ever skipped because of its flags: hidden, built-in, function, macro … names all
   take a slot — PtgName / PtgNameX indices count every Lbl / BrtName record of the file.

   Spec side: record descriptions ([name_rec], [lbl_rec], [grec]), their encoders (MS-XLSB 2.4.711
   BrtName, 2.4.668 BrtExternSheet; MS-XLS 2.4.150 Lbl, 2.4.105 ExternSheet) and the tables the
   property demands ([spec_names_xlsb], [spec_globals]). *)
From Coq Require Import String.
From Calamine Require Import Prelude Range Col26 FtabRef Ptg.
Open Scope N_scope.
Set Implicit Arguments.

Definition E_WIDESTR : N := 20.
Definition E_IO : N := 21.
Definition E_LEN : N := 22.

(* ================================================================== xlsb ========== *)
Definition record : Type := (N * list N)%type.            (* record type, payload *)

(* &buf[a..a + len] with len a u32 from the file: compared in N before it becomes a list length
   (a u32 must never be turned into a unary nat unchecked) *)
Definition sliceN (l : list N) (a : nat) (len : N) : outcome (list N) :=
  if N.of_nat a + len <=? N.of_nat (length l) then Ok (firstn (N.to_nat len) (skipn a l)) else Panic.

(* wide_str(buf, &mut str_len): (text, str_len) *)
Definition wide_str (buf : list N) : outcome (list N * nat) :=
  if (length buf <? 4)%nat then Err E_WIDESTR else
  do len <- u32_at buf 0;
  if N.of_nat (length buf) <? 4 + 2 * len then Err E_WIDESTR
  else Ok (decode_utf16le (firstn (2 * N.to_nat len) (skipn 4 buf)), (4 + 2 * N.to_nat len)%nat).

(* match (read_i32(&xti[4..8]), read_i32(&xti[8..12])) {
     (-2, _) => "#ThisWorkbook", (-1, _) => "#InvalidWorkSheet",
     (p, q) if p >= 0 && (p as usize) < sheets.len() =>
        if q != p && q >= 0 && (q as usize) < sheets.len() { quote_sheet_span(&sheets[p].0, &sheets[q].0) }
        else { quote_sheet_name(&sheets[p].0) },
     _ => "#Unknown" }
   (the names as formula text writes them: commit "fix: sheet names that need quotes …"; the span of
   sheets: commit "fix: a 3-D reference through several sheets …"; before, lastSheet was not read) *)
Definition resolve_xti (sheets : list (list N)) (first_raw last_raw : N) : list N :=
  if first_raw =? 4294967294 then lit "#ThisWorkbook"
  else if first_raw =? 4294967295 then lit "#InvalidWorkSheet"
  else if first_raw <? 2147483648 then
    match nthN sheets first_raw with
    | Some s =>
        if negb (last_raw =? first_raw) && (last_raw <? 2147483648) then
          match nthN sheets last_raw with Some t => quote_sheet_span s t | None => quote_sheet_name s end
        else quote_sheet_name s
    | None => lit "#Unknown"
    end
  else lit "#Unknown".

(* check_len("BrtExternSheet", len, 4)?;
   buf[4..len].chunks_exact(12).map(…).take(cxti).collect(): only whole 12-byte entries of the
   record itself are looked at, at most cxti of them *)
Fixpoint extern_chunks (sheets : list (list N)) (fuel : nat) (cxti : N) (rest : list N)
  : outcome (list (list N)) :=
  match fuel with
  | O => OutOfFuel
  | S f =>
      if cxti =? 0 then Ok [] else
      if (length rest <? 12)%nat then Ok [] else
      do first <- u32_at (firstn 12 rest) 4;
      do last <- u32_at (firstn 12 rest) 8;
      do tl <- extern_chunks sheets f (cxti - 1) (skipn 12 rest);
      Ok (resolve_xti sheets first last :: tl)
  end.
Definition xlsb_extern_sheets (sheets : list (list N)) (payload : list N) : outcome (list (list N)) :=
  if (length payload <? 4)%nat then Err E_LEN else
  do cxti <- u32_at payload 0;
  extern_chunks sheets (S (length payload)) cxti (skipn 4 payload).

(* record supposed to happen AFTER BrtNames *)
Definition is_end_rec (t : N) : bool :=
  (t =? 0x009D) || (t =? 0x0225) || (t =? 0x018D) || (t =? 0x0180) || (t =? 0x009A) ||
  (t =? 0x0252) || (t =? 0x0229) || (t =? 0x009B) || (t =? 0x0084).

Section Xlsb.
Variable show_f64 : N -> list N.
Variable sheets : list (list N).                 (* the bundle sheets, in BrtBundleSh order *)

(* ws_names: (name, rgce) of the BrtName records read so far — the formulas are decoded once the
   whole table is known (commit "fix: an xlsb defined name that uses a name stored after it lost that
   name"; before, each name was decoded against the names read so far) *)
Record wb_state := { ws_ext : list (list N); ws_names : list (list N * list N) }.

(*  0x0027 => { let len = fill_buffer(&mut buf)?;  check_len("BrtName", len, 9)?;
        let name = wide_str(&buf[9..len], &mut str_len)?.into_owned();
        check_len("BrtName", len, 13 + str_len)?;
        let rgce_len = read_u32(&buf[9 + str_len..]) as usize;
        check_len("BrtName", len, 13 + str_len + rgce_len)?;
        rgces.push(buf[13 + str_len..13 + str_len + rgce_len].to_vec());
        defined_names.push((name, String::new())); }                                     *)
Definition brt_name (st : wb_state) (payload : list N) : outcome wb_state :=
  if (length payload <? 9)%nat then Err E_LEN else
  do ws <- wide_str (skipn 9 payload);
  let (name, str_len) := ws in
  if (length payload <? 13 + str_len)%nat then Err E_LEN else
  do rgce_len <- u32_at payload (9 + str_len);
  if N.of_nat (length payload) <? N.of_nat (13 + str_len) + rgce_len then Err E_LEN else
  do rgce <- sliceN payload (13 + str_len) rgce_len;
  Ok {| ws_ext := ws_ext st; ws_names := ws_names st ++ [(name, rgce)] |}.

(*  at the record that follows the names:
      let formulas = rgces.iter().map(|rgce| parse_formula(rgce, &self.extern_sheets, &defined_names, None))
                          .collect::<Result<Vec<_>, _>>()?;          // the first error, in record order
      for (name, formula) in defined_names.iter_mut().zip(formulas) { name.1 = formula; }
    [all]: the names of every BrtName record; PtgName indexes that table *)
Fixpoint decode_names (ext all : list (list N)) (l : list (list N * list N))
  : outcome (list (list N * list N)) :=
  match l with
  | [] => Ok []
  | (name, rgce) :: t =>
      do f <- xlsb_parse_formula show_f64 {| be_sheets := ext; be_names := all; be_base := None |} rgce;
      do r <- decode_names ext all t;
      Ok ((name, f) :: r)
  end.

Definition brt_extern_sheet (st : wb_state) (payload : list N) : outcome wb_state :=
  do ext <- xlsb_extern_sheets sheets payload;
  Ok {| ws_ext := ext; ws_names := ws_names st |}.

(* the loop after BrtEndBundleShs; running out of records is an I/O error (read_type()?) *)
Fixpoint xlsb_names_loop (recs : list record) (st : wb_state)
  : outcome (list (list N) * list (list N * list N)) :=
  match recs with
  | [] => Err E_IO
  | (t, payload) :: rest =>
      if t =? 0x016A then do st' <- brt_extern_sheet st payload; xlsb_names_loop rest st'
      else if t =? 0x0027 then do st' <- brt_name st payload; xlsb_names_loop rest st'
      else if is_end_rec t then
        do r <- decode_names (ws_ext st) (map fst (ws_names st)) (ws_names st); Ok (ws_ext st, r)
      else xlsb_names_loop rest st
  end.

(* (extern_sheets, metadata.names) of Xlsb::read_workbook, given the records after BrtEndBundleShs *)
Definition xlsb_read_names (recs : list record) :=
  xlsb_names_loop recs {| ws_ext := []; ws_names := [] |}.

(* ---------- spec side ---------- *)
Record name_rec := {
  nr_flags : N;                 (* fHidden 1, fFunc 2, fOB 4, fProc 8, fCalcExp 16, fBuiltin 32, … *)
  nr_chkey : N;
  nr_itab : N;
  nr_name : list N;             (* Unicode scalar values *)
  nr_rgce : list N;
  nr_tail : list N              (* cb / rgcb, comment, … : whatever follows the formula *)
}.
Definition enc_wide (s : list N) : list N :=
  le 4 (N.of_nat (length (utf16_units s))) ++ flat_map (le 2) (utf16_units s).
Definition enc_brtname (d : name_rec) : list N :=
  le 4 (nr_flags d) ++ [nr_chkey d] ++ le 4 (nr_itab d) ++ enc_wide (nr_name d) ++
  le 4 (N.of_nat (length (nr_rgce d))) ++ nr_rgce d ++ nr_tail d.
Definition wf_name_rec (d : name_rec) : bool :=
  (nr_flags d <? 4294967296) && (nr_chkey d <? 256) && (nr_itab d <? 4294967296) &&
  forallb scalar (nr_name d) && (N.of_nat (length (utf16_units (nr_name d))) <? 4294967296) &&
  (N.of_nat (length (nr_rgce d)) <? 4294967296).

(* what the property demands of the name table: one entry per record, in record order, every
   formula decoded against the names of ALL records (PtgName is an index into the whole table;
   MS-XLSB 2.5.97.60 — Excel stores the names sorted, so about half of the name-to-name references
   point forward).  [pre]: records already read (name, rgce) *)
Definition raw_of (ds : list name_rec) : list (list N * list N) := map (fun d => (nr_name d, nr_rgce d)) ds.
Definition spec_names_xlsb (ext : list (list N)) (pre : list (list N * list N)) (ds : list name_rec)
  : outcome (list (list N * list N)) :=
  decode_names ext (map fst (pre ++ raw_of ds)) (pre ++ raw_of ds).

(* Xti: (externalLink, firstSheet, lastSheet) as raw u32 (firstSheet is an i32) *)
Definition enc_xti (x : N * N * N) : list N :=
  le 4 (fst (fst x)) ++ le 4 (snd (fst x)) ++ le 4 (snd x).
Definition enc_externsheet (xtis : list (N * N * N)) : list N :=
  le 4 (N.of_nat (length xtis)) ++ flat_map enc_xti xtis.
Definition wf_xti (x : N * N * N) : bool :=
  (fst (fst x) <? 4294967296) && (snd (fst x) <? 4294967296) && (snd x <? 4294967296).
Definition spec_extern_xlsb (xtis : list (N * N * N)) : list (list N) :=
  map (fun x => resolve_xti sheets (snd (fst x)) (snd x)) xtis.

(* the supporting links of the EXTERNALS block: the records between BrtBeginExternals (0x0161) and
   BrtExternSheet in record order — BrtSupBookSrc 0x0163 (another workbook; the payload is the relationship
   of its externalLink part, where BrtSupTabs lists its sheets), BrtSupSelf 0x0165, BrtSupSame 0x0166,
   BrtSupAddin 0x029B — in any order and number; XTI.externalLink is an index into this list.  The reader
   passes over them (known finding K_EXTERN_BOOK) *)
Definition sup_type_xlsb (l : suplink) : N :=
  match l with SupExt _ => 0x0163 | SupSelf => 0x0165 | SupSame => 0x0166 | SupAddin => 0x029B end.
Definition sup_rec_xlsb (lp : suplink * list N) : record := (sup_type_xlsb (fst lp), snd lp).
(* records the names loop passes over *)
Definition skip_rec (t : N) : bool := negb ((t =? 0x016A) || (t =? 0x0027) || is_end_rec t).

(* SPEC: the XTI table through the links — firstSheet / lastSheet (i32) are sheets of this workbook exactly
   when the XTI's link is BrtSupSelf / BrtSupSame ([resolve_xti]); through a BrtSupBookSrc link they index
   that workbook's sheets *)
Definition tab_at_b (tabs : list (list N)) (i : N) : option (list N) :=
  if i <? 2147483648 then nthN tabs i else None.
Definition spec_extern_links_xlsb (links : list suplink) (xtis : list (N * N * N)) : list (list N) :=
  map (fun x => sheet_through_link links tab_at_b (resolve_xti sheets (snd (fst x)) (snd x)) x) xtis.

End Xlsb.

(* ================================================================== xls =========== *)
(* read_unicode_string_no_cch(encoding 1200, buf, &len, &mut s): the text only *)
Definition unicode_no_cch (buf : list N) (n : nat) : list N :=
  let high := match buf with b :: _ => N.testbit b 0 | [] => false end in
  let nbytes := (if high then 2 * n else n)%nat in
  let stream := firstn nbytes (skipn 1 buf) in
  if high then decode_utf16le (firstn (2 * Nat.min (length stream / 2) n) stream)
  else decode_utf16le (widen (firstn (Nat.min (length stream) n) stream)).

(* format!("{:x}", ptg) for a byte *)
Definition hexdigit (d : N) : N := if d <? 10 then 48 + d else 87 + d.
Definition hex_lower (n : N) : list N :=
  if n <? 16 then [hexdigit n] else [hexdigit (n / 16); hexdigit (n mod 16)].

Definition defined_name_expected (ptg : N) : nat :=
  if (ptg =? 0x3a) || (ptg =? 0x5a) || (ptg =? 0x7a) then 7
  else if (ptg =? 0x3b) || (ptg =? 0x5b) || (ptg =? 0x7b) then 11
  else if (ptg =? 0x3c) || (ptg =? 0x5c) || (ptg =? 0x7c) || (ptg =? 0x3d) || (ptg =? 0x5d) || (ptg =? 0x7d) then 3
  else 1.

(* parse_defined_names(rgce): only the first token is looked at (since 2c35987 a 3-D reference is
   rendered by push_cell_ref, like in cell formulas: flags masked, `$` on absolute components) *)
Definition parse_defined_names (rgce : list N) : outcome (option N * list N) :=
  match rgce with
  | [] => Ok (None, lit "empty rgce")
  | ptg :: _ =>
      (* token byte plus the fixed-size operands read below: if rgce.len() < expected { Err(Len) } *)
      if (length rgce <? defined_name_expected ptg)%nat then Err E_LEN else
      if (ptg =? 0x3a) || (ptg =? 0x5a) || (ptg =? 0x7a) then            (* PtgRef3d *)
        (* push_cell_ref(read_u16(&rgce[3..5]) as u32, read_u16(&rgce[5..7]), &mut f)   (commit 2c35987) *)
        do ixti <- u16_at rgce 1;
        do r <- u16_at rgce 3;
        do c <- u16_at rgce 5;
        do b <- push_cell_ref r c [];
        Ok (Some ixti, b)
      else if (ptg =? 0x3b) || (ptg =? 0x5b) || (ptg =? 0x7b) then       (* PtgArea3d *)
        do ixti <- u16_at rgce 1;
        do r1 <- u16_at rgce 3;
        do c1 <- u16_at rgce 7;
        do b1 <- push_cell_ref r1 c1 [];
        do r2 <- u16_at rgce 5;
        do c2 <- u16_at rgce 9;
        do b2 <- push_cell_ref r2 c2 (b1 ++ [ch_colon]);
        Ok (Some ixti, b2)
      else if (ptg =? 0x3c) || (ptg =? 0x5c) || (ptg =? 0x7c) ||
              (ptg =? 0x3d) || (ptg =? 0x5d) || (ptg =? 0x7d) then       (* Ptg{Ref,Area}Err3d *)
        do ixti <- u16_at rgce 1;
        Ok (Some ixti, lit "#REF!")
      else Ok (None, lit "Unsupported ptg: " ++ hex_lower ptg)
  end.

(* const BUILTIN_NAMES: [&str; 14] — the built-in defined names by id (commit "fix: xls built-in
   defined names were reported as their one-byte id …") *)
Definition BUILTIN_NAMES : list (list N) :=
  [lit "Consolidate_Area"; lit "Auto_Open"; lit "Auto_Close"; lit "Extract"; lit "Database";
   lit "Criteria"; lit "Print_Area"; lit "Print_Titles"; lit "Recorder"; lit "Data_Form";
   lit "Auto_Activate"; lit "Auto_Deactivate"; lit "Sheet_Title"; lit "_FilterDatabase"].

(*  if r.data[0] & 0x20 != 0 {                     // fBuiltin
        let mut id = name.chars();
        if let (Some(c), None) = (id.next(), id.next()) {
            if let Some(b) = BUILTIN_NAMES.get(c as usize) { name = format!("_xlnm.{b}"); } } }  *)
Definition builtin_fix (flags0 : N) (name : list N) : list N :=
  if N.testbit flags0 5 then
    match name with
    | [c] => match nthN BUILTIN_NAMES c with Some b => lit "_xlnm." ++ b | None => name end
    | _ => name
    end
  else name.

(*  0x0018 => { if r.data.len() < 14 { Err }; let cch = r.data[3] as usize;
        let cce = read_u16(&r.data[4..]) as usize; if r.data.len() < 14 + cce { Err };
        let name_len = read_unicode_string_no_cch(&encoding, &r.data[14..], &cch, &mut name);   // 1 + nbytes
        [builtin_fix: a built-in name's one-character id becomes _xlnm.<Name>]
        let rgce = r.data.get(14 + name_len..14 + name_len + cce).ok_or(Len)?;
          (commit "fix: the formula of an xls defined name was taken from the end of its record …": the rgce
           FOLLOWS THE NAME; what follows the rgce is its extra data rgcb — array constants, the areas of a
           PtgMemArea —, not tokens.  Before: &r.data[r.data.len() - cce..])
        let formula = parse_defined_names(rgce)?; defined_names.push((name, formula, rgce.to_vec())); }  *)
Definition xls_lbl (data : list N) : outcome (list N * ((option N * list N) * list N)) :=
  if (length data <? 14)%nat then Err E_LEN else              (* Len { typ: "Lbl", expected: 14 } *)
  do cch <- byte_at data 3;
  do cce <- u16_at data 4;
  if (length data <? 14 + N.to_nat cce)%nat then Err E_LEN else
  do d14 <- drop 14 data;
  let name := builtin_fix (nth 0 data 0) (unicode_no_cch d14 (N.to_nat cch)) in
  let high := match d14 with b :: _ => N.testbit b 0 | [] => false end in
  let name_len := (1 + (if high then 2 * N.to_nat cch else N.to_nat cch))%nat in
  if (length data <? 14 + name_len + N.to_nat cce)%nat then Err E_LEN else
  let rgce := firstn (N.to_nat cce) (skipn (14 + name_len) data) in
  do f <- parse_defined_names rgce;
  Ok (name, (f, rgce)).                       (* defined_names.push((name, formula, rgce.to_vec())) *)

(*  0x0017 => { if r.data.len() < 2 { Err }; let cxti = read_u16(r.data) as usize;
        xtis.extend(r.data[2..].chunks_exact(6).take(cxti).map(|xti| Xti { read_u16(&xti[..2]),
            read_i16(&xti[2..4]), read_i16(&xti[4..]) })); }  — appended to what is there *)
Fixpoint xti_chunks (fuel : nat) (cxti : N) (rest : list N) : outcome (list (N * N * N)) :=
  match fuel with
  | O => OutOfFuel
  | S f =>
      if cxti =? 0 then Ok [] else
      if (length rest <? 6)%nat then Ok [] else
      let ch := firstn 6 rest in
      do a <- u16_at ch 0; do b <- u16_at ch 2; do c <- u16_at ch 4;
      do tl <- xti_chunks f (cxti - 1) (skipn 6 rest);
      Ok ((a, b, c) :: tl)
  end.
(*  let mut rgxti = r.data[2..].to_vec(); for cont in r.cont.iter().flatten() { rgxti.extend_from_slice(cont) }
    (commit "fix: the part of an xls ExternSheet record continued in CONTINUE records was ignored …")
    [conts]: the payloads of the CONTINUE records that follow the record *)
Definition xls_externsheet (data : list N) (conts : list (list N)) : outcome (list (N * N * N)) :=
  if (length data <? 2)%nat then Err E_LEN else
  do cxti <- u16_at data 0;
  let rgxti := skipn 2 data ++ concat conts in
  xti_chunks (S (length rgxti)) cxti rgxti.

(* RecordIter: the CONTINUE records (0x003C) that follow a record are its continuation (r.cont) *)
Fixpoint leading_conts (recs : list record) : list (list N) :=
  match recs with
  | (t, d) :: rest => if t =? 0x003C then d :: leading_conts rest else []
  | [] => []
  end.

(* (name, (rendering of the first token, the formula's rgce)) *)
Definition raw_name : Type := (list N * ((option N * list N) * list N))%type.

(* the globals loop restricted to the three record types that build the environment (every other
   type is skipped here; the ones the real loop interprets — BoundSheet8, CodePage, FilePass, SST,
   Format, XF, Date1904, BOF — are not part of this model and must not be fed to it) *)
Fixpoint xls_globals (recs : list record) (names : list raw_name) (xtis : list (N * N * N))
  : outcome (list raw_name * list (N * N * N)) :=
  match recs with
  | [] => Ok (names, xtis)
  | (t, data) :: rest =>
      if t =? 0x000A then Ok (names, xtis)
      else if t =? 0x0018 then do n <- xls_lbl data; xls_globals rest (names ++ [n]) xtis
      else if t =? 0x0017 then
        (* its CONTINUE records are read with it; the loop then passes over them like RecordIter, which
           never hands a continuation out as a record of its own *)
        do x <- xls_externsheet data (leading_conts rest); xls_globals rest names (xtis ++ x)
      else xls_globals rest names xtis
  end.

(* after the loop: if let Some(i) = i { f = format!("{sh}!{f}") }, sh resolved like a 3-D token *)
Definition xls_name_text (sheets : list (list N)) (xtis : list (N * N * N)) (f : option N * list N) : list N :=
  match fst f with
  | None => snd f
  | Some i => sheet_name_xls {| xe_sheets := sheets; xe_names := []; xe_xtis := xtis; xe_base := None |} i ++ [ch_bang] ++ snd f
  end.

(* after the loop (fix of K_XLS_NAME_FORMULA): the whole formula is decoded with the cell-formula
   decoder against the names of every Lbl record; what parse_formula rejects keeps the
   rendering of its first token
     let mut cpf = (rgce.len() as u16).to_le_bytes().to_vec(); cpf.extend_from_slice(&rgce);
     if let Ok(full) = parse_formula(&cpf, &fmla_sheet_names, &lbl_names, &xtis, &encoding) { full } else { old } *)
Section XlsNames.
Variable show_f64 : N -> list N.

Definition xls_final_name (sheets : list (list N)) (xtis : list (N * N * N)) (names : list (list N))
  (n : raw_name) : outcome (list N * list N) :=
  match xls_parse_formula show_f64 {| xe_sheets := sheets; xe_names := names; xe_xtis := xtis; xe_base := None |}
          (frame_xls (snd (snd n))) with
  | Ok full => Ok (fst n, full)
  | Err _ => Ok (fst n, xls_name_text sheets xtis (fst (snd n)))
  | Panic => Panic
  | OutOfFuel => OutOfFuel
  end.

Fixpoint map_o (A B : Type) (f : A -> outcome B) (l : list A) : outcome (list B) :=
  match l with
  | [] => Ok []
  | x :: t => do y <- f x; do r <- map_o f t; Ok (y :: r)
  end.

(* (metadata.names, xtis) of Xls::parse_workbook; [sheets] are the BoundSheet8 names, which the decoder
   and the first-token fallback look up through the XTI table and quote (xti_sheets) *)
Definition xls_read_names (sheets : list (list N)) (recs : list record)
  : outcome (list (list N * list N) * list (N * N * N)) :=
  do g <- xls_globals recs [] [];
  do l <- map_o (xls_final_name sheets (snd g) (map fst (fst g))) (fst g);
  Ok (l, snd g).
End XlsNames.

(* ---------- spec side ---------- *)
Record lbl_rec := {
  lb_flags : N;                 (* fHidden 1, fFunc 2, fOB 4, fProc 8, fCalcExp 16, fBuiltin 32, … *)
  lb_chkey : N;
  lb_itab : N;
  lb_wide : bool;               (* fHighByte of the name *)
  lb_name : list N;             (* the STORED string: for a built-in name (fBuiltin) the one-character
                                   string holding its id *)
  lb_rgce : list N;
  lb_rgcb : list N              (* NameParsedFormula (MS-XLS 2.5.198.76) = rgce ++ rgcb: the extra data of
                                   the tokens — the values of an array constant (PtgArray), the areas of a
                                   PtgMemArea — follows the rgce inside the record; any bytes *)
}.
(* SPEC: the built-in names, MS-XLS 2.5.114 (ids 0x00 .. 0x0D); as a defined name of the workbook a
   built-in name is "_xlnm." followed by this text — the string xlsx (definedName/@name,
   ECMA-376 18.2.5) and xlsb (BrtName.name) store for the same name *)
Definition builtin_name (id : N) : option (list N) :=
  match id with
  | 0x00 => Some (lit "Consolidate_Area") | 0x01 => Some (lit "Auto_Open") | 0x02 => Some (lit "Auto_Close")
  | 0x03 => Some (lit "Extract") | 0x04 => Some (lit "Database") | 0x05 => Some (lit "Criteria")
  | 0x06 => Some (lit "Print_Area") | 0x07 => Some (lit "Print_Titles") | 0x08 => Some (lit "Recorder")
  | 0x09 => Some (lit "Data_Form") | 0x0A => Some (lit "Auto_Activate") | 0x0B => Some (lit "Auto_Deactivate")
  | 0x0C => Some (lit "Sheet_Title") | 0x0D => Some (lit "_FilterDatabase")
  | _ => None
  end.
(* the name a Lbl record defines: fBuiltin (bit 5 of the flags) and a one-character string holding a
   known id: the built-in name; anything else (also an unknown id): the stored string *)
Definition lb_logical (d : lbl_rec) : list N :=
  if N.testbit (lb_flags d) 5 then
    match lb_name d with
    | [c] => match builtin_name c with Some b => lit "_xlnm." ++ b | None => lb_name d end
    | _ => lb_name d
    end
  else lb_name d.
Definition enc_lbl (d : lbl_rec) : list N :=
  le 2 (lb_flags d) ++ [lb_chkey d] ++
  [if lb_wide d then N.of_nat (length (utf16_units (lb_name d))) else N.of_nat (length (lb_name d))] ++
  le 2 (N.of_nat (length (lb_rgce d))) ++ [0; 0] ++ le 2 (lb_itab d) ++ [0; 0; 0; 0] ++
  (if lb_wide d then 1 :: flat_map (le 2) (utf16_units (lb_name d)) else 0 :: lb_name d) ++
  lb_rgce d ++ lb_rgcb d.
Definition wf_lbl (d : lbl_rec) : bool :=
  (lb_flags d <? 65536) && (lb_chkey d <? 256) && (lb_itab d <? 65536) &&
  (if lb_wide d then forallb scalar (lb_name d) && (N.of_nat (length (utf16_units (lb_name d))) <? 256)
   else forallb (fun c => c <? 256) (lb_name d) && (N.of_nat (length (lb_name d)) <? 256)) &&
  (N.of_nat (length (lb_rgce d)) <? 65536).

Definition enc_xti16 (x : N * N * N) : list N :=
  le 2 (fst (fst x)) ++ le 2 (snd (fst x)) ++ le 2 (snd x).
Definition enc_externsheet16 (xtis : list (N * N * N)) : list N :=
  le 2 (N.of_nat (length xtis)) ++ flat_map enc_xti16 xtis.
Definition wf_xti16 (x : N * N * N) : bool :=
  (fst (fst x) <? 65536) && (snd (fst x) <? 65536) && (snd x <? 65536).

(* the globals substream as far as the environment is concerned *)
Inductive grec :=
| GLbl (d : lbl_rec)
| GExt (xtis : list (N * N * N)) (cuts : list nat)
    (* ExternSheet: cXTI, then the XTI array — any number of them up to 65535; what does not fit into the
       record (8224 bytes: 1370 XTI) goes on in CONTINUE records (MS-XLS 2.4.105).  [cuts]: the sizes of the
       pieces of the array in the record itself and in all but the last CONTINUE record — any split *)
| GSup (l : suplink) (ctab : N) (path : list N)
    (* SupBook (0x01AE, MS-XLS 2.4.271), the supporting links in record order: ctab, then cch = 0x0401 (this
       workbook; ctab = its number of sheets) or 0x3A01 (add-in functions) or the length of the other workbook's
       path, which follows with the names of its ctab sheets (XLUnicodeString each).  XTI.iSupBook is an index
       into the list of these records.  The reader passes over them (known finding K_EXTERN_BOOK) *)
| GOther (t : N) (data : list N).
(* the body of a SupBook record *)
Definition enc_supbook (l : suplink) (ctab : N) (path : list N) : list N :=
  match l with
  | SupSelf | SupSame => le 2 ctab ++ [0x01; 0x04]
  | SupAddin => le 2 ctab ++ [0x01; 0x3A]
  | SupExt tabs =>
      le 2 ctab ++ le 2 (N.of_nat (length path)) ++ 0 :: path ++
      flat_map (fun t => le 2 (N.of_nat (length (utf16_units t))) ++ 1 :: flat_map (le 2) (utf16_units t)) tabs
  end.
Fixpoint pieces (cuts : list nat) (b : list N) : list (list N) :=
  match cuts with [] => [b] | c :: t => firstn c b :: pieces t (skipn c b) end.
Definition enc_grec (g : grec) : list record :=
  match g with
  | GLbl d => [(0x0018, enc_lbl d)]
  | GExt x cuts =>
      match pieces cuts (flat_map enc_xti16 x) with
      | p0 :: ps => (0x0017, le 2 (N.of_nat (length x)) ++ p0) :: map (fun p => (0x003C, p)) ps
      | [] => []
      end
  | GSup l ctab path => [(0x01AE, enc_supbook l ctab path)]
  | GOther t data => [(t, data)]
  end.
Definition wf_grec (g : grec) : bool :=
  match g with
  | GLbl d => wf_lbl d
  | GExt x _ => forallb wf_xti16 x && (N.of_nat (length x) <? 65536)
  | GSup l ctab path =>
      (ctab <? 65536) &&
      match l with
      | SupSame => false                         (* no such SupBook *)
      | SupExt tabs => (N.of_nat (length tabs) =? ctab) && (1 <=? N.of_nat (length path)) &&
                       (N.of_nat (length path) <? 256) && forallb (fun c => c <? 256) path &&
                       forallb (fun t => forallb scalar t && (N.of_nat (length (utf16_units t)) <? 65536)) tabs
      | _ => true
      end
  | GOther t _ => negb ((t =? 0x000A) || (t =? 0x0018) || (t =? 0x0017) || (t =? 0x003C) || (t =? 0x01AE))
  end.
(* the supporting links of the file, in the order XTI.iSupBook counts them *)
Definition links_of (gs : list grec) : list suplink :=
  flat_map (fun g => match g with GSup l _ _ => [l] | _ => [] end) gs.
Definition lbls_of (gs : list grec) : list lbl_rec :=
  flat_map (fun g => match g with GLbl d => [d] | _ => [] end) gs.
Definition xtis_of (gs : list grec) : list (N * N * N) :=
  flat_map (fun g => match g with GExt x _ => x | _ => [] end) gs.

(* names the property demands: one per Lbl record, in record order, whatever the flags *)
Fixpoint spec_lbls (ds : list lbl_rec) : outcome (list raw_name) :=
  match ds with
  | [] => Ok []
  | d :: t => do f <- parse_defined_names (lb_rgce d); do r <- spec_lbls t;
              Ok ((lb_logical d, (f, lb_rgce d)) :: r)
  end.

(* ================================================================== formula ranges ==== *)
(* worksheet_formula of xlsb / xlsx: while let Some(cell) = next_formula()? { if !cell.val.is_empty()
   { cells.push(cell) } }  Range::from_sparse(cells); xls pushes every FORMULA cell.  (ods builds its
   range with get_range — C04 — and is compared with the same function in the check.) *)
Definition nonempty_cell (c : pos * list N) : bool := match snd c with [] => false | _ => true end.
Definition formula_range (keep_empty : bool) (cells : list (pos * list N)) : outcome (range (list N)) :=
  from_sparse [] (if keep_empty then cells else filter nonempty_cell cells).
