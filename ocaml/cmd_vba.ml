(* C18 (project level): the extracted model of vba.rs on a project given as its streams.
   vba      <cfb hex> <streams> <dec>   -> ok|R<name>:<desc>:<path>,…|M<name>=<raw>=<text>,…
                                           | err | panic | fuel
            streams: <utf8 name hex>:<content hex>;…   (the model reads these; the cfb file of
            arg 0 is what the Rust side opens and checks against them)
            dec: "id" (byte b -> scalar b), 256 x 4 hex digits (single-byte code page table) or
                 "map:<bytes hex>=<utf8 hex of the decoded text>,…" (multi-byte code pages: the
                 decoder restricted to the byte strings that occur in the case)
   vba_enc  <project description> <dec> -> <dir stream hex>|<valid 0/1>|<known or ->|<expected or ->
            expected: R<name>:<desc>:<path>,…|D<name>:<stream>:<offset>,…
   description: sections separated by '|', fields by ' '; byte strings in hex, '-' = empty,
   '~' = absent:
     I syskind compat|~ lcid lcidinvoke codepage name doc docu help1 help2 helpctx libflags
       vmajor vminor const constu cookie
     G named name nameu libid                             (REFERENCEREGISTERED)
     J named name nameu libidabs libidrel major minor      (REFERENCEPROJECT)
     C named name nameu orig|~ twiddled extname|~ extnameu|~ libidext guid cookie  (REFERENCECONTROL)
     (named = 1/0: the REFERENCE carries its NameRecord)
     M name nameu|~ stream streamu doc docu offset helpctx cookie document ro private
     (nameu = '~': the MODULE record has no MODULENAMEUNICODE record, MS-OVBA 2.3.4.2.3.2) *)
open Conv
open Prelude
open OvbaDir

let bytes_f (s : string) : BinNums.coq_N list = if s = "-" then [] else bytes_of_hex s
let opt_f (s : string) : BinNums.coq_N list option = if s = "~" then None else Some (bytes_f s)

let decoder (spec : string) : BinNums.coq_N -> BinNums.coq_N list -> BinNums.coq_N list =
  if spec = "id" then (fun _ l -> l)
  else if String.length spec >= 4 && String.sub spec 0 4 = "map:" then begin
    (* multi-byte code pages: the decoder is given extensionally on the byte strings of the
       case (computed by the generator with the code page's codec); identity elsewhere *)
    let tbl = Hashtbl.create 64 in
    List.iter (fun e ->
        match String.split_on_char '=' e with
        | [k; v] -> Hashtbl.replace tbl k (scalars_of_hex v)
        | _ -> failwith "bad decoder map")
      (split_on ',' (String.sub spec 4 (String.length spec - 4)));
    (fun _ l -> match Hashtbl.find_opt tbl (hex_of_bytes l) with Some v -> v | None -> l)
  end
  else begin
    let tbl = Array.init 256 (fun i -> n_of_int (int_of_string ("0x" ^ String.sub spec (4 * i) 4))) in
    (fun _ l -> List.map (fun b -> tbl.(int_of_n b land 255)) l)
  end

let parse_streams (s : string) : (BinNums.coq_N list * BinNums.coq_N list) list =
  List.map (fun e ->
      match String.split_on_char ':' e with
      | [n; c] -> (scalars_of_hex (if n = "-" then "" else n), bytes_f c)
      | _ -> failwith "bad stream") (split_on ';' s)

let hs (l : BinNums.coq_N list) : string = hex_of_scalars l

let show_refs (refs : reference list) : string =
  "R" ^ String.concat "," (List.map (fun r -> hs r.r_name ^ ":" ^ hs r.r_desc ^ ":" ^ hs r.r_path) refs)

let cmp_scalars (a : BinNums.coq_N list) (b : BinNums.coq_N list) : int =
  compare (List.map int_of_n a) (List.map int_of_n b)

let run_vba (args : string list) : string =
  match args with
  | _ :: streams :: dec :: _ ->
    let decode = decoder dec in
    (match vba_project decode (parse_streams streams) with
     | Ok p ->
       let names = List.sort_uniq cmp_scalars (List.map fst p.pj_modules) in
       let mods = List.map (fun n ->
           let raw = match get_module_raw p.pj_modules n with Some r -> r | None -> [] in
           let text = match get_module decode p n with Some t -> t | None -> [] in
           hs n ^ "=" ^ hex_of_bytes raw ^ "=" ^ hs text) names in
       "ok|" ^ show_refs p.pj_references ^ "|M" ^ String.concat "," mods
     | Err _ -> "err"
     | Panic -> "panic"
     | OutOfFuel -> "fuel")
  | _ -> failwith "bad args"

let nf = n_of_string
let bf s = s = "1"

let parse_proj (s : string) : proj =
  let secs = List.map (fun x -> Array.of_list (String.split_on_char ' ' x)) (String.split_on_char '|' s) in
  let info = List.find (fun a -> a.(0) = "I") secs in
  let refs = List.filter_map (fun a ->
      match a.(0) with
      | "G" -> Some { rs_named = bf a.(1); rs_name = bytes_f a.(2); rs_name_u = bytes_f a.(3);
                      rs_kind = RRegistered (bytes_f a.(4)) }
      | "J" -> Some { rs_named = bf a.(1); rs_name = bytes_f a.(2); rs_name_u = bytes_f a.(3);
                      rs_kind = RProject (bytes_f a.(4), bytes_f a.(5), nf a.(6), nf a.(7)) }
      | "C" ->
        let next = match opt_f a.(6), opt_f a.(7) with
          | Some n, Some nu -> Some (n, nu)
          | _ -> None in
        Some { rs_named = bf a.(1); rs_name = bytes_f a.(2); rs_name_u = bytes_f a.(3);
               rs_kind = RControl (opt_f a.(4), bytes_f a.(5), next, bytes_f a.(8), bytes_f a.(9), nf a.(10)) }
      | _ -> None) secs in
  let mods = List.filter_map (fun a ->
      match a.(0) with
      | "M" -> Some { ms_name = bytes_f a.(1); ms_name_u = opt_f a.(2); ms_stream = bytes_f a.(3);
                      ms_stream_u = bytes_f a.(4); ms_doc = bytes_f a.(5); ms_doc_u = bytes_f a.(6);
                      ms_offset = nf a.(7); ms_helpctx = nf a.(8); ms_cookie = nf a.(9);
                      ms_document = bf a.(10); ms_readonly = bf a.(11); ms_private = bf a.(12) }
      | _ -> None) secs in
  { p_syskind = nf info.(1); p_compat = (if info.(2) = "~" then None else Some (nf info.(2)));
    p_lcid = nf info.(3); p_lcid_invoke = nf info.(4); p_codepage = nf info.(5);
    p_name = bytes_f info.(6); p_doc = bytes_f info.(7); p_doc_u = bytes_f info.(8);
    p_help1 = bytes_f info.(9); p_help2 = bytes_f info.(10); p_helpctx = nf info.(11);
    p_libflags = nf info.(12); p_vmajor = nf info.(13); p_vminor = nf info.(14);
    p_const = bytes_f info.(15); p_const_u = bytes_f info.(16); p_refs = refs; p_mods = mods;
    p_cookie = nf info.(17) }

let run_enc (args : string list) : string =
  match args with
  | desc :: dec :: _ ->
    let decode = decoder dec in
    let p = parse_proj desc in
    let dir = encode_dir p in
    let valid = valid_projb p in
    let expected =
      match expected_refs decode p.p_codepage p.p_refs with
      | None -> "-"
      | Some refs ->
        show_refs refs ^ "|D" ^ String.concat "," (List.map (fun m ->
            let e = expected_mod decode p.p_codepage m in
            hs e.m_name ^ ":" ^ hs e.m_stream ^ ":" ^ string_of_n e.m_offset) p.p_mods) in
    let known = match known_C18_dir p with Some k -> string_of_n k | None -> "-" in
    Printf.sprintf "%s|%d|%s|%s" (hex_of_bytes dir) (if valid then 1 else 0) known expected
  | _ -> failwith "bad args"

let () = Registry.register "vba" run_vba
(* vba_file <kind> <path> <streams> <dec>: the same project inside a workbook file; the model
   reads the streams *)
let () = Registry.register "vba_file" (fun args ->
    match args with
    | _ :: _ :: rest -> run_vba ("" :: rest)
    | _ -> failwith "bad args")
let () = Registry.register "vba_enc" run_enc
let init () = ()
