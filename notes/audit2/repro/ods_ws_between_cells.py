#!/usr/bin/env python3
"""ods whose content.xml is indented (white space between the children of table:table-row), as
LibreOffice writes with "Size optimization for ODF format" off, as every .fods-style writer and
Gnumeric do.  read_row answers OdsError::Mismatch and the workbook does not open."""
import sys; sys.path.insert(0, '/tmp/ag/audit2'); sys.path.insert(0, '/tmp/ag/audit2/repro')
from vhrun import vh, hx
from odslib import write_ods
S = hx('S1')
flat = ('<table:table table:name="S1"><table:table-row><table:table-cell office:value-type="string"><text:p>a</text:p></table:table-cell>'
        '<table:table-cell office:value-type="float" office:value="2"><text:p>2</text:p></table:table-cell></table:table-row></table:table>')
indented = ('<table:table table:name="S1">\n <table:table-row>\n  <table:table-cell office:value-type="string"><text:p>a</text:p></table:table-cell>\n'
            '  <table:table-cell office:value-type="float" office:value="2"><text:p>2</text:p></table:table-cell>\n </table:table-row>\n</table:table>')
print('flat    ', vh('ods', write_ods('ods_ws_flat.ods', flat), ['sheets', 'range ' + S]))
print('indented', vh('ods', write_ods('ods_ws_between_cells.ods', indented), ['sheets', 'range ' + S]))
