(* PasswordCfb.v — the part of the compound-file reader (src/cfb.rs) that property C20 rests on:
     Header::from_reader   (512-byte read, OLE signature, sector shift, mini-sector shift, fields),
     Directory::from_slice (name: Encoding::decode of the 64-byte name field — with the
                            byte-order-mark sniffing encoding_rs does on every call — cut at the
                            first NUL; start; len),
     the directory array   (chunks(128) of the directory chain, EmptyRootDir),
     Cfb::has_directory    (any entry whose name equals the target),
   and check_for_password_protected of src/xlsx/mod.rs and src/xlsb/mod.rs (identical bodies):
     `if let Ok(cfb) = Cfb::new(..) { if cfb.has_directory("EncryptedPackage") { Err(Password) } } Ok(())`.
   What lies between the header and the directory array (DIFAT / FAT loading, sector chains, the
   mini stream) is the subject of property C13 (Cfb.v, built separately); here it enters as a
   function [load : header -> bytes -> outcome bytes] (the directory chain), see cfb_dirs.
   Definitions only; everything computes.  Proofs: PasswordCfb_proofs.v. *)
From Calamine Require Import Prelude.
Open Scope N_scope.
Set Implicit Arguments.

Definition E_PASSWORD : N := 1.
Definition E_OTHER : N := 2.
(* CfbError classes *)
Definition E_IO : N := 11.
Definition E_OLE : N := 12.
Definition E_INVALID : N := 13.
Definition E_EMPTY_ROOT : N := 14.

(* little-endian value of a byte list; read of k bytes at offset off (callers guard lengths) *)
Definition le_val (l : list N) : N := fold_right (fun b acc => b + 256 * acc) 0 l.
Definition rd (k off : nat) (b : list N) : N := le_val (firstn k (skipn off b)).

Fixpoint bytes_eqb (a b : list N) : bool :=
  match a, b with
  | [], [] => true
  | x :: a', y :: b' => (x =? y) && bytes_eqb a' b'
  | _, _ => false
  end.

(* 0xE11A_B1A1_E011_CFD0 read little-endian from buf[0..8] *)
Definition OLE_SIG : list N := [208; 207; 17; 224; 161; 177; 26; 225].
(* zip signatures: local file header, end of central directory (empty archive), spanned marker *)
Definition ZIP_LOCAL : list N := [80; 75; 3; 4].

Record header : Type := mkHeader {
  h_version : N;
  h_sector_size : N;
  h_dir_len : N;
  h_dir_start : N;
  h_fat_len : N;
  h_mini_fat_len : N;
  h_mini_fat_start : N;
  h_difat_start : N;
  h_difat_cap : N;            (* read_usize(&buf[62..76]): only a Vec capacity *)
  h_difat : list N            (* the 109 DIFAT entries of the header *)
}.

Fixpoint u32s (fuel : nat) (b : list N) : list N :=
  match fuel with
  | O => []
  | S f => match b with
           | b0 :: b1 :: b2 :: b3 :: t => le_val [b0; b1; b2; b3] :: u32s f t
           | _ => []
           end
  end.

(* Header::from_reader on a reader positioned at offset 0 of [f]; also returns what is left of
   the reader *)
Definition header_from_reader (f : list N) : outcome (header * list N) :=
  if (length f <? 512)%nat then Err E_IO else         (* read_exact(&mut buf) *)
  let buf := firstn 512 f in
  if negb (bytes_eqb (firstn 8 buf) OLE_SIG) then Err E_OLE else
  let version := rd 2 26 buf in
  let shift := rd 2 30 buf in
  do sr <- (if shift =? 9 then Ok (512, skipn 512 f)
            else if shift =? 12 then
              (if (length f <? 4096)%nat then Err E_IO else Ok (4096, skipn 4096 f))
            else Err E_INVALID);
  if negb (rd 2 32 buf =? 6) then Err E_INVALID else
  Ok (mkHeader version (fst sr) (rd 4 40 buf) (rd 4 48 buf) (rd 4 44 buf) (rd 4 64 buf)
               (rd 4 60 buf) (rd 4 68 buf) (rd 4 62 buf) (u32s 109 (skipn 76 buf)),
      snd sr).

(* ------------------------------------------------------------------ encoding_rs *)
Definition FFFD : N := 65533.
Definition is_high (u : N) : bool := (55296 <=? u) && (u <? 56320).
Definition is_low (u : N) : bool := (56320 <=? u) && (u <? 57344).
Definition pair_scalar (h l : N) : N := 65536 + (h - 55296) * 1024 + (l - 56320).

(* the UTF-16 decoder run over one complete input *)
Fixpoint utf16_sm (be : bool) (bs : list N) (lead_byte : option N) (lead_sur : N) : list N :=
  match bs with
  | [] =>
    if negb (lead_sur =? 0) || (match lead_byte with Some _ => true | None => false end)
    then [FFFD] else []
  | b :: rest =>
    match lead_byte with
    | None => utf16_sm be rest (Some b) lead_sur
    | Some lead =>
      let cu := if be then lead * 256 + b else b * 256 + lead in
      if is_high cu then
        if lead_sur =? 0 then utf16_sm be rest None cu
        else FFFD :: utf16_sm be rest None cu
      else if is_low cu then
        if lead_sur =? 0 then FFFD :: utf16_sm be rest None 0
        else pair_scalar lead_sur cu :: utf16_sm be rest None 0
      else
        if lead_sur =? 0 then cu :: utf16_sm be rest None 0
        else FFFD :: cu :: utf16_sm be rest None 0
    end
  end.

(* the UTF-8 decoder (WHATWG): state = bytes still needed, code point so far, bounds of the
   next continuation byte.  [u8_start b] is the action on a byte in the initial state. *)
Inductive u8_act : Type :=
| U8Emit (c : N)
| U8Begin (needed cp lower upper : N).

Definition u8_start (b : N) : u8_act :=
  if b <=? 127 then U8Emit b
  else if (194 <=? b) && (b <=? 223) then U8Begin 1 (b - 192) 128 191
  else if (224 <=? b) && (b <=? 239) then
    U8Begin 2 (b - 224) (if b =? 224 then 160 else 128) (if b =? 237 then 159 else 191)
  else if (240 <=? b) && (b <=? 244) then
    U8Begin 3 (b - 240) (if b =? 240 then 144 else 128) (if b =? 244 then 143 else 191)
  else U8Emit FFFD.

Fixpoint utf8_sm (bs : list N) (needed cp lower upper : N) : list N :=
  match bs with
  | [] => if needed =? 0 then [] else [FFFD]
  | b :: rest =>
    if needed =? 0 then
      match u8_start b with
      | U8Emit c => c :: utf8_sm rest 0 0 128 191
      | U8Begin n c l u => utf8_sm rest n c l u
      end
    else if (lower <=? b) && (b <=? upper) then
      let cp' := cp * 64 + (b - 128) in
      if needed =? 1 then cp' :: utf8_sm rest 0 0 128 191
      else utf8_sm rest (needed - 1) cp' 128 191
    else
      (* ill-formed: one replacement, then the byte is looked at again in the initial state *)
      FFFD :: match u8_start b with
              | U8Emit c => c :: utf8_sm rest 0 0 128 191
              | U8Begin n c l u => utf8_sm rest n c l u
              end
  end.

(* `UTF_16LE.decode_without_bom_handling(bytes).0` (since the fix of C13's class bom_name; before
   it, Encoding::decode sniffed a byte-order mark and a BOM selected the decoder).  The name
   [utf16le_decode_bom] is kept for the callers; [utf8_sm] and the big-endian mode of [utf16_sm]
   are no longer reached from Directory::from_slice. *)
Definition starts_with (p bs : list N) : bool := bytes_eqb (firstn (length p) bs) p.
Definition utf16le_decode_bom (bs : list N) : list N := utf16_sm false bs None 0.

(* name.truncate(position of the first 0 byte of the UTF-8 text) = up to the first U+0000 *)
Fixpoint until_nul (s : list N) : list N :=
  match s with
  | [] => []
  | c :: t => if c =? 0 then [] else c :: until_nul t
  end.

(* ------------------------------------------------------------------ directory *)
Record dentry : Type := mkDentry { d_name : list N; d_start : N; d_len : N }.

(* Directory::from_slice(buf, sector_size): every slice index is a guarded step *)
Definition directory_from_slice (buf : list N) (sector_size : N) : outcome dentry :=
  if (length buf <? 64)%nat then Panic else           (* &buf[..64] *)
  let name := until_nul (utf16le_decode_bom (firstn 64 buf)) in
  if (length buf <? 120)%nat then Panic else          (* &buf[116..120] *)
  let start := rd 4 116 buf in
  if sector_size =? 512 then
    if (length buf <? 124)%nat then Panic else Ok (mkDentry name start (rd 4 120 buf))
  else
    if (length buf <? 128)%nat then Panic else Ok (mkDentry name start (rd 8 120 buf)).

Fixpoint all_ok (A : Type) (l : list (outcome A)) : outcome (list A) :=
  match l with
  | [] => Ok []
  | o :: t => do a <- o; do r <- all_ok t; Ok (a :: r)
  end.

(* dirs.chunks(128).map(from_slice).collect(); empty => EmptyRootDir *)
Definition parse_dirs (chain : list N) (sector_size : N) : outcome (list dentry) :=
  do ds <- all_ok (map (fun c => directory_from_slice c sector_size) (chunks 128 chain));
  match ds with [] => Err E_EMPTY_ROOT | _ => Ok ds end.

(* Cfb::has_directory *)
Definition has_directory (dirs : list dentry) (name : list N) : bool :=
  existsb (fun d => bytes_eqb (d_name d) name) dirs.

(* "EncryptedPackage" *)
Definition ENCRYPTED_PACKAGE : list N :=
  [69;110;99;114;121;112;116;101;100;80;97;99;107;97;103;101].

Section CfbNew.
(* everything of Cfb::new between the header and the directory array: DIFAT, FAT, the directory
   chain (C13).  Its result is the directory chain truncated to dir_len * sector_size when that
   is not 0.  The mini-stream loading that follows the directory array can still fail or panic:
   [after] is its outcome. *)
Variable load : header -> list N -> outcome (list N).
Variable after : header -> list dentry -> list N -> outcome unit.

Definition cfb_dirs (f : list N) : outcome (list dentry) :=
  do hr <- header_from_reader f;
  do chain <- load (fst hr) f;
  do ds <- parse_dirs chain (h_sector_size (fst hr));
  do _ <- after (fst hr) ds f;
  Ok ds.
End CfbNew.

(* check_for_password_protected (xlsx and xlsb) given the outcome of Cfb::new as its directory
   array: any Err of Cfb::new is swallowed by `if let Ok(..)` *)
Definition ooxml_check (cfb : outcome (list dentry)) : outcome unit :=
  match cfb with
  | Ok dirs => if has_directory dirs ENCRYPTED_PACKAGE then Err E_PASSWORD else Ok tt
  | Err _ => Ok tt
  | Panic => Panic
  | OutOfFuel => OutOfFuel
  end.

(* Xlsx::new / Xlsb::new: the check, then ZipArchive::new and the part readers ([zip]: their
   outcome; XlsxError::Password / XlsbError::Password are constructed nowhere else) *)
Definition ooxml_new (cfb : outcome (list dentry)) (zip : outcome unit) : outcome unit :=
  do _ <- ooxml_check cfb; zip.

(* ------------------------------------------------------------------ encoder side *)
(* a directory entry as a writer lays it out: UTF-16LE name, NUL, then [pad] (MS-CFB asks for
   zeros, any bytes are accepted here) up to 64 bytes, then 52 bytes of other fields, start, size *)
Fixpoint utf16le_ascii (s : list N) : list N :=
  match s with [] => [] | c :: t => c :: 0 :: utf16le_ascii t end.

Definition name_field (name pad : list N) : list N :=
  firstn 64 (utf16le_ascii name ++ [0; 0] ++ pad ++ repeat 0 64).

Fixpoint le_bytes (k : nat) (v : N) : list N :=
  match k with O => [] | S k' => v mod 256 :: le_bytes k' (v / 256) end.

Definition dir_entry_bytes (name pad mid : list N) (start size : N) : list N :=
  name_field name pad ++ firstn 52 (mid ++ repeat 0 52) ++ le_bytes 4 start ++ le_bytes 8 size.

Definition ascii_name (s : list N) : bool :=
  forallb (fun c => (1 <=? c) && (c <=? 127)) s && (length s <=? 31)%nat.
