(* C12: model side of the correspondence for XLS strings (extracted BiffSst.v).
   Commands (same answers as harness/src/cmds/c12_*.rs):
     c12_sstenc  <cstTotal> <strings> <layouts>      structured case (model only): runs the writer,
                                                     answers legal|known|spec|model|data|conts
     c12_sst     <hex SST body> <hex CONTINUE bodies>   raw case
     c12_cell    label|string|labelsst|bsheet <hex body> [<strings>]
     c12_cellenc label|string|bsheet <hb> <units> <extra hex> / labelsst <row> <col> <i>
                                                     (model only): legal|known|spec|model|body
     c12_fstrenc <hb0> <units> <cuts n:hb+n:hb…|-> <trailing flag-only CONTINUEs, hex flags|->
                                                     formula string result (model only): runs the
                                                     writer fstring_encode and the String arm,
                                                     answers legal|known|spec|model|STRING body|conts
     c12_records <hex stream>
     c12_open    <hex Workbook stream>               (the harness gets the path of the file) *)
open Conv
open Prelude
open BiffSst

let join = String.concat
let bool_of s = s = "1"

(* units: 4 hex digits per UTF-16 code unit *)
let units_of_hex (s : string) : BinNums.coq_N list =
  let n = String.length s / 4 in
  List.init n (fun i -> n_of_int (int_of_string ("0x" ^ String.sub s (4 * i) 4)))

let split c s = if s = "" then [] else String.split_on_char c s

let parse_strings (s : string) : BinNums.coq_N list list =
  if s = "-" then [] else List.map units_of_hex (String.split_on_char ';' s)

let parse_layout_one (s : string) : str_layout =
  match String.split_on_char ',' s with
  | [cb; hb0; cuts; runs; ext; tcuts] ->
    { sl_cut_before = bool_of cb;
      sl_hb0 = bool_of hb0;
      sl_cuts = List.map (fun c ->
          match String.split_on_char ':' c with
          | [n; hb] -> (nat_of_int (int_of_string n), bool_of hb)
          | _ -> failwith "bad cut") (split '+' cuts);
      sl_runs = (if runs = "-" then None else
                   let u = units_of_hex runs in
                   let rec pairs l = match l with a :: b :: r -> (a, b) :: pairs r | _ -> [] in
                   Some (pairs u));
      sl_ext = (if ext = "-" then None else Some (bytes_of_hex ext));
      sl_tail_cuts = List.map (fun n -> nat_of_int (int_of_string n)) (split '+' tcuts) }
  | _ -> failwith "bad layout"

let parse_layouts (s : string) : str_layout list =
  if s = "-" then [] else List.map parse_layout_one (String.split_on_char ';' s)

let show_strings (l : BinNums.coq_N list list) : string =
  Printf.sprintf "ok:%d:%s" (List.length l) (join "," (List.map hex_of_scalars l))

let show_outcome (f : 'a -> string) (o : 'a outcome) : string =
  match o with
  | Ok v -> f v
  | Err _ -> "err"
  | Panic -> "panic"
  | OutOfFuel -> "fuel"

(* the harness caps a single allocation request at 512 MiB; a String is 24 bytes (since the
   hardening parse_sst reserves at most a third of the bytes present, so this needs > 64 MiB of input) *)
let alloc_cap_elems = n_of_string "22369621"
let run_parse_sst (st : rstate) : string =
  if BinNat.N.ltb alloc_cap_elems (sst_capacity_request st) then "alloc"
  else show_outcome show_strings (parse_sst st)

let show_conts (cs : bytes list) : string =
  match cs with [] -> "-" | _ -> join "," (List.map hex_of_bytes cs)

let sstenc (args : string list) : string =
  match args with
  | [total; strs; lays] ->
    let strs = parse_strings strs in
    let lay = { lay_total = n_of_string total; lay_strs = parse_layouts lays } in
    let legal = legal_layout strs lay in
    let known = "-" in   (* no known class is left (CutInsidePair was repaired) *)
    let spec = show_strings (List.map utf16_decode strs) in
    let st = sst_encode strs lay in
    let model = run_parse_sst st in
    join "|" [ (if legal then "1" else "0"); known; spec; model;
               hex_of_bytes (fst st); show_conts (snd st);
               (if fits_records st then "1" else "0") ]
  | _ -> "bad-args"

let sstraw (args : string list) : string =
  match args with
  | data :: rest ->
    let conts = match rest with
      | [] | ["-"] -> []
      | c :: _ -> List.map bytes_of_hex (String.split_on_char ',' c) in
    run_parse_sst (bytes_of_hex data, conts)
  | _ -> "bad-args"

let show_cell (c : scell option) : string =
  match c with
  | None -> "ok:none"
  | Some ((r, c), s) -> Printf.sprintf "ok:%s:%s:%s" (string_of_n r) (string_of_n c) (hex_of_scalars s)

let cell_model (kind : string) (body : bytes) (strings : BinNums.coq_N list list) : string =
  match kind with
  | "label" -> show_outcome show_cell (parse_label body)
  | "labelsst" -> show_outcome show_cell (parse_label_sst body strings)
  | "string" -> show_outcome (fun s -> "ok:" ^ hex_of_scalars s) (parse_string body)
  | "bsheet" ->
    show_outcome (fun (pos, name) -> Printf.sprintf "ok:%s:%s" (string_of_n pos) (hex_of_scalars name))
      (parse_sheet_metadata body)
  | _ -> "bad-kind"

let parse_table (s : string) : BinNums.coq_N list list =
  if s = "-" then [] else List.map scalars_of_hex (String.split_on_char ',' s)

let cell (args : string list) : string =
  match args with
  | kind :: body :: rest ->
    let strings = match rest with [] -> [] | s :: _ -> parse_table s in
    cell_model kind (bytes_of_hex body) strings
  | _ -> "bad-args"

(* structured single-string cases: legal|known|spec|model|body *)
let cellenc (args : string list) : string =
  match args with
  | ["labelsst"; row; col; i; table] ->
    let strings = parse_table table in
    let body = labelsst_body (n_of_string row) (n_of_string col) (n_of_int 15) (n_of_string i) in
    let spec = match List.nth_opt strings (int_of_string i) with
      | Some s when s <> [] -> Printf.sprintf "ok:%s:%s:%s" row col (hex_of_scalars s)
      | _ -> "ok:none" in
    join "|" ["1"; "-"; spec; cell_model "labelsst" body strings; hex_of_bytes body]
  | [kind; hb; units; extra] ->
    let hb = bool_of hb and us = units_of_hex units and extra = bytes_of_hex extra in
    let dec = hex_of_scalars (utf16_decode us) in
    let nonul = hex_of_scalars (List.filter (fun c -> c <> BinNums.N0) (utf16_decode us)) in
    let (legal, spec, body) =
      match kind with
      | "label" ->
        (legal_xl_string hb us, "ok:3:7:" ^ dec,
         label_body (n_of_int 3) (n_of_int 7) (n_of_int 15) hb us @ extra)
      | "string" ->
        (legal_xl_string hb us, "ok:" ^ dec, xl_string hb us @ extra)
      | _ ->
        (legal_short_string hb us, "ok:4660:" ^ nonul,
         boundsheet_body (n_of_int 4660) (n_of_int 1) (n_of_int 0) hb us @ extra) in
    join "|" [ (if legal then "1" else "0");
               "-";
               spec; cell_model kind body []; hex_of_bytes body ]
  | _ -> "bad-args"

let parse_cuts (s : string) : (Datatypes.nat * bool) list =
  if s = "-" || s = "" then [] else
  List.map (fun c ->
      match String.split_on_char ':' c with
      | [n; hb] -> (nat_of_int (int_of_string n), bool_of hb)
      | _ -> failwith "bad cut") (String.split_on_char '+' s)

(* a formula's string result over STRING + CONTINUE records: legal|known|spec|model|data|conts.
   The last argument appends CONTINUE records holding only a flag byte (legal after the last
   character: the arm has read cch characters and ignores them) *)
let fstrenc (args : string list) : string =
  match args with
  | [hb; units; cuts; trail] ->
    let hb = bool_of hb and us = units_of_hex units and cuts = parse_cuts cuts in
    let trail = if trail = "-" then [] else List.map (fun b -> [b]) (bytes_of_hex trail) in
    let legal = legal_fstring us hb cuts in
    let st = fstring_encode us hb cuts in
    let conts = snd st @ trail in
    let spec = "ok:" ^ hex_of_scalars (utf16_decode us) in
    let model = show_outcome (fun s -> "ok:" ^ hex_of_scalars s) (string_arm (fst st) (cont_opt conts)) in
    join "|" [ (if legal then "1" else "0"); "-"; spec; model; hex_of_bytes (fst st); show_conts conts ]
  | _ -> "bad-args"

let show_rec (it : rec_item outcome) : string =
  match it with
  | Ok ((t, d), c) ->
    Printf.sprintf "%s:%s:%s" (string_of_n t) (hex_of_bytes d)
      (match c with None -> "-" | Some v -> "c" ^ join "+" (List.map hex_of_bytes v))
  | Err _ -> "err"
  | Panic -> "panic"
  | OutOfFuel -> "fuel"

let records_cmd (args : string list) : string =
  match args with
  | s :: _ -> join ";" (List.map show_rec (records (bytes_of_hex s)))
  | _ -> "bad-args"

(* worksheet_range = Range::from_sparse(cells); the harness lists used_cells() (model: Range.v) *)
let teqb (a : BinNums.coq_N list option) (b : BinNums.coq_N list option) : bool = (a = b)
let show_sheet ((name, cells) : BinNums.coq_N list * scell list) : string =
  let sparse = List.map (fun ((r, c), s) -> ((r, c), Some s)) cells in
  match Range.from_sparse None sparse with
  | Ok rg ->
    let (sr, sc) = match Range.start rg with Some p -> p | None -> (BinNums.N0, BinNums.N0) in
    let used = Range.used_cells None teqb rg in
    let one ((i, j), v) =
      Printf.sprintf "%s:%s:%s" (string_of_n (BinNat.N.add sr i)) (string_of_n (BinNat.N.add sc j))
        (match v with Some s -> hex_of_scalars s | None -> "?") in
    hex_of_scalars name ^ "=" ^ join "," (List.map one used)
  | _ -> raise Exit

let open_cmd (args : string list) : string =
  match args with
  | s :: _ ->
    (match wb_strings (bytes_of_hex s) with
     | Ok sheets -> (try "ok:" ^ join "|" (List.map show_sheet sheets) with Exit -> "panic")
     | Err e -> if int_of_n e = 99 then "unmodelled" else "err"
     | Panic -> "panic"
     | OutOfFuel -> "fuel")
  | _ -> "bad-args"

(* structured whole-workbook case (model only): legal#known#spec#model#Workbook stream *)
let parse_cell (s : string) : cell_spec =
  match String.split_on_char ':' s with
  | ["s"; r; c; i] -> CSst (n_of_string r, n_of_string c, n_of_string i)
  | ["l"; r; c; hb; u] -> CLabel (n_of_string r, n_of_string c, bool_of hb, units_of_hex u)
  | ["f"; r; c; hb; u] -> CFString (n_of_string r, n_of_string c, bool_of hb, units_of_hex u, [])
  | ["f"; r; c; hb; u; cuts] ->
    (* cuts of a continued result: n.hb/n.hb (':' and '+' are taken by the cell syntax) *)
    let cuts = List.map (fun x -> match String.split_on_char '.' x with
        | [n; h] -> (nat_of_int (int_of_string n), bool_of h)
        | _ -> failwith "bad cut") (split '/' cuts) in
    CFString (n_of_string r, n_of_string c, bool_of hb, units_of_hex u, cuts)
  | _ -> failwith "bad cell"
let parse_sheet (s : string) : sheet_spec =
  match String.split_on_char ',' s with
  | [hb; name; cells] ->
    { sh_hb = bool_of hb; sh_name = units_of_hex name; sh_cells = List.map parse_cell (split '+' cells) }
  | _ -> failwith "bad sheet"
let show_sheets (l : (BinNums.coq_N list * scell list) list) : string =
  try "ok:" ^ join "|" (List.map show_sheet l) with Exit -> "panic"
(* the CodePage record of the globals: '-' = none, else its 16-bit value; replays written before
   the record became a choice have no such field: 1200, the value that was fixed then *)
let rec wbenc (args : string list) : string =
  match args with
  | [total; strs; lays; sheets] -> wbenc [total; strs; lays; sheets; "1200"]
  | [total; strs; lays; sheets; cp] ->
    let cp = if cp = "-" then None else Some (n_of_string cp) in
    let strs = parse_strings strs in
    let lay = { lay_total = n_of_string total; lay_strs = parse_layouts lays } in
    let shs = List.map parse_sheet (String.split_on_char ';' sheets) in
    let legal = legal_workbook cp strs lay shs in
    let known = "-" in
    let stream = workbook_stream cp strs lay shs in
    let model = match wb_strings stream with
      | Ok l -> show_sheets l
      | Err e -> if int_of_n e = 99 then "unmodelled" else "err"
      | Panic -> "panic"
      | OutOfFuel -> "fuel" in
    join "#" [ (if legal then "1" else "0"); known; show_sheets (wb_spec strs shs); model;
               hex_of_bytes stream ]
  | _ -> "bad-args"

let () =
  Registry.register "c12_wbenc" wbenc;
  Registry.register "c12_sstenc" sstenc;
  Registry.register "c12_sst" sstraw;
  Registry.register "c12_cell" cell;
  Registry.register "c12_cellenc" cellenc;
  Registry.register "c12_fstrenc" fstrenc;
  Registry.register "c12_records" records_cmd;
  Registry.register "c12_open" open_cmd
let init () = ()
