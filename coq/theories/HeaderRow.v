(* HeaderRow.v — model of the header-row option (property C08).
   Lazy path  : xlsx / xlsb `worksheet_range_ref` (src/xlsx/mod.rs, src/xlsb/mod.rs): cells are
                filtered by row, one Empty cell is prepended at (n, first.col), then from_sparse.
   Eager path : xls / ods `worksheet_range` (src/xls.rs, src/ods.rs): the stored range is
                re-windowed with Range::range((n, start.1), end); after the fix: commit 5d692fc an
                n below the data yields the empty range.
   Definitions only; proofs in HeaderRow_proofs.v. *)
From Calamine Require Import Prelude Range Range_spec.
Open Scope N_scope.
Set Implicit Arguments.

Inductive header_row : Type :=
| FirstNonEmptyRow
| HRow (n : N).

Section HeaderRow.
Variable T : Type.
Variable d : T.                       (* the Empty cell value *)

(* ---- lazy path: [cells] are the non-Empty cells in document order ---- *)
Definition lazy_cells (h : header_row) (cells : list (pos * T)) : list (pos * T) :=
  match h with
  | FirstNonEmptyRow => cells
  | HRow n =>
      let kept := filter (fun c => n <=? fst (fst c)) cells in
      match kept with
      | [] => []
      | c0 :: _ =>
          if fst (fst c0) =? n then kept
          else ((n, snd (fst c0)), d) :: kept
      end
  end.

Definition lazy_range (h : header_row) (cells : list (pos * T)) : outcome (range T) :=
  from_sparse d (lazy_cells h cells).

(* ---- eager path: [sheet] is the range stored when the workbook was opened ---- *)
Definition eager_range (h : header_row) (sheet : range T) : outcome (range T) :=
  match h with
  | FirstNonEmptyRow => Ok sheet
  | HRow n =>
      match start sheet, end_ sheet with
      | Some s, Some e =>
          if fst e <? n then Ok empty
          else window d sheet (n, snd s) e
      | _, _ => Ok sheet
      end
  end.

End HeaderRow.
