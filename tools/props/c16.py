"""C16 — workbook metadata is reported faithfully and in workbook order, in all four formats.

Structured cases: a logical workbook (0..n sheets with names over ASCII / XML-special / non-ASCII /
astral characters, every visibility and kind the format can express, 0..n defined names, both date
systems) and the encoder's choices are drawn here; the extracted Coq encoder (vm `meta xlsx|xlsb|
xls|ods`) produces the workbook part (XML event list / workbook.bin / Workbook stream /
content.xml events) and answers with M (the model of calamine's reader on that part), S (the
logical workbook), `known_*` and `*_legal`.  tools/metagen.py serialises / packs a real file
(sheet parts carry numeric cells under a date style) and the real readers open it through the
public API (vh `open`: sheet_names, sheets_metadata, defined_names, worksheet_range of every
worksheet).  i vs m is the tie; i vs s on legal cases outside the known classes is the search.
Raw cases: perturbed event lists / byte streams (unknown values, missing attributes, truncation,
bit flips) through M and the real reader — implementation vs model only."""
import os, json, struct
import vlib, metagen as mg
from metagen import hx, hxs, S, E, T, C, O, wire, unwire, attrs_wire, recs_wire, lst

ASSUMPTIONS = [
    "quick-xml maps the serialised XML back to the event list the encoder produced (tokenisation, entity and character-reference unescaping, empty-element expansion); zip / cfb return the stored bytes of a part",
    "the relationship id, Id and Target attribute values contain no character that needs escaping (calamine uses their raw bytes)",
    "sheet parts / substreams are well formed (cell reading is the domain of C01-C04); xls: BIFF8, with a CodePage record of any value (or none) among the globals",
    "ods has no date-system flag at the cell level (dates are ISO strings): the flag conjunct is checked for xlsx, xlsb, xls",
]
KNOWN_IDS = {}    # no known class is left (the four former ones were repaired: notes/C16_fixed.json)
SHARDS = 8


def tmp(ctx):
    d = os.path.join(vlib.CACHE, "tmp", "c16-%d" % os.getpid())
    os.makedirs(d, exist_ok=True)
    return d


# ------------------------------------------------------------------ logical workbooks
KINDS = {"xlsx": ["ws", "ws", "ws", "chart", "dlg", "mac"], "xlsb": ["ws", "ws", "ws", "chart", "dlg", "mac"],
         "xls": ["ws", "ws", "ws", "mac", "chart", "vba"], "ods": ["ws"]}
VISES = {"xlsx": ["v", "v", "h", "vh"], "xlsb": ["v", "v", "h", "vh"], "xls": ["v", "v", "h", "vh"],
         "ods": ["v", "v", "h"]}


def gen_wb(rng, fmt, small=False):
    ns = rng.choice([0, 1, 1, 2, 2, 3, 3, 4, 5, 7]) if not small else rng.choice([1, 2, 3])
    names = mg.unique_names(rng, ns)
    sheets = [(n, rng.choice(VISES[fmt]), rng.choice(KINDS[fmt])) for n in names]
    if ns >= 3 and rng.random() < 0.3:
        # every visibility / kind combination on consecutive sheets
        sheets = [(n, VISES[fmt][(i % 3) + 1 if fmt != "ods" else (i % 2) + 1],
                   KINDS[fmt][2 + (i % (len(KINDS[fmt]) - 2))] if fmt != "ods" else "ws")
                  for i, (n, _, _) in enumerate(sheets)]
    nn = rng.choice([0, 0, 1, 2, 3, 5])
    dn = mg.unique_names(rng, nn)
    if fmt == "xlsx" and len(dn) >= 2 and rng.random() < 0.35:
        # the same identifier defined twice (legal when the scopes differ: a sheet-local Total next to
        # the workbook's, the _xlnm.Print_Area of every sheet): every definition is listed
        dn[rng.randrange(1, len(dn))] = dn[0]
    return {"sheets": sheets, "dnames": dn, "d1904": rng.random() < 0.5}


def disjoint(rng, pool, pre):
    """an attribute list from pool sharing no key with pre (attribute names are unique per element)"""
    keys = set(k for k, _ in pre)
    return rng.choice([a for a in pool if not keys & set(k for k, _ in a)])


def spec_meta(wb):
    return ",".join("%s:%s:%s" % (hx(n), v, k) for n, v, k in wb["sheets"])


FORMULA_TEXT = ["Sheet1!$A$1", "'My <Sheet>'!$A$1:$B$2", "1+2", "\"a&b\"", "SUM(A1:A3)>0", "#REF!",
                "IF(A1<B1,\"<\",\">\")", "A1&\"'\"", " ", "x<y&&z", "ÄÖ!$C$3", "\U0001F600!A1"]


# ------------------------------------------------------------------ xlsx
def junk_events_xlsx(rng, pfx):
    q = (pfx + ":") if pfx else ""
    return rng.choice([[], [], [O], [T("\n  ")], [T("\n"), O, T(" ")],
                       [S("extLst"), S("ext", [("uri", "{a&b}")]), E("ext"), E("extLst")],
                       # what Excel 2013+ writes: an extension element that shares the local name
                       # of the main namespace's workbookPr and has no date1904 attribute
                       [S("extLst"), S("ext", [("uri", "{140A7094-0E35-4892-8432-C4D2E57EDEB5}")]),
                        S("x15:workbookPr", [("chartTrackingRefBase", "1")]), E("x15:workbookPr"),
                        E("ext"), E("extLst")],
                       [S("x15:workbookPr"), E("x15:workbookPr")],
                       [S(q + "bookViews"), S(q + "workbookView", [("xWindow", "0")]),
                        E(q + "workbookView"), E(q + "bookViews")],
                       [S(q + "sheetsX"), E(q + "sheetsX"), C("sheet")]])


def xlsx_case(rng, cid, known_ok=True):
    wb = gen_wb(rng, "xlsx")
    pfx = rng.choice(["", "", "x", "main"])
    rpfx = rng.choice(["r", "r", "r", "relationships"])
    if known_ok and rng.random() < 0.15:
        rpfx = rng.choice(["rel", "R", "ns1", "relationship"])
    n = len(wb["sheets"])
    ridn = list(range(1, n + 1)); rng.shuffle(ridn)
    filen = list(range(1, n + 1)); rng.shuffle(filen)
    sheets, rels, parts, cells_of = [], [], [], {}
    nonconv = 0
    attr_pool = [[], [], [("sheetId", "3")], [("xml:space", "preserve")],
                 [("sheetId", "12"), ("foo", "a&b<c>\"'")]]
    for i, (name, v, k) in enumerate(wb["sheets"]):
        rid = rng.choice(["rId%d", "rId%d", "R%dx", "id%d"]) % ridn[i]
        ts = rng.choice([0, 0, 1, 2])
        part = mg.gen_part(rng, k, filen[i], "xml", allow_xl_prefix=(ts != 0))
        target = ["", "/xl/", "xl/"][ts] + part
        talt = int(rng.random() < 0.3)
        rtype = mg.KIND_TYPE[k][talt]
        if rng.random() < 0.05 and part.startswith(mg.KIND_DIR[k] + "/"):
            # outside the spec (xlsx_legal = 0): a Type that names no sheet kind; the reader
            # falls back to the folder of the part — implementation vs model only
            rtype = rng.choice(mg.OTHER_TYPES)
        rels.append((rid, target, rtype))
        pre_ = rng.choice(attr_pool)
        sheets.append(":".join([hxs(name), v, k, hx(rid), str(ts), hx(part), str(rng.randrange(6)),
                                str(int(rng.random() < 0.5)), attrs_wire(pre_),
                                attrs_wire(disjoint(rng, attr_pool[:4], pre_)), str(talt)]))
        path = "xl/" + part
        nonconv += not part.startswith(mg.KIND_DIR[k] + "/")
        if k == "ws":
            cells = mg.sheet_cells(rng)
            cells_of[name] = cells
            parts.append((path, mg.xlsx_sheet_xml(cells)))
        else:
            parts.append((path, mg.OTHER_PART_XML[k]))
    rels += [("rIdS", "styles.xml", mg.NS_REL + "/styles"),
             ("rIdT", "theme/theme1.xml", mg.NS_REL + "/theme")][:rng.randrange(3)]
    rng.shuffle(rels)
    names = []
    npool = [[], [], [("localSheetId", "0")], [("hidden", "1")], [("comment", "x<y")]]
    for dn in wb["dnames"]:
        text = rng.choice(FORMULA_TEXT) if rng.random() < 0.7 else mg.gen_name(rng, 20)
        cd = 0
        if known_ok and rng.random() < 0.15 and "]]>" not in text:
            cd = 1
        cuts = sorted(rng.randrange(0, len(text) + 1) for _ in range(rng.choice([0, 0, 1, 2, 3])))
        cuts = [b - a for a, b in zip([0] + cuts, cuts)]
        pre_ = rng.choice(npool)
        names.append(":".join([hxs(dn), hxs(text), ".".join(map(str, cuts)) or "-", str(cd),
                               str(int(rng.random() < 0.3)), attrs_wire(pre_),
                               attrs_wire(disjoint(rng, npool, pre_))]))
        wb.setdefault("dtexts", []).append(text)
    args = [str(int(wb["d1904"])), hx(pfx) or ".", hx(rpfx), str(int(rng.random() < 0.5)),
            str(int(rng.random() < 0.5)),
            attrs_wire(rng.choice([[], [("defaultThemeVersion", "124226")],
                                   [("codeName", "ThisWorkbook"), ("filterPrivacy", "1")]])),
            wire(junk_events_xlsx(rng, pfx)) or "-",
            lst(["%s:%s:%s" % (hx(a), hx(b), hxs(t)) for a, b, t in rels]),
            wire(rng.choice([[], [T("\n")], [O]])) or "-", lst(sheets), lst(names)]
    return {"id": cid, "fmt": "xlsx", "wb": wb, "line": "%s\tmeta\txlsx\t%s" % (cid, "\t".join(args)),
            "parts": parts, "cells": cells_of, "nonconv": nonconv}


def xlsx_build(case, ans, rng, d):
    f = ans.split("|")
    rels_xml = mg.serialise(unwire(f[0]), rng)
    wb_xml = mg.serialise(unwire(f[1]), rng)
    path = os.path.join(d, case["id"] + ".xlsx")
    open(path, "wb").write(mg.xlsx_file(rels_xml, wb_xml, case["parts"], rng))
    return path, f[2], f[3], f[4], f[5]


# ------------------------------------------------------------------ xlsb
def gen_expr(rng, nxti, nprev, depth=0):
    r = rng.random()
    def cref():
        return "%d %d %d %d" % (rng.choice([0, 1, 9, 65535, 1048575]), rng.choice([0, 1, 25, 26, 255, 16383]),
                                int(rng.random() < 0.3), int(rng.random() < 0.3))
    if nxti and depth < 2 and r < 0.12:
        # as Excel writes Print_Titles / a multi-area Print_Area: PtgMemFunc (or PtgMemArea) in front of a union
        return "mem %s %s %d bin %d %s %s" % (rng.choice("rva"), rng.choice(["func", "func", "area", "nomem", "err"]),
                                              rng.choice([0, 0, 0x17, 0xDEADBEEF]), rng.choice([16, 16, 15, 17]),
                                              gen_expr(rng, nxti, 0, 2), gen_expr(rng, nxti, 0, 2))
    if nxti and r < 0.35:
        return "ref3 %s %d %s" % (rng.choice("rva"), rng.randrange(nxti), cref())
    if nxti and r < 0.6:
        return "area3 %s %d %s %s" % (rng.choice("rva"), rng.randrange(nxti), cref(), cref())
    if nprev and r < 0.68:
        return "name %s %d" % (rng.choice("rv"), rng.randrange(1, nprev + 1))
    if depth < 2 and r < 0.8:
        return "bin %d %s %s" % (rng.choice([3, 4, 5, 8, 11, 14]), gen_expr(rng, nxti, nprev, depth + 1),
                                 gen_expr(rng, nxti, nprev, depth + 1))
    if depth < 2 and r < 0.85:
        return "par " + gen_expr(rng, nxti, nprev, depth + 1)
    if r < 0.9:
        s = rng.choice(["ab", "a\"b", "é中", "\U0001F600", ""])
        return "str 0 " + (".".join(str(ord(c)) for c in s) or "-")
    if r < 0.95:
        return "bool %d" % rng.randrange(2)
    return "int %d" % rng.choice([0, 1, 42, 65535])


def xlsb_case(rng, cid):
    wb = gen_wb(rng, "xlsb")
    n = len(wb["sheets"])
    ridn = list(range(1, n + 1)); rng.shuffle(ridn)
    filen = list(range(1, n + 1)); rng.shuffle(filen)
    sheets, rels, parts, cells_of = [], [], [], {}
    nonconv = 0
    for i, (name, v, k) in enumerate(wb["sheets"]):
        rid = rng.choice(["rId%d", "rId%d", "R%dx", "é%d"]) % ridn[i]
        part = mg.gen_part(rng, k, filen[i], "bin", allow_xl_prefix=True)
        talt = int(rng.random() < 0.3)
        rels.append((rid, part, mg.KIND_TYPE[k][talt]))
        sheets.append(":".join([hxs(name), v, k, hx(rid), hx(part), str(rng.choice([i + 1, 7 * i + 3, 4294967295])),
                                str(talt)]))
        cells = mg.sheet_cells(rng)
        if k == "ws":
            cells_of[name] = cells
        parts.append(("xl/" + part, mg.xlsb_sheet_bin(cells)))
        nonconv += not part.startswith(mg.KIND_DIR[k] + "/")
    rels += [("rIdS", "styles.bin", mg.NS_REL + "/styles"),
             ("rIdT", "theme/theme1.xml", mg.NS_REL + "/theme")][:rng.randrange(3)]
    rng.shuffle(rels)
    nxti = rng.choice([0, n, n, 2 * n]) if n else 0
    # the EXTERNALS block: the supporting links — BrtSupSelf, BrtSupSame, BrtSupAddin, BrtSupBookSrc (another
    # workbook) — any number of them in any order; XTI.iSupBook counts them.  An XTI names a sheet or a span of
    # sheets First:Last of THIS workbook exactly when its link is BrtSupSelf / BrtSupSame (seed C16-I: an
    # add-in link in front of BrtSupSelf)
    links = rng.choice([["self"], ["self"], ["self", "ext"], ["addin", "self"], ["ext", "addin", "self"],
                        ["same", "ext", "self"], ["ext", "self", "addin", "ext"], ["addin", "addin", "ext", "self", "same"]])
    if rng.random() < 0.3:
        links = list(links); rng.shuffle(links)
    local = [i for i, l in enumerate(links) if l in ("self", "same")]
    def isup():
        if rng.random() < 0.93:
            return rng.choice(local)
        return rng.choice([i for i in range(len(links) + 1) if i not in local])     # not in the domain
    xtis = [(isup(), j, j if rng.random() < 0.7 else rng.randrange(n)) for j in (rng.randrange(n) for _ in range(nxti))]
    link_args = ["%s:%s" % (l, ((struct.pack("<I", 5 + len(str(i))) + ("rIdE%d" % i).encode("utf-16le")).hex() if l == "ext" else "-")) for i, l in enumerate(links)]
    names = []
    for j, dn in enumerate(wb["dnames"]):
        # PtgName indexes the whole name table: forward references (Excel stores the names sorted) as well
        names.append(":".join([hxs(dn), gen_expr(rng, len(xtis), len(wb["dnames"])), str(rng.choice([0, 1, 0x20])),
                               str(rng.choice([0, 65])), str(rng.choice([4294967295, 0, 1]))]))
    junk1 = rng.choice([[], [], [(128, bytes(range(20)))],
                        [(135, b""), (158, bytes(29)), (136, b"")],
                        [(1025, bytes(200))], [(2071, bytes(130)), (534, b"\x01")]])
    junk2 = rng.choice([[], [], [(3000, b"\x01\x02\x03")], [(2071, bytes(130))], [(1, b"")]])
    endt = rng.choice([157, 157, 132, 549, 397, 384, 154, 594, 553, 155])
    if endt == 132:
        tail = b"\x00"
    else:
        tail = b"\x02\x00\x00" + mg.brec(0x0084)
    args = [str(int(wb["d1904"])), str(int(rng.random() < 0.5)), str(rng.choice([0, 0, 1, 64, 127])),
            (struct_pack_prop(rng)).hex() or "-", recs_wire(junk1), recs_wire(junk2), str(endt),
            tail.hex(), lst(["%s:%s:%s" % (hx(a), hx(b), hxs(t)) for a, b, t in rels]), lst(sheets),
            lst(link_args), lst(["%d:%d:%d" % x for x in xtis]), lst(names)]
    return {"id": cid, "fmt": "xlsb", "links": links, "xtis": xtis, "wb": wb, "line": "%s\tmeta\txlsb\t%s" % (cid, "\t".join(args)),
            "parts": parts, "cells": cells_of, "nonconv": nonconv}


def struct_pack_prop(rng):
    import struct
    return rng.choice([b"", b"\x00\x00\x00" + struct.pack("<I", 124226) + mg.wide(""),
                       b"\x01\x00\x00" + struct.pack("<I", 0) + mg.wide("ThisWorkbook")])


def xlsb_build(case, ans, rng, d):
    f = ans.split("|")
    rels_xml = mg.serialise(unwire(f[0]), rng)
    path = os.path.join(d, case["id"] + ".xlsb")
    open(path, "wb").write(mg.xlsb_file(rels_xml, bytes.fromhex(f[1]), case["parts"], rng))
    return path, f[2], f[3], f[4], f[5]


# ------------------------------------------------------------------ xls
XLS_DT = {"ws": 0x0010, "chart": 0x0020, "mac": 0x0040, "vba": 0x0006}


def xls_case(rng, cid, known_ok=True):
    wb = gen_wb(rng, "xls")
    n = len(wb["sheets"])
    tail, sheets, cells_of = b"", [], {}
    order = list(range(n)); rng.shuffle(order)          # substreams in another order than the sheets
    pos = {}
    for i in order:
        name, v, k = wb["sheets"][i]
        cells = mg.sheet_cells(rng)
        cells_of[name] = cells
        pos[i] = len(tail)
        tail += mg.xls_sheet_substream(cells, XLS_DT[k])
    for i, (name, v, k) in enumerate(wb["sheets"]):
        wide = 1 if (any(ord(c) > 255 for c in name) or rng.random() < 0.3) else 0
        sheets.append(":".join([hxs(name), v, k, str(pos[i]), str(wide),
                                str(rng.choice([0, 0, 1, 3, 16, 32, 63, rng.randrange(64)]))]))
    nxti = rng.choice([n, n, 2 * n]) if n else 0
    if n and rng.random() < 0.05:
        nxti = rng.choice([1371, 1380, 2745])          # more than one ExternSheet record holds (audit 2, XLS-5)
    # an XTI names a sheet or a span of sheets First:Last (itabLast another sheet; now and then a value that is
    # no sheet: the reference then reads as its first sheet)
    xtis = [(0, j, j if rng.random() < 0.7 else rng.choice([rng.randrange(n), rng.randrange(n), n + 3, 65535]))
            for j in (rng.randrange(n) for _ in range(nxti))]
    # how the XTI array is cut into the ExternSheet record and its CONTINUE records (anywhere, also inside an XTI)
    nb_ = 6 * len(xtis)
    if nb_ > 8220:
        xcuts = [8220] * ((nb_ - 1) // 8220)
    elif xtis and rng.random() < 0.3:
        cs_ = sorted(rng.randrange(0, nb_ + 1) for _ in range(rng.choice([1, 1, 2, 3])))
        xcuts = [b_ - a_ for a_, b_ in zip([0] + cs_, cs_)]
    else:
        xcuts = []
    names = []
    dn = wb["dnames"] if xtis else []
    wb["dnames"] = dn
    XLS_BUILTIN = ["Consolidate_Area", "Auto_Open", "Auto_Close", "Extract", "Database", "Criteria", "Print_Area",
                   "Print_Titles", "Recorder", "Data_Form", "Auto_Activate", "Auto_Deactivate", "Sheet_Title", "_FilterDatabase"]
    dn = [("_xlnm." + rng.choice(XLS_BUILTIN)) if rng.random() < 0.25 else nm for nm in dn]
    dn = [nm for i, nm in enumerate(dn) if nm not in dn[:i]]
    wb["dnames"] = dn
    def xcref(rel):
        return "%d %d %d %d" % (rng.choice([0, 1, 9, 65535]), rng.choice([0, 1, 25, 26, 255, 16383]),
                                int(rel and rng.random() < 0.7), int(rel and rng.random() < 0.7))
    def xexpr(depth=0):
        """the value of a name: any expression of C14's grammar; mostly what Excel writes for names"""
        rel = rng.random() < 0.3
        r = rng.random()
        ix = rng.randrange(len(xtis)) if len(xtis) <= 1370 or rng.random() < 0.5 else rng.randrange(1370, len(xtis))
        if r < 0.25:
            return "ref3 %s %d %s" % (rng.choice("rva"), ix, xcref(rel))
        if r < 0.5:
            return "area3 %s %d %s %s" % (rng.choice("rva"), ix, xcref(rel), xcref(rel))
        if r < 0.58:
            return "%s %s %d %s" % (rng.choice([("referr3", 4), ("areaerr3", 8)])[0], rng.choice("rva"), ix, "0.0.0.0") \
                if rng.random() < 0.5 else "areaerr3 %s %d 0.0.0.0.255.255.0.0" % (rng.choice("rva"), ix)
        if depth < 2 and r < 0.72:
            # Print_Titles with rows and columns / a multi-area Print_Area: PtgMemFunc (or PtgMemArea …) + union
            return "mem %s %s %d bin %d %s %s" % (rng.choice("rva"), rng.choice(["func", "func", "area", "nomem", "err"]),
                                                  rng.choice([0, 0, 0x17, 0xDEADBEEF]), rng.choice([16, 16, 15, 17]),
                                                  xexpr(2), xexpr(2))
        if depth < 2 and len(dn) > 0 and r < 0.82:
            return "bin %d name %s %d %s" % (rng.choice([3, 5, 8]), rng.choice("rv"), rng.randrange(1, len(dn) + 1), xexpr(depth + 1))
        if depth < 2 and r < 0.88:
            return "par " + xexpr(depth + 1)
        if r < 0.93:
            s_ = rng.choice(["ab", "a\"b", "é", ""])
            return "str 0 " + (".".join(str(ord(c_)) for c_ in s_) or "-")
        if r < 0.97:
            return "int %d" % rng.choice([0, 1, 42, 65535])
        return "ref3 %s %d %s" % (rng.choice("rva"), ix, xcref(rel))
    for nm in dn:
        x = xexpr()
        wide = 1 if (any(ord(c) > 255 for c in nm) or rng.random() < 0.3) else 0
        # fBuiltin (0x20) goes with a built-in name (stored as its one-character id, MS-XLS 2.5.114)
        flags = rng.choice([0, 1, 0x2000]) | (0x20 if nm.startswith("_xlnm.") and rng.random() < 0.9 else 0)
        # NameParsedFormula = rgce ++ rgcb: extra data behind the tokens in a quarter of the names (audit 2, XLS-4)
        rgcb = b""
        if rng.random() < 0.25:
            rgcb = rng.choice([struct.pack("<HHHHH", 1, 0, 1, 0, 0), b"\x00\x00\x00\x02\x09\x00\x00x;1234567", b"\x3a",
                               bytes(rng.randrange(256) for _ in range(rng.randrange(1, 30)))])
        names.append(":".join([hxs(nm), x, str(wide), str(flags), str(rng.choice([0, 65])),
                               str(rng.choice([0, 1])), rgcb.hex() or "-"]))
    style = mg.xls_style_records()
    j0 = rng.choice([[], [(0x00E1, b"\xb0\x04"), (0x005C, b" " * 112)], [(0x013D, b"\x01\x00\x02\x00")]])
    j1 = style + rng.choice([[], [(0x0031, b"\xc8\x00\x00\x00\xff\x7f\x90\x01\x00\x00\x00\x00\x00\x00\x05\x01A\x00r\x00i\x00a\x00l\x00")]])
    j2 = rng.choice([[], [], [(0x008C, b"\x01\x00\x01\x00")], [(0x00FF, b"")]])
    j3 = rng.choice([[], [], [(0x00FF, b"\x00\x00")], [(0x01C1, bytes(8))]])
    # the CodePage record: where every producer writes it (behind BOF / InterfaceHdr / WriteAccess),
    # of any value; sometimes absent, sometimes elsewhere among the globals, sometimes twice
    r = rng.random()
    if r < 0.7:
        j0 = j0 + [mg.codepage_record(rng)]
    elif r < 0.8:
        j0 = [mg.codepage_record(rng)] + j0
    if rng.random() < 0.12:
        which = rng.choice([1, 2, 3])
        extra = [mg.codepage_record(rng)]
        if which == 1:
            j1 = j1 + extra
        elif which == 2:
            j2 = j2 + extra
        else:
            j3 = extra + j3
    wb["codepages"] = [struct.unpack("<H", b[:2])[0] for t, b in j0 + j1 + j2 + j3 if t == 0x0042]
    args = [str(int(wb["d1904"])), str(int(rng.random() < 0.5)), recs_wire(j0), recs_wire(j1), recs_wire(j2),
            recs_wire(j3), tail.hex() or "-", lst(sheets), lst(["%d:%d:%d" % x for x in xtis]),
            ".".join(map(str, xcuts)) or "-", lst(names)]
    return {"id": cid, "fmt": "xls", "wb": wb, "line": "%s\tmeta\txls\t%s" % (cid, "\t".join(args)),
            "cells": cells_of}


def xls_build(case, ans, rng, d):
    f = ans.split("|")
    path = os.path.join(d, case["id"] + ".xls")
    open(path, "wb").write(mg.xls_file(bytes.fromhex(f[0])))
    return path, f[1], f[2], f[3], f[4]


# ------------------------------------------------------------------ ods
def junk_events_ods(rng):
    return rng.choice([[], [], [O], [T("\n  ")],
                       [S("style:style", [("style:name", "co1"), ("style:family", "table-column")]),
                        S("style:table-column-properties", [("style:column-width", "2cm")]),
                        E("style:table-column-properties"), E("style:style")],
                       [S("table:calculation-settings", [("table:use-regular-expressions", "false")]),
                        E("table:calculation-settings")]])


def ods_case(rng, cid, known_ok=True):
    wb = gen_wb(rng, "ods")
    wb["d1904"] = False
    styles = [("ta1", "t"), ("ta2", "f"), ("ta3", "n"), ("t&<\"4", "f")]
    rng.shuffle(styles)
    styles = styles[:rng.randrange(2, 5)]
    if not any(d == "f" for _, d in styles):
        styles.append(("tah", "f"))
    vis_styles = [s for s, d in styles if d != "f"]
    hid_styles = [s for s, d in styles if d == "f"]
    sheets, contents, afters, lnames, lopts, strings_of = [], [], [], [], [], {}
    apool = [[], [], [("table:print", "false")], [("table:protected", "true"), ("x", "a<b")]]
    npool = [[], [], [("table:base-cell-address", "$S.$A$1")], [("table:range-usable-as", "none")]]
    pretty = rng.random() < 0.4            # an indented document
    def name_item(dn):
        text = rng.choice(["$S.$A$1", "$'a b'.$A$1:.$B$2", "[.A1]+1", "x<y&\"z\"", ""]) \
            if rng.random() < 0.7 else mg.gen_name(rng, 20)
        pre_ = rng.choice(npool)
        return ":".join([hxs(dn), hxs(text), str(int(rng.random() < 0.4)), str(int(rng.random() < 0.5)),
                         attrs_wire(pre_), attrs_wire(disjoint(rng, npool, pre_))])
    def names_junk():
        if pretty:
            return [T("\n     ")]
        return rng.choice([[T("\n  ")], [O], [T("\n"), O, T(" ")]]) if (known_ok and rng.random() < 0.3) else []
    for name, v, k in wb["sheets"]:
        if v == "h":
            st = rng.choice(hid_styles)
        else:
            st = rng.choice(vis_styles + [None]) if vis_styles else None
        strs = [mg.gen_name(rng, 6) for _ in range(rng.randrange(0, 3))]
        strings_of[name] = strs
        cols = [S("table:table-column", [("table:number-columns-repeated", "3")]), E("table:table-column")]
        ws = [T("\n   ")] if pretty else []
        rows = mg.ods_rows_events(strs, pretty)
        # the names whose scope is this sheet (LibreOffice: every name made with "Scope: Sheet");
        # their element stands first among the children of the table (LibreOffice), last (the
        # schema's place) or between the columns and the rows; a name may repeat a global one
        ln = []
        if rng.random() < 0.5:
            for _ in range(rng.choice([1, 1, 2, 3])):
                ln.append(rng.choice(wb["dnames"]) if wb["dnames"] and rng.random() < 0.3 else mg.gen_name(rng, 8))
        place = rng.random()
        if place < 0.5:
            before, after = ws, ws + cols + rows
        elif place < 0.8:
            before, after = ws + cols + rows + ws, ws
        else:
            before, after = ws + cols + ws, rows + ws
        contents.append(wire(before) or "-")
        afters.append(wire(after) or "-")
        lnames.append(lst([name_item(x) for x in ln]))
        lopts.append("%d@%s" % (int(rng.random() < 0.7), wire(names_junk()) or "-"))
        pre_ = rng.choice(apool)
        sheets.append(":".join([hxs(name), v, k, hx(st) if st is not None else "-",
                                attrs_wire(pre_), attrs_wire(disjoint(rng, apool, pre_)),
                                str(int(rng.random() < 0.5))]))
        wb.setdefault("lnames", []).append(ln)
    names = [name_item(dn) for dn in wb["dnames"]]
    njunk = names_junk()
    junk = [T("\n  ")] if pretty else junk_events_ods(rng)
    args = [wire(junk) or "-", wire(njunk) or "-", str(int(rng.random() < 0.5)),
            lst(["%s:%s" % (hx(a), b) for a, b in styles]), lst(sheets), ";".join(contents) or "-", lst(names),
            ";".join(afters) or "-", ";".join(lnames) or "-", ";".join(lopts) or "-"]
    return {"id": cid, "fmt": "ods", "wb": wb, "line": "%s\tmeta\tods\t%s" % (cid, "\t".join(args)),
            "strings": strings_of}


def ods_build(case, ans, rng, d):
    f = ans.split("|")
    xml = mg.serialise(mg.add_ods_namespaces(unwire(f[0])), rng)
    path = os.path.join(d, case["id"] + ".ods")
    open(path, "wb").write(mg.ods_file(xml, rng))
    return path, f[1], f[2], f[3], f[4]


# ------------------------------------------------------------------ reading the real file
def open_calls(case):
    calls = ["sheets", "meta", "names"]
    rn = []
    for n, v, k in case["wb"]["sheets"]:
        if case["fmt"] in ("xls", "ods") or k == "ws":
            calls.append("range " + hx(n))
            rn.append(n)
    return ";".join(calls), rn


def impl_answer(case, out, range_names):
    """(canonical answer comparable with M / S, problems found in sheet_names / cells)"""
    if out is None:
        return "missing", []
    if out.startswith("openerr:"):
        return "err", []
    f = out.split(";;")
    if f[0] in ("panic", "alloc", "abort", "timeout") or len(f) < 3:
        return "panic" if f[0] != "timeout" else "timeout", []
    problems = []
    meta_names = ",".join(m.split(":")[0] for m in f[1].split(",")) if f[1] else ""
    if f[0] != meta_names:
        problems.append("sheet_names() %s differs from the names of sheets_metadata() %s" % (f[0], meta_names))
    flags = set()
    for k, n in enumerate(range_names):
        r = f[3 + k] if 3 + k < len(f) else "(missing)"
        pr = vlib.parse_range(r)
        if isinstance(pr, str):
            problems.append("worksheet_range(%r) = %s" % (n, r))
            continue
        cells = vlib.range_cells(pr)
        if case["fmt"] == "ods":
            want = {(i, 0): "S" + hx(s) for i, s in enumerate(case["strings"][n])}
            # rows holding the empty string are Empty cells
            want = {p: v for p, v in want.items() if v != "S"}
            got = cells
        else:
            want = mg.expected_cells(case["cells"][n])
            got = {}
            for p, v in cells.items():
                if v.startswith("D"):
                    b, dur, fl = v[1:].split(":")
                    flags.add(fl)
                    got[p] = "D%s:%s" % (b, dur)
                else:
                    got[p] = v
        if got != want:
            problems.append("worksheet_range(%r): cells %s, expected %s" % (n, sorted(got.items()), sorted(want.items())))
    if case["fmt"] == "ods":
        fl = "0"
    elif not flags:
        fl = "?"
    elif len(flags) == 1:
        fl = flags.pop()
    else:
        fl = "mixed"
    return "ok/%s/%s/%s" % (f[1], f[2], fl), problems


def same(a, b):
    """answers agree; '?' (no date cell was read) matches either flag"""
    if a == b:
        return True
    if a.startswith("ok/") and b.startswith("ok/") and (a.endswith("/?") or b.endswith("/?")):
        return a[:-1] == b[:-1]
    return False


BUILD = {"xlsx": xlsx_build, "xlsb": xlsb_build, "xls": xls_build, "ods": ods_build}
CASE = {"xlsx": xlsx_case, "xlsb": xlsb_case, "xls": xls_case, "ods": ods_case}


def run_structured(ctx, cases, tag):
    d = tmp(ctx)
    mans = vlib.run_exe(vlib.VM, [c["line"] for c in cases], timeout=900, shards=SHARDS)
    lines, info = [], {}
    for c in cases:
        a = mans.get(c["id"])
        if a is None or a.count("|") < 4:
            ctx.disagreements.append({"function": "meta-" + c["fmt"], "case": c["line"], "impl": "(not run)",
                                      "model": a})
            continue
        path, m, s, known, legal = BUILD[c["fmt"]](c, a, ctx.rng, d)
        calls, rn = open_calls(c)
        lines.append("%s\topen\t%s\t%s\t%s" % (c["id"], c["fmt"], path, calls))
        info[c["id"]] = (c, path, m, s, known, legal, rn)
    ians = ctx.run_impl(lines, timeout=900)
    # the same workbook opened by content (auto-detection) must be recognised as its format and list
    # the same sheets, metadata and names as through the format's own reader
    alines = ["%s_a\topen\tauto\t%s\tsheets;meta;names" % (cid, path) for cid, (c, path, m, s, known, legal, rn) in info.items()]
    olines = ["%s_o\topen\t%s\t%s\tsheets;meta;names" % (cid, c["fmt"], path) for cid, (c, path, m, s, known, legal, rn) in info.items()]
    aans = ctx.run_impl(alines + olines, timeout=900)
    for cid, (c, path, m, s, known, legal, rn) in info.items():
        a, o = aans.get(cid + "_a") or "abort", aans.get(cid + "_o") or "abort"
        ctx.count("auto_detection_agrees")
        if o.startswith("openerr") and a.startswith("openerr"):
            continue
        want = "auto=%s;;%s" % (c["fmt"], o)
        if a != want:
            ctx.violations.append({"case": {"line": alines[0].split("\t", 1)[0] + " open auto " + path, "file": path}, "expected": want[:1500],
                                   "actual": a[:1500], "model": None,
                                   "what": "a %s workbook opened through auto-detection is not reported like through its own reader" % c["fmt"]})
    for cid, (c, path, m, s, known, legal, rn) in info.items():
        impl, problems = impl_answer(c, ians.get(cid), rn)
        fmt = c["fmt"]
        ctx.traces += 1
        ctx.count("fmt:" + fmt)
        ctx.count("%s:sheets=%d" % (fmt, len(c["wb"]["sheets"])))
        ctx.count("%s:names=%d" % (fmt, len(c["wb"]["dnames"])))
        if fmt == "ods":
            ctx.count("ods:sheet-scoped-names=%d" % sum(len(x) for x in c["wb"].get("lnames", [])))
        ctx.count("%s:date1904=%d" % (fmt, int(c["wb"]["d1904"])))
        if fmt == "xls":
            cps = c["wb"].get("codepages", [])
            ctx.count("xls:codepage-records=%d" % len(cps))
            for cp in cps:
                ctx.count("xls:codepage=%d" % cp)
        for n, v, k in c["wb"]["sheets"]:
            ctx.count("%s:%s/%s" % (fmt, v, k))
        if c.get("nonconv"):
            ctx.count("%s:sheet-part-outside-its-conventional-folder" % fmt)
        if c.get("links") and c.get("xtis"):
            lk = c["links"]
            first_local = min(i for i, l in enumerate(lk) if l in ("self", "same"))
            ctx.count("xlsb:externals:links=%s;first_link_to_this_workbook_at_%d" % ("+".join(sorted(set(lk))), first_local))
            if any(x[0] > 0 and x[0] < len(lk) and lk[x[0]] in ("self", "same") for x in c["xtis"]):
                ctx.count("xlsb:externals:xti_of_this_workbook_with_link_index>0")
            if any(l == "addin" for l in lk[:first_local]):
                ctx.count("xlsb:externals:add-in link before the first link to this workbook")
        if len(c["wb"]["sheets"]) >= 2 or c["wb"]["dnames"]:
            ctx.nontrivial(c["line"].split("\t", 2)[2])
        ctx.sample({"fmt": fmt, "sheets": [list(x) for x in c["wb"]["sheets"]][:3], "impl_equals_model": same(impl, m)})
        case_desc = {"line": c["line"], "file": path}
        if not same(impl, m):
            ctx.disagreements.append({"function": "meta-" + fmt, "case": c["line"], "impl": impl, "model": m,
                                      "file": path})
        if legal != "1":
            ctx.count(fmt + ":outside-legal")
            keep_or_remove(path, keep=not same(impl, m))
            continue
        if known != "-":
            kid = KNOWN_IDS.get((fmt, known), "%s-%s" % (fmt, known))
            ctx.count("known-class:" + kid)
            if not same(impl, s):
                ctx.known_hits[kid] = case_desc
            keep_or_remove(path, keep=not same(impl, m))
            continue
        bad = None
        if not same(impl, s):
            bad = "metadata: expected %s, got %s" % (s, impl)
        elif problems:
            bad = problems[0]
        if bad:
            ctx.violations.append({"case": c["line"], "expected": s, "actual": impl, "model": m,
                                   "what": "%s file %s: %s" % (fmt, path, bad)})
        keep_or_remove(path, keep=bool(bad) or not same(impl, m))


def keep_or_remove(path, keep):
    if not keep:
        try:
            os.remove(path)
        except OSError:
            pass


# ------------------------------------------------------------------ raw cases (impl vs model)
def match_end(evs, k):
    """index of the End that closes the Start at k (None when unbalanced)"""
    depth = 0
    for i in range(k, len(evs)):
        if evs[i][0] == "S":
            depth += 1
        elif evs[i][0] == "E":
            depth -= 1
            if depth == 0:
                return i
    return None


def inside_tables(evs):
    """indices of the events inside <table:table> elements (rows and cells: C04's domain)"""
    out, depth = set(), 0
    for i, e in enumerate(evs):
        if e[0] == "E" and e[1] == "table:table":
            depth -= 1
        if depth > 0:
            out.add(i)
        if e[0] == "S" and e[1] == "table:table":
            depth += 1
    return out


def perturb_events(rng, evs):
    """small changes that keep the document well formed XML (elements stay balanced, attribute
    names stay unique); a truncation leaves elements open, which quick-xml reports as plain Eof"""
    evs = list(evs)
    if not evs:
        return evs
    for _ in range(rng.choice([1, 1, 2])):
        if not evs:
            break
        k = rng.randrange(len(evs))
        if k in inside_tables(evs):
            continue
        e = evs[k]
        r = rng.random()
        if e[0] == "S" and e[2] and r < 0.5:
            a = list(e[2])
            j = rng.randrange(len(a))
            rr = rng.random()
            if rr < 0.35:
                del a[j]
            elif rr < 0.7:
                a[j] = (a[j][0], rng.choice(["", "bogus", "Visible", "2", "TRUE", "rId99", "xl/other/x.xml",
                                              "worksheets", "../worksheets/sheet1.xml", "hidden", "veryHidden",
                                              "true", "false", "0", a[j][1] + "x",
                                              mg.KIND_TYPE["chart"][0], mg.KIND_TYPE["mac"][1],
                                              mg.KIND_TYPE["ws"][1], mg.NS_REL + "/styles"]))
            else:
                a[j] = (rng.choice(["name", "state", "r:id", "id", "table:name", "table:display", "Id", "Target",
                                    "Type", "type", "table:style-name", "date1904", "style:name", "relationships:id"]), a[j][1])
                if len(set(x for x, _ in a)) != len(a) or \
                   (mg.is_raw_attr(a[j][0]) and any(ch in a[j][1] for ch in "&<>\"'")):
                    a = list(e[2])
            evs[k] = ("S", e[1], tuple(a))
        elif r < 0.65:
            if e[0] == "S":
                m = match_end(evs, k)
                if m is not None:
                    if rng.random() < 0.5:
                        del evs[m]; del evs[k]            # unwrap the element
                    else:
                        del evs[k:m + 1]                  # drop the element with its content
            elif e[0] != "E":
                del evs[k]
        elif r < 0.8:
            if e[0] == "S":
                m = match_end(evs, k)
                if m is not None:
                    evs[k:k] = evs[k:m + 1]               # the element twice
            elif e[0] != "E":
                evs.insert(k, e)
        elif r < 0.88 and k > 0:
            evs = evs[:k]                                 # truncated document (Eof)
        elif e[0] != "E" or True:
            evs[k:k] = rng.choice([[T("x")], [O], [S("junk"), E("junk")]])
    return evs


def raw_cases(ctx, n, tag):
    """perturbed encodings of small legal workbooks: M and the real reader must still agree"""
    rng = ctx.rng
    d = tmp(ctx)
    base = []
    for k in range(n):
        fmt = ["xlsx", "xlsb", "xls", "ods"][k % 4]
        c = CASE[fmt](rng, "%s%d" % (tag, k), known_ok=False) if fmt != "xlsb" else xlsb_case(rng, "%s%d" % (tag, k))
        base.append(c)
    mans = vlib.run_exe(vlib.VM, [c["line"] for c in base], timeout=900, shards=SHARDS)
    mlines, ilines, meta = [], [], {}
    for c in base:
        a = mans.get(c["id"])
        if a is None or a.count("|") < 4:
            continue
        f = a.split("|")
        fmt, cid = c["fmt"], c["id"]
        path = os.path.join(d, cid + "r." + fmt)
        if fmt == "xlsx":
            rev, wev = unwire(f[0]), unwire(f[1])
            if rng.random() < 0.25:
                rev = perturb_events(rng, rev)
            else:
                wev = perturb_events(rng, wev)
            mlines.append("%s\tmeta\txlsxr\t%s\t%s" % (cid, wire(rev) or "-", wire(wev) or "-"))
            open(path, "wb").write(mg.xlsx_file(mg.serialise(rev, rng), mg.serialise(wev, rng), c["parts"], rng))
        elif fmt == "ods":
            ev = perturb_events(rng, unwire(f[0]))
            mlines.append("%s\tmeta\todsr\t%s" % (cid, wire(ev) or "-"))
            open(path, "wb").write(mg.ods_file(mg.serialise(mg.add_ods_namespaces(ev), rng), rng))
        elif fmt == "xlsb":
            rev = unwire(f[0])
            b = perturb_bytes(rng, bytes.fromhex(f[1]))
            if rng.random() < 0.15:
                rev = perturb_events(rng, rev)
            mlines.append("%s\tmeta\txlsbr\t%s\t%s" % (cid, wire(rev) or "-", b.hex() or "-"))
            open(path, "wb").write(mg.xlsb_file(mg.serialise(rev, rng), b, c["parts"], rng))
        else:
            full = bytes.fromhex(f[0])
            tail_len = sum(len(mg.xls_sheet_substream(c["cells"][n_], XLS_DT[k_])) for n_, v_, k_ in c["wb"]["sheets"])
            glob = perturb_bytes(rng, full[:len(full) - tail_len], keep_len=True)
            b = (glob + full[len(full) - tail_len:]).ljust(4096, b"\0")   # cfb_write pads the stream
            mlines.append("%s\tmeta\txlsr\t%s" % (cid, b.hex()))
            open(path, "wb").write(mg.xls_file(b))
        ilines.append("%s\topen\t%s\t%s\tsheets;meta;names" % (cid, fmt, path))
        meta[cid] = (fmt, path)
    mans2 = vlib.run_exe(vlib.VM, mlines, timeout=900, shards=SHARDS)
    # a document that ends inside <table:table> makes ods read_table spin for ever (it has no Eof
    # arm; the model answers "fuel"): such files are not handed to the real reader
    hang = set(cid for cid in meta if mans2.get(cid) == "fuel")
    for cid in hang:
        ctx.count("raw:ods:endless-read_table-predicted")
    ians = ctx.run_impl([l for l in ilines if l.split("\t", 1)[0] not in hang], timeout=120)
    for cid, (fmt, path) in meta.items():
        if cid in hang:
            keep_or_remove(path, keep=False)
            continue
        m = mans2.get(cid)
        out = ians.get(cid)
        impl, _ = impl_answer({"fmt": fmt, "wb": {"sheets": []}}, out, [])
        ctx.traces += 1
        ctx.count("raw:" + fmt)
        mm = m
        if m is not None and m.startswith("ok/"):
            mm = m.rsplit("/", 1)[0] + "/?"       # no cell is read in raw cases
            ctx.count("raw:%s:model-ok" % fmt)
        else:
            ctx.count("raw:%s:model-%s" % (fmt, m))
        if impl.startswith("ok/"):
            impl = impl.rsplit("/", 1)[0] + "/?"
        # the xls sheet loop is not part of the model: a damaged BoundSheet position may make the
        # real reader fail inside a substream where the model only checks the slice bound
        if m == "unmodelled":
            ctx.count("raw:%s:outside-model (BIFF version / BOM in a relationship id)" % fmt)
            keep_or_remove(path, keep=False)
            continue
        if not same(impl, mm):
            if fmt == "xls" and mm is not None and mm.startswith("ok/") and impl in ("err", "panic"):
                ctx.count("raw:xls:sheet-loop-outside-model")
            elif mm == "fuel" and impl == "timeout":
                ctx.count("raw:ods:endless-read_table")
            else:
                ctx.disagreements.append({"function": "meta-raw-" + fmt, "case": mlines_of(mlines, cid),
                                          "impl": impl, "model": m, "file": path})
                continue
        keep_or_remove(path, keep=False)


def mlines_of(mlines, cid):
    for l in mlines:
        if l.startswith(cid + "\t"):
            return l
    return cid


def perturb_bytes(rng, b, keep_len=False):
    b = bytearray(b)
    if not b:
        return bytes(b)
    r = rng.random()
    if r < 0.6 or keep_len:
        for _ in range(rng.choice([1, 1, 2, 3])):
            k = rng.randrange(len(b))
            b[k] = rng.choice([0, 1, 2, 3, 0xFF, 0x7F, 0x80, b[k] ^ (1 << rng.randrange(8)), rng.randrange(256)])
    elif r < 0.85:
        b = b[:rng.randrange(len(b))]
    else:
        k = rng.randrange(len(b))
        del b[k:k + rng.randrange(1, 4)]
    return bytes(b)


# ------------------------------------------------------------------ corpus (fixed cases)
def corpus(ctx):
    """deterministic boundary cases: zero sheets, 31-character names, every visibility x kind"""
    import random
    rng = random.Random(16)
    cases = []
    for fmt in ("xlsx", "xlsb", "xls", "ods"):
        for k in range(6):
            cases.append(CASE[fmt](rng, "k%s%d" % (fmt, k)) if fmt == "xlsb" else CASE[fmt](rng, "k%s%d" % (fmt, k), known_ok=(k >= 3)))
    cases += ods_local_names_corpus()
    return cases


def ods_local_names_corpus():
    """the former defect ODS-2 (notes/AUDIT2.md): sheet-scoped names, written LibreOffice's way
    (first child of the table) and where the schema puts them (last child), one of them with the
    name of a global one; expected: every name, in document order"""
    def item(n, t, expr=0):
        return ":".join([hxs(n), hxs(t), str(expr), "0", "-", "-"])
    rows = wire(mg.ods_rows_events(["a"]))
    out = []
    for cid, place in (("kodsL0", "first"), ("kodsL1", "last")):
        before, after = ("-", rows) if place == "first" else (rows, "-")
        sheets = [":".join([hxs("S1"), "v", "ws", "-", "-", "-", "0"]), ":".join([hxs("S2"), "v", "ws", "-", "-", "-", "0"]),
                  ":".join([hxs("S3"), "v", "ws", "-", "-", "-", "0"])]
        lnames = [lst([item("loc", "$S1.$A$1:.$B$1"), item("glob", "[.A1]*2", 1)]), "-", lst([item("loc3", "$S3.$C$3")])]
        args = ["-", "-", "0", "-", lst(sheets), ";".join([before] * 3), lst([item("glob", "$S1.$A$1")]),
                ";".join([after] * 3), ";".join(lnames), ";".join(["1@-", "1@-", "0@" + wire([T("\n  ")])])]
        wb = {"sheets": [("S1", "v", "ws"), ("S2", "v", "ws"), ("S3", "v", "ws")], "dnames": ["glob"], "d1904": False,
              "lnames": [["loc", "glob"], [], ["loc3"]]}
        out.append({"id": cid, "fmt": "ods", "wb": wb, "line": "%s\tmeta\tods\t%s" % (cid, "\t".join(args)),
                    "strings": {"S1": ["a"], "S2": ["a"], "S3": ["a"]}})
    return out


def batch(ctx, n, tag):
    cases = []
    for k in range(n):
        fmt = ["xlsx", "xlsb", "xls", "ods"][k % 4]
        cases.append(CASE[fmt](ctx.rng, "%s%d" % (tag, k)))
    run_structured(ctx, cases, tag)


def run_fixtures_xls(ctx):
    """every .xls / .xla fixture of the repository: sheets_metadata / defined_names of the real
    reader against Meta.xls_parse_workbook on its Workbook stream.  Corpus rule (audit 2): a
    fixture on which the model answers 'unmodelled' (a BIFF5 BOF) is listed by name in the
    evidence; tests/sheet_name_parsing.xls (BIFF8 with CodePage 1252, the file that showed audit-2
    finding XLS-1) is pinned to its sheet list."""
    import pwgen
    pinned = {"sheet_name_parsing.xls": "ok/%s:v:ws//?" % hxs("Sheet1")}
    mlines, ilines, names = [], [], {}
    for ext, path in vlib.fixtures({"xls", "xla"}):
        name = os.path.basename(path)
        cid = "fx_" + name.replace(".", "_").replace(" ", "_")
        try:
            data = open(path, "rb").read()
            st = pwgen.cfb_stream(data, "Workbook") or pwgen.cfb_stream(data, "Book")
            vba = pwgen.cfb_dir_chain(data) is not None and b"_\0V\0B\0A\0_\0P\0R\0O\0J\0E\0C\0T\0_\0C\0U\0R\0" in pwgen.cfb_dir_chain(data)[1]
        except Exception:
            st, vba = None, False
        if st is None:
            vlib.fixture_report(ctx, name, "no-workbook-stream (damaged container: C13's domain)")
            continue
        mlines.append("%s\tmeta\txlsr\t%s" % (cid, st.hex()))
        ilines.append("%s\topen\txls\t%s\tsheets;meta;names" % (cid, path))
        names[cid] = (name, vba)
    mans = vlib.run_exe(vlib.VM, mlines, timeout=900)
    ians = ctx.run_impl(ilines, timeout=300)
    for cid, (name, vba) in names.items():
        m = mans.get(cid)
        impl, _ = impl_answer({"fmt": "xls", "wb": {"sheets": []}}, ians.get(cid), [])
        ctx.traces += 1
        mm = (m.rsplit("/", 1)[0] + "/?") if m is not None and m.startswith("ok/") else m
        ii = (impl.rsplit("/", 1)[0] + "/?") if impl.startswith("ok/") else impl
        if m == "unmodelled":
            vlib.fixture_report(ctx, name, "unmodelled", "BOF of a BIFF version other than 8")
        elif same(ii, mm) or (mm is not None and mm.startswith("ok/") and ii in ("err", "panic") and vba):
            # a workbook with a VBA project: Xls::new reads the project first (C18's domain)
            vlib.fixture_report(ctx, name, "agree", ii[:3])
            ctx.nontrivial(cid + ii)
        elif mm is not None and mm.startswith("ok/") and ii in ("err", "panic"):
            vlib.fixture_report(ctx, name, "sheet-loop-outside-model", ii)
        else:
            vlib.fixture_report(ctx, name, "DISAGREE")
            ctx.disagreements.append({"function": "meta-fixture-xls", "case": cid, "impl": impl, "model": m, "file": name})
        if name in pinned and ii != pinned[name]:
            ctx.violations.append({"case": "repository fixture tests/%s" % name, "expected": pinned[name], "actual": ii,
                                   "model": m, "what": "xls file %s: sheet list of the fixture (BIFF8 with CodePage 1252, audit-2 XLS-1)" % name})


def run(ctx):
    run_structured(ctx, corpus(ctx), "k")
    run_fixtures_xls(ctx)
    batch(ctx, ctx.scale(1600, 24000), "s")
    raw_cases(ctx, ctx.scale(800, 12000), "r")


def search(ctx):
    batch(ctx, ctx.scale(6000, 40000), "x")
    raw_cases(ctx, ctx.scale(2000, 12000), "y")


def replay(ctx, rep):
    """re-open the file kept from the failing run and compare sheets_metadata / defined_names with
    the expectation recorded in the replay (0 = the implementation now agrees)"""
    import re
    case = rep.get("case") or ""
    print("case:", case[:300])
    print("what:", rep.get("what"))
    m = re.search(r"(xlsx|xlsb|xls|ods) file (\S+?):", rep.get("what") or "")
    if not m or not os.path.exists(m.group(2)):
        print("the generated file is gone; re-run ./check C16 to regenerate a failing input")
        return 1
    fmt, path = m.group(1), m.group(2)
    out = ctx.run_impl(["r\topen\t%s\t%s\tsheets;meta;names" % (fmt, path)]).get("r")
    impl, _ = impl_answer({"fmt": fmt, "wb": {"sheets": []}}, out, [])
    exp = rep.get("expected") or ""
    if impl.startswith("ok/"):
        impl = impl.rsplit("/", 1)[0] + "/?"
    print("expected:", exp[:400])
    print("actual  :", impl[:400])
    return 0 if same(impl, exp) else 1
