(* XmlText_proofs: proofs about the event-level models of XmlText.v (property C19). *)
From Calamine Require Import Prelude XmlText.
Open Scope N_scope.

(* ====================================================================================== *)
(*                                   names and strings                                     *)
(* ====================================================================================== *)
Lemma str_eqb_refl : forall a, str_eqb a a = true.
Proof. induction a as [|x a IH]; [reflexivity|]. cbn [str_eqb]. rewrite N.eqb_refl, IH. reflexivity. Qed.

Lemma str_eqb_eq : forall a b, str_eqb a b = true <-> a = b.
Proof.
  induction a as [|x a IH]; intros [|y b]; cbn [str_eqb]; split; intro H;
    try reflexivity; try discriminate.
  - apply andb_true_iff in H. destruct H as [H1 H2]. apply N.eqb_eq in H1. apply IH in H2.
    subst. reflexivity.
  - inversion H; subst. rewrite N.eqb_refl. cbn [andb]. apply IH. reflexivity.
Qed.

Lemma str_eqb_app_head : forall p a b, str_eqb (p ++ a) (p ++ b) = str_eqb a b.
Proof.
  induction p as [|x p IH]; intros a b; [reflexivity|].
  cbn [app str_eqb]. rewrite N.eqb_refl, IH. reflexivity.
Qed.

(* qualified names under the same prefix compare like their local parts *)
Lemma str_eqb_qn : forall p a b, str_eqb (qn p a) (qn p b) = str_eqb a b.
Proof.
  intros [|x p] a b; [reflexivity|]. unfold qn.
  rewrite str_eqb_app_head. cbn [str_eqb]. rewrite N.eqb_refl. reflexivity.
Qed.

Lemma after_colon_prefix : forall p l, no_colon p = true ->
  after_colon (p ++ COLON :: l) = Some l.
Proof.
  induction p as [|x p IH]; intros l H.
  - cbn [app after_colon]. rewrite N.eqb_refl. reflexivity.
  - cbn [no_colon forallb] in H. apply andb_true_iff in H. destruct H as [H1 H2].
    cbn [app after_colon]. destruct (x =? COLON); [discriminate|]. apply IH. exact H2.
Qed.

Lemma after_colon_none : forall l, no_colon l = true -> after_colon l = None.
Proof.
  induction l as [|x l IH]; intro H; [reflexivity|].
  cbn [no_colon forallb] in H. apply andb_true_iff in H. destruct H as [H1 H2].
  cbn [after_colon]. destruct (x =? COLON); [discriminate|]. apply IH. exact H2.
Qed.

(* the local name of a prefixed name is the local part *)
Lemma local_name_qn : forall p l, no_colon p = true -> no_colon l = true ->
  local_name (qn p l) = l.
Proof.
  intros [|x p] l Hp Hl; unfold local_name, qn.
  - rewrite after_colon_none by assumption. reflexivity.
  - rewrite after_colon_prefix by assumption. reflexivity.
Qed.

(* evaluate comparisons and local names of closed names *)
Ltac sc_once :=
  repeat match goal with
  | |- context [local_name ?a] =>
      let v := eval vm_compute in (local_name a) in
      let w := eval vm_compute in (no_colon v) in
      match w with true => change (local_name a) with v | false => change (local_name a) with v end
  | |- context [str_eqb ?a ?b] =>
      let v := eval vm_compute in (str_eqb a b) in
      match v with
      | true => change (str_eqb a b) with true
      | false => change (str_eqb a b) with false
      end
  end.
Ltac sc := repeat (progress (sc_once; cbn [andb orb negb]; cbv beta iota)).

(* ====================================================================================== *)
(*                                   ECMA-376 ST_Xstring                                   *)
(* ====================================================================================== *)
Lemma hex_agree : forall h, is_ascii_hexdigit h = true -> hexval h = Some (to_digit16 h).
Proof.
  intros h H. unfold is_ascii_hexdigit, hexval, to_digit16 in *.
  destruct ((48 <=? h) && (h <=? 57)) eqn:E1.
  - assert (E : h <=? 57 = true) by lia. rewrite E. reflexivity.
  - destruct ((65 <=? h) && (h <=? 70)) eqn:E2.
    + assert (E : h <=? 57 = false) by lia. assert (E' : h <=? 70 = true) by lia.
      rewrite E, E'. reflexivity.
    + destruct ((97 <=? h) && (h <=? 102)) eqn:E3; [|discriminate].
      assert (E : h <=? 57 = false) by lia. assert (E' : h <=? 70 = false) by lia.
      rewrite E, E'. reflexivity.
Qed.

Lemma hex_disagree : forall h, is_ascii_hexdigit h = false -> hexval h = None.
Proof.
  intros h H. unfold is_ascii_hexdigit, hexval in *.
  destruct ((48 <=? h) && (h <=? 57)); [discriminate|].
  destruct ((65 <=? h) && (h <=? 70)); [discriminate|].
  destruct ((97 <=? h) && (h <=? 102)); [discriminate|]. reflexivity.
Qed.

Lemma to_digit16_lt : forall h, is_ascii_hexdigit h = true -> to_digit16 h < 16.
Proof.
  intros h H. unfold is_ascii_hexdigit, to_digit16 in *.
  destruct (h <=? 57) eqn:E1; [lia|]. destruct (h <=? 70) eqn:E2; lia.
Qed.

(* one step of either decoder, as an equation (the fixpoints do not unfold on open terms) *)
Lemma xunescape_cons : forall c s', xunescape (c :: s') =
  match s' with
  | x :: h1 :: h2 :: h3 :: h4 :: u :: r =>
    if (c =? 95) && (x =? 120) && (u =? 95) then
      match hexval h1, hexval h2, hexval h3, hexval h4 with
      | Some a, Some b, Some d, Some e =>
        let v := a * 4096 + b * 256 + d * 16 + e in
        if is_surrogate v then c :: xunescape s' else v :: xunescape r
      | _, _, _, _ => c :: xunescape s'
      end
    else c :: xunescape s'
  | _ => c :: xunescape s'
  end.
Proof. intros c s'. reflexivity. Qed.

Lemma ux_loop_cons : forall c s', ux_loop (c :: s') =
  match s' with
  | x :: h1 :: h2 :: h3 :: h4 :: u :: r =>
    if (c =? 95) && (x =? 120) && (u =? 95) then
      if forallb is_ascii_hexdigit [h1; h2; h3; h4] then
        match char_from_u32 (fold_left (fun a h => a * 16 + to_digit16 h) [h1; h2; h3; h4] 0) with
        | Some ch => ch :: ux_loop r
        | None => c :: ux_loop s'
        end
      else c :: ux_loop s'
    else c :: ux_loop s'
  | _ => c :: ux_loop s'
  end.
Proof. intros c s'. reflexivity. Qed.

(* the loop of the Rust function computes the specification's decoding *)
Lemma ux_loop_spec_len : forall n s, (length s <= n)%nat -> ux_loop s = xunescape s.
Proof.
  induction n as [|n IH]; intros s Hn.
  - destruct s; [reflexivity | cbn [length] in Hn; lia].
  - destruct s as [|c s']; [reflexivity|]. cbn [length] in Hn.
    rewrite ux_loop_cons, xunescape_cons.
    assert (IHs : ux_loop s' = xunescape s') by (apply IH; lia).
    destruct s' as [|x [|h1 [|h2 [|h3 [|h4 [|u r]]]]]]; cbv beta iota; try (rewrite IHs; reflexivity).
    assert (IHr : ux_loop r = xunescape r) by (apply IH; cbn [length] in Hn; lia).
    destruct ((c =? 95) && (x =? 120) && (u =? 95)); [|rewrite IHs; reflexivity].
    cbn [forallb]. rewrite andb_true_r.
    destruct (is_ascii_hexdigit h1) eqn:E1; [|rewrite (hex_disagree h1 E1), IHs; reflexivity].
    destruct (is_ascii_hexdigit h2) eqn:E2;
      [|rewrite (hex_agree h1 E1), (hex_disagree h2 E2), IHs; reflexivity].
    destruct (is_ascii_hexdigit h3) eqn:E3;
      [|rewrite (hex_agree h1 E1), (hex_agree h2 E2), (hex_disagree h3 E3), IHs; reflexivity].
    destruct (is_ascii_hexdigit h4) eqn:E4;
      [|rewrite (hex_agree h1 E1), (hex_agree h2 E2), (hex_agree h3 E3), (hex_disagree h4 E4), IHs;
        reflexivity].
    cbn [andb fold_left].
    rewrite (hex_agree h1 E1), (hex_agree h2 E2), (hex_agree h3 E3), (hex_agree h4 E4).
    pose proof (to_digit16_lt h1 E1). pose proof (to_digit16_lt h2 E2).
    pose proof (to_digit16_lt h3 E3). pose proof (to_digit16_lt h4 E4).
    cbv zeta.
    replace ((((0 * 16 + to_digit16 h1) * 16 + to_digit16 h2) * 16 + to_digit16 h3) * 16 + to_digit16 h4)
      with (to_digit16 h1 * 4096 + to_digit16 h2 * 256 + to_digit16 h3 * 16 + to_digit16 h4) by lia.
    set (v := to_digit16 h1 * 4096 + to_digit16 h2 * 256 + to_digit16 h3 * 16 + to_digit16 h4).
    assert (Hv : v < 65536) by (unfold v; lia).
    unfold char_from_u32, is_surrogate.
    assert (Hb : (1114111 <? v) = false) by lia. rewrite Hb, orb_false_r.
    destruct ((55296 <=? v) && (v <=? 57343)); [rewrite IHs | rewrite IHr]; reflexivity.
Qed.

Lemma ux_loop_spec : forall s, ux_loop s = xunescape s.
Proof. intro s. apply (ux_loop_spec_len (length s)). apply le_n. Qed.

(* the early return `if !s.contains("_x") { return s }` changes nothing *)
Lemma no_ux_id : forall s, contains_ux s = false -> xunescape s = s.
Proof.
  induction s as [|c s' IH]; intro H; [reflexivity|].
  cbn [contains_ux] in H. apply orb_false_iff in H. destruct H as [H1 H2].
  rewrite xunescape_cons, (IH H2).
  destruct s' as [|x [|h1 [|h2 [|h3 [|h4 [|u r]]]]]]; cbv beta iota; try reflexivity.
  destruct (c =? 95); [|reflexivity]. cbn [andb] in H1. rewrite H1. reflexivity.
Qed.

(* MAIN (ST_Xstring, M = S): the Rust decoder is the specification's decoding, for every string *)
Theorem unescape_xstring_spec : forall s, unescape_xstring s = xunescape s.
Proof.
  intro s. unfold unescape_xstring. destruct (contains_ux s) eqn:E; cbn [negb].
  - apply ux_loop_spec.
  - symmetry. apply no_ux_id. exact E.
Qed.

(* S on the writer's output *)
Lemma hexval_hexdigit : forall d, d < 16 -> hexval (hexdigit d) = Some d.
Proof.
  intros d H. unfold hexval, hexdigit. destruct (d <? 10) eqn:E.
  - assert (E1 : (48 <=? 48 + d) && (48 + d <=? 57) = true) by lia. rewrite E1. f_equal. lia.
  - assert (E1 : (48 <=? 55 + d) && (55 + d <=? 57) = false) by lia.
    assert (E2 : (65 <=? 55 + d) && (55 + d <=? 70) = true) by lia. rewrite E1, E2. f_equal. lia.
Qed.

Lemma xunescape_esc4 : forall c t, escapable c = true -> xunescape (esc4 c ++ t) = c :: xunescape t.
Proof.
  intros c t H. unfold escapable in H. apply andb_true_iff in H. destruct H as [Hc Hs].
  apply negb_true_iff in Hs. assert (Hc' : c < 65536) by lia.
  unfold esc4. cbn [app]. rewrite xunescape_cons. cbv beta iota.
  change ((95 =? 95) && (120 =? 120) && (95 =? 95)) with true. cbv beta iota.
  rewrite !hexval_hexdigit by lia. cbv zeta.
  replace (c / 4096 * 4096 + c / 256 mod 16 * 256 + c / 16 mod 16 * 16 + c mod 16) with c by lia.
  rewrite Hs. reflexivity.
Qed.

Lemma xunescape_plain : forall c t, (c =? 95) = false -> xunescape (c :: t) = c :: xunescape t.
Proof.
  intros c t H. rewrite xunescape_cons.
  destruct t as [|x [|h1 [|h2 [|h3 [|h4 [|u r]]]]]]; cbv beta iota; try reflexivity.
  rewrite H. reflexivity.
Qed.

(* MAIN (ST_Xstring, E then S): every string, written the way Excel writes it (with any choice of
   the characters to escape), denotes itself *)
Theorem xescape_roundtrip : forall must s, xunescape (xescape must s) = s.
Proof.
  intros must. induction s as [|c s IH]; [reflexivity|].
  unfold xescape in *. cbn [flat_map].
  destruct (c =? 95) eqn:E.
  - cbn [orb]. rewrite xunescape_esc4, IH; [reflexivity|].
    apply N.eqb_eq in E. subst c. reflexivity.
  - cbn [orb]. destruct (must c && escapable c) eqn:Em.
    + apply andb_true_iff in Em. destruct Em as [_ Em]. rewrite xunescape_esc4, IH by exact Em. reflexivity.
    + cbn [app]. rewrite xunescape_plain, IH by exact E. reflexivity.
Qed.

(* ====================================================================================== *)
(*                               xlsx read_string                                          *)
(* ====================================================================================== *)
(* run a segment of events that keeps the reader inside its loops *)
Fixpoint rs_steps (closing : str) (st : rs_state) (evs : list event) : option rs_state :=
  match evs with
  | [] => Some st
  | e :: r =>
    match rs_step closing st e with
    | Cont st' => rs_steps closing st' r
    | _ => None
    end
  end.

Lemma rs_run_steps : forall closing evs st st' rest,
  rs_steps closing st evs = Some st' ->
  rs_run closing st (evs ++ rest) = rs_run closing st' rest.
Proof.
  induction evs as [|e evs IH]; intros st st' rest H; cbn [rs_steps] in H.
  - inversion H; subst. reflexivity.
  - cbn [app rs_run]. destruct (rs_step closing st e); try discriminate. apply IH. exact H.
Qed.

Lemma rs_steps_app : forall closing a b st st1 st2,
  rs_steps closing st a = Some st1 -> rs_steps closing st1 b = Some st2 ->
  rs_steps closing st (a ++ b) = Some st2.
Proof.
  induction a as [|e a IH]; intros b st st1 st2 Ha Hb; cbn [rs_steps] in Ha.
  - inversion Ha; subst. exact Hb.
  - cbn [app rs_steps]. destruct (rs_step closing st e); try discriminate.
    eapply IH; eassumption.
Qed.

(* the reader keeps exactly what the content denotes *)
Lemma tc_mtext_text : forall tc, tc_mtext tc = tc_text tc.
Proof. intro tc. unfold tc_mtext, tc_text. apply unescape_xstring_spec. Qed.

(* inside <t>: every chunk is appended, Text and CDATA alike *)
Lemma rs_steps_in_t : forall closing rich tn tc v,
  rs_steps closing (RsInT rich tn v) (tc_events tc) = Some (RsInT rich tn (v ++ tc_raw tc)).
Proof.
  induction tc as [|c tc IH]; intro v.
  - cbn. rewrite app_nil_r. reflexivity.
  - unfold tc_events, tc_raw in *. cbn [map flat_map rs_steps].
    destruct c as [s|s|]; cbn [rs_step]; rewrite IH.
    + rewrite app_assoc. reflexivity.
    + rewrite app_assoc. reflexivity.
    + reflexivity.
Qed.

Lemma no_colon_t : no_colon n_t = true. Proof. reflexivity. Qed.
Lemma no_colon_r : no_colon n_r = true. Proof. reflexivity. Qed.
Lemma no_colon_rPh : no_colon n_rPh = true. Proof. reflexivity. Qed.
Lemma no_colon_rPr : no_colon n_rPr = true. Proof. reflexivity. Qed.
Lemma no_colon_phoneticPr : no_colon n_phoneticPr = true. Proof. reflexivity. Qed.

(* <t>…</t> met in the main loop outside phonetic runs, rich buffer active: appended *)
Lemma t_elt_rich : forall closing pfx preserve tc b, no_colon pfx = true ->
  rs_steps closing (RsOuter (Some b) false) (t_elt pfx preserve tc) =
  Some (RsOuter (Some (b ++ tc_mtext tc)) false).
Proof.
  intros closing pfx preserve tc b Hp. unfold t_elt, elt. cbn [rs_steps rs_step].
  rewrite (local_name_qn _ _ Hp no_colon_t). sc.
  eapply rs_steps_app; [apply rs_steps_in_t|].
  cbn [rs_steps rs_step app]. rewrite str_eqb_refl. reflexivity.
Qed.

(* <t>…</t> with no rich buffer: the early-return path starts *)
Lemma t_elt_plain : forall closing pfx preserve tc, no_colon pfx = true ->
  rs_steps closing (RsOuter None false) (t_elt pfx preserve tc) =
  Some (RsSkip (tc_mtext tc) 0).
Proof.
  intros closing pfx preserve tc Hp. unfold t_elt, elt. cbn [rs_steps rs_step].
  rewrite (local_name_qn _ _ Hp no_colon_t). sc.
  eapply rs_steps_app; [apply rs_steps_in_t|].
  cbn [rs_steps rs_step app]. rewrite str_eqb_refl. reflexivity.
Qed.

(* ---------- the early-return path: read_to_end_into(closing) ---------- *)
Definition skip_inert (closing : str) (e : event) : bool :=
  match e with
  | Start n _ => negb (str_eqb n closing)
  | End n => negb (str_eqb n closing)
  | _ => true
  end.

Lemma rs_steps_skip : forall closing evs v d,
  forallb (skip_inert closing) evs = true ->
  rs_steps closing (RsSkip v d) evs = Some (RsSkip v d).
Proof.
  induction evs as [|e evs IH]; intros v d H; [reflexivity|].
  cbn [forallb] in H. apply andb_true_iff in H. destruct H as [H1 H2].
  cbn [rs_steps]. destruct e as [n a|n|s|s|]; cbn [rs_step skip_inert] in *;
    try (apply IH; exact H2).
  - destruct (str_eqb n closing); [discriminate|]. apply IH. exact H2.
  - destruct (str_eqb n closing); [discriminate|]. apply IH. exact H2.
Qed.

Definition cl_ok (cl : str) : Prop := cl = n_si \/ cl = n_is.

Lemma tc_events_skip_inert : forall closing tc, forallb (skip_inert closing) (tc_events tc) = true.
Proof.
  induction tc as [|c tc IH]; [reflexivity|]. unfold tc_events in *. cbn [map forallb].
  rewrite IH. destruct c; reflexivity.
Qed.

Lemma t_elt_skip_inert : forall pfx cl preserve tc, cl_ok cl ->
  forallb (skip_inert (qn pfx cl)) (t_elt pfx preserve tc) = true.
Proof.
  intros pfx cl preserve tc Hcl. unfold t_elt, elt. cbn [forallb skip_inert].
  rewrite forallb_app. cbn [forallb skip_inert]. rewrite tc_events_skip_inert, !str_eqb_qn.
  destruct Hcl; subst cl; reflexivity.
Qed.

Lemma rpr_children_skip_inert : forall pfx cl rpr, cl_ok cl ->
  forallb (fun na => rpr_name_ok (fst na)) rpr = true ->
  forallb (skip_inert (qn pfx cl)) (flat_map (fun na => elt pfx (fst na) (snd na) []) rpr) = true.
Proof.
  induction rpr as [|[n a] rpr IH]; intros Hcl H; [reflexivity|].
  cbn [forallb fst] in H. apply andb_true_iff in H. destruct H as [H1 H2].
  cbn [flat_map fst snd elt app forallb skip_inert]. rewrite (IH Hcl H2), !str_eqb_qn.
  unfold rpr_name_ok in H1. repeat (apply andb_true_iff in H1; destruct H1 as [H1 ?]).
  destruct Hcl; subst cl.
  - destruct (str_eqb n n_si); [discriminate|]. reflexivity.
  - destruct (str_eqb n n_is); [discriminate|]. reflexivity.
Qed.

(* no child of a string item carries the item's own name: read_to_end_into passes over it *)
Lemma piece_skip_inert : forall pfx cl p, cl_ok cl -> legal_piece p = true ->
  forallb (skip_inert (qn pfx cl)) (piece_events pfx p) = true.
Proof.
  intros pfx cl p Hcl Hp. destruct p as [rpr pres tc|tc|].
  - unfold piece_events, elt at 1. cbn [forallb skip_inert legal_piece] in *.
    rewrite !forallb_app. rewrite (t_elt_skip_inert pfx cl pres tc Hcl).
    cbn [forallb skip_inert]. rewrite !str_eqb_qn.
    assert (Hr : forallb (skip_inert (qn pfx cl))
               (match rpr with
                | [] => []
                | _ => elt pfx n_rPr [] (flat_map (fun na => elt pfx (fst na) (snd na) []) rpr)
                end) = true).
    { destruct rpr as [|na rpr']; [reflexivity|]. unfold elt at 1. cbn [forallb skip_inert].
      rewrite forallb_app, (rpr_children_skip_inert pfx cl (na :: rpr') Hcl Hp).
      cbn [forallb skip_inert]. rewrite !str_eqb_qn. destruct Hcl; subst cl; reflexivity. }
    rewrite Hr. destruct Hcl; subst cl; reflexivity.
  - unfold piece_events, elt at 1. cbn [forallb skip_inert].
    rewrite forallb_app. rewrite (t_elt_skip_inert pfx cl false tc Hcl).
    cbn [forallb skip_inert]. rewrite !str_eqb_qn. destruct Hcl; subst cl; reflexivity.
  - unfold piece_events, elt. cbn [forallb skip_inert app]. rewrite !str_eqb_qn.
    destruct Hcl; subst cl; reflexivity.
Qed.

Lemma pieces_skip_inert : forall pfx cl ps, cl_ok cl -> forallb legal_piece ps = true ->
  forallb (skip_inert (qn pfx cl)) (flat_map (piece_events pfx) ps) = true.
Proof.
  induction ps as [|p ps IH]; intros Hcl H; [reflexivity|].
  cbn [forallb] in H. apply andb_true_iff in H. destruct H as [H1 H2].
  cbn [flat_map]. rewrite forallb_app, IH by assumption.
  rewrite piece_skip_inert by assumption. reflexivity.
Qed.

Lemma phonetic_legal : forall ps, forallb is_phonetic ps = true -> forallb legal_piece ps = true.
Proof.
  induction ps as [|p ps IH]; intro H; [reflexivity|].
  cbn [forallb] in *. apply andb_true_iff in H. destruct H as [H1 H2]. rewrite (IH H2).
  destruct p; [discriminate|reflexivity|reflexivity].
Qed.

Lemma item_events_skip_inert : forall pfx cl f, cl_ok cl -> legal_form f = true ->
  forallb (skip_inert (qn pfx cl)) (item_events pfx f) = true.
Proof.
  intros pfx cl [preserve tc after|ps] Hcl Hl; cbn [item_events legal_form] in *.
  - rewrite forallb_app, (t_elt_skip_inert pfx cl preserve tc Hcl).
    apply pieces_skip_inert; [assumption | apply phonetic_legal; assumption].
  - apply pieces_skip_inert; assumption.
Qed.

(* plain form, any namespace prefix: the text of the first <t>, whatever phonetic data follows *)
Lemma read_string_plain : forall pfx cl preserve tc after rest,
  no_colon pfx = true -> cl_ok cl -> forallb is_phonetic after = true ->
  read_string (qn pfx cl) (item_events pfx (FPlain preserve tc after) ++ End (qn pfx cl) :: rest) =
  Ok (Some (tc_mtext tc), rest).
Proof.
  intros pfx cl preserve tc after rest Hp Hcl Ha. unfold read_string, item_events.
  rewrite <- app_assoc.
  rewrite (rs_run_steps _ _ _ _ _ (t_elt_plain (qn pfx cl) pfx preserve tc Hp)).
  rewrite (rs_run_steps _ _ _ _ _ (rs_steps_skip _ _ (tc_mtext tc) 0
             (pieces_skip_inert pfx cl after Hcl (phonetic_legal after Ha)))).
  cbn [rs_run rs_step]. rewrite str_eqb_refl. reflexivity.
Qed.

(* ---------- the rich path, any namespace prefix ---------- *)
Definition outer_inert (closing : str) (e : event) : bool :=
  match e with
  | Start n _ =>
    let l := local_name n in
    negb (str_eqb l n_r) && negb (str_eqb l n_rPh) && negb (str_eqb l n_t)
  | End n => negb (str_eqb n closing) && negb (str_eqb (local_name n) n_rPh)
  | _ => true
  end.

Lemma rs_steps_outer_inert : forall cl evs rich phon,
  forallb (outer_inert cl) evs = true ->
  rs_steps cl (RsOuter rich phon) evs = Some (RsOuter rich phon).
Proof.
  induction evs as [|e evs IH]; intros rich phon H; [reflexivity|].
  cbn [forallb] in H. apply andb_true_iff in H. destruct H as [H1 H2].
  cbn [rs_steps]. destruct e as [n a|n|s|s|]; cbn [rs_step outer_inert] in *;
    try (apply IH; exact H2).
  - cbv zeta in H1. destruct (str_eqb (local_name n) n_r); [discriminate|].
    destruct (str_eqb (local_name n) n_rPh); [discriminate|].
    destruct (str_eqb (local_name n) n_t); [discriminate|]. cbn [andb]. apply IH. exact H2.
  - destruct (str_eqb n cl); [discriminate|].
    destruct (str_eqb (local_name n) n_rPh); [discriminate|]. apply IH. exact H2.
Qed.

Lemma tc_events_outer_inert : forall cl tc, forallb (outer_inert cl) (tc_events tc) = true.
Proof.
  induction tc as [|c tc IH]; [reflexivity|]. unfold tc_events in *. cbn [map forallb].
  rewrite IH. destruct c; reflexivity.
Qed.

Lemma rpr_children_inert : forall pfx cl rpr, no_colon pfx = true -> cl_ok cl ->
  forallb (fun na => rpr_name_ok (fst na)) rpr = true ->
  forallb (outer_inert (qn pfx cl)) (flat_map (fun na => elt pfx (fst na) (snd na) []) rpr) = true.
Proof.
  induction rpr as [|[n a] rpr IH]; intros Hp Hcl H; [reflexivity|].
  cbn [forallb fst] in H. apply andb_true_iff in H. destruct H as [H1 H2].
  cbn [flat_map fst snd elt app forallb outer_inert]. rewrite (IH Hp Hcl H2).
  unfold rpr_name_ok in H1. repeat (apply andb_true_iff in H1; destruct H1 as [H1 ?]).
  rewrite (local_name_qn pfx n Hp H1), !str_eqb_qn.
  destruct (str_eqb n n_r); [discriminate|]. destruct (str_eqb n n_rPh); [discriminate|].
  destruct (str_eqb n n_t); [discriminate|].
  destruct Hcl; subst cl.
  - destruct (str_eqb n n_si); [discriminate|]. reflexivity.
  - destruct (str_eqb n n_is); [discriminate|]. reflexivity.
Qed.

Lemma rpr_block_inert : forall pfx cl rpr, no_colon pfx = true -> cl_ok cl ->
  forallb (fun na => rpr_name_ok (fst na)) rpr = true ->
  forallb (outer_inert (qn pfx cl))
    (match rpr with
     | [] => []
     | _ => elt pfx n_rPr [] (flat_map (fun na => elt pfx (fst na) (snd na) []) rpr)
     end) = true.
Proof.
  intros pfx cl rpr Hp Hcl H. destruct rpr as [|na rpr]; [reflexivity|].
  unfold elt at 1. cbn [forallb]. rewrite forallb_app.
  rewrite (rpr_children_inert pfx cl (na :: rpr) Hp Hcl H).
  cbn [forallb outer_inert]. rewrite (local_name_qn pfx n_rPr Hp no_colon_rPr), !str_eqb_qn.
  destruct Hcl; subst cl; reflexivity.
Qed.

(* <t> inside <rPh>: ignored *)
Lemma t_elt_phon : forall pfx cl preserve tc rich, no_colon pfx = true -> cl_ok cl ->
  rs_steps (qn pfx cl) (RsOuter rich true) (t_elt pfx preserve tc) = Some (RsOuter rich true).
Proof.
  intros pfx cl preserve tc rich Hp Hcl. unfold t_elt, elt. cbn [rs_steps rs_step].
  rewrite (local_name_qn pfx n_t Hp no_colon_t). sc.
  eapply rs_steps_app; [apply rs_steps_outer_inert, tc_events_outer_inert|].
  cbn [rs_steps rs_step]. rewrite (local_name_qn pfx n_t Hp no_colon_t), str_eqb_qn.
  destruct Hcl; subst cl; sc; reflexivity.
Qed.

Definition rich_step (acc : option str) (p : piece) : option str :=
  match p with
  | PRun _ _ tc => Some (unwrap_or_default acc ++ tc_mtext tc)
  | _ => acc
  end.
Definition rich_after (rich : option str) (ps : list piece) : option str :=
  fold_left rich_step ps rich.

Lemma piece_steps : forall pfx cl p rich, no_colon pfx = true -> cl_ok cl -> legal_piece p = true ->
  rs_steps (qn pfx cl) (RsOuter rich false) (piece_events pfx p) =
  Some (RsOuter (rich_step rich p) false).
Proof.
  intros pfx cl p rich Hp Hcl Hl. destruct p as [rpr pres tc|tc|]; unfold piece_events, elt at 1.
  - (* <r> *)
    cbn [rs_steps rs_step legal_piece] in *. rewrite (local_name_qn pfx n_r Hp no_colon_r). sc.
    eapply rs_steps_app.
    { eapply rs_steps_app.
      - apply rs_steps_outer_inert. apply rpr_block_inert; assumption.
      - apply t_elt_rich. exact Hp. }
    cbn [rs_steps rs_step rich_step unwrap_or_default].
    rewrite (local_name_qn pfx n_r Hp no_colon_r), str_eqb_qn.
    destruct Hcl; subst cl; sc; destruct rich; reflexivity.
  - (* <rPh> *)
    cbn [rs_steps rs_step]. rewrite (local_name_qn pfx n_rPh Hp no_colon_rPh). sc.
    eapply rs_steps_app; [apply t_elt_phon; assumption|].
    cbn [rs_steps rs_step rich_step]. rewrite (local_name_qn pfx n_rPh Hp no_colon_rPh), str_eqb_qn.
    destruct Hcl; subst cl; sc; reflexivity.
  - (* <phoneticPr/> *)
    cbn [app rs_steps rs_step rich_step].
    rewrite (local_name_qn pfx n_phoneticPr Hp no_colon_phoneticPr). sc.
    cbn [rs_step]. rewrite (local_name_qn pfx n_phoneticPr Hp no_colon_phoneticPr), str_eqb_qn.
    destruct Hcl; subst cl; sc; reflexivity.
Qed.

Lemma pieces_steps : forall pfx cl ps rich, no_colon pfx = true -> cl_ok cl ->
  forallb legal_piece ps = true ->
  rs_steps (qn pfx cl) (RsOuter rich false) (flat_map (piece_events pfx) ps) =
  Some (RsOuter (rich_after rich ps) false).
Proof.
  induction ps as [|p ps IH]; intros rich Hp Hcl H; [reflexivity|].
  cbn [forallb] in H. apply andb_true_iff in H. destruct H as [H1 H2].
  cbn [flat_map]. eapply rs_steps_app; [apply piece_steps; assumption|].
  unfold rich_after. cbn [fold_left]. apply IH; assumption.
Qed.

(* rich and empty items end at their own end tag under every prefix (repaired class F34) *)
Lemma read_string_rich : forall pfx cl ps rest, no_colon pfx = true -> cl_ok cl ->
  forallb legal_piece ps = true ->
  read_string (qn pfx cl) (item_events pfx (FRich ps) ++ End (qn pfx cl) :: rest) =
  Ok (rich_after None ps, rest).
Proof.
  intros pfx cl ps rest Hp Hcl H. unfold read_string, item_events.
  rewrite (rs_run_steps _ _ _ _ _ (pieces_steps pfx cl ps None Hp Hcl H)).
  cbn [rs_run rs_step]. rewrite str_eqb_refl. reflexivity.
Qed.

(* runs concatenate in order; phonetic pieces leave the buffer untouched *)
Definition piece_mtext (p : piece) : str :=
  match p with PRun _ _ tc => tc_mtext tc | _ => [] end.

Lemma no_run_mtext : forall ps,
  existsb (fun p => negb (is_phonetic p)) ps = false -> flat_map piece_mtext ps = [].
Proof.
  induction ps as [|p ps IH]; intro H; [reflexivity|].
  cbn [existsb] in H. apply orb_false_iff in H. destruct H as [H1 H2].
  cbn [flat_map]. rewrite (IH H2). destruct p; [discriminate|reflexivity|reflexivity].
Qed.

Lemma rich_after_spec : forall ps acc,
  rich_after acc ps =
  if existsb (fun p => negb (is_phonetic p)) ps
  then Some (unwrap_or_default acc ++ flat_map piece_mtext ps)
  else acc.
Proof.
  induction ps as [|p ps IH]; intro acc; [reflexivity|].
  unfold rich_after in *. cbn [fold_left existsb flat_map]. rewrite IH.
  destruct p as [rpr pres tc|tc|];
    cbn [is_phonetic negb orb rich_step unwrap_or_default app piece_mtext]; try reflexivity.
  destruct (existsb (fun p => negb (is_phonetic p)) ps) eqn:E.
  - rewrite app_assoc. reflexivity.
  - rewrite (no_run_mtext ps E), app_nil_r. reflexivity.
Qed.

Lemma pieces_mtext_text : forall ps, flat_map piece_mtext ps = flat_map piece_text ps.
Proof.
  induction ps as [|p ps IH]; [reflexivity|]. cbn [flat_map]. rewrite IH.
  destruct p as [rpr pres tc|tc|]; [|reflexivity|reflexivity].
  cbn [piece_mtext piece_text]. rewrite tc_mtext_text. reflexivity.
Qed.

(* what read_string returns on any legal form: the characters of every <t> outside phonetic
   runs, Text and CDATA alike, in order, each <t> through unescape_xstring *)
Definition item_mresult (f : item_form) : option str :=
  match f with
  | FPlain _ tc _ => Some (tc_mtext tc)
  | FRich ps => rich_after None ps
  end.

Theorem read_string_item_m : forall pfx cl f rest,
  no_colon pfx = true -> cl_ok cl -> legal_form f = true ->
  read_string (qn pfx cl) (item_events pfx f ++ End (qn pfx cl) :: rest) = Ok (item_mresult f, rest).
Proof.
  intros pfx cl f rest Hp Hcl Hl. destruct f as [preserve tc after|ps].
  - cbn [legal_form item_mresult] in *. apply read_string_plain; assumption.
  - cbn [legal_form item_mresult] in *. apply read_string_rich; assumption.
Qed.

Lemma item_mresult_result : forall f, item_mresult f = item_result f.
Proof.
  intros [preserve tc after|ps]; cbn [item_mresult item_result].
  - rewrite tc_mtext_text. reflexivity.
  - rewrite rich_after_spec, pieces_mtext_text. reflexivity.
Qed.

(* MAIN (per item): every legal form reads back as its text *)
Theorem read_string_item : forall pfx cl f rest,
  no_colon pfx = true -> cl_ok cl -> legal_form f = true ->
  read_string (qn pfx cl) (item_events pfx f ++ End (qn pfx cl) :: rest) = Ok (item_result f, rest).
Proof.
  intros pfx cl f rest Hp Hcl Hl.
  rewrite read_string_item_m by assumption. rewrite item_mresult_result. reflexivity.
Qed.

(* the named consequences *)
Theorem runs_concatenate : forall pfx cl ps rest,
  no_colon pfx = true -> cl_ok cl -> forallb legal_piece ps = true ->
  existsb (fun p => negb (is_phonetic p)) ps = true ->
  read_string (qn pfx cl) (flat_map (piece_events pfx) ps ++ End (qn pfx cl) :: rest) =
  Ok (Some (flat_map piece_text ps), rest).
Proof.
  intros pfx cl ps rest Hp Hcl Hl Hr.
  pose proof (read_string_item pfx cl (FRich ps) rest Hp Hcl Hl) as H.
  cbn [item_events item_result] in H. rewrite Hr in H. exact H.
Qed.

(* ---------- CDATA sections are text (repaired class F12) ---------- *)
Definition uncdata_tc (tc : tcontent) : tcontent :=
  map (fun c => match c with TcCData s => TcText s | _ => c end) tc.
Definition uncdata_piece (p : piece) : piece :=
  match p with
  | PRun rpr preserve tc => PRun rpr preserve (uncdata_tc tc)
  | PPhon tc => PPhon (uncdata_tc tc)
  | PPhonPr => PPhonPr
  end.
Definition uncdata_form (f : item_form) : item_form :=
  match f with
  | FPlain preserve tc after => FPlain preserve (uncdata_tc tc) (map uncdata_piece after)
  | FRich ps => FRich (map uncdata_piece ps)
  end.

Lemma uncdata_raw : forall tc, tc_raw (uncdata_tc tc) = tc_raw tc.
Proof.
  induction tc as [|c tc IH]; [reflexivity|]. unfold tc_raw, uncdata_tc in *. cbn [map flat_map].
  rewrite IH. destruct c; reflexivity.
Qed.

Lemma uncdata_mtext : forall tc, tc_mtext (uncdata_tc tc) = tc_mtext tc.
Proof. intro tc. unfold tc_mtext. rewrite uncdata_raw. reflexivity. Qed.

Lemma uncdata_pieces : forall ps,
  forallb legal_piece (map uncdata_piece ps) = forallb legal_piece ps /\
  forallb is_phonetic (map uncdata_piece ps) = forallb is_phonetic ps /\
  forall acc, rich_after acc (map uncdata_piece ps) = rich_after acc ps.
Proof.
  induction ps as [|p ps (I1 & I2 & I3)]; [repeat split|].
  cbn [map forallb]. rewrite I1, I2. unfold rich_after in *. cbn [fold_left].
  destruct p as [rpr pres tc|tc|]; cbn [uncdata_piece legal_piece is_phonetic rich_step];
    rewrite ?uncdata_mtext; repeat split; intros; apply I3.
Qed.

(* a CDATA section reads exactly like the same characters written as text: in every <t> of
   every legal form, under every prefix *)
Theorem cdata_is_text : forall pfx cl f rest,
  no_colon pfx = true -> cl_ok cl -> legal_form f = true ->
  read_string (qn pfx cl) (item_events pfx f ++ End (qn pfx cl) :: rest) =
  read_string (qn pfx cl) (item_events pfx (uncdata_form f) ++ End (qn pfx cl) :: rest).
Proof.
  intros pfx cl f rest Hp Hcl Hl.
  rewrite (read_string_item_m pfx cl f rest Hp Hcl Hl).
  rewrite (read_string_item_m pfx cl (uncdata_form f) rest Hp Hcl).
  - destruct f as [preserve tc after|ps]; cbn [uncdata_form item_mresult].
    + rewrite uncdata_mtext. reflexivity.
    + rewrite (proj2 (proj2 (uncdata_pieces ps))). reflexivity.
  - destruct f as [preserve tc after|ps]; cbn [uncdata_form legal_form] in *.
    + rewrite (proj1 (proj2 (uncdata_pieces after))). exact Hl.
    + rewrite (proj1 (uncdata_pieces ps)). exact Hl.
Qed.

Definition strip_phonetic (f : item_form) : item_form :=
  match f with
  | FPlain preserve tc _ => FPlain preserve tc []
  | FRich ps => FRich (filter (fun p => negb (is_phonetic p)) ps)
  end.

Lemma strip_text : forall ps,
  flat_map piece_text (filter (fun p => negb (is_phonetic p)) ps) = flat_map piece_text ps.
Proof.
  induction ps as [|p ps IH]; [reflexivity|]. cbn [filter flat_map].
  destruct p; cbn [is_phonetic negb flat_map piece_text app]; rewrite IH; reflexivity.
Qed.

Lemma strip_exists : forall ps,
  existsb (fun p => negb (is_phonetic p)) (filter (fun p => negb (is_phonetic p)) ps) =
  existsb (fun p => negb (is_phonetic p)) ps.
Proof.
  induction ps as [|p ps IH]; [reflexivity|]. cbn [filter existsb].
  destruct p; cbn [is_phonetic negb existsb orb]; rewrite ?IH; reflexivity.
Qed.

Lemma strip_legal : forall f, legal_form f = true -> legal_form (strip_phonetic f) = true.
Proof.
  intros [preserve tc after|ps] H; [reflexivity|]. cbn [legal_form strip_phonetic] in *.
  induction ps as [|p ps IH]; [reflexivity|]. cbn [forallb] in H.
  apply andb_true_iff in H. destruct H as [H1 H2]. cbn [filter].
  destruct (negb (is_phonetic p)); [cbn [forallb]; rewrite H1; apply IH; exact H2 | apply IH; exact H2].
Qed.

(* phonetic runs and phonetic properties contribute nothing: removing them from the item does
   not change what is read *)
Theorem phonetic_contributes_nothing : forall pfx cl f rest rest',
  no_colon pfx = true -> cl_ok cl -> legal_form f = true ->
  exists r,
    read_string (qn pfx cl) (item_events pfx f ++ End (qn pfx cl) :: rest) = Ok (r, rest) /\
    read_string (qn pfx cl) (item_events pfx (strip_phonetic f) ++ End (qn pfx cl) :: rest') = Ok (r, rest').
Proof.
  intros pfx cl f rest rest' Hp Hcl Hl. exists (item_result f). split.
  - apply read_string_item; assumption.
  - rewrite read_string_item; try assumption; [|apply strip_legal; assumption].
    f_equal. f_equal. destruct f as [preserve tc after|ps]; [reflexivity|].
    cbn [item_result strip_phonetic]. rewrite strip_exists, strip_text. reflexivity.
Qed.

Lemma item_result_text : forall f, unwrap_or_default (item_result f) = item_text f.
Proof.
  intros [preserve tc after|ps]; [reflexivity|]. cbn [item_result item_text].
  destruct (existsb (fun p => negb (is_phonetic p)) ps) eqn:E; [reflexivity|].
  cbn [unwrap_or_default]. symmetry.
  induction ps as [|p ps IH]; [reflexivity|]. cbn [existsb] in E.
  apply orb_false_iff in E. destruct E as [E1 E2]. cbn [flat_map]. rewrite (IH E2).
  destruct p; [discriminate|reflexivity|reflexivity].
Qed.

(* ====================================================================================== *)
(*                              xlsx read_shared_strings                                   *)
(* ====================================================================================== *)
Lemma sst_run_item : forall closing evs st racc r rest,
  rs_run closing st evs = Ok (r, rest) ->
  sst_run (Some (closing, st)) racc evs = sst_run None (unwrap_or_default r :: racc) rest.
Proof.
  induction evs as [|e evs IH]; intros st racc r rest H; cbn [rs_run] in H; [discriminate|].
  cbn [sst_run]. destruct (rs_step closing st e) as [st'|r'|c|]; try discriminate.
  - apply IH. exact H.
  - inversion H; subst. reflexivity.
Qed.

Lemma no_colon_si : no_colon n_si = true. Proof. reflexivity. Qed.
Lemma no_colon_sst : no_colon n_sst = true. Proof. reflexivity. Qed.

Definition item_mtext (f : item_form) : str := unwrap_or_default (item_mresult f).

Lemma sst_items_m : forall pfx items racc tail,
  no_colon pfx = true ->
  forallb (fun it => legal_form (snd it)) items = true ->
  sst_run None racc (flat_map (fun it => Text (fst it) :: si_elt pfx (snd it)) items ++ tail) =
  sst_run None (rev (map (fun it => item_mtext (snd it)) items) ++ racc) tail.
Proof.
  induction items as [|[ws f] items IH]; intros racc tail Hp Hl; [reflexivity|].
  cbn [forallb snd] in Hl. apply andb_true_iff in Hl. destruct Hl as [Hl1 Hl2].
  cbn [flat_map fst snd app sst_run]. unfold si_elt, elt. cbn [app sst_run].
  rewrite (local_name_qn _ _ Hp no_colon_si). sc.
  rewrite <- !app_assoc. cbn [app].
  rewrite (sst_run_item _ _ _ racc (item_mresult f)
             (flat_map (fun it => Text (fst it) :: si_elt pfx (snd it)) items ++ tail)).
  2:{ apply (read_string_item_m pfx n_si f); try assumption. left. reflexivity. }
  rewrite (IH _ tail Hp Hl2).
  cbn [map rev snd]. rewrite <- app_assoc. reflexivity.
Qed.

(* the table as the reader sees it: one entry per item, in order, whatever the items hold *)
Theorem read_shared_strings_items_m : forall pfx sattrs items,
  no_colon pfx = true ->
  forallb (fun it => legal_form (snd it)) items = true ->
  read_shared_strings (sst_events pfx sattrs items) = Ok (map (fun it => item_mtext (snd it)) items).
Proof.
  intros pfx sattrs items Hp Hl. unfold read_shared_strings, sst_events.
  cbn [sst_run]. rewrite (local_name_qn _ _ Hp no_colon_sst). sc.
  rewrite (sst_items_m pfx items [] [End (qn pfx n_sst)] Hp Hl).
  cbn [sst_run]. rewrite (local_name_qn _ _ Hp no_colon_sst). sc.
  rewrite app_nil_r, rev_involutive. reflexivity.
Qed.

Lemma item_mtext_text : forall f, item_mtext f = item_text f.
Proof. intro f. unfold item_mtext. rewrite item_mresult_result. apply item_result_text. Qed.

(* MAIN (table): the i-th string of the table is the text of the i-th item, empty items included *)
Theorem read_shared_strings_items : forall pfx sattrs items,
  no_colon pfx = true ->
  forallb (fun it => legal_form (snd it)) items = true ->
  read_shared_strings (sst_events pfx sattrs items) = Ok (map (fun it => item_text (snd it)) items).
Proof.
  intros pfx sattrs items Hp Hl.
  rewrite read_shared_strings_items_m by assumption.
  f_equal. apply map_ext. intro it. apply item_mtext_text.
Qed.

Theorem shared_index_is_ith_item : forall pfx sattrs items,
  no_colon pfx = true ->
  forallb (fun it => legal_form (snd it)) items = true ->
  exists strs, read_shared_strings (sst_events pfx sattrs items) = Ok strs /\
    length strs = length items /\
    forall i, nth_error strs i = option_map (fun it => item_text (snd it)) (nth_error items i).
Proof.
  intros pfx sattrs items Hp Hl. eexists. split; [apply read_shared_strings_items; assumption|].
  split; [apply map_length|]. intro i. apply nth_error_map.
Qed.

(* ====================================================================================== *)
(*                                   xlsx cell content                                     *)
(* ====================================================================================== *)
Fixpoint cc_steps (strings : list str) (ca : attrs) (st : cc_state) (evs : list event)
  : option cc_state :=
  match evs with
  | [] => Some st
  | e :: r =>
    match cc_step strings ca st e with
    | Cont st' => cc_steps strings ca st' r
    | _ => None
    end
  end.

Lemma cc_run_steps : forall strings ca evs st st' rest,
  cc_steps strings ca st evs = Some st' ->
  cc_run strings ca st (evs ++ rest) = cc_run strings ca st' rest.
Proof.
  induction evs as [|e evs IH]; intros st st' rest H; cbn [cc_steps] in H.
  - inversion H; subst. reflexivity.
  - cbn [app cc_run]. destruct (cc_step strings ca st e); try discriminate. apply IH. exact H.
Qed.

Lemma cc_steps_app : forall strings ca a b st st1 st2,
  cc_steps strings ca st a = Some st1 -> cc_steps strings ca st1 b = Some st2 ->
  cc_steps strings ca st (a ++ b) = Some st2.
Proof.
  induction a as [|e a IH]; intros b st st1 st2 Ha Hb; cbn [cc_steps] in Ha.
  - inversion Ha; subst. exact Hb.
  - cbn [app cc_steps]. destruct (cc_step strings ca st e); try discriminate.
    eapply IH; eassumption.
Qed.

Lemma cc_run_cons : forall strings ca st e rest,
  cc_run strings ca st (e :: rest) =
  match cc_step strings ca st e with
  | Cont st' => cc_run strings ca st' rest
  | Ret r => Ok (r, rest)
  | Fail c => Err c
  | Boom => Panic
  end.
Proof. reflexivity. Qed.

(* read_string running inside the cell loop *)
Lemma cc_run_is : forall strings ca closing evs st r rest,
  rs_run closing st evs = Ok (r, rest) ->
  cc_run strings ca (CcInIs closing st) evs =
  cc_run strings ca (CcOuter (match r with Some s => CString s | None => CEmpty end)) rest.
Proof.
  induction evs as [|e evs IH]; intros st r rest H; cbn [rs_run] in H; [discriminate|].
  cbn [cc_run cc_step]. destruct (rs_step closing st e) as [st'|r'|c|]; try discriminate.
  - apply IH. exact H.
  - inversion H; subst. reflexivity.
Qed.

(* inside <v>: every chunk is appended, Text and CDATA alike *)
Lemma cc_steps_in_v : forall strings ca vn tc acc,
  cc_steps strings ca (CcInV vn acc) (tc_events tc) = Some (CcInV vn (acc ++ tc_raw tc)).
Proof.
  induction tc as [|c tc IH]; intro acc.
  - cbn. rewrite app_nil_r. reflexivity.
  - unfold tc_events, tc_raw in *. cbn [map flat_map cc_steps].
    destruct c as [s|s|]; cbn [cc_step]; rewrite IH.
    + rewrite app_assoc. reflexivity.
    + rewrite app_assoc. reflexivity.
    + reflexivity.
Qed.

Lemma cc_steps_in_f : forall strings ca fname tc d,
  cc_steps strings ca (CcInF fname d) (tc_events tc) = Some (CcInF fname d).
Proof.
  induction tc as [|c tc IH]; intro d; [reflexivity|].
  unfold tc_events in *. cbn [map cc_steps]. destruct c; cbn [cc_step]; apply IH.
Qed.

Lemma no_colon_is : no_colon n_is = true. Proof. reflexivity. Qed.
Lemma no_colon_v : no_colon n_v = true. Proof. reflexivity. Qed.
Lemma no_colon_f : no_colon n_f = true. Proof. reflexivity. Qed.
Lemma no_colon_c : no_colon n_c = true. Proof. reflexivity. Qed.

(* <v>…</v> in a cell whose t attribute is "str" *)
Lemma v_elt_str : forall strings ref pfx ftc tc value, no_colon pfx = true ->
  cc_steps strings (cell_attrs ref (StFormula ftc tc)) (CcOuter value) (elt pfx n_v [] (tc_events tc)) =
  Some (CcOuter (CString (tc_mtext tc))).
Proof.
  intros strings ref pfx ftc tc value Hp. unfold elt. cbn [cc_steps cc_step].
  rewrite (local_name_qn _ _ Hp no_colon_v). sc.
  eapply cc_steps_app; [apply cc_steps_in_v|].
  cbn [cc_steps cc_step app]. rewrite str_eqb_refl.
  unfold read_v, cell_attrs. cbn [get_attribute]. sc. reflexivity.
Qed.

(* <f>…</f> is skipped by read_value *)
Lemma f_elt_skipped : forall strings ca pfx tc value, no_colon pfx = true ->
  cc_steps strings ca (CcOuter value) (elt pfx n_f [] (tc_events tc)) = Some (CcOuter CEmpty).
Proof.
  intros strings ca pfx tc value Hp. unfold elt. cbn [cc_steps cc_step].
  rewrite (local_name_qn _ _ Hp no_colon_f). sc.
  eapply cc_steps_app; [apply cc_steps_in_f|].
  cbn [cc_steps cc_step]. rewrite str_eqb_refl. reflexivity.
Qed.

(* what the cell loop returns for every legal storage form, before relating it to S *)
Definition store_mresult (strings : list str) (st : store) : outcome cellval :=
  match st with
  | StShared v =>
    match nth_error strings (N.to_nat (match parse_usize v with Some i => i | None => 0 end)) with
    | Some s => Ok (CString s)
    | None => Err ERR_INDEX
    end
  | StInline f => Ok (match item_mresult f with Some s => CString s | None => CEmpty end)
  | StFormula _ vtc => Ok (CString (tc_mtext vtc))
  end.

Theorem read_cell_store_m : forall pfx strings ref st rest,
  no_colon pfx = true -> legal_store st = true ->
  read_cell strings (cell_attrs ref st) (cell_events pfx st ++ rest) =
  do v <- store_mresult strings st; Ok (v, rest).
Proof.
  intros pfx strings ref st rest Hp Hl. unfold read_cell, cell_events.
  destruct st as [v|f|ftc vtc]; cbn [store_mresult].
  - (* shared *)
    unfold elt. cbn [app].
    rewrite cc_run_cons. cbn [cc_step]. rewrite (local_name_qn _ _ Hp no_colon_v). sc.
    rewrite cc_run_cons. cbn [cc_step app].
    rewrite cc_run_cons. cbn [cc_step]. rewrite str_eqb_refl.
    unfold read_v, cell_attrs. cbn [get_attribute]. sc.
    set (idx := match parse_usize v with Some i => i | None => 0 end).
    destruct (idx <? N.of_nat (length strings)) eqn:Ei.
    2:{ assert (Hn : nth_error strings (N.to_nat idx) = None) by (apply nth_error_None; lia).
        rewrite Hn. reflexivity. }
    destruct (nth_error strings (N.to_nat idx)); [|reflexivity].
    rewrite cc_run_cons. cbn [cc_step]. rewrite (local_name_qn _ _ Hp no_colon_c). sc. reflexivity.
  - (* inline *)
    cbn [legal_store] in *. unfold elt. cbn [app cc_run cc_step].
    rewrite (local_name_qn _ _ Hp no_colon_is). sc. rewrite <- !app_assoc. cbn [app].
    rewrite (cc_run_is strings _ _ _ _ (item_mresult f) (End (qn pfx n_c) :: rest)).
    2:{ apply (read_string_item_m pfx n_is f); try assumption. right. reflexivity. }
    cbn [cc_run cc_step obind]. rewrite (local_name_qn _ _ Hp no_colon_c). sc. reflexivity.
  - (* formula string *)
    rewrite <- !app_assoc.
    rewrite (cc_run_steps _ _ _ _ _ _ (f_elt_skipped strings _ pfx ftc CEmpty Hp)).
    rewrite (cc_run_steps _ _ _ _ _ _ (v_elt_str strings ref pfx ftc vtc CEmpty Hp)).
    cbn [app cc_run cc_step obind]. rewrite (local_name_qn _ _ Hp no_colon_c). sc. reflexivity.
Qed.

(* MAIN (cell): shared / inline / formula-string storage *)
Theorem read_cell_store : forall pfx strings ref st rest,
  no_colon pfx = true -> legal_store st = true ->
  read_cell strings (cell_attrs ref st) (cell_events pfx st ++ rest) =
  match st with
  | StShared v =>
    match nth_error strings (N.to_nat (match parse_usize v with Some i => i | None => 0 end)) with
    | Some s => Ok (CString s, rest)
    | None => Err ERR_INDEX
    end
  | StInline f => Ok (match item_result f with Some s => CString s | None => CEmpty end, rest)
  | StFormula _ vtc => Ok (CString (tc_text vtc), rest)
  end.
Proof.
  intros pfx strings ref st rest Hp Hl. rewrite read_cell_store_m by assumption.
  destruct st as [v|f|ftc vtc]; cbn [store_mresult].
  - destruct (nth_error strings _); reflexivity.
  - rewrite item_mresult_result. reflexivity.
  - rewrite tc_mtext_text. reflexivity.
Qed.

(* COMPOSITION: the text stored in an xlsx cell, in any storage form, is what the cell reader
   returns *)
Lemma nth_N_map : forall (A B : Type) (g : A -> B) l i, nth_N (map g l) i = option_map g (nth_N l i).
Proof.
  intros A B g l i. unfold nth_N. rewrite map_length.
  destruct (i <? N.of_nat (length l)); [apply nth_error_map | reflexivity].
Qed.

Lemma nth_N_error : forall (A : Type) (l : list A) i, nth_N l i = nth_error l (N.to_nat i).
Proof.
  intros A l i. unfold nth_N. destruct (i <? N.of_nat (length l)) eqn:E; [reflexivity|].
  symmetry. apply nth_error_None. lia.
Qed.

(* a cell against the table as the reader built it *)
Lemma cell_survives : forall pfx items ref st s rest,
  no_colon pfx = true -> legal_store st = true ->
  stored_text items st = Some s ->
  read_cell (map (fun it => item_mtext (snd it)) items) (cell_attrs ref st) (cell_events pfx st ++ rest) =
  Ok (cell_expected st s, rest).
Proof.
  intros pfx items ref st s rest Hp Hls Hs.
  destruct st as [v|f|ftc vtc]; cbn [stored_text cell_expected] in *.
  - rewrite read_cell_store by (try assumption; reflexivity).
    destruct (parse_usize v) as [i|]; [|discriminate].
    rewrite <- nth_N_error, nth_N_map. destruct (nth_N items i) as [[ws f]|]; [|discriminate].
    cbn [option_map snd] in *. inversion Hs; subst.
    rewrite (item_mtext_text f). reflexivity.
  - rewrite read_cell_store by assumption.
    inversion Hs; subst. destruct (item_result f) eqn:E; [|reflexivity].
    rewrite <- (item_result_text f), E. reflexivity.
  - rewrite read_cell_store by assumption. inversion Hs; subst. reflexivity.
Qed.

Theorem text_survives_xlsx : forall pfx sattrs items ref st s rest,
  no_colon pfx = true ->
  forallb (fun it => legal_form (snd it)) items = true -> legal_store st = true ->
  stored_text items st = Some s ->
  exists strings,
    read_shared_strings (sst_events pfx sattrs items) = Ok strings /\
    read_cell strings (cell_attrs ref st) (cell_events pfx st ++ rest) = Ok (cell_expected st s, rest).
Proof.
  intros pfx sattrs items ref st s rest Hp Hli Hls Hs.
  exists (map (fun it => item_mtext (snd it)) items). split.
  - apply read_shared_strings_items_m; assumption.
  - apply cell_survives; assumption.
Qed.

(* ---------- a whole sheet: the loop of next_cell ---------- *)
Lemma sheet_run_cell : forall strings ca evs st racc v rest,
  cc_run strings ca st evs = Ok (v, rest) ->
  sheet_run strings (Some (ca, st)) racc evs = sheet_run strings None ((ca, v) :: racc) rest.
Proof.
  induction evs as [|e evs IH]; intros st racc v rest H; cbn [cc_run] in H; [discriminate|].
  cbn [sheet_run]. destruct (cc_step strings ca st e) as [st'|r|c|]; try discriminate.
  - apply IH. exact H.
  - inversion H; subst. reflexivity.
Qed.

Definition cell_ok (items : list (str * item_form)) (c : attrs * str * store) : bool :=
  let '(_, _, st) := c in
  legal_store st
  && match stored_text items st with Some _ => true | None => false end.
Definition cell_spec (items : list (str * item_form)) (c : attrs * str * store) : attrs * cellval :=
  let '(_, ref, st) := c in
  (cell_attrs ref st,
   match stored_text items st with Some s => cell_expected st s | None => CEmpty end).

Lemma no_colon_row : no_colon n_row = true. Proof. reflexivity. Qed.
Lemma no_colon_sheetData : no_colon n_sheetData = true. Proof. reflexivity. Qed.

Lemma sheet_cells_run : forall pfx items cells racc,
  no_colon pfx = true -> forallb (cell_ok items) cells = true ->
  sheet_run (map (fun it => item_mtext (snd it)) items) None racc (sheet_events pfx cells) =
  Ok (rev racc ++ map (cell_spec items) cells).
Proof.
  intros pfx items cells. unfold sheet_events.
  induction cells as [|[[ra ref] st] cells IH]; intros racc Hp H.
  - cbn [flat_map app sheet_run map]. rewrite (local_name_qn _ _ Hp no_colon_sheetData). sc.
    rewrite app_nil_r. reflexivity.
  - cbn [forallb] in H. apply andb_true_iff in H. destruct H as [H1 H2].
    unfold cell_ok in H1. apply andb_true_iff in H1. destruct H1 as [Hl Hs].
    destruct (stored_text items st) as [s|] eqn:Es; [|discriminate].
    cbn [flat_map app sheet_run]. rewrite (local_name_qn _ _ Hp no_colon_row). sc.
    rewrite (local_name_qn _ _ Hp no_colon_c). sc.
    rewrite <- !app_assoc.
    rewrite (sheet_run_cell _ _ _ _ racc (cell_expected st s)
              ([End (qn pfx n_row)] ++
               flat_map (fun c => let '(rattrs, ref0, st0) := c in
                           Start (qn pfx n_row) rattrs :: Start (qn pfx n_c) (cell_attrs ref0 st0) ::
                           cell_events pfx st0 ++ [End (qn pfx n_row)]) cells ++ [End (qn pfx n_sheetData)])).
    2:{ apply cell_survives; assumption. }
    cbn [app sheet_run]. rewrite (local_name_qn _ _ Hp no_colon_row). sc.
    rewrite (IH _ Hp H2). cbn [rev map cell_spec]. rewrite Es, <- app_assoc. reflexivity.
Qed.

(* COMPOSITION over a sheet: every text cell of every row reads back, in order *)
Theorem sheet_text_survives : forall pfx sattrs items cells,
  no_colon pfx = true ->
  forallb (fun it => legal_form (snd it)) items = true ->
  forallb (cell_ok items) cells = true ->
  exists strings,
    read_shared_strings (sst_events pfx sattrs items) = Ok strings /\
    read_sheet_cells strings (sheet_events pfx cells) = Ok (map (cell_spec items) cells).
Proof.
  intros pfx sattrs items cells Hp Hl Hc.
  exists (map (fun it => item_mtext (snd it)) items). split.
  - apply read_shared_strings_items_m; assumption.
  - unfold read_sheet_cells. rewrite (sheet_cells_run pfx items cells [] Hp Hc). reflexivity.
Qed.

(* ====================================================================================== *)
(*                       xlsx formula text (next_formula, read_formula)                    *)
(* ====================================================================================== *)
Fixpoint fc_steps (st : fc_state) (evs : list event) : option fc_state :=
  match evs with
  | [] => Some st
  | e :: r =>
    match fc_step st e with
    | Cont st' => fc_steps st' r
    | _ => None
    end
  end.

Lemma fc_run_steps : forall evs st st' rest,
  fc_steps st evs = Some st' -> fc_run st (evs ++ rest) = fc_run st' rest.
Proof.
  induction evs as [|e evs IH]; intros st st' rest H; cbn [fc_steps] in H.
  - inversion H; subst. reflexivity.
  - cbn [app fc_run]. destruct (fc_step st e); try discriminate. apply IH. exact H.
Qed.

Lemma fc_steps_app : forall a b st st1 st2,
  fc_steps st a = Some st1 -> fc_steps st1 b = Some st2 -> fc_steps st (a ++ b) = Some st2.
Proof.
  induction a as [|e a IH]; intros b st st1 st2 Ha Hb; cbn [fc_steps] in Ha.
  - inversion Ha; subst. exact Hb.
  - cbn [app fc_steps]. destruct (fc_step st e); try discriminate. eapply IH; eassumption.
Qed.

(* inside <f>: every chunk is appended, Text and CDATA alike *)
Lemma fc_steps_in_f : forall fn sh tc acc,
  fc_steps (FcInF fn sh acc) (tc_events tc) = Some (FcInF fn sh (acc ++ tc_raw tc)).
Proof.
  induction tc as [|c tc IH]; intro acc.
  - cbn. rewrite app_nil_r. reflexivity.
  - unfold tc_events, tc_raw in *. cbn [map flat_map fc_steps].
    destruct c as [s|s|]; cbn [fc_step]; rewrite IH.
    + rewrite app_assoc. reflexivity.
    + rewrite app_assoc. reflexivity.
    + reflexivity.
Qed.

Lemma fc_steps_skip : forall name sh evs d v,
  forallb (skip_inert name) evs = true ->
  fc_steps (FcSkip name sh d v) evs = Some (FcSkip name sh d v).
Proof.
  induction evs as [|e evs IH]; intros d v H; [reflexivity|].
  cbn [forallb] in H. apply andb_true_iff in H. destruct H as [H1 H2].
  cbn [fc_steps]. destruct e as [n a|n|s|s|]; cbn [fc_step skip_inert] in *;
    try (apply IH; exact H2).
  - destruct (str_eqb n name); [discriminate|]. apply IH. exact H2.
  - destruct (str_eqb n name); [discriminate|]. apply IH. exact H2.
Qed.

(* an element <is> or <v> without attributes: read_formula passes over it, the value stays *)
Lemma fc_skip_elt : forall pfx l body value, no_colon pfx = true ->
  l = n_is \/ l = n_v -> forallb (skip_inert (qn pfx l)) body = true ->
  fc_steps (FcOuter value) (elt pfx l [] body) = Some (FcOuter value).
Proof.
  intros pfx l body value Hp Hl Hb. unfold elt. cbn [fc_steps fc_step].
  assert (Hn : no_colon l = true) by (destruct Hl; subst l; reflexivity).
  rewrite (local_name_qn _ _ Hp Hn).
  assert (Hm : str_eqb l n_is || str_eqb l n_v = true) by (destruct Hl; subst l; reflexivity).
  rewrite Hm. change (is_shared []) with false.
  eapply fc_steps_app; [apply fc_steps_skip; exact Hb|].
  cbn [fc_steps fc_step]. rewrite str_eqb_refl. reflexivity.
Qed.

Lemma f_elt_read : forall pfx tc value, no_colon pfx = true ->
  fc_steps (FcOuter value) (elt pfx n_f [] (tc_events tc)) = Some (FcOuter (FvText (tc_raw tc))).
Proof.
  intros pfx tc value Hp. unfold elt. cbn [fc_steps fc_step].
  rewrite (local_name_qn _ _ Hp no_colon_f). sc. change (is_shared []) with false.
  eapply fc_steps_app; [apply fc_steps_in_f|].
  cbn [fc_steps fc_step app]. rewrite str_eqb_refl. reflexivity.
Qed.

(* MAIN (formula text): the characters of <f>, Text and CDATA chunks alike; cells without <f>
   have no formula *)
Theorem read_fcell_store : forall pfx st rest,
  no_colon pfx = true -> legal_store st = true ->
  read_fcell (cell_events pfx st ++ rest) = Ok (formula_expected st, rest).
Proof.
  intros pfx st rest Hp Hl. unfold read_fcell, cell_events.
  destruct st as [v|f|ftc vtc]; cbn [formula_expected]; rewrite <- !app_assoc.
  - rewrite (fc_run_steps _ _ _ _ (fc_skip_elt pfx n_v [Text v] FvNone Hp (or_intror eq_refl) eq_refl)).
    cbn [app fc_run fc_step]. rewrite (local_name_qn _ _ Hp no_colon_c). sc. reflexivity.
  - cbn [legal_store] in Hl.
    rewrite (fc_run_steps _ _ _ _ (fc_skip_elt pfx n_is (item_events pfx f) FvNone Hp (or_introl eq_refl)
               (item_events_skip_inert pfx n_is f (or_intror eq_refl) Hl))).
    cbn [app fc_run fc_step]. rewrite (local_name_qn _ _ Hp no_colon_c). sc. reflexivity.
  - rewrite (fc_run_steps _ _ _ _ (f_elt_read pfx ftc FvNone Hp)).
    rewrite (fc_run_steps _ _ _ _ (fc_skip_elt pfx n_v (tc_events vtc) (FvText (tc_raw ftc)) Hp
               (or_intror eq_refl) (tc_events_skip_inert (qn pfx n_v) vtc))).
    cbn [app fc_run fc_step]. rewrite (local_name_qn _ _ Hp no_colon_c). sc. reflexivity.
Qed.

Lemma fsheet_run_cell : forall ca evs st racc v rest,
  fc_run st evs = Ok (v, rest) ->
  fsheet_run (Some (ca, st)) racc evs = fsheet_run None ((ca, v) :: racc) rest.
Proof.
  induction evs as [|e evs IH]; intros st racc v rest H; cbn [fc_run] in H; [discriminate|].
  cbn [fsheet_run]. destruct (fc_step st e) as [st'|r|c|]; try discriminate.
  - apply IH. exact H.
  - inversion H; subst. reflexivity.
Qed.

Definition fcell_spec (c : attrs * str * store) : attrs * fval :=
  let '(_, ref, st) := c in (cell_attrs ref st, formula_expected st).

Lemma sheet_formulas_run : forall pfx cells racc,
  no_colon pfx = true -> forallb (fun c => legal_store (snd c)) cells = true ->
  fsheet_run None racc (sheet_events pfx cells) = Ok (rev racc ++ map fcell_spec cells).
Proof.
  intros pfx cells. unfold sheet_events.
  induction cells as [|[[ra ref] st] cells IH]; intros racc Hp H.
  - cbn [flat_map app fsheet_run map]. rewrite (local_name_qn _ _ Hp no_colon_sheetData). sc.
    rewrite app_nil_r. reflexivity.
  - cbn [forallb snd] in H. apply andb_true_iff in H. destruct H as [Hl H2].
    cbn [flat_map app fsheet_run]. rewrite (local_name_qn _ _ Hp no_colon_row). sc.
    rewrite (local_name_qn _ _ Hp no_colon_c). sc.
    rewrite <- !app_assoc.
    rewrite (fsheet_run_cell _ _ _ racc (formula_expected st)
              ([End (qn pfx n_row)] ++
               flat_map (fun c => let '(rattrs, ref0, st0) := c in
                           Start (qn pfx n_row) rattrs :: Start (qn pfx n_c) (cell_attrs ref0 st0) ::
                           cell_events pfx st0 ++ [End (qn pfx n_row)]) cells ++ [End (qn pfx n_sheetData)])).
    2:{ apply read_fcell_store; assumption. }
    cbn [app fsheet_run]. rewrite (local_name_qn _ _ Hp no_colon_row). sc.
    rewrite (IH _ Hp H2). cbn [rev map fcell_spec]. rewrite <- app_assoc. reflexivity.
Qed.

(* over a whole sheet, worksheet_formula's loop: the formula text of every cell, in order *)
Theorem sheet_formulas_survive : forall pfx cells,
  no_colon pfx = true -> forallb (fun c => legal_store (snd c)) cells = true ->
  read_sheet_formulas (sheet_events pfx cells) = Ok (map fcell_spec cells).
Proof.
  intros pfx cells Hp H. unfold read_sheet_formulas.
  rewrite (sheet_formulas_run pfx cells [] Hp H). reflexivity.
Qed.

(* ---------- every string has rich forms: cut it anywhere ---------- *)
Lemma concat_chop : forall cuts s, concat (chop cuts s) = s.
Proof.
  induction cuts as [|n cuts IH]; intro s; cbn [chop concat].
  - apply app_nil_r.
  - rewrite IH. apply firstn_skipn.
Qed.

(* a cut must not fall inside an _xHHHH_ escape: the pieces then denote something else *)
Definition cuts_ok (cuts : list nat) (s : str) : bool :=
  forallb (fun p => str_eqb (xunescape p) p) (chop cuts s).

(* a run holding characters without escapes denotes them *)
Lemma run_piece_text : forall p, str_eqb (xunescape p) p = true ->
  piece_text (PRun [] true [TcText p]) = p.
Proof.
  intros p H. apply str_eqb_eq in H.
  cbn [piece_text]. unfold tc_text, tc_raw. cbn [flat_map]. rewrite app_nil_r. exact H.
Qed.

Lemma runs_facts : forall l, forallb (fun p => str_eqb (xunescape p) p) l = true ->
  flat_map piece_text (map (fun p => PRun [] true [TcText p]) l) = concat l /\
  forallb legal_piece (map (fun p => PRun [] true [TcText p]) l) = true.
Proof.
  induction l as [|p l IH]; intro H; [repeat split|].
  cbn [forallb] in H. apply andb_true_iff in H. destruct H as [H1 H2].
  destruct (IH H2) as (I1 & I3).
  cbn [map flat_map concat forallb]. rewrite (run_piece_text p H1), I1, I3. repeat split.
Qed.

Lemma runs_of_text : forall cuts s, cuts_ok cuts s = true -> item_text (runs_of cuts s) = s.
Proof.
  intros cuts s H. unfold runs_of. cbn [item_text].
  rewrite (proj1 (runs_facts (chop cuts s) H)). apply concat_chop.
Qed.

Lemma runs_of_legal : forall cuts s, cuts_ok cuts s = true ->
  legal_form (runs_of cuts s) = true /\ item_result (runs_of cuts s) = Some s.
Proof.
  intros cuts s H. pose proof (runs_of_text cuts s H) as Ht. unfold runs_of in *.
  cbn [legal_form item_result item_text] in *. rewrite Ht.
  destruct (runs_facts (chop cuts s) H) as (_ & H3). rewrite H3. repeat split.
  destruct cuts; reflexivity.
Qed.

(* an escape cut by a run boundary is no escape: each <t> is an ST_Xstring of its own; so the
   cuts must not fall inside one ([cuts_ok] is a statement about S, not about the reader) *)
Theorem runs_at_any_cuts : forall pfx cl cuts s rest,
  no_colon pfx = true -> cl_ok cl -> cuts_ok cuts s = true ->
  read_string (qn pfx cl) (item_events pfx (runs_of cuts s) ++ End (qn pfx cl) :: rest) =
  Ok (Some s, rest).
Proof.
  intros pfx cl cuts s rest Hp Hcl Hc. destruct (runs_of_legal cuts s Hc) as (Hl & Hr).
  pose proof (read_string_item pfx cl (runs_of cuts s) rest Hp Hcl Hl) as H.
  rewrite Hr in H. exact H.
Qed.

(* the ST_Xstring layer end to end: any string s, written the way Excel writes it, stored as a
   plain <t> (text and CDATA chunks in any arrangement [tc] whose characters are that writing),
   under any prefix, with any phonetic data after it: read_string returns s *)
Theorem xstring_text_survives : forall pfx cl must s preserve tc after rest,
  no_colon pfx = true -> cl_ok cl -> forallb is_phonetic after = true ->
  tc_raw tc = xescape must s ->
  read_string (qn pfx cl) (item_events pfx (FPlain preserve tc after) ++ End (qn pfx cl) :: rest) =
  Ok (Some s, rest).
Proof.
  intros pfx cl must s preserve tc after rest Hp Hcl Ha Hr.
  rewrite read_string_item by assumption. cbn [item_result]. unfold tc_text.
  rewrite Hr, xescape_roundtrip. reflexivity.
Qed.

(* ====================================================================================== *)
(*                                   ods get_datatype                                      *)
(* ====================================================================================== *)
Fixpoint od_steps (cname : str) (val : odsval) (st : od_state) (evs : list event)
  : option od_state :=
  match evs with
  | [] => Some st
  | e :: r =>
    match od_step cname val st e with
    | Cont st' => od_steps cname val st' r
    | _ => None
    end
  end.

Lemma od_run_steps : forall cname val evs st st' rest,
  od_steps cname val st evs = Some st' ->
  od_run cname val st (evs ++ rest) = od_run cname val st' rest.
Proof.
  induction evs as [|e evs IH]; intros st st' rest H; cbn [od_steps] in H.
  - inversion H; subst. reflexivity.
  - cbn [app od_run]. destruct (od_step cname val st e); try discriminate. apply IH. exact H.
Qed.

Lemma od_steps_app : forall cname val a b st st1 st2,
  od_steps cname val st a = Some st1 -> od_steps cname val st1 b = Some st2 ->
  od_steps cname val st (a ++ b) = Some st2.
Proof.
  induction a as [|e a IH]; intros b st st1 st2 Ha Hb; cbn [od_steps] in Ha.
  - inversion Ha; subst. exact Hb.
  - cbn [app od_steps]. destruct (od_step cname val st e); try discriminate.
    eapply IH; eassumption.
Qed.

(* read_to_end_into(name) inside the content loop: the nesting depth runs as sub_depth says *)
Lemma sub_steps : forall cname val name body d d' s first paras,
  sub_depth name body d = Some d' ->
  od_steps cname val (OdSub name d s first paras) body = Some (OdSub name d' s first paras).
Proof.
  induction body as [|e body IH]; intros d d' s first paras H; cbn [sub_depth] in H.
  - inversion H. reflexivity.
  - cbn [od_steps]. destruct e as [n a|n|t|t|]; cbn [od_step]; try (apply IH; exact H).
    + destruct (str_eqb n name); apply IH; exact H.
    + destruct (str_eqb n name); [|apply IH; exact H].
      destruct (d =? 0); [discriminate|]. apply IH. exact H.
Qed.

(* a whole element <name>body</name> whose subtree is skipped leaves the content loop where it was *)
Lemma subtree_steps : forall cname val name a body s first paras,
  skipped_subtree name = true -> str_eqb name o_annot = false -> sub_ok name body = true ->
  od_steps cname val (OdMain s first paras) (Start name a :: body ++ [End name]) =
  Some (OdMain s first paras).
Proof.
  intros cname val name a body s first paras Hk Ha Hb.
  cbn [od_steps od_step]. rewrite Ha, Hk.
  unfold sub_ok in Hb. destruct (sub_depth name body 0) as [d|] eqn:E; [|discriminate].
  destruct d; [|discriminate].
  eapply od_steps_app; [apply sub_steps; exact E|].
  cbn [od_steps od_step]. rewrite str_eqb_refl. reflexivity.
Qed.

Lemma starts_with_length : forall p n, starts_with p n = true -> (length p <= length n)%nat.
Proof.
  induction p as [|x p IH]; intros [|y n] H; cbn [starts_with length] in *; try lia; try discriminate.
  apply andb_true_iff in H. destruct H as [_ H]. apply IH in H. lia.
Qed.

Lemma starts_with_head : forall x p y n, starts_with (x :: p) (y :: n) = true -> x = y.
Proof. intros x p y n H. cbn [starts_with] in H. apply andb_true_iff in H. apply N.eqb_eq. tauto. Qed.

(* a drawing object is none of the elements the content loop knows by name *)
Lemma drawing_not_annot : forall n, is_drawing n = true -> str_eqb n o_annot = false.
Proof.
  intros n H. unfold is_drawing in H. apply orb_true_iff in H.
  destruct n as [|c n]; [destruct H; discriminate|].
  destruct (str_eqb (c :: n) o_annot) eqn:E; [|reflexivity].
  assert (c = 111) as -> by (unfold o_annot in E; cbn [str_eqb] in E; apply andb_true_iff in E;
                            apply N.eqb_eq; tauto).
  destruct H as [H|H]; apply starts_with_head in H; discriminate.
Qed.

Lemma drawing_skipped : forall n, is_drawing n = true -> skipped_subtree n = true.
Proof. intros n H. unfold skipped_subtree. unfold is_drawing in H. rewrite H. reflexivity. Qed.

(* the content loop keeps of a piece exactly what it denotes (inside a paragraph) *)
Lemma opiece_steps : forall cname val p s first paras, legal_opiece p = true -> 0 < paras ->
  od_steps cname val (OdMain s first paras) (opiece_events p) =
  Some (OdMain (s ++ opiece_text p) first paras).
Proof.
  intros cname val p s first paras Hl Hp.
  assert (Hp' : (0 <? paras) = true) by (apply N.ltb_lt; exact Hp).
  destruct p as [t|t|[c|]| | |st| | |st| | | |st body|n a body].
  15: { (* a drawing object inside the paragraph *)
    cbn [opiece_events opiece_text legal_opiece] in *. rewrite app_nil_r.
    apply andb_true_iff in Hl. destruct Hl as [Hd Hb].
    apply subtree_steps; [apply drawing_skipped; exact Hd | apply drawing_not_annot; exact Hd | exact Hb]. }
  14: { (* text:ruby-text *)
    cbn [opiece_events opiece_text legal_opiece] in *. rewrite app_nil_r.
    apply subtree_steps; [reflexivity|reflexivity|exact Hl]. }
  all: cbn [opiece_events od_steps od_step opiece_text];
    rewrite ?Hp'; sc; rewrite ?app_nil_r; try reflexivity.
  (* text:s with text:c *)
  cbn [get_attribute]. sc. cbn [legal_opiece] in Hl.
  destruct (parse_i32 c) as [k|]; [reflexivity|discriminate].
Qed.

Lemma opieces_steps : forall cname val ps s first paras, forallb legal_opiece ps = true -> 0 < paras ->
  od_steps cname val (OdMain s first paras) (flat_map opiece_events ps) =
  Some (OdMain (s ++ para_text ps) first paras).
Proof.
  induction ps as [|p ps IH]; intros s first paras H Hp.
  - cbn. rewrite app_nil_r. reflexivity.
  - cbn [forallb] in H. apply andb_true_iff in H. destruct H as [H1 H2].
    cbn [flat_map]. eapply od_steps_app; [apply opiece_steps; [exact H1|exact Hp]|].
    rewrite (IH _ first paras H2 Hp). unfold para_text. cbn [flat_map]. rewrite app_assoc. reflexivity.
Qed.

Lemma annot_body_steps : forall cname val body s first paras,
  forallb (event_not_end o_annot) body = true ->
  od_steps cname val (OdAnnot s first paras) body = Some (OdAnnot s first paras).
Proof.
  induction body as [|e body IH]; intros s first paras H; [reflexivity|].
  cbn [forallb] in H. apply andb_true_iff in H. destruct H as [H1 H2].
  cbn [od_steps]. destruct e as [n a|n|t|t|]; cbn [od_step event_not_end] in *;
    try (apply IH; exact H2).
  destruct (str_eqb n o_annot); [discriminate|]. apply IH. exact H2.
Qed.

(* state of the content loop after one child of the cell: only a paragraph changes it *)
Definition citem_after (sf : str * bool) (c : citem) : str * bool :=
  match c with
  | CPara ps => ((if snd sf then fst sf else fst sf ++ [10]) ++ para_text ps, false)
  | _ => sf
  end.

(* between the children of the cell no paragraph is open ([paras] is what it was: 0 at the top) *)
Lemma citem_steps : forall cname val c s first paras, legal_citem c = true ->
  od_steps cname val (OdMain s first paras) (citem_events c) =
  Some (OdMain (if 0 <? paras
                then match c with CWs ws => fst (citem_after (s, first) c) ++ ws | _ => fst (citem_after (s, first) c) end
                else fst (citem_after (s, first) c))
               (snd (citem_after (s, first) c)) paras).
Proof.
  intros cname val [ps|body|ws| |n a body] s first paras Hl;
    cbn [citem_events legal_citem citem_after fst snd] in *.
  - cbn [od_steps od_step]. sc.
    assert (Hp : 0 < paras + 1) by lia.
    assert (Hback : paras + 1 - 1 = paras) by lia.
    destruct first; cbv beta iota;
      (eapply od_steps_app; [apply opieces_steps; [exact Hl|exact Hp] |
                             cbn [od_steps od_step]; sc; rewrite Hback; destruct (0 <? paras); reflexivity]).
  - cbn [od_steps od_step]. sc.
    eapply od_steps_app; [apply annot_body_steps; exact Hl|].
    cbn [od_steps od_step]. sc. destruct (0 <? paras); reflexivity.
  - cbn [od_steps od_step]. destruct (0 <? paras); reflexivity.
  - cbn [od_steps od_step]. destruct (0 <? paras); reflexivity.
  - apply andb_true_iff in Hl. destruct Hl as [Hd Hb].
    rewrite subtree_steps;
      [destruct (0 <? paras); reflexivity | apply drawing_skipped; exact Hd
       | apply drawing_not_annot; exact Hd | exact Hb].
Qed.

Lemma citem_steps0 : forall cname val c s first, legal_citem c = true ->
  od_steps cname val (OdMain s first 0) (citem_events c) =
  Some (OdMain (fst (citem_after (s, first) c)) (snd (citem_after (s, first) c)) 0).
Proof. intros. rewrite citem_steps by assumption. reflexivity. Qed.

Lemma content_steps : forall cname val cs s first, legal_content cs = true ->
  od_steps cname val (OdMain s first 0) (content_events cs) =
  Some (OdMain (fst (fold_left citem_after cs (s, first))) (snd (fold_left citem_after cs (s, first))) 0).
Proof.
  induction cs as [|c cs IH]; intros s first H; [reflexivity|].
  unfold legal_content in *. cbn [forallb] in H. apply andb_true_iff in H. destruct H as [H1 H2].
  unfold content_events in *. cbn [flat_map fold_left].
  eapply od_steps_app; [apply citem_steps0; exact H1|].
  rewrite IH by exact H2. destruct (citem_after (s, first) c). reflexivity.
Qed.

(* paragraphs are joined by one newline *)
Lemma join_nl_cons : forall x l, join_nl (x :: l) = x ++ flat_map (fun t => 10 :: t) l.
Proof.
  intros x l. revert x. induction l as [|y l IH]; intro x.
  - cbn. rewrite app_nil_r. reflexivity.
  - change (join_nl (x :: y :: l)) with (x ++ 10 :: join_nl (y :: l)).
    rewrite (IH y). reflexivity.
Qed.

Lemma fold_citem_after_false : forall cs s,
  fold_left citem_after cs (s, false) =
  (s ++ flat_map (fun t => 10 :: t) (map para_text (paras_of cs)), false).
Proof.
  induction cs as [|c cs IH]; intro s.
  - cbn. rewrite app_nil_r. reflexivity.
  - cbn [fold_left]. destruct c as [ps|body|ws| |n a body]; cbn [citem_after fst snd];
      try (rewrite IH; reflexivity).
    rewrite IH. unfold paras_of. cbn [flat_map app map]. rewrite <- !app_assoc. reflexivity.
Qed.

Lemma fold_citem_after_true : forall cs,
  fst (fold_left citem_after cs ([], true)) = join_nl (map para_text (paras_of cs)).
Proof.
  induction cs as [|c cs IH]; [reflexivity|].
  cbn [fold_left]. destruct c as [ps|body|ws| |n a body]; cbn [citem_after fst snd]; try exact IH.
  rewrite fold_citem_after_false. unfold paras_of. cbn [flat_map app map fst].
  rewrite join_nl_cons. reflexivity.
Qed.

Definition cell_name_ok (cname : str) : Prop := cname = o_cell \/ cname = o_covered.

Lemma ods_attrs_extra : forall extra r is_string is_set val formula,
  legal_extra extra = true ->
  ods_attrs (extra ++ r) is_string is_set val formula = ods_attrs r is_string is_set val formula.
Proof.
  induction extra as [|[k v] extra IH]; intros r is_string is_set val formula H; [reflexivity|].
  unfold legal_extra in *. cbn [forallb fst] in H. apply andb_true_iff in H. destruct H as [H1 H2].
  cbn [app ods_attrs]. unfold inert_key in H1. apply negb_true_iff in H1.
  repeat (apply orb_false_iff in H1; destruct H1 as [H1 ?]).
  repeat match goal with E : str_eqb k _ = false |- _ => rewrite E; clear E end.
  cbn [andb orb]. apply IH. exact H2.
Qed.

(* MAIN (ods, text in the cell content): paragraphs joined by newline, text:s expanded, spans
   transparent, annotations skipped *)
Theorem ods_space_paragraph_roundtrip : forall cname extra cs rest,
  cell_name_ok cname -> legal_extra extra = true -> legal_content cs = true ->
  ods_cell cname (ods_cell_attrs extra (OsContent cs)) (ods_cell_events cname (OsContent cs) ++ rest) =
  Ok (OString (content_text cs), [], rest).
Proof.
  intros cname extra cs rest Hc He Hl. unfold ods_cell, ods_cell_attrs.
  rewrite ods_attrs_extra by exact He. cbn [ods_attrs]. sc.
  unfold ods_cell_events, ods_cell_content. rewrite <- app_assoc.
  rewrite (od_run_steps _ _ _ _ _ _ (content_steps cname OEmpty cs [] true Hl)).
  cbn [app od_run od_step obind].
  rewrite fold_citem_after_true.
  destruct Hc; subst cname; sc; reflexivity.
Qed.

(* text in office:string-value: the content is display only *)
Lemma od_steps_skip : forall cname val evs d,
  forallb (skip_inert cname) evs = true ->
  od_steps cname val (OdSkip d) evs = Some (OdSkip d).
Proof.
  induction evs as [|e evs IH]; intros d H; [reflexivity|].
  cbn [forallb] in H. apply andb_true_iff in H. destruct H as [H1 H2].
  cbn [od_steps]. destruct e as [n a|n|s|s|]; cbn [od_step skip_inert] in *;
    try (apply IH; exact H2).
  - destruct (str_eqb n cname); [discriminate|]. apply IH. exact H2.
  - destruct (str_eqb n cname); [discriminate|]. apply IH. exact H2.
Qed.

Theorem ods_string_value_attr : forall cname extra s cs rest,
  legal_extra extra = true -> forallb (skip_inert cname) (content_events cs) = true ->
  ods_cell cname (ods_cell_attrs extra (OsAttr s cs)) (ods_cell_events cname (OsAttr s cs) ++ rest) =
  Ok (OString s, [], rest).
Proof.
  intros cname extra s cs rest He Hi. unfold ods_cell, ods_cell_attrs.
  rewrite ods_attrs_extra by exact He. cbn [ods_attrs]. sc.
  unfold ods_cell_events, ods_cell_content. rewrite <- app_assoc.
  rewrite (od_run_steps _ _ _ _ _ _ (od_steps_skip cname (OString s) _ 0 Hi)).
  cbn [app od_run od_step obind]. rewrite str_eqb_refl. reflexivity.
Qed.

Definition legal_ods_full (cname : str) (st : ods_store) : bool :=
  match st with
  | OsContent cs => legal_content cs
  | OsAttr _ cs => forallb (skip_inert cname) (content_events cs)
  end.

Theorem text_survives_ods : forall cname extra st rest,
  cell_name_ok cname -> legal_extra extra = true -> legal_ods_full cname st = true ->
  ods_cell cname (ods_cell_attrs extra st) (ods_cell_events cname st ++ rest) =
  Ok (OString (ods_text st), [], rest).
Proof.
  intros cname extra [cs|s cs] rest Hc He Hl; cbn [legal_ods_full ods_text] in *.
  - apply ods_space_paragraph_roundtrip; assumption.
  - apply ods_string_value_attr; assumption.
Qed.

(* what is not a paragraph contributes nothing: indentation, comments, annotations, the drawing
   objects anchored to the cell with all the paragraphs they hold *)
Definition is_para (c : citem) : bool := match c with CPara _ => true | _ => false end.

Lemma paras_of_app : forall a b, paras_of (a ++ b) = paras_of a ++ paras_of b.
Proof. intros a b. unfold paras_of. apply flat_map_app. Qed.

Theorem ods_nonpara_contributes_nothing : forall cs1 c cs2,
  is_para c = false -> content_text (cs1 ++ c :: cs2) = content_text (cs1 ++ cs2).
Proof.
  intros cs1 c cs2 H. unfold content_text. rewrite !paras_of_app.
  destruct c; try discriminate; reflexivity.
Qed.

(* the reading of a phonetic guide contributes nothing, its base everything it holds *)
Theorem ods_ruby_text_contributes_nothing : forall ps1 st body ps2,
  para_text (ps1 ++ ORubyText st body :: ps2) = para_text (ps1 ++ ps2).
Proof. intros. unfold para_text. rewrite !flat_map_app. reflexivity. Qed.

Theorem ods_ruby_is_its_base : forall st base rst body,
  para_text (ORubyOpen st :: ORubyBaseOpen :: base ++ [ORubyBaseClose; ORubyText rst body; ORubyClose]) =
  para_text base.
Proof.
  intros. unfold para_text. cbn [flat_map opiece_text app]. rewrite flat_map_app.
  cbn [flat_map opiece_text app]. rewrite app_nil_r. reflexivity.
Qed.

(* two arrangements of the same paragraphs — flat or indented at every level, with or without
   anchored drawing objects, comments, an annotation — read the same *)
Theorem ods_layout_independent : forall cname extra1 extra2 cs1 cs2 rest1 rest2,
  cell_name_ok cname -> legal_extra extra1 = true -> legal_extra extra2 = true ->
  legal_content cs1 = true -> legal_content cs2 = true ->
  map para_text (paras_of cs1) = map para_text (paras_of cs2) ->
  exists t,
    ods_cell cname (ods_cell_attrs extra1 (OsContent cs1)) (ods_cell_events cname (OsContent cs1) ++ rest1)
      = Ok (OString t, [], rest1) /\
    ods_cell cname (ods_cell_attrs extra2 (OsContent cs2)) (ods_cell_events cname (OsContent cs2) ++ rest2)
      = Ok (OString t, [], rest2).
Proof.
  intros cname extra1 extra2 cs1 cs2 rest1 rest2 Hc He1 He2 Hl1 Hl2 Hp.
  exists (content_text cs1). split.
  - apply ods_space_paragraph_roundtrip; assumption.
  - unfold content_text. rewrite Hp. apply ods_space_paragraph_roundtrip; assumption.
Qed.

(* ---------- every string has an encoding in the style of LibreOffice ---------- *)
Lemma split_nl_aux_nonempty : forall s cur, split_nl_aux cur s <> [].
Proof.
  induction s as [|c s IH]; intro cur; cbn [split_nl_aux]; [discriminate|].
  destruct (c =? 10); [discriminate | apply IH].
Qed.

Lemma join_nl_cons2 : forall x l, l <> [] -> join_nl (x :: l) = x ++ 10 :: join_nl l.
Proof. intros x [|y l] H; [congruence|reflexivity]. Qed.

Lemma join_split_aux : forall s cur, join_nl (split_nl_aux cur s) = rev cur ++ s.
Proof.
  induction s as [|c s IH]; intro cur; cbn [split_nl_aux].
  - cbn [join_nl]. rewrite app_nil_r. reflexivity.
  - destruct (c =? 10) eqn:E.
    + rewrite join_nl_cons2 by apply split_nl_aux_nonempty. rewrite IH. cbn [rev app].
      apply N.eqb_eq in E. subst c. reflexivity.
    + rewrite IH. cbn [rev]. rewrite <- app_assoc. reflexivity.
Qed.

Lemma join_split : forall s, join_nl (split_nl s) = s.
Proof. intro s. unfold split_nl. rewrite join_split_aux. reflexivity. Qed.

Lemma spaces_as_elements_text : forall line, para_text (spaces_as_elements line) = line.
Proof.
  induction line as [|c line IH]; [reflexivity|].
  unfold para_text, spaces_as_elements in *. cbn [map flat_map]. rewrite IH.
  destruct (c =? SPACE) eqn:E; cbn [opiece_text app].
  - apply N.eqb_eq in E. subst c. reflexivity.
  - destruct (c =? 9) eqn:E9; cbn [opiece_text app]; [|reflexivity].
    apply N.eqb_eq in E9. subst c. reflexivity.
Qed.

Lemma spaces_as_elements_ok : forall line, forallb legal_opiece (spaces_as_elements line) = true.
Proof.
  induction line as [|c line IH]; [reflexivity|].
  unfold spaces_as_elements in *. cbn [map forallb]. rewrite IH.
  destruct (c =? SPACE); [reflexivity|]. destruct (c =? 9); reflexivity.
Qed.

Theorem ods_encode_text : forall s,
  content_text (ods_encode s) = s /\ legal_content (ods_encode s) = true.
Proof.
  intro s. unfold ods_encode, content_text.
  assert (Hp : forall l, paras_of (map (fun line => CPara (spaces_as_elements line)) l) =
                         map spaces_as_elements l).
  { induction l as [|x l IH]; [reflexivity|]. unfold paras_of in *. cbn [map flat_map app].
    rewrite IH. reflexivity. }
  rewrite Hp, map_map.
  rewrite (map_ext _ (fun x => x) spaces_as_elements_text), map_id, join_split.
  split; [reflexivity|]. generalize (split_nl s). intro l.
  induction l as [|x l IH]; [reflexivity|]. unfold legal_content in *. cbn [map forallb legal_citem].
  rewrite (spaces_as_elements_ok x), IH. reflexivity.
Qed.

Theorem ods_encode_survives : forall s rest,
  ods_cell o_cell (ods_cell_attrs [] (OsContent (ods_encode s)))
           (ods_cell_events o_cell (OsContent (ods_encode s)) ++ rest) = Ok (OString s, [], rest).
Proof.
  intros s rest. destruct (ods_encode_text s) as (Ht & Hl).
  rewrite ods_space_paragraph_roundtrip; try assumption; try reflexivity.
  - rewrite Ht. reflexivity.
  - left. reflexivity.
Qed.

(* ====================================================================================== *)
(*            totality (C06): no event list makes a reader panic or run out of fuel        *)
(* ====================================================================================== *)
(* no transition panics *)
Lemma rs_step_no_boom : forall cl st e, rs_step cl st e <> Boom.
Proof.
  intros cl st e. destruct st as [rich phon|rich tn v|v d]; destruct e as [n a|n|s|s|]; cbn [rs_step];
    try discriminate.
  - destruct (str_eqb (local_name n) n_r); [discriminate|].
    destruct (str_eqb (local_name n) n_rPh); [discriminate|].
    destruct (str_eqb (local_name n) n_t && negb phon); discriminate.
  - destruct (str_eqb n cl); [discriminate|]. destruct (str_eqb (local_name n) n_rPh); discriminate.
  - destruct (str_eqb n tn); [|discriminate]. destruct rich; discriminate.
  - destruct (str_eqb n cl); discriminate.
  - destruct (str_eqb n cl); [|discriminate]. destruct (d =? 0); discriminate.
Qed.

Lemma read_v_no_boom : forall v strings ca, read_v v strings ca <> Boom.
Proof.
  intros v strings ca. unfold read_v. destruct (get_attribute ca a_t) as [t|]; [|discriminate].
  destruct (str_eqb t v_s).
  - destruct (_ <? _); [|discriminate]. destruct (nth_error strings _); discriminate.
  - destruct (str_eqb t v_str); [discriminate|].
    destruct (str_eqb t v_b || str_eqb t v_e || str_eqb t v_d || str_eqb t v_n); discriminate.
Qed.

Lemma cc_step_no_boom : forall strings ca st e, cc_step strings ca st e <> Boom.
Proof.
  intros strings ca st e. destruct st as [value|cl rs|vn acc|fn d]; cbn [cc_step].
  - destruct e as [n a|n|s|s|]; try discriminate.
    + destruct (str_eqb (local_name n) n_is); [discriminate|].
      destruct (str_eqb (local_name n) n_v); [discriminate|].
      destruct (str_eqb (local_name n) n_f); discriminate.
    + destruct (str_eqb (local_name n) n_c); discriminate.
  - pose proof (rs_step_no_boom cl rs e) as H. destruct (rs_step cl rs e); try discriminate.
    congruence.
  - destruct e as [n a|n|s|s|]; try discriminate.
    destruct (str_eqb n vn); [|discriminate].
    pose proof (read_v_no_boom acc strings ca) as H. destruct (read_v acc strings ca); try discriminate.
    congruence.
  - destruct e as [n a|n|s|s|]; try discriminate.
    + destruct (str_eqb n fn); discriminate.
    + destruct (str_eqb n fn); [|discriminate]. destruct (d =? 0); discriminate.
Qed.

Lemma fc_step_no_boom : forall st e, fc_step st e <> Boom.
Proof.
  intros st e. destruct st as [value|nm sh d value|fn sh acc]; destruct e as [n a|n|s|s|]; cbn [fc_step];
    try discriminate.
  - destruct (str_eqb (local_name n) n_is || str_eqb (local_name n) n_v); [discriminate|].
    destruct (str_eqb (local_name n) n_f); discriminate.
  - destruct (str_eqb (local_name n) n_c); discriminate.
  - destruct (str_eqb n nm); discriminate.
  - destruct (str_eqb n nm); [|discriminate]. destruct (d =? 0); discriminate.
  - destruct (str_eqb n fn); discriminate.
Qed.

Lemma od_step_no_boom : forall cn val st e, od_step cn val st e <> Boom.
Proof.
  intros cn val st e. destruct st as [s first paras|s first paras|nm d s first paras|d];
    destruct e as [n a|n|t|t|]; cbn [od_step]; try discriminate.
  - destruct (str_eqb n o_annot); [discriminate|].
    destruct (skipped_subtree n); [discriminate|].
    destruct (str_eqb n o_p); [destruct first; discriminate|].
    destruct (str_eqb n o_s).
    + destruct (get_attribute a o_c) as [c|]; [|discriminate]. destruct (parse_i32 c); discriminate.
    + destruct (str_eqb n o_tab); [discriminate|]. destruct (str_eqb n o_break); discriminate.
  - destruct (str_eqb n o_p); [discriminate|].
    destruct (str_eqb n o_cell || str_eqb n o_covered); discriminate.
  - destruct (0 <? paras); discriminate.
  - destruct (0 <? paras); discriminate.
  - destruct (str_eqb n o_annot); discriminate.
  - destruct (str_eqb n nm); discriminate.
  - destruct (str_eqb n nm); [|discriminate]. destruct (d =? 0); discriminate.
  - destruct (str_eqb n cn); discriminate.
  - destruct (str_eqb n cn); [|discriminate]. destruct (d =? 0); discriminate.
Qed.

(* hence no run does, from any state, on any event list; and no run needs fuel *)
Lemma rs_run_total : forall cl evs st, rs_run cl st evs <> Panic /\ rs_run cl st evs <> OutOfFuel.
Proof.
  induction evs as [|e evs IH]; intro st; cbn [rs_run]; [split; discriminate|].
  pose proof (rs_step_no_boom cl st e) as H.
  destruct (rs_step cl st e); try (split; discriminate); [apply IH | congruence].
Qed.

Lemma cc_run_total : forall strings ca evs st,
  cc_run strings ca st evs <> Panic /\ cc_run strings ca st evs <> OutOfFuel.
Proof.
  induction evs as [|e evs IH]; intro st; cbn [cc_run]; [split; discriminate|].
  pose proof (cc_step_no_boom strings ca st e) as H.
  destruct (cc_step strings ca st e); try (split; discriminate); [apply IH | congruence].
Qed.

Lemma od_run_total : forall cn val evs st,
  od_run cn val st evs <> Panic /\ od_run cn val st evs <> OutOfFuel.
Proof.
  induction evs as [|e evs IH]; intro st; cbn [od_run]; [split; discriminate|].
  pose proof (od_step_no_boom cn val st e) as H.
  destruct (od_step cn val st e); try (split; discriminate); [apply IH | congruence].
Qed.

Theorem read_string_total : forall closing evs,
  read_string closing evs <> Panic /\ read_string closing evs <> OutOfFuel.
Proof. intros closing evs. apply rs_run_total. Qed.

Theorem read_cell_total : forall strings ca evs,
  read_cell strings ca evs <> Panic /\ read_cell strings ca evs <> OutOfFuel.
Proof. intros strings ca evs. apply cc_run_total. Qed.

Theorem read_shared_strings_total : forall evs,
  read_shared_strings evs <> Panic /\ read_shared_strings evs <> OutOfFuel.
Proof.
  intro evs. unfold read_shared_strings. generalize (@None (str * rs_state)) as cur. generalize (@nil str) as racc.
  induction evs as [|e evs IH]; intros racc cur; cbn [sst_run]; [split; discriminate|].
  destruct cur as [[cl st]|].
  - pose proof (rs_step_no_boom cl st e) as H.
    destruct (rs_step cl st e); try (split; discriminate); [apply IH | apply IH | congruence].
  - destruct e as [n a|n|s|s|]; try apply IH.
    + destruct (str_eqb (local_name n) n_si); apply IH.
    + destruct (str_eqb (local_name n) n_sst); [split; discriminate | apply IH].
Qed.

Theorem read_sheet_cells_total : forall strings evs,
  read_sheet_cells strings evs <> Panic /\ read_sheet_cells strings evs <> OutOfFuel.
Proof.
  intros strings evs. unfold read_sheet_cells.
  generalize (@None (attrs * cc_state)) as cur. generalize (@nil (attrs * cellval)) as racc.
  induction evs as [|e evs IH]; intros racc cur; cbn [sheet_run]; [split; discriminate|].
  destruct cur as [[ca st]|].
  - pose proof (cc_step_no_boom strings ca st e) as H.
    destruct (cc_step strings ca st e); try (split; discriminate); [apply IH | apply IH | congruence].
  - destruct e as [n a|n|s|s|]; try apply IH.
    + destruct (str_eqb (local_name n) n_c); apply IH.
    + destruct (str_eqb (local_name n) n_sheetData); [split; discriminate | apply IH].
Qed.

Theorem read_sheet_formulas_total : forall evs,
  read_sheet_formulas evs <> Panic /\ read_sheet_formulas evs <> OutOfFuel.
Proof.
  intro evs. unfold read_sheet_formulas.
  generalize (@None (attrs * fc_state)) as cur. generalize (@nil (attrs * fval)) as racc.
  induction evs as [|e evs IH]; intros racc cur; cbn [fsheet_run]; [split; discriminate|].
  destruct cur as [[ca st]|].
  - pose proof (fc_step_no_boom st e) as H.
    destruct (fc_step st e); try (split; discriminate); [apply IH | apply IH | congruence].
  - destruct e as [n a|n|s|s|]; try apply IH.
    + destruct (str_eqb (local_name n) n_c); apply IH.
    + destruct (str_eqb (local_name n) n_sheetData); [split; discriminate | apply IH].
Qed.

Theorem ods_cell_total : forall cname a evs,
  ods_cell cname a evs <> Panic /\ ods_cell cname a evs <> OutOfFuel.
Proof.
  intros cname a evs. unfold ods_cell.
  destruct (ods_attrs a false false OEmpty []) as [[[is_string is_set] val] formula].
  destruct (negb is_set && is_string).
  - destruct (od_run_total cname val evs (OdMain [] true 0)) as [H1 H2].
    destruct (od_run cname val (OdMain [] true 0) evs); cbn [obind]; try (split; discriminate); tauto.
  - destruct (od_run_total cname val evs (OdSkip 0)) as [H1 H2].
    destruct (od_run cname val (OdSkip 0) evs); cbn [obind]; try (split; discriminate); tauto.
Qed.
