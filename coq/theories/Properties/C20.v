(* Property C20 — encrypted workbooks are reported as password protected, and only those.
   Only the property theorems (closed by [exact]), [Check] pins, non-vacuity examples and
   [Print Assumptions].  Models: Password.v (xls, ods), PasswordCfb.v (xlsx / xlsb, over the
   compound-file model Cfb.v of property C13); proofs: Password_proofs.v, PasswordCfb_proofs.v. *)
From Calamine Require Import Prelude Cfb Cfb_proofs PasswordCfb PasswordCfb_proofs Password Password_proofs.
Open Scope N_scope.

(* ------------------------------------------------------------------ xls *)
(* For every globals stream in which a FILEPASS record — any body: encryption type 0 (XOR key +
   verifier), type 1 (RC4 or CryptoAPI header), or anything else, any length — stands after any
   records (with their CONTINUE records) that the loop passes over, and is followed by any
   well-framed records of any type and content (the ciphertext), the globals loop of
   parse_workbook returns XlsError::Password.  [interp] = the other arms of the loop. *)
Theorem C20_filepass_is_password :
  forall (interp : frec -> outcome unit) (pre : list item) (body : list N)
         (post : list (N * list N)),
    forallb item_ok pre = true ->
    (forall it, In it pre ->
       i_typ it <> FILEPASS /\ i_typ it <> EOF_REC /\ interp (item_rec it) = Ok tt) ->
    body_ok body = true -> forallb raw_ok post = true ->
    xls_globals interp (items_bytes pre ++ rec_bytes FILEPASS body ++ raw_bytes post)
    = Err Password.E_PASSWORD.
Proof. exact filepass_is_password. Qed.

(* the same through Xls::new, the stream being found as "Workbook" … *)
Theorem C20_filepass_is_password_workbook :
  forall (interp : frec -> outcome unit) vba book pre body post,
    forallb item_ok pre = true ->
    (forall it, In it pre ->
       i_typ it <> FILEPASS /\ i_typ it <> EOF_REC /\ interp (item_rec it) = Ok tt) ->
    body_ok body = true -> forallb raw_ok post = true ->
    xls_new interp false vba
            (Ok (items_bytes pre ++ rec_bytes FILEPASS body ++ raw_bytes post)) book
    = Err Password.E_PASSWORD.
Proof. exact xls_new_filepass_workbook. Qed.

(* … or, when there is no such stream, as "Book" *)
Theorem C20_filepass_is_password_book :
  forall (interp : frec -> outcome unit) vba e pre body post,
    forallb item_ok pre = true ->
    (forall it, In it pre ->
       i_typ it <> FILEPASS /\ i_typ it <> EOF_REC /\ interp (item_rec it) = Ok tt) ->
    body_ok body = true -> forallb raw_ok post = true ->
    xls_new interp false vba (Err e)
            (Ok (items_bytes pre ++ rec_bytes FILEPASS body ++ raw_bytes post))
    = Err Password.E_PASSWORD.
Proof. exact xls_new_filepass_book. Qed.

(* converse: a globals substream without a FILEPASS record, closed by its EOF record and followed
   by anything, is never reported — whatever its records make the loop do (errors, panics) *)
Theorem C20_no_false_positive_xls :
  forall (interp : frec -> outcome unit),
    (forall r, interp r <> Err Password.E_PASSWORD) ->
    forall (items : list item) (eofbody rest : list N) (fuel : nat),
      forallb item_ok items = true ->
      (forall it, In it items -> i_typ it <> FILEPASS) ->
      globals_loop interp fuel (items_bytes items ++ rec_bytes EOF_REC eofbody ++ rest)
      <> Err Password.E_PASSWORD.
Proof. exact no_filepass_no_password. Qed.

(* the arms modelled in Password.v satisfy the side condition *)
Theorem C20_no_false_positive_xls_real :
  forall (items : list item) (eofbody rest : list N),
    forallb item_ok items = true ->
    (forall it, In it items -> i_typ it <> FILEPASS) ->
    xls_globals interp_real (items_bytes items ++ rec_bytes EOF_REC eofbody ++ rest)
    <> Err Password.E_PASSWORD.
Proof. exact no_filepass_no_password_real. Qed.

(* ------------------------------------------------------------------ xlsx / xlsb *)
(* Cfb::has_directory("EncryptedPackage") asks the ROOT storage since the fix of audit finding G8
   (compound-file names are unique per storage only: src/cfb.rs Cfb::find follows the child /
   sibling ids); a file that carries no hierarchy (root child id NOSTREAM) is scanned as a flat
   array, as every file was before.
   THROUGH THE BYTES, ANY LAYOUT: for every container whose root storage holds an object named
   EncryptedPackage (any content and size, any other streams and storages, any hierarchy) and every
   valid physical layout of it whose links are a tree over the hierarchy, the model of
   check_for_password_protected run on the written file answers Password, and Xlsx::new /
   Xlsb::new return it without opening the zip.  (Composition with C13_has_directory_root; fuel:
   1 + number of DIFAT sectors, or anything above.) *)
Theorem C20_encrypted_ooxml_is_password_any_layout :
  forall (c : container) (l : layout) (fuel : nat) (zip : outcome unit),
    valid_layout c l -> linked_tree c l -> (fuel_for l <= fuel)%nat ->
    resolve c 0 [ENCRYPTED_PACKAGE] <> None ->
    ooxml_check_bytes fuel (cfb_write c l) = Err PasswordCfb.E_PASSWORD /\
    ooxml_new_bytes fuel (cfb_write c l) zip = Err PasswordCfb.E_PASSWORD.
Proof. exact encrypted_ooxml_is_password_any_layout. Qed.

(* the usual case: a stream of that name in the root storage, any ciphertext *)
Theorem C20_encrypted_stream_is_password_any_layout :
  forall (c : container) (l : layout) (fuel : nat) (zip : outcome unit) (bytes : list N),
    valid_layout c l -> linked_tree c l -> (fuel_for l <= fuel)%nat ->
    spec_path c [ENCRYPTED_PACKAGE] = Some bytes ->
    ooxml_check_bytes fuel (cfb_write c l) = Err PasswordCfb.E_PASSWORD /\
    ooxml_new_bytes fuel (cfb_write c l) zip = Err PasswordCfb.E_PASSWORD.
Proof. exact encrypted_stream_is_password_any_layout. Qed.

(* no hierarchy written: an object of that name anywhere in the container *)
Theorem C20_encrypted_ooxml_is_password_any_layout_flat :
  forall (c : container) (l : layout) (fuel : nat) (zip : outcome unit),
    valid_layout c l -> flat_root c l -> (fuel_for l <= fuel)%nat ->
    mem_name ENCRYPTED_PACKAGE (all_names c) = true ->
    ooxml_check_bytes fuel (cfb_write c l) = Err PasswordCfb.E_PASSWORD /\
    ooxml_new_bytes fuel (cfb_write c l) zip = Err PasswordCfb.E_PASSWORD.
Proof. exact encrypted_ooxml_is_password_any_layout_flat. Qed.

(* converse through the bytes: a compound file written from a container WITHOUT an object of that
   name, in every valid layout, whatever its links, passes the check (the reader goes on to the zip) *)
Theorem C20_no_false_positive_ooxml_any_layout :
  forall (c : container) (l : layout) (fuel : nat) (zip : outcome unit),
    valid_layout c l -> (fuel_for l <= fuel)%nat ->
    mem_name ENCRYPTED_PACKAGE (all_names c) = false ->
    ooxml_check_bytes fuel (cfb_write c l) = Ok tt /\
    ooxml_new_bytes fuel (cfb_write c l) zip = zip.
Proof. exact no_encrypted_package_any_layout. Qed.

(* "and only then": an EncryptedPackage that only an embedded object holds (not the root storage)
   does not make the file count as password protected *)
Theorem C20_nested_encrypted_package_not_password :
  forall (c : container) (l : layout) (fuel : nat) (zip : outcome unit),
    valid_layout c l -> linked_tree c l -> (fuel_for l <= fuel)%nat ->
    resolve c 0 [ENCRYPTED_PACKAGE] = None ->
    ooxml_check_bytes fuel (cfb_write c l) = Ok tt /\
    ooxml_new_bytes fuel (cfb_write c l) zip = zip.
Proof. exact nested_encrypted_package_not_password. Qed.

(* the directory scan of PasswordCfb.v IS Cfb.has_directory *)
Theorem C20_has_directory_is_cfb : forall (cf : cfb) (name : list N),
  Cfb.has_directory cf name = PasswordCfb.has_directory (directories cf) name.
Proof. exact has_directory_is_cfb. Qed.

(* over a parsed directory without hierarchy (the root entry links to no child): an entry named
   EncryptedPackage at any index among any entries *)
Theorem C20_encrypted_ooxml_is_password :
  forall (before : list dirent) (d : dirent) (after_ : list dirent) (zip : outcome unit),
    children (before ++ d :: after_) 0 = [] ->
    name_equiv (d_name d) ENCRYPTED_PACKAGE ->
    ooxml_check (Ok (before ++ d :: after_)) = Err PasswordCfb.E_PASSWORD /\
    ooxml_new (Ok (before ++ d :: after_)) zip = Err PasswordCfb.E_PASSWORD.
Proof. exact encrypted_package_is_password. Qed.

(* over a parsed directory with a hierarchy: an entry of that name among those the sibling tree of
   the root entry links to, at any index *)
Theorem C20_encrypted_package_of_root_is_password :
  forall (dirs : list dirent) (i : N) (d : dirent) (zip : outcome unit),
    In i (children dirs 0) -> nthN dirs i = Some d -> name_equiv (d_name d) ENCRYPTED_PACKAGE ->
    ooxml_check (Ok dirs) = Err PasswordCfb.E_PASSWORD /\ ooxml_new (Ok dirs) zip = Err PasswordCfb.E_PASSWORD.
Proof. exact encrypted_package_of_root_is_password. Qed.

(* over the bytes of the directory chain: whole 128-byte entries, the EncryptedPackage entry as a
   writer lays it out (any bytes behind the name terminator, any other fields, any start and
   size), at any index, every OTHER entry arbitrary bytes, both sector sizes: Password as soon as
   the array carries no hierarchy or the root's sibling tree reaches that entry *)
Theorem C20_encrypted_ooxml_is_password_bytes :
  forall (before after_ : list (list N)) (pad mid : list N) (start size ss : N)
         (zip : outcome unit),
    Forall (fun e => length e = 128%nat) before ->
    Forall (fun e => length e = 128%nat) after_ ->
    exists ds,
      parse_dirs
        (concat (before ++ dir_entry_bytes ENCRYPTED_PACKAGE pad mid start size :: after_)) ss
        = Ok ds /\
      (children ds 0 = [] \/ In (N.of_nat (length before)) (children ds 0) ->
       ooxml_check (Ok ds) = Err PasswordCfb.E_PASSWORD /\
       ooxml_new (Ok ds) zip = Err PasswordCfb.E_PASSWORD).
Proof. exact encrypted_ooxml_is_password. Qed.

(* converse, byte level: a file that starts with the zip local-header signature is rejected by
   Cfb::new (Header::from_reader: Io under 512 bytes, Ole otherwise), so the check passes and the
   reader opens the zip — for any fuel *)
Theorem C20_no_false_positive_ooxml :
  forall (f : list N) (fuel : nat) (zip : outcome unit),
    firstn 4 f = ZIP_LOCAL ->
    (cfb_new fuel f = Err ERR_IO \/ cfb_new fuel f = Err ERR_OLE) /\
    ooxml_check_bytes fuel f = Ok tt /\
    ooxml_new_bytes fuel f zip = zip.
Proof. exact zip_no_false_positive. Qed.

(* converse over a parsed directory *)
Theorem C20_no_false_positive_ooxml_dirs :
  forall cfb : outcome (list dirent),
    (forall dirs, cfb = Ok dirs -> forall d, In d dirs -> ~ name_equiv (d_name d) ENCRYPTED_PACKAGE) ->
    ooxml_check cfb <> Err PasswordCfb.E_PASSWORD.
Proof. exact no_encrypted_package_not_password. Qed.

(* ------------------------------------------------------------------ totality (for C06) *)
(* no input whatsoever — no well-formedness hypothesis — makes the modelled scans panic, and the
   fuel the models give themselves is never exhausted *)
Theorem C20_no_panic_ooxml_check : forall (fuel : nat) (file : list N),
  ooxml_check_bytes fuel file <> Panic /\
  (Cfb.lenN file / 512 < N.of_nat fuel -> ooxml_check_bytes fuel file <> OutOfFuel).
Proof. exact ooxml_check_bytes_total. Qed.

Theorem C20_no_panic_ooxml_check_file : forall file : list N,
  ooxml_check_bytes (fuel_of_file file) file <> Panic /\
  ooxml_check_bytes (fuel_of_file file) file <> OutOfFuel.
Proof. exact ooxml_check_bytes_no_panic. Qed.

Theorem C20_no_panic_parse_dirs : forall (chain : list N) (ss : N),
  parse_dirs chain ss <> Panic /\ parse_dirs chain ss <> OutOfFuel.
Proof. exact parse_dirs_total. Qed.

(* RecordIter::next on any bytes; every record consumes at least its header *)
Theorem C20_no_panic_record_iter : forall (s : list N) (o : outcome (frec * list N)),
  next_record s = Some o ->
  o <> Panic /\ o <> OutOfFuel /\
  forall r rest, o = Ok (r, rest) -> (length rest + 4 <= length s)%nat.
Proof. exact next_record_total. Qed.

(* the globals loop on any bytes, for any total [interp] … *)
Theorem C20_no_panic_xls_globals :
  forall interp : frec -> outcome unit,
    (forall r, interp r <> Panic /\ interp r <> OutOfFuel) ->
    forall s : list N, xls_globals interp s <> Panic /\ xls_globals interp s <> OutOfFuel.
Proof. exact xls_globals_total. Qed.

(* … in particular for the arms modelled in Password.v (since the hardening of /repo the
   short-record cases of CodePage, Date1904 and BOF are errors) *)
Theorem C20_no_panic_xls_globals_real : forall s : list N,
  xls_globals interp_real s <> Panic /\ xls_globals interp_real s <> OutOfFuel.
Proof. exact xls_globals_real_total. Qed.

Theorem C20_no_panic_manifest_scan : forall evs : list mevent,
  manifest_scan evs <> Panic /\ manifest_scan evs <> OutOfFuel.
Proof. exact manifest_scan_total. Qed.

Theorem C20_no_panic_ods_new : forall (mt : option (list N)) (mf : option (list mevent)),
  ods_new mt mf <> Panic /\ ods_new mt mf <> OutOfFuel.
Proof. exact ods_new_total. Qed.

(* ------------------------------------------------------------------ ods *)
(* event level: an encryption-data start tag anywhere after a file-entry start tag, each under
   any namespace prefix the code accepts (local name = what follows the first ':'), among any
   other events, any number of entries before, between and after *)
Theorem C20_ods_encryption_data_is_password :
  forall (a : list mevent) (q1 : list N) (b : list mevent) (q2 : list N) (c : list mevent),
    no_err a -> no_err b ->
    str_eqb (local_name q1) FILE_ENTRY = true ->
    str_eqb (local_name q2) ENCRYPTION_DATA = true ->
    manifest_scan (a ++ MStart q1 :: b ++ MStart q2 :: c) = Err Password.E_PASSWORD.
Proof. exact encryption_data_is_password. Qed.

(* structured: for every manifest (any number of entries, every element under its own prefix
   spelling or none) the check answers Password exactly when some entry declares encryption *)
Theorem C20_ods_manifest_spec :
  forall (rp : option (list N)) (es : list entry),
    prefix_ok rp = true -> forallb entry_ok es = true ->
    manifest_scan (render_manifest rp es) = spec_ods es.
Proof. exact manifest_scan_spec. Qed.

Theorem C20_no_false_positive_ods :
  forall evs : list mevent,
    (forall q, In (MStart q) evs -> str_eqb (local_name q) ENCRYPTION_DATA = false) ->
    manifest_scan evs <> Err Password.E_PASSWORD.
Proof. exact no_encryption_data_no_password. Qed.

Check C20_filepass_is_password :
  forall (interp : frec -> outcome unit) (pre : list item) (body : list N)
         (post : list (N * list N)),
    forallb item_ok pre = true ->
    (forall it, In it pre ->
       i_typ it <> FILEPASS /\ i_typ it <> EOF_REC /\ interp (item_rec it) = Ok tt) ->
    body_ok body = true -> forallb raw_ok post = true ->
    xls_globals interp (items_bytes pre ++ rec_bytes FILEPASS body ++ raw_bytes post)
    = Err Password.E_PASSWORD.
Check C20_encrypted_ooxml_is_password_any_layout :
  forall (c : container) (l : layout) (fuel : nat) (zip : outcome unit),
    valid_layout c l -> linked_tree c l -> (fuel_for l <= fuel)%nat ->
    resolve c 0 [ENCRYPTED_PACKAGE] <> None ->
    ooxml_check_bytes fuel (cfb_write c l) = Err PasswordCfb.E_PASSWORD /\
    ooxml_new_bytes fuel (cfb_write c l) zip = Err PasswordCfb.E_PASSWORD.
Check C20_nested_encrypted_package_not_password :
  forall (c : container) (l : layout) (fuel : nat) (zip : outcome unit),
    valid_layout c l -> linked_tree c l -> (fuel_for l <= fuel)%nat ->
    resolve c 0 [ENCRYPTED_PACKAGE] = None ->
    ooxml_check_bytes fuel (cfb_write c l) = Ok tt /\
    ooxml_new_bytes fuel (cfb_write c l) zip = zip.
Check C20_encrypted_ooxml_is_password :
  forall (before : list dirent) (d : dirent) (after_ : list dirent) (zip : outcome unit),
    children (before ++ d :: after_) 0 = [] ->
    name_equiv (d_name d) ENCRYPTED_PACKAGE ->
    ooxml_check (Ok (before ++ d :: after_)) = Err PasswordCfb.E_PASSWORD /\
    ooxml_new (Ok (before ++ d :: after_)) zip = Err PasswordCfb.E_PASSWORD.
Check C20_ods_encryption_data_is_password :
  forall (a : list mevent) (q1 : list N) (b : list mevent) (q2 : list N) (c : list mevent),
    no_err a -> no_err b ->
    str_eqb (local_name q1) FILE_ENTRY = true ->
    str_eqb (local_name q2) ENCRYPTION_DATA = true ->
    manifest_scan (a ++ MStart q1 :: b ++ MStart q2 :: c) = Err Password.E_PASSWORD.
Check C20_no_false_positive_ods :
  forall evs : list mevent,
    (forall q, In (MStart q) evs -> str_eqb (local_name q) ENCRYPTION_DATA = false) ->
    manifest_scan evs <> Err Password.E_PASSWORD.

(* ------------------------------------------------------------------ non-vacuity *)
(* BOF, WRITEACCESS-like 0x005C with a CONTINUE, CodePage 1200; FILEPASS type 1 (RC4);
   then two "encrypted" records, one of them a CONTINUE *)
Definition ex_pre : list item :=
  [mkItem 2057 [0; 6; 5; 0] []; mkItem 92 [1; 2; 3] [[4; 5]; []]; mkItem 66 [176; 4] []].
Definition ex_post : list (N * list N) := [(133, [9; 9; 9]); (60, [7]); (10, [])].

Example C20_filepass_is_password_nonvacuous :
  forallb item_ok ex_pre = true /\
  (forall it, In it ex_pre ->
     i_typ it <> FILEPASS /\ i_typ it <> EOF_REC /\ interp_real (item_rec it) = Ok tt) /\
  body_ok [1; 0; 1; 0; 1; 0] = true /\ forallb raw_ok ex_post = true /\
  xls_globals interp_real (items_bytes ex_pre ++ rec_bytes FILEPASS [1; 0; 1; 0; 1; 0] ++ raw_bytes ex_post)
  = Err Password.E_PASSWORD.
Proof.
  split; [reflexivity|]. split.
  - intros it [<-|[<-|[<-|[]]]]; repeat split; discriminate.
  - repeat split; reflexivity.
Qed.

Example C20_no_false_positive_xls_nonvacuous :
  forallb item_ok ex_pre = true /\ (forall it, In it ex_pre -> i_typ it <> FILEPASS) /\
  xls_globals interp_real (items_bytes ex_pre ++ rec_bytes EOF_REC [] ++ [1; 2; 3]) = Ok tt.
Proof.
  split; [reflexivity|]. split; [|reflexivity].
  intros it [<-|[<-|[<-|[]]]]; discriminate.
Qed.

Example C20_encrypted_ooxml_is_password_nonvacuous :
  exists ds,
    parse_dirs (concat ([repeat 0 128] ++
                        dir_entry_bytes ENCRYPTED_PACKAGE [255; 254; 1] [2; 2] 3 5000 ::
                        [dir_entry_bytes [69; 110; 99] [] [] 0 10])) 512 = Ok ds /\
    map d_name ds = [[]; ENCRYPTED_PACKAGE; [69; 110; 99]] /\
    ooxml_check (Ok ds) = Err PasswordCfb.E_PASSWORD.
Proof. eexists. split; [vm_compute; reflexivity|]. split; reflexivity. Qed.

Example C20_no_false_positive_ooxml_nonvacuous :
  firstn 4 (ZIP_LOCAL ++ repeat 0 600) = ZIP_LOCAL /\
  cfb_new 1 (ZIP_LOCAL ++ repeat 0 600) = Err ERR_OLE /\
  cfb_new 1 (ZIP_LOCAL ++ repeat 0 100) = Err ERR_IO.
Proof. repeat split; vm_compute; reflexivity. Qed.

(* an encrypted package as Office writes it: \006DataSpaces storage, EncryptionInfo in the mini
   stream, EncryptedPackage of 5000 bytes in regular sectors; 512-byte sectors with everything
   shuffled (FAT in sector 7, directory in 3, mini FAT in 12, the package over ten scattered
   sectors, a free sector, padding 0xAA), and 4096-byte sectors laid out in order *)
Definition ex_info : list N := map (fun i => N.of_nat i mod 251) (List.seq 0 100).
Definition ex_pkg : list N := map (fun i => (N.of_nat i * 7 + 3) mod 256) (List.seq 0 5000).
Definition ENCRYPTION_INFO : list N := [69;110;99;114;121;112;116;105;111;110;73;110;102;111].
Definition ex_c (ss : N) : container :=
  {| c_ss := ss; c_storages := [[6;68;97;116;97;83;112;97;99;101;115]];
     c_streams := [(ENCRYPTION_INFO, ex_info); (ENCRYPTED_PACKAGE, ex_pkg)]; c_parents := [] |}.
Definition ex_l : layout :=
  {| l_nsect := 15; l_fat_ids := [7]; l_difat_ids := []; l_dir_ids := [3]; l_minifat_ids := [12];
     l_root_ids := [0]; l_nmini := 3;
     l_chains := [[2; 0]; [14; 2; 9; 1; 13; 4; 11; 5; 10; 6]];
     l_slots := [2; 3; 1]; l_pad := 170; l_size_hi := 4294967295; l_empty_start := 0; l_links := [] |}.
Definition ex_l4 : layout :=
  {| l_nsect := 6; l_fat_ids := [0]; l_difat_ids := []; l_dir_ids := [1]; l_minifat_ids := [2];
     l_root_ids := [3]; l_nmini := 2;
     l_chains := [[0; 1]; [4; 5]];
     l_slots := [1; 2; 3]; l_pad := 0; l_size_hi := 0; l_empty_start := ENDOFCHAIN; l_links := [] |}.
(* the same container without the package *)
Definition ex_plain (ss : N) : container :=
  {| c_ss := ss; c_storages := [[6;68;97;116;97;83;112;97;99;101;115]];
     c_streams := [(ENCRYPTION_INFO, ex_info); ([87;111;114;107;98;111;111;107], ex_pkg)]; c_parents := [] |}.

(* ex_l / ex_l4 write no links (the flat scan); ex_lt: the same 4096-byte layout with a legal MS-CFB
   tree (longer names sort later: DataSpaces, 11 units, on top, EncryptionInfo, 14, to its right,
   EncryptedPackage, 16, to the right of that) *)
Definition ex_lt : layout :=
  {| l_nsect := 6; l_fat_ids := [0]; l_difat_ids := []; l_dir_ids := [1]; l_minifat_ids := [2];
     l_root_ids := [3]; l_nmini := 2;
     l_chains := [[0; 1]; [4; 5]];
     l_slots := [1; 2; 3]; l_pad := 0; l_size_hi := 0; l_empty_start := ENDOFCHAIN;
     l_links := [(FREESECT, FREESECT, 1); (FREESECT, 2, FREESECT);
                 (FREESECT, 3, FREESECT); (FREESECT, FREESECT, FREESECT)] |}.
(* the package inside the storage (an embedded encrypted document), not in the root *)
Definition ex_nested : container :=
  {| c_ss := 4096; c_storages := [[6;68;97;116;97;83;112;97;99;101;115]];
     c_streams := [(ENCRYPTION_INFO, ex_info); (ENCRYPTED_PACKAGE, ex_pkg)]; c_parents := [0; 0; 1] |}.
Definition ex_lt_nested : layout :=
  {| l_nsect := 6; l_fat_ids := [0]; l_difat_ids := []; l_dir_ids := [1]; l_minifat_ids := [2];
     l_root_ids := [3]; l_nmini := 2;
     l_chains := [[0; 1]; [4; 5]];
     l_slots := [3; 2; 1]; l_pad := 0; l_size_hi := 0; l_empty_start := ENDOFCHAIN;
     l_links := [(FREESECT, FREESECT, 3); (FREESECT, 2, 1);
                 (FREESECT, FREESECT, FREESECT); (FREESECT, FREESECT, FREESECT)] |}.

Example C20_encrypted_ooxml_is_password_any_layout_nonvacuous :
  valid_layout (ex_c 512) ex_l /\ valid_layout (ex_c 4096) ex_l4 /\
  flat_root (ex_c 512) ex_l /\ flat_root (ex_c 4096) ex_l4 /\
  mem_name ENCRYPTED_PACKAGE (all_names (ex_c 512)) = true /\
  ooxml_check_bytes (fuel_for ex_l) (cfb_write (ex_c 512) ex_l) = Err PasswordCfb.E_PASSWORD /\
  ooxml_check_bytes (fuel_for ex_l4) (cfb_write (ex_c 4096) ex_l4) = Err PasswordCfb.E_PASSWORD /\
  valid_layout (ex_c 4096) ex_lt /\ legal_tree (ex_c 4096) ex_lt /\ linked_tree (ex_c 4096) ex_lt /\
  resolve (ex_c 4096) 0 [ENCRYPTED_PACKAGE] = Some 3 /\
  ooxml_check_bytes (fuel_for ex_lt) (cfb_write (ex_c 4096) ex_lt) = Err PasswordCfb.E_PASSWORD.
Proof. repeat split; vm_compute; reflexivity. Qed.

(* CFB-1 (audit 2): compound-file names compare up to case ([MS-CFB] 2.6.4): a package whose writer
   upper-cased the stream names is an encrypted package all the same — no hierarchy written, and
   with the legal tree of ex_lt (upper-casing does not change the sibling order) *)
Definition ex_c_upper (ss : N) : container :=
  {| c_ss := ss; c_storages := [[6;68;97;116;97;83;112;97;99;101;115]];
     c_streams := [(name_key ENCRYPTION_INFO, ex_info); (name_key ENCRYPTED_PACKAGE, ex_pkg)]; c_parents := [] |}.
Example C20_encrypted_package_any_case_nonvacuous :
  name_key ENCRYPTED_PACKAGE = [69;78;67;82;89;80;84;69;68;80;65;67;75;65;71;69] /\      (* ENCRYPTEDPACKAGE *)
  valid_layout (ex_c_upper 512) ex_l /\ flat_root (ex_c_upper 512) ex_l /\
  mem_name ENCRYPTED_PACKAGE (all_names (ex_c_upper 512)) = true /\
  ooxml_check_bytes (fuel_for ex_l) (cfb_write (ex_c_upper 512) ex_l) = Err PasswordCfb.E_PASSWORD /\
  valid_layout (ex_c_upper 4096) ex_lt /\ legal_tree (ex_c_upper 4096) ex_lt /\
  resolve (ex_c_upper 4096) 0 [ENCRYPTED_PACKAGE] = Some 3 /\
  ooxml_check_bytes (fuel_for ex_lt) (cfb_write (ex_c_upper 4096) ex_lt) = Err PasswordCfb.E_PASSWORD.
Proof. repeat split; vm_compute; reflexivity. Qed.

Example C20_nested_encrypted_package_not_password_nonvacuous :
  valid_layout ex_nested ex_lt_nested /\ legal_tree ex_nested ex_lt_nested /\
  mem_name ENCRYPTED_PACKAGE (all_names ex_nested) = true /\ resolve ex_nested 0 [ENCRYPTED_PACKAGE] = None /\
  ooxml_check_bytes (fuel_for ex_lt_nested) (cfb_write ex_nested ex_lt_nested) = Ok tt.
Proof. repeat split; vm_compute; reflexivity. Qed.

Example C20_no_false_positive_ooxml_any_layout_nonvacuous :
  valid_layout (ex_plain 512) ex_l /\ mem_name ENCRYPTED_PACKAGE (all_names (ex_plain 512)) = false /\
  ooxml_check_bytes (fuel_for ex_l) (cfb_write (ex_plain 512) ex_l) = Ok tt.
Proof. repeat split; vm_compute; reflexivity. Qed.

(* totality theorems carry no hypothesis; an input on which the old code panicked *)
Example C20_no_panic_xls_globals_real_nonvacuous :
  xls_globals interp_real [66; 0; 1; 0; 7] = Err Password.E_OTHER /\      (* CodePage of 1 byte *)
  xls_globals interp_real [9; 8; 0; 0] = Err Password.E_OTHER /\          (* BOF of 0 bytes *)
  xls_globals interp_real [47; 0; 0; 0] = Err Password.E_PASSWORD /\      (* empty FILEPASS *)
  parse_dirs (repeat 0 130) 512 = parse_dirs (repeat 0 128) 512.          (* chunks_exact *)
Proof. repeat split; vm_compute; reflexivity. Qed.

(* manifest:file-entry / m:encryption-data, then an unencrypted entry without prefix *)
Definition ex_manifest : list entry :=
  [mkEntry (Some [109;97;110;105;102;101;115;116]) true (Some [109]) [] [[109;58;97;108;103]];
   mkEntry None false None [[120]] []].

Example C20_ods_manifest_spec_nonvacuous :
  prefix_ok (Some [109]) = true /\ forallb entry_ok ex_manifest = true /\
  manifest_scan (render_manifest (Some [109]) ex_manifest) = Err Password.E_PASSWORD /\
  manifest_scan (render_manifest None (tl ex_manifest)) = Ok tt.
Proof. repeat split; reflexivity. Qed.

Example C20_ods_encryption_data_is_password_nonvacuous :
  no_err [MOther; MStart [109;58;109]] /\ no_err [MStart [120]; MEnd [120]] /\
  str_eqb (local_name ([109;58] ++ FILE_ENTRY)) FILE_ENTRY = true /\
  str_eqb (local_name ENCRYPTION_DATA) ENCRYPTION_DATA = true.
Proof.
  split; [intros [H|[H|[]]]; discriminate|]. split; [intros [H|[H|[]]]; discriminate|].
  split; reflexivity.
Qed.

Example C20_no_false_positive_ods_nonvacuous :
  forall q, In (MStart q) (render_manifest None (tl ex_manifest)) ->
            str_eqb (local_name q) ENCRYPTION_DATA = false.
Proof.
  intros q H. vm_compute in H.
  repeat (destruct H as [H|H]; [try discriminate; inversion H; subst; reflexivity|]).
  destruct H.
Qed.

Print Assumptions C20_filepass_is_password.
Print Assumptions C20_filepass_is_password_workbook.
Print Assumptions C20_filepass_is_password_book.
Print Assumptions C20_no_false_positive_xls.
Print Assumptions C20_no_false_positive_xls_real.
Print Assumptions C20_encrypted_ooxml_is_password_any_layout.
Print Assumptions C20_encrypted_stream_is_password_any_layout.
Print Assumptions C20_no_false_positive_ooxml_any_layout.
Print Assumptions C20_encrypted_ooxml_is_password_any_layout_flat.
Print Assumptions C20_nested_encrypted_package_not_password.
Print Assumptions C20_encrypted_package_of_root_is_password.
Print Assumptions C20_nested_encrypted_package_not_password_nonvacuous.
Print Assumptions C20_has_directory_is_cfb.
Print Assumptions C20_encrypted_ooxml_is_password.
Print Assumptions C20_encrypted_ooxml_is_password_bytes.
Print Assumptions C20_no_false_positive_ooxml.
Print Assumptions C20_no_false_positive_ooxml_dirs.
Print Assumptions C20_ods_encryption_data_is_password.
Print Assumptions C20_ods_manifest_spec.
Print Assumptions C20_no_false_positive_ods.
Print Assumptions C20_no_panic_ooxml_check.
Print Assumptions C20_no_panic_ooxml_check_file.
Print Assumptions C20_no_panic_parse_dirs.
Print Assumptions C20_no_panic_record_iter.
Print Assumptions C20_no_panic_xls_globals.
Print Assumptions C20_no_panic_xls_globals_real.
Print Assumptions C20_no_panic_manifest_scan.
Print Assumptions C20_no_panic_ods_new.
