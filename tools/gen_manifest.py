#!/usr/bin/env python3
"""Writes /verif/MANIFEST.json from the table below (one place to edit; keeps the file valid)."""
import json, os
ROOT = os.path.dirname(os.path.dirname(os.path.abspath(__file__)))
BASELINE_OFF = ("cd /repo && CARGO_NET_OFFLINE=true cargo test --workspace --no-fail-fast --offline")

TB = ("Trusted: Coq 8.16.1 kernel; axioms as printed by Print Assumptions under each property theorem "
      "(none unless stated); extraction (ExtrOcamlBasic only) and the OCaml driver; the Rust harness and "
      "Python driver of the correspondence check. The theorems are about the hand-written Gallina model; "
      "the model is tied to /repo only as far as the correspondence run samples it.")

# property -> dict(claimed, text, note, technique, design_ref) ; unclaimed ones carry a reason
P = {
 "C05": dict(claimed=True,
   text="Unbounded Coq theorems over the Range model (Range.v, mirroring the hardened lib.rs): every precondition-respecting history "
        "keeps the range well formed and panic-free (C05_history_wf, C05_history_wf_head: induction over the op list); set_value / "
        "from_sparse (sorted or not: C05_from_sparse_spec_unsorted) / range(window) / new characterised cell by cell against "
        "bounding-box specs; accessors agree under Wf. Totality: C05_no_panic_from_sparse (no hypothesis at all), C05_no_panic_new / "
        "_window / _set_value under exactly the conditions the code still needs (C05_new_panic_iff, C05_window_panic_iff). "
        "C05_refuted_from_sparse_alloc: two far-apart cells request width x height cells (the dense design; recorded for C06). "
        "Tie: random histories (every accessor dumped after every step, in and outside the preconditions) through the real "
        "Range<Data> and the extracted model; a naive dictionary spec is the search oracle.",
   note=TB + " Range<Data> with Int/Empty values stands for every CellType; rectangles of 2^32 cells or more are reasoned about in the model only (not run).",
   technique="Coq proof (induction over operation histories, flat-index lemmas) + extracted-model correspondence",
   design_ref="5/C05"),
 "C07": dict(claimed=True,
   text="Partial by nature. Coq theorems over the reader state machine (Reader.v): the answer of a call after ANY history is the "
        "file's answer for that call under the header-row option in force (C07_history_pure, induction over the op list), options "
        "are reversible, read calls never change the option; the owned range is the borrowed one mapped cell by cell (rect, "
        "get_value at every position, rows, Wf), worksheet_range_at is the n-th name, an unknown name never resolves to another "
        "sheet. The runtime state that could break purity (zip cursor, caches) is not in the model: it is covered by a metamorphic "
        "correspondence run — random call histories on one opened workbook against freshly opened workbooks with the option the "
        "extracted model says is in force — plus direct checks of range/ref/at/worksheets()/unknown-name/auto-detection agreement.",
   note=TB + " The per-format file semantics is a parameter of the model (instantiated by the other properties' sheet models); "
        "workbooks exercised are the repository fixtures plus generated files.",
   technique="Coq proof (state-machine induction; map over Range) + metamorphic correspondence through the public API",
   design_ref="5/C07"),
 "C10": dict(claimed=True,
   text="Coq theorems over NumFmt.v: the format-string scanner agrees with the number-format grammar for every well-formed AST "
        "(C10_scanner_agrees_with_grammar, induction over tokens with the neutral-at-boundaries invariant; C10_first_section_only). "
        "Since audit 2 (FMT-1) the grammar has the date tokens of Excel's format language that ECMA-376 shows only inside "
        "locale-specific built-in formats — aaa / aaaa (day of the week), g / gg / ggg (era), e / ee (year of the era), bb / bbbb "
        "(Buddhist year) — and the context of the exponent (E+ / e- directly after a digit placeholder, '.' or ','; elsewhere e is the "
        "year of the era: C10_wf_is, exponent_context_needed); C10_locale_date_tokens_decide (a format whose first deciding token is one "
        "of them, e.g. [$-411]aaaa, ggge\"年\", bbbb, is DateTime); C10_scanner_counters_bounded (the u8 counters of the scanner cannot "
        "overflow); the scanner model has the General keyword look-ahead. Both built-in tables agree with each other and with the ECMA-376 list for all 65536 codes "
        "(finite sweep lifted by forallb_forall, bound in the statement), and date_iff_style for the xlsx/xls/xlsb style plumbing. "
        "xlsb: xl/styles.bin is modelled as a byte stream (XlsbStyles.v: Xlsb::read_styles record by record) and "
        "C10_xlsb_read_styles / _styles_independent / _date_iff_style_xlsb_bytes hold for every legal layout of the part: any records "
        "before, between and behind FMTS and CELLXFS (FONTS, FILLS, BORDERS, CELLSTYLEXFS with BrtXF records of its own), any records "
        "between the items of the two collections, any bytes behind the fields read, any framing form, the bodies arbitrary (the byte "
        "pairs E7 04 / E9 04 = ids of BrtBeginFmts / BrtBeginCellXFs included); C10_no_panic_xlsb_read_styles on every byte string. "
        "No known class left. Tie: hooks on the scanner and tables (all strings up to length 5 "
        "over the significant alphabet and over a second alphabet with the era / Buddhist letters, the exponent context and the start of General; grammar derivations with the new tokens; all codes), hook on read_styles (random Excel-shaped styles.bin layouts with "
        "colliding colours / names, Coq encoder = Python encoder byte for byte, malformed parts) and generated xlsx/xls/xlsb files "
        "(xlsb: those styles parts, cells as long or short records) through the public API; a quarter "
        "of the xls files are BIFF5 (`Book` stream; FORMAT = ifmt + byte string with a one-byte length under 7 code pages incl. DBCS; "
        "audit-2 XLS-6a, repaired) with a witness file of length-byte / last-character traps.",
   note=TB + " RK bit decoding, text->f64 parsing and atoi on the s attribute are computed by the driver, not modelled. The byte layout of the xls FORMAT / XF records is not in NumFmt.v (BIFF8: XlsFile.format_of_record; BIFF5: tie only).",
   technique="Coq proof (token-list induction with scanner-state invariant; finite table sweep) + extracted-model correspondence",
   design_ref="5/C10"),
 "C11": dict(claimed=True,
   text="Coq theorems over Serial.v/Civil.v/F64.v (Flocq binary64): civil_bijection on all of Z, every whole serial 0..=2958465 in both "
        "date systems maps to the right midnight (proved semantically, product exact for |d| <= 104249991), as_date/as_time are the "
        "components of as_datetime, duration = serial x 24h, millisecond rounding bound, monotone outside the known class, None beyond "
        "the calendar, and no Panic for ALL 64-bit patterns. C11_helpers_agree (for every non-error cell the serde helpers deserialize_as_* return the cell's own as_datetime / as_date / as_time / as_duration, 1904 system and duration flavour included) and C11_helper_cell_roundtrip. One known class F16 ([60,61) non-monotone: Excel's fictitious 1900-02-29). "
        "Tie: public ExcelDateTime/DataType API on bit patterns vs the extracted Flocq model.",
   note=TB + " Axioms (via Flocq, named by Print Assumptions): ClassicalDedekindReals.sig_not_dec, sig_forall_dec, "
        "FunctionalExtensionality.functional_extensionality_dep, Classical_Prop.classic. chrono 0.4.45's arithmetic is modelled from its source; ISO-string cells are outside the model.",
   technique="Coq proof with Flocq binary64 (exactness of the day product, calendar bijection by era decomposition) + extracted-model correspondence",
   design_ref="5/C11"),
 "C12": dict(claimed=True,
   text="Coq theorem C12_sst_any_split: for every string table and EVERY legal layout (CONTINUE cuts between strings, inside character "
        "data with a fresh compression flag — including between the two halves of a surrogate pair —, inside rgRun/ExtRst; any "
        "per-segment 8/16-bit packing) parse_sst (sst_encode strs lay) = the stored texts — unbounded induction over strings and "
        "segments with the streaming-decoder state; plus string_read_exact, later_strings_unaffected, layout_irrelevant, "
        "labelsst_resolves, record_iter_collects, sheet names / LABEL / STRING, C12_decoder_chunks; C12_formula_string_any_split (a formula string result continued over STRING + CONTINUE records: every cut position, per-fragment 8/16-bit packing, flag-only continuations, cuts inside surrogate pairs) and C12_formula_string_layout_irrelevant. No known class left (CutInsidePair "
        "repaired in /repo by 55da979). Totality: C12_no_panic_parse_sst (all inputs: not Panic; not OutOfFuel at fuel 1 + total "
        "bytes; 3 x requested capacity <= total bytes), _short_string, _record_iter, _parse_string, _parse_label(_sst), "
        "_sheet_metadata, _wb_strings. Tie: hooks parse_sst/records/parse_string on extracted encodings, malformed fragments "
        "(outcome-class prediction), generated .xls files through Xls::new. "
        "Audit-2 XLS-1 (repaired in /repo): the CodePage record of a BIFF8 workbook decides nothing — C12_workbook_strings quantifies over it "
        "(any 16-bit value or no record: workbook_stream cp / legal_workbook cp), C12_codepage_irrelevant, C12_codepage_record_skipped; "
        "generators write 17 code pages incl. values unknown to the decoder table, and none; corpus witnesses incl. the repository's "
        "tests/sheet_name_parsing.xls (JExcelApi, CodePage 1252) read end to end; every .xls fixture goes through the model, the ones it "
        "declines (Number / RK / MulRk / MergeCells / Formula / Lbl arms, BIFF5 BOF) are listed by name in the evidence (coverage.fixtures). "
        "C12_nested_substream_skipped: a chart substream nested in a sheet contributes no text cell (the model follows the XLS-2 repair).",
   note=TB + " BIFF2-5 byte strings under a code page are not modelled (a non-BIFF8 BOF answers unmodelled); witnesses only: BIFF5 workbooks under 8 code pages incl. DBCS (audit-2 XLS-6b, repaired).",
   technique="Coq proof (induction over strings/segments with a reader-position and decoder-state invariant) + extracted-model correspondence",
   design_ref="5/C12"),
 "C15": dict(claimed=True,
   text="Coq theorems over SharedFmla.v, for every oracle is_alnum (char::is_alphanumeric): C15_translate_correct — unconditional over "
        "the formula grammar (mixed $ forms, look-alike function / sheet / defined names, non-ASCII text, quoted sheet names, "
        "bracketed references, 1E5, whole-column / whole-row ranges, 3-D sheet prefixes), for every in-range offset: "
        "replace_cell_names (render ts) off = render (map (translate off) ts) (per-token scanner lemmas + induction over tokens); "
        "C15_translate_total (references and whole ranges that would leave the sheet stay unchanged as a whole); "
        "C15_group_covers_range (map keyed by si, declared ref + master position, offset at lookup: every cell of column / row / "
        "block refs, any master position, any order of shared indices; total and exact). No known class left (all F22 classes "
        "repaired in /repo). Totality: C15_no_panic (any text, |offset| <= 2^62), C15_no_panic_replace_cell_names / "
        "_get_row_column / _get_dimension / _next_formula (any <c> sequence, any ref, any si). Tie: hook replace_cell_names and A1 "
        "helpers, is_alphanumeric oracle taken from the harness, generated xlsx sheets with shared groups through worksheet_formula.",
   note=TB + " The XML layer (attribute parsing, several <f> per cell) is exercised end to end but not modelled; char::is_alphanumeric is a "
        "Section variable; wf_formula excludes texts that are ambiguous around ':' (A:B as two names).",
   technique="Coq proof (scanner invariant at token boundaries; induction over token lists and group cells) + extracted-model correspondence",
   design_ref="5/C15"),
 "C08": dict(claimed=True,
   text="Coq theorems over HeaderRow.v on top of the Range theorems: for the lazy path (xlsx/xlsb: filter by row, one padding cell, "
        "from_sparse) and the eager path (xls/ods: re-window the stored range) and EVERY header row n: no panic, the range starts "
        "exactly at row n when a cell exists at or below n and is empty otherwise, every position with row >= n reads as under the "
        "default option (absent = Empty), nothing from a row < n appears; the default option starts at the first row holding a cell. "
        "Option changes are covered by C07's state-machine theorems. Tie: real workbooks of the four formats (fixtures + generated) "
        "through with_header_row/worksheet_range for header rows before, inside, in gaps of, after the data and u32::MAX, compared "
        "with the extracted model and checked directly against the three conditions of the statement.",
   note=TB + " The eager theorem needs the re-windowed box to stay below 2^32 cells (Range::new computes sizes in u32); the lazy-path "
        "model is fed the non-Empty cells of the default-option range in row-major order.",
   technique="Coq proof (reduction to from_sparse_spec / window_spec of the Range model) + model correspondence on real workbooks",
   design_ref="5/C08"),
 "C09": dict(claimed=True,
   text="Coq theorem C09_model_is_spec: on every well-formed range, for the three header modes, the model of RangeDeserializer::new, "
        "every next and every size_hint equals the specification (one record per row after the header, in order; hints bracket — in "
        "fact equal — the remaining count at every point), by induction over the remaining rows; positional records, header binding "
        "invariant under column permutation, selected headers (trimmed matching, HeaderNotFound, iff), the 31-rule conversion table "
        "with integer wrap/parse lemmas, and CellError carrying the failing cell's kind and ABSOLUTE position. Tie: public API only — "
        "Range::deserialize / builder over random ranges at any origin x header configurations x a family of 40 cell kinds x "
        "Vec/tuples/HashMap/structs compiled into the harness.",
   note=TB + " Decimal text -> float, float -> text and atoi_simd enter the model as a Section variable (reference versions are run by the "
        "driver); the theorems hold for every instantiation. The chrono deserialize_as_* helpers are covered under C11.",
   technique="Coq proof (iteration-state invariant, permutation lemmas, conversion table) + extracted-model correspondence through the public API",
   design_ref="5/C09"),
 "C14": dict(claimed=True,
   text="Coq theorems over Col26.v/Ptg.v/FormulaEnv.v: bijective base-26 letters (injective, inverse) for every column, push_column = "
        "letters for all col < 2^32, push_cell_ref puts $ exactly on absolute components, A1 round trip through the hardened "
        "scanner; C14_rpn_correct_xls / _xlsb: for every well-formed formula AST (all reference kinds x 4 flag combinations, 3-D, "
        "names, literals, unary/binary operators incl. the union / intersection / range operators behind PtgMemArea / PtgMemErr / "
        "PtgMemNoMem / PtgMemFunc (xlsb: nested call, depth <= 64), #REF! forms, parentheses, fixed- and variable-arity functions, AttrSum) "
        "parse_formula (frame (encode e)) = Ok (render e), by stack-machine induction; the decoders' environment: "
        "C14_name_index_stable(_xls), C14_defined_names_in_order(_xls) (every BrtName / Lbl record keeps its index and is reported "
        "in record order whatever its flags), C14_ptgname_is_ith_record_*, C14_sheet3d_through_xti_*; formula_positions and "
        "C14_stored_text_positions via from_sparse_spec. FTAB/FTAB_ARGC are regenerated from src/utils.rs on every run "
        "(tools/gen_tables.py) and proved equal to a frozen reference copy (regression pin). Totality: "
        "C14_no_panic_parse_formula_xls/_xlsb (every byte string), C14_no_panic_xlsb_read_names / _xls_read_names, C14_no_panic_a1. "
        "C14_defined_name_text_is_render_xls (every Lbl formula that encodes a well-formed AST is reported as its rendering). C14_shared_formula_members_xls / C14_array_formula_members_xls and C14_sheet_formulas_xlsb / C14_shared_formula_members_xlsb / C14_array_formula_members_xlsb / C14_worksheet_formula_members_xlsb (FormulaSheet.v: every member of a shared / array group of an xls or xlsb sheet reports the group formula translated to its own position, PtgRefN / PtgAreaN offsets signed and wrapping as the format defines: 65536 x 256 for xls, 1048576 x 16384 for xlsb; xlsb: model of next_formula with its one-record look-ahead), (xls sheet items include NESTED substreams — embedded chart: any records, BOF-EOF balanced — which contribute nothing), C14_builtin_names_table (_xlnm.* names), C14_choose_correct_*, C14_user_function_correct_*, C14_sheet_name_quoting, C14_sheet_span_quoting / C14_resolve_xti_span_text / C14_sheet3d_through_xti_* (an XTI with itabFirst <> itabLast reads First:Last, quoted as one), C14_defined_name_text_is_render_xlsb (names decoded against the WHOLE name table: forward references), xls Lbl records with extra data behind the tokens and XTI arrays of any length split anywhere over ExternSheet + CONTINUE records (C14_defined_names_in_order_xls over flat_map enc_grec). Supporting links (iSupBook): Ptg.sheet_through_link says what an XTI means through the SupBook / BrtSup* records (sheets of this workbook exactly when the link is SupSelf / SupSame); known finding K_EXTERN_BOOK (the readers never look at the link: class Ptg.known_C14, refuted by C14_refuted_extern_xls / _xlsb); outside the class the full spec is proved: C14_rpn_correct_links_xls / _xlsb, C14_defined_name_text_through_links_xls / _xlsb, C14_xlsb_read_names_links_spec (any number of BrtSup* records in any order in front of BrtExternSheet). Tie: hooks "
        "push_column / both parse_formula / A1 helpers (exhaustive column sweep, random ASTs, malformed rgce with outcome "
        "prediction) and generated .xlsb, .xls, .xlsx and .ods files through worksheet_formula on every sheet and defined_names.",
   note=TB + " f64 display is a Section variable; <> OutOfFuel for the two decoders on arbitrary input is not proved. Table translator: tools/gen_tables.py (fail-closed regex extraction).",
   technique="Coq proof (stack-machine induction, base-26 arithmetic, record-list induction for the name tables) + regenerated tables + extracted-model correspondence",
   design_ref="5/C14"),
 "C18": dict(claimed=True,
   text="Coq theorems over Ovba.v/OvbaDir.v: C18_decompress_inverts_encode — for every list of valid chunks (raw chunks; any mixture of "
        "literal and copy tokens within the MS-OVBA limits; any number of chunks) decompress (ovba_encode cs) = concat (map sem cs), "
        "unbounded induction over chunks, flag groups and tokens; copy-token codec proved arithmetically per bit count, overlapping "
        "copy = bytewise copy; C18_dir_roundtrip and C18_vba_project_roundtrip unconditional (code page, references of three kinds "
        "with or without their optional name record, modules); C18_module_text_is_codepage_decoding (for every decoder: get_module = "
        "the decoder of the project's code page applied to get_module_raw = decompress of the stream from the recorded offset); "
        "C18_vba_project_respelled / C18_vba_project_roundtrip_any_case (audit 2, CFB-1: the container may store dir and the module "
        "streams under any case spelling of their ASCII letters). No "
        "known class left (nameless_reference repaired in /repo by b2fb93c). Totality: C18_no_panic_decompress (every byte string: "
        "not Panic, not OutOfFuel, output <= 4096 x chunks, 2 x chunks <= input length - 1), C18_no_panic_dir. Tie: hook "
        "decompress_stream on extracted encodings under literal-only / greedy / random / raw tokenisations and malformed containers, "
        "VbaProject::new and vba_project() on generated containers incl. multi-byte code pages against Python codecs.",
   note=TB + " Code pages are a decoder parameter (theorems hold for every decoder); the order of get_module_names is not modelled.",
   technique="Coq proof (induction over chunks/tokens, div/mod arithmetic for the token codec) + extracted-model correspondence",
   design_ref="5/C18"),
 "C02": dict(claimed=True,
   text="Coq theorems over RK.v/BiffRec.v: every 32-bit RK pattern decodes to the sign-extended 30-bit integer or the double whose "
        "top 30 bits are the payload, /100 honoured (C02_rk_int_all, C02_rk_float_all: two's complement over Z, not a sweep), "
        "decode . encode = id for every legal RK form, the forms cover all patterns, the i-th RkRec of a MULRK lands at "
        "(row, col_first + i), BoolErr table with one-to-one error codes, cached formula values, C02_string_continue_bytes, and "
        "C02_xls_sheet_main, UNCONDITIONAL: for every logical sheet and every legal layout — record kind per value, MULRK grouping, "
        "FORMULA [SHRFMLA|ARRAY|TABLE|any ignored record]* STRING [CONTINUE]* with per-fragment flag bytes, ROW/DBCELL/INDEX/BLANK/"
        "MULBLANK records, both DIMENSIONS widths, MERGECELLS records, cell records in ANY order, and (audit 2, XLS-2) substreams "
        "NESTED in the sheet (item ISub = BOF, ANY records incl. cell-record ids at positions of the sheet's own cells / FORMULA / "
        "STRING / MERGECELLS / DIMENSIONS / CONTINUE records / further BOF..EOF pairs, EOF; only BOF-EOF balance is asked; several "
        "per sheet, anywhere between the cell records: the chart substream Excel writes for every embedded chart object) — the "
        "model of the sheet loop of parse_workbook (which counts the open substreams) + "
        "from_sparse returns range_of sheet (induction over items with fuel by record count; inside a nested substream induction "
        "over its records with the nesting depth as invariant). C02_nested_substream_inert: a layout reads the same cells and formula "
        "positions with and without any of its nested substreams. No known class (StringContinue "
        "repaired in /repo by 64f46cd; XLS-2 by the fix of round xlsB). C02_xls_whole_file_main (XlsFile.v): the WHOLE FILE — for every logical workbook and every "
        "legal choice of compound-file layout, globals substream, SST CONTINUE layout, number formats and per-sheet record layout, the "
        "model of Xls::new + worksheet_range on the file bytes returns the sheets in order, each exactly range_of its cells — by "
        "composing C13, C16, C12, C10, this property and C05 (only the glue is new: lbPlyPos offsets, the environment the globals yield). Totality: C02_no_panic_sheet / _sheet_cells / _sheet_at / _records (every byte string at fuel "
        "= length + 1: neither Panic nor OutOfFuel), _cell_record, _formula_value, _dimensions, C02_rk_num_panics_iff. Tie: hooks "
        "rk_num / record iterator / cell parsers on extracted encodings, malformed records (outcome prediction) and generated .xls "
        "files (BIFF8 in CFB) through Xls::new + worksheet_range. Whole file, audit-2 XLS-1 (repaired): a CodePage record of any value is an "
        "ignorable globals record (XlsFile.gitem_ok / Meta.xjunk_ok), so C02_xls_whole_file_main quantifies over it (Whole_xls_codepage_nonvacuous); "
        "generated files carry 0-2 CodePage records of 17 values; every .xls fixture of the repository goes through the whole-file model "
        "(16 agree cell by cell incl. tests/sheet_name_parsing.xls, pinned; VBA-project workbooks and the BIFF5 fixture listed as unmodelled in coverage.fixtures).",
   note=TB + " C02_rk_int_float_x100_agree uses Flocq (the four classical axioms ClassicalDedekindReals.sig_not_dec, sig_forall_dec, "
        "FunctionalExtensionality.functional_extensionality_dep, Classical_Prop.classic); /100.0 and UTF-16 decoding are Section variables "
        "(hardware division cross-checked against extracted Flocq b64_div on every run). The formula token stream is C14's, strings C12's.",
   technique="Coq proof (two's-complement arithmetic for RK, induction over record items with fuel) + extracted-model correspondence",
   design_ref="5/C02"),
 "C17": dict(claimed=True,
   text="Coq theorems over Merge.v on Col26/Range: C17_merge_ref_roundtrip (every pair of corners up to XFD1048576 / IV65536 reads back "
        "through the hardened A1 scanner), C17_merge_list_exact_xlsx/_xls (count, order, attribution by sheet, for every workbook and "
        "every legal encoding; xls: the substream from its own BOF, any number of MergeCells records, between and behind them any "
        "records of the sheet and any NESTED substreams BOF..EOF (embedded charts, [MS-XLS] 2.1.7.20.5 puts them BEFORE the "
        "MergeCells records) holding any records incl. MERGECELLS of their own, BOF-EOF balanced), C17_table_meta_exact (unconditional: exists tables, read_table_metadata = Ok tables and their "
        "observation is the specified one — both relationship type URIs, absolute and ../ targets, escaped names, all xsd:boolean "
        "spellings of insertRow, header-only / totals-only / empty tables; since audit 2 (XLSX-1) the declared column names are what "
        "the attribute values denote through BOTH layers, XML escapes and the ST_Xstring escapes _xHHHH_ of ECMA-376 22.9.2.19: a "
        "header typed with Alt+Enter, stored a_x000a_b, is the column a<LF>b), C17_column_name_xstring (every legal spelling reads "
        "back as xs_decode of its XML value; every text, escaped the way Excel escapes it with any choice of escaped characters and "
        "digit case, reads back as itself), C17_name_unescape, C17_table_names, C17_table_geometry "
        "(data range = reference minus header rows on top and totals / insert rows at the bottom; None for a table without data rows) "
        "and C17_table_geometry_cells (table data = the sheet window via window_spec). No known class left (five repaired in /repo). "
        "Totality: C17_no_panic_get_dimension / _read_merge_cells / _parse_merge_cells / _table_metadata (any bytes / event lists: "
        "neither Panic nor OutOfFuel). Tie: hooks get_dimension / parse_merge_cells and generated .xlsx/.xls workbooks through "
        "merged_regions*, worksheet_merge_cells*, load_tables, table_by_name(_ref).",
   note=TB + " XML tokenisation, attribute parsing and zip are outside the model (event level); str::parse::<u32> is modelled as parse_u32; one "
        "unreachable .expect remains in read_table_metadata (sheet paths always contain '/'), stated as a model-level witness.",
   technique="Coq proof (A1 arithmetic, induction over event lists and region lists, reduction to window_spec) + extracted-model correspondence",
   design_ref="5/C17"),
 "C20": dict(claimed=True,
   text="Coq theorems over Password.v/PasswordCfb.v (on Cfb.v): C20_filepass_is_password (+ _workbook/_book): for any leading records "
        "with their CONTINUEs that the globals loop passes over, any FILEPASS body and any well-framed records after it the result "
        "is Err Password; C20_encrypted_ooxml_is_password_any_layout / _encrypted_stream_is_password_any_layout: for EVERY container "
        "whose ROOT storage holds an EncryptedPackage object and EVERY valid physical layout whose links are a tree the check on the file BYTES "
        "is Err Password (composed with C13_has_directory_root; _any_layout_flat: files without hierarchy, an object of that name anywhere; "
        "the name in any case spelling of its ASCII letters since the fix of audit-2 finding CFB-1: mem_name / name_equiv); "
        "C20_ods_encryption_data_is_password and C20_ods_manifest_spec; and the converse "
        "C20_no_false_positive_{xls,xls_real,ooxml,ooxml_any_layout,ooxml_dirs,ods}, C20_nested_encrypted_package_not_password (an "
        "EncryptedPackage held only by an embedded object is not password protection). Totality: C20_no_panic_ooxml_check(_file), "
        "_parse_dirs, _record_iter, _xls_globals(_real), _manifest_scan, _ods_new. Tie: generated encrypted containers (random "
        "ciphertext and layouts; the whole Cfb.cfb_new model on files up to 40 kB), FILEPASS of BIFF8 XOR / RC4 and BIFF5 form at "
        "several positions in Workbook and Book streams, manifests with one/many encrypted entries, damaged containers, against "
        "every unencrypted workbook of the other generators and all fixtures, through Xlsx::new, Xlsb::new, Xls::new, Ods::new.",
   note=TB + " The FORMAT/BoundSheet8/Lbl/ExternSheet/SST arms of the xls globals loop are an abstract parameter `interp` (their own slices model them); a CodePage record naming a page outside the decoder table passes under BIFF8 and fails under BIFF5 (audit-2 XLS-1): the record-by-record instance answers unmodelled there; "
        "VbaProject::from_cfb, zip and quick-xml are outside the model.",
   technique="Coq proof (induction over record lists / event lists / directory entries; composition with the C13 byte-level theorem) + extracted-model correspondence",
   design_ref="5/C20"),
 "C03": dict(claimed=True,
   text="Coq theorems over XlsbRec.v (on RK, Utf16, Range): C03_varint_roundtrip (every record id in its 1- or 2-byte form and every "
        "length in its minimal and padded 1-4-byte forms decode to themselves and consume exactly their bytes; arithmetic, no sweep) "
        "and C03_record_frame; C03_ignorable_transparent (inserting any well-framed record whose id is none of BrtRowHdr, the cell records "
        "1..11, the short cell records 12..18, BrtEndSheetData, anywhere — between short records too — and in any reader state (row, next column) "
        "leaves the outcome unchanged; induction over the record list + fuel irrelevance); C03_other_records_ignored (the records a layout may carry as "
        "'other' are defined from the format's cell-table grammar, not from the code); C03_cell_table(_values) for "
        "every long record kind incl. the four BrtFmla kinds and BrtRowHdr, C03_short_cell_table for the seven short kinds BrtShortBlank .. BrtShortIsst "
        "(no column field: the cell stands right of the previous cell record of its row, a blank one included); RK theorems incl. the xlsb/xls difference; "
        "C03_sst_roundtrip; C03_xlsb_sheet_main / _main_any_order / _workbook_main: for every logical sheet and every legal encoding (record kind per "
        "value, long or short record for a cell that follows another one, RK forms vs BrtCellReal, framing forms, other records anywhere, BrtWsDim absent, exact or wrong, "
        "empty rows, any trailer, rows in any order) "
        "the model of worksheet_range_ref + from_sparse returns range_of sheet, via from_sparse_spec, unbounded (invariant: next_col = previous column + 1). "
        "No known class left (wsdim_absent repaired by 011a4fd, short records by the xlsbE fix). Totality: C03_no_panic_framing / _header / "
        "_reader / _cell_loop / _sst / _range_ref / _workbook (every byte string). Tie: hook on the record framing, generated .xlsb packages (tools/xlsbgen.py: "
        "runs of short records as SheetJS writes them, Excel-shaped styles.bin) through "
        "Xlsb::new + worksheet_range(_ref), malformed parts with panic prediction.",
   note=TB + " zip/XML parts of the package, styles.bin parsing beyond the format table, next_formula/parse_formula (C14) are outside this model; "
        "ranges above ~300k cells are skipped on the model side (counted).",
   technique="Coq proof (varint arithmetic, induction over record lists with fuel, reduction to from_sparse_spec) + extracted-model correspondence",
   design_ref="5/C03"),
 "C04": dict(claimed=True,
   text="Coq theorems over OdsGrid.v: C04_ods_grid_main — for every list of row elements (number-rows-repeated x cells with "
        "number-columns-repeated, values, formulas, covered cells) with positive counts and inside the stated extent guard (which "
        "contains a 1048576 x 16384 sheet: C04_sheet_limits_inside_guard), the model of read_row + read_table + get_range returns "
        "range_of (expand rows) for values and for formulas: tight bounding rectangle, every value at its absolute position; unbounded "
        "induction over rows and cells (pass-1 summary invariant, pass-2 pending-empties invariant). C04_rle_independent (two encodings "
        "with the same cell function read the same), C04_empties_inert / _shift_rows, C04_range_of_sound / _nothing, "
        "C04_typing_canonical, C04_xtable_main (with attribute parsing and typing), C04_row_containers_transparent / _independent / "
        "C04_table_items_main (the loop over the content of table:table: rows held in table:table-header-rows, table:table-rows, "
        "table:table-row-group nested to any depth, with any neighbours, read as the same rows in document order), "
        "C04_no_panic_table_loop; the layout of a row (xrow / xcell widened after audit 2, fixes ODS-3 / ODS-1): between the cells white-space "
        "text and comments, among the children of a cell white space, comments, an annotation and drawing objects anchored to the cell with "
        "paragraphs of their own — C04_cell_layout_transparent, C04_row_layout_transparent / _independent (a row reads as its flat form), "
        "C04_row_foreign_item_rejected, C04_table_items_layout_main / C04_table_layout_independent (composed with the table loop and the grid "
        "theorem), C04_no_panic_read_ritems. No known class (F7 fixed; F29 = ODS-3 fixed). Tie: generated .ods "
        "files (same grid under several run-length groupings and row-holder arrangements, first used column != A, blank rows, covered cells, formula-only cells "
        "without cached value, huge repeats; flat or indented at every level, comments, annotations, anchored images / shapes / text boxes / groups with text, "
        "rarely a CDATA section between cells: rejected) through Ods::new + worksheet_range + worksheet_formula, and the get_range hook.",
   note=TB + " attribute-order irrelevance of get_datatype is sampled, not proved; the text grammar inside a paragraph is C19's model (a paragraph is its text here); zip and quick-xml are outside.",
   technique="Coq proof (two-pass invariant induction over rows/cells; reduction to a bounding-box spec) + extracted-model correspondence on real .ods files",
   design_ref="5/C04"),
 "C13": dict(claimed=True,
   text="Coq theorems over Cfb.v, through the BYTES: C13_layout_independent — for every container (512- or 4096-byte sectors, any "
        "storages and named streams of any sizes, names unique PER STORAGE only, any hierarchy) and every valid layout (placement of every FAT, "
        "DIFAT, directory, mini-FAT, mini-stream and stream sector, directory order with unused entries, free sectors, start field of empty "
        "streams) whose child / sibling ids are a tree over the hierarchy (linked_tree: any shape, a legal MS-CFB tree in particular: "
        "C13_legal_tree_linked), cfb_get_stream fuel (cfb_write c l) path = Ok b for the stream the specification finds at that path "
        "(fuel >= 1 + number of DIFAT sectors), C13_path_not_found, hence C13_same_streams_same_read; the lookup itself: "
        "C13_find_entry_resolve (Cfb::find on the written directory = the specification's resolve on EVERY path, wherever the entries sit in "
        "the array), C13_children_of_object; C13_workbook_stream_preferred (Xls::parse_workbook reads the ROOT storage's Workbook, else its "
        "Book, wherever embedded objects sit; hypothesis: no root STORAGE is called Workbook), C13_has_directory_root; files without hierarchy "
        "(root child id NOSTREAM: the flat scan): C13_find_dir_first, C13_flat_layout_independent(_first), C13_flat_workbook_stream_preferred, "
        "C13_has_directory_flat; since audit 2 (CFB-1) names compare up to the case of their ASCII letters in the reader "
        "(str::eq_ignore_ascii_case), in the specification (child_index / spec_path, uniqueness per storage and over the file) and in "
        "the proofs: C13_layout_independent_any_case (a stream is read back under EVERY case spelling of the names of its path, "
        "respell_path flags path, whatever the case of the stored names: WORKBOOK, BOOK, _vba_project_cur), C13_spec_path_any_case, "
        "C13_respell_same_name; built from C13_header_roundtrip (v3/v4), C13_difat_roundtrip, C13_fat_load_roundtrip, "
        "C13_dir_chain_roundtrip, C13_dirs_roundtrip (UTF-16 names, link fields), C13_minifat_load_roundtrip, C13_ministream_roundtrip, "
        "C13_chain_follow (any duplicate-free chain, any state of the lazy sector cache), C13_mini_compose, C13_empty_stream; "
        "C13_chain_cycle_is_error and totality C13_chain_total, C13_no_panic_cfb_new, C13_no_panic_get_stream, C13_children_fuel_suffices "
        "(all inputs, cyclic / dangling sibling ids included: neither Panic nor OutOfFuel at fuel > file length / 512). No known class is left: "
        "shadowed_workbook / shadowed_name (audit G8) were repaired by the fix: commit that made the lookup follow the hierarchy; positive examples "
        "(embedded workbook in either slot order, root Book + embedded Workbook, two VBA projects at the same depth) replace the refutations. "
        "Tie: hook Cfb::new / find / children / get_stream / has_directory on extracted cfb_write outputs (both sector sizes, shuffled chains, "
        "boundary sizes, 40-entry directories, free sectors, > 109 FAT sectors; links: legal tree of random shape, unsorted sibling chain, none, "
        "damaged — cycles, shared nodes, dangling ids), the Python reading of the specification cross-checked against the extracted "
        "Cfb.spec_path, malformed containers, Xls::new on containers with two workbooks, and every xls fixture re-laid-out under random "
        "layouts — alone and with ANOTHER fixture's whole tree embedded next to it — through Xls::new + worksheet_range + vba_project.",
   note=TB + " The 7.2 MB DIFAT case is compared code vs spec only (the extracted model is too slow on it). Name comparison folds the ASCII "
        "letters only (MS-CFB 2.6.4 applies the simple case conversion of a writer-dependent Unicode version to every UTF-16 unit): names "
        "that differ in the case of a non-ASCII letter count as different in code, model and specification alike (notes/C13.md); object types "
        "are not read (a root STORAGE named Workbook is taken for the stream: stated as a hypothesis).",
   technique="Coq proof (byte-level round trips of header, DIFAT, FAT, directory, mini structures; chain induction with cache invariant; stack walk vs in-order walk of the sibling trees; induction over paths) + extracted-encoder correspondence",
   design_ref="5/C13"),
 "C16": dict(claimed=True,
   text="Coq theorems over Meta.v, one complete parse-encode theorem per format: C16_report_xlsx, C16_report_ods, C16_report_xls, "
        "C16_report_xlsb — for every logical workbook (ordered sheets with names incl. XML-special, non-ASCII and astral characters, "
        "visibility, kind; ordered defined names; date flag) and every legal encoding (attribute order, any prefixes, ignorable "
        "elements / junk records anywhere, relationship ids in any order, target spellings, 8- or 16-bit name storage, 1-2-byte record "
        "types with 1-4-byte lengths) the parsed record equals the logical workbook; projections C16_sheets_in_order_*, "
        "C16_defined_names_in_order_* (names are expressions of C14's grammar in both binary formats — mem-prefixed unions, #REF! forms, names "
        "stored before or after — rendered through C14's rpn_correct_*; xlsb: decoded against the whole name table; the EXTERNALS block with any "
        "number of BrtSupBookSrc / BrtSupSelf / BrtSupSame / BrtSupAddin records in any order, legal XTIs point through a link to this workbook "
        "(Ptg.xti_local) at a sheet or a span of sheets; xls: Lbl records with rgcb behind the rgce, XTI arrays of any length cut anywhere over "
        "ExternSheet + CONTINUE records, spans of sheets; ods: EVERY name of the document in document order — the sheet-scoped names stored in a table:named-expressions element anywhere among the children of their table:table, then the global ones (fix ODS-2; Meta.ods_workbook / ow_all_names)), C16_rels_roundtrip_*, C16_tables_injective, and "
        "C16_date_flag_reaches_cells_{xlsx,xls,xlsb} composed with C10's date_iff_style theorems. No known class left (four repaired "
        "in /repo). Totality: C16_no_panic_xlsx_open, C16_no_panic_ods_parse_content. Tie: generated workbooks of the four formats "
        "through sheet_names, sheets_metadata, defined_names, worksheet_range, plus perturbed event lists / byte streams. "
        "xls (audit-2 XLS-1, repaired): the CodePage record (0x0042) of ANY value is an ignorable globals record (Meta.xjunk_ok; the model "
        "no longer answers unmodelled for values other than 1200), C16_report_xls_any_codepage / C16_codepage_record_skipped_xls; generated "
        "globals carry 0-2 CodePage records of 17 values; every .xls fixture of the repository goes through Meta.xls_parse_workbook "
        "(17 agree incl. tests/sheet_name_parsing.xls with CodePage 1252, pinned; the BIFF5 fixture is listed as unmodelled in coverage.fixtures).",
   note=TB + " <> Panic for the xls and xlsb workbook readers as a whole is not stated (tied by the raw tier only); zip and quick-xml are outside the model.",
   technique="Coq proof (induction over sheet / name / record / event lists per format; injective tables) + extracted-model correspondence on generated workbooks",
   design_ref="5/C16"),
 "C01": dict(claimed=True,
   text="Coq theorems over XlsxSheet.v (on Col26, Range, HeaderRow), at the XML event level and for every oracle parse_f64: "
        "C01_a1_roundtrip (every row with row+1 < 10^9 and column < 26^6 — the scanner's exact no-overflow bounds, containing "
        "A1..XFD1048576 — parses back, upper and lower case agree; C01_a1_row_limit_exact shows the bound is tight); "
        "C01_cursor_equiv (explicit r attributes and implicit positions of the same cells give the same positions: cursor-invariant "
        "induction over rows and cells); C01_typing_table / _inline (read_v as a total table over t and v); C01_xlsx_sheet_main: for "
        "every legal sheet encoding (explicit/implicit refs per row and cell, dimension absent/exact/wrong, shared vs inline vs str "
        "strings, ignorable siblings, namespace prefixes, empty rows, style-only cells) outside the known classes, "
        "xlsx_sheet_model (encode sh) = range_of (logical sh) — tight bounding box, value at every absolute position, via "
        "from_sparse_spec and from_sparse_map; C01_encoding_independent; C01_target_normal_form, C01_sheet_type_of_folder, "
        "C01_part_lookup_case_insensitive / _recased. C01_xlsx_workbook_main / _worksheets_main (every legal package description: 1..n sheets of the four kinds, the accepted target spellings, any part-name casing and order: open_sheets finds the sheets in workbook order, worksheet_range name = range_of of that sheet, a chartsheet reads as the empty range); totality C01_no_panic_get_row_and_optional_column / _worksheet_range (every event list: neither Panic nor OutOfFuel). One known class F30 (rel:id prefix) behind a single switch, with refutation. Tie: generated .xlsx "
        "files (all encoding variations x sparse cell sets incl. the four corners and the Z/AA, AZ/BA, ZZ/AAA column edges, 1..n "
        "sheets, part-name case, target spellings, stored/deflated entries) through Xlsx::new + worksheet_range(_ref) + worksheets(), "
        "and an exhaustive column sweep through the A1 hook.",
   note=TB + " The rels / workbook.xml encoders emit no ignorable content between elements and no definedName (the reader model handles both; tie only); quick-xml tokenisation/unescaping, zip and str::parse::<f64> are outside the model; "
        "chunked text / CDATA / rich runs are C19's encoders.",
   technique="Coq proof (A1 arithmetic, cursor-invariant induction over rows/cells, reduction to from_sparse_spec) + extracted-model correspondence on real .xlsx files",
   design_ref="5/C01"),
 "C19": dict(claimed=True,
   text="Coq theorems over XmlText.v / Utf16.v at the XML event level: C19_read_string_item, C19_runs_concatenate, "
        "C19_runs_at_any_cuts, C19_phonetic_contributes_nothing, C19_cdata_is_text, C19_shared_index_is_ith_item (incl. empty items), "
        "C19_sheet_text_survives, C19_text_survives_xlsx, C19_formula_text_survives — for every text, every storage form (shared / "
        "inline / formula string; plain, split into runs at arbitrary cut points, with phonetic runs; Text and CDATA chunks in any "
        "mixture; any namespace prefix); the ST_Xstring layer: C19_xstring_decode_is_spec, C19_xstring_roundtrip, "
        "C19_xstring_text_survives; ods: space runs (text:s with any count), paragraphs, tabs and line breaks (ods_encode_survives "
        "for all texts), over every arrangement of the children of a string cell (citem / opiece widened after audit 2, fixes ODS-1 / ODS-3 / "
        "ODS-4): paragraphs, annotation, drawing objects anchored to the cell or as characters with whatever they hold (same-name nesting to any "
        "depth), the white space of an indented file between the children, comments, phonetic guides — C19_text_survives_ods, "
        "C19_ods_nonpara_contributes_nothing, C19_ods_ruby_text_contributes_nothing, C19_ods_ruby_is_its_base, C19_ods_layout_independent; UTF-16: round trip and lone-surrogate characterisation for wide_str / decode_to; C19_text_survives_xls_workbook (any CodePage record in the globals) and C19_text_survives_xls (shared / LABEL / formula string of an xls workbook, composed from C12's theorems). No known class left (five "
        "repaired in /repo). Totality: C19_no_panic_read_string / _read_shared_strings / _read_cell / _read_sheet_cells / "
        "_read_sheet_formulas / _ods_cell / _wide_str (all event lists / byte strings). Tie: generated .xlsx, .ods, .xls and .xlsb files "
        "(escape material, CDATA, rich runs, tabs / breaks everywhere; xls shared / inline / formula strings up to 32767 units with CONTINUE cuts) through the public API, hooks wide_str / decode_to.",
   note=TB + " quick-xml tokenisation / entity unescaping / attribute parsing and zip are outside the model; <f> text and untyped cells are not unescaped by the code and the spec does not ask for it.",
   technique="Coq proof (state-machine induction over event lists; escape-layer arithmetic; UTF-16 codec) + extracted-model correspondence on real files",
   design_ref="5/C19"),
 "C06": dict(claimed=True,
   text="Partial by nature. (1) Proof: Properties/C06.v re-exports, one theorem per parser entry point (C06_<reader>_<function>_total, 62 "
        "theorems generated by tools/gen_c06_v.py from the slices' own property files, same statements, pinned by Check), the totality "
        "theorems of all models: for EVERY byte string / event list, with no well-formedness hypothesis, the model of the function "
        "returns Ok or Err — never Panic, never OutOfFuel at a stated fuel linear in the input: compound file (cfb_new, get_chain incl. "
        "cyclic tables, get_stream), VBA (decompress with output <= 4096 x chunks, dir stream), xls (record iterator, SST with "
        "capacity bound, strings, sheet loop, cell records, both formula decoders, name tables, merge cells), xlsb (framing, header, "
        "cell reader, SST, formula decoder), xlsx (A1 scanner, cell loop, strings, formulas, shared-formula translation, merge cells, "
        "table metadata, workbook part), ods (table reader with row limit, cells, manifest), Range (from_sparse unconditionally; new / "
        "window / set_value under exactly the conditions the code still needs), date conversions (all 2^64 patterns); plus the "
        "allocation bound of the chain walk (Totality.v). The header of C06.v lists, per Rust function, the theorem, the quantifier, the "
        "residual hypotheses, and the entry points WITHOUT a theorem (zip / quick-xml internals, Xls::parse_workbook and "
        "Xlsb::read_workbook as wholes, read_styles, pictures, the Sheets dispatch, real time and memory). (2) Fault enumeration "
        "through the public API (tools/props/c06.py, tools/mutate.py): structure-aware single and multi faults — every record kind x "
        "truncation length x boundary value of each declared length / count / offset / index, cyclic and dangling chains from every "
        "chain start, dropped / renamed / truncated parts, huge and malformed attribute values, deep nesting — on the fixtures, "
        "generated workbooks and a committed corpus of 169 minimised witnesses, through all four readers and auto-detection and every "
        "read call, under a capped allocator relative to the input size, a 2 MiB stack, and a per-case watchdog; a failure is keyed "
        "file::function::class (no line numbers). Five known findings (sparse or run-length input expanded into a dense result).",
   note=TB + " The theorems are about the models; the models are tied to the code by the 19 other correspondence checks, whose malformed-input "
        "profiles compare outcome classes (ok / err / panic) of model and code. C06_serial_total depends on Flocq's four classical axioms. "
        "The thorough tier's coqchk covers the closure of every slice (about 25 minutes).",
   technique="Coq proof (totality theorems over all inputs, re-exported from every slice) + structure-aware fault enumeration through the public API",
   design_ref="5/C06"),
}
REASON_TODO = "not claimed yet: model and theorems for this property are still being built (see DESIGN.md section 9)"

def main():
    props = [json.loads(l)["id"] for l in open(os.path.join(ROOT, "properties.jsonl"))]
    checks, na = [], []
    for pid in props:
        e = P.get(pid)
        if e and e.get("claimed") and pid in STALE:
            e = dict(e, claimed=False, reason=STALE_REASON)
        if e and e.get("claimed"):
            checks.append({
                "property_id": pid,
                "quick_cmd": "./check %s --tier quick" % pid,
                "thorough_cmd": "./check %s --tier thorough" % pid,
                "evidence_file": "/verif/evidence/%s.json" % pid,
                "replay_cmd_template": "./check %s --replay {path}" % pid,
                "engine": "coq-model-correspondence",
                "level_claimed": {"category": "proof", "text": e["text"], "design_ref": "DESIGN.md section " + e["design_ref"]},
                "level_note": e["note"],
                "technique": e["technique"],
            })
        else:
            na.append({"property_id": pid, "reason": (e or {}).get("reason", REASON_TODO)})
    m = {
        "version": 1,
        "setup_cmd": "./setup.sh",
        "hooks": {
            "guard": "--cfg calamine_verif",
            "enable": "RUSTFLAGS=\"--cfg calamine_verif\" cargo build --offline (the harness /verif/harness depends on /repo by path; hooks are the `#[cfg(calamine_verif)] pub mod verif_hooks` blocks at the end of src/{utils,formats,cfb,xls,ods}.rs, src/xlsb/mod.rs, src/xlsx/mod.rs, re-exported from src/lib.rs)",
            "baseline_off_cmd": BASELINE_OFF,
            "source_commits": HOOK_COMMITS,
            "add_only": True,
        },
        "engines": [{
            "name": "coq-model-correspondence", "path": "/verif/check",
            "serves_properties": [c["property_id"] for c in checks],
            "kind_free_text": "Coq 8.16 theorems about an executable Gallina model (coq/theories), extracted to OCaml (ocaml/vm) and "
                              "compared case by case with the Rust harness (harness/vh) linked against /repo's working tree",
        }],
        "checks": checks,
        "not_applicable": na,
        "notes": "Machine-checked proof in Coq 8.16.1; see DESIGN.md. known_findings.json lists recorded defects and fix: commits.",
    }
    with open(os.path.join(ROOT, "MANIFEST.json"), "w") as f:
        json.dump(m, f, indent=1)
        f.write("\n")

# properties whose model is being brought up to date with fix: commits that just landed in /repo (their check
# reports the stale model as a broken correspondence until the resync is merged); emptied as the resyncs land
STALE = set()
STALE_REASON = ("temporarily not claimed: a shared model file this slice imports (Col26.v / Range.v) was just re-synchronised with the "
                "hardened code and the slice's bridge lemmas are being re-proved against it; until that is merged the slice's proof "
                "files do not all compile")
HOOK_COMMITS = ["6e4993e", "bb5031b", "a67f951", "bdf3a94", "d6d3370", "13b2ff0", "132a2f1", "e246db2", "4161e7a"]
if __name__ == "__main__":
    main()
    # the source baseline (tools/source_baseline.json) belongs to the same /repo HEAD as the manifest
    import subprocess, sys
    subprocess.call([sys.executable, os.path.join(ROOT, "tools", "gen_source_baseline.py")])
