# P6: spellings of the sheet relationship Target
from xlsx_base import *
sh = sheet('<row r="1"><c r="A1"><v>1</v></c></row>')
for i, t in enumerate(['./worksheets/sheet1.xml', '../xl/worksheets/sheet1.xml', 'worksheets/../worksheets/sheet1.xml', 'worksheets/sheet%31.xml', '/xl/worksheets/sheet1.xml', 'xl/worksheets/sheet1.xml']):
    p = build('xlsx_6_target%d.xlsx' % i, sh, rels=wbrels((('rId1','worksheet',t),)))
    print(t, end=' : '); run(p, ['sheets', 'range ' + hx('Sheet1')])
# sheet part outside xl/: absolute target /sheets/sheet1.xml
parts = [('[Content_Types].xml', CT), ('_rels/.rels', ROOTRELS), ('xl/workbook.xml', workbook()),
         ('xl/_rels/workbook.xml.rels', wbrels((('rId1','worksheet','/sheets/sheet1.xml'),))), ('sheets/sheet1.xml', sh)]
mkzip(OUT + 'xlsx_6_outside_xl.xlsx', parts); print('/sheets/sheet1.xml', end=' : '); run(OUT + 'xlsx_6_outside_xl.xlsx', ['sheets', 'range ' + hx('Sheet1')])
