"""biffgen_c10 — minimal writers of .xls (BIFF8 in a version-3 compound file) and .xlsb (zip of
binary record streams) for the C10 checks: a style table (FORMAT/BrtFmt + XF/BrtXF records), the
date-system flag and one row of numeric cells.  Nothing else of the formats is produced.

cells: list of (ixfe, kind, payload)
   kind "num"  payload = 64-bit float bits            NUMBER / BrtCellReal
   kind "rk"   payload = 32-bit RK value              RK / BrtCellRk
   kind "fml"  payload = 64-bit float bits            FORMULA with a numeric cached value / BrtFmlaNum
   kind "mulrk" payload = list of (ixfe, rk) (xls only; the tuple's own ixfe is ignored)
"""
import struct, zipfile

# ------------------------------------------------------------------ BIFF8 / CFB
def rec(t, data):
    assert len(data) <= 8224
    return struct.pack("<HH", t, len(data)) + data

def xl_unicode(s):
    """XLUnicodeString without cch: flags byte + characters (8-bit when possible)"""
    units = s.encode("utf-16le")
    n = len(units) // 2
    if all(units[2 * i + 1] == 0 for i in range(n)):
        return n, b"\x00" + bytes(units[2 * i] for i in range(n))
    return n, b"\x01" + units

def codepage_rec(key):
    """the CodePage record (0x0042) of the globals: BIFF8 text never depends on it (audit-2 finding
    XLS-1), so any value - Excel 1200, JExcelApi 1252, a DBCS page, UTF-8, values unknown to the
    `codepage` crate - or no record is written, chosen by a hash of `key` (no PRNG draw)"""
    import zlib
    cps = [1200, 1200, 1252, 1252, 932, 936, 1251, 65001, 10000, 437, 54321, None]
    cp = cps[zlib.crc32(repr(key).encode("utf-8", "replace")) % len(cps)]
    return b"" if cp is None else struct.pack("<HHH", 0x0042, 2, cp)

def workbook_stream(formats, xfs, is_1904, cells, date1904_value=1, biff5=None):
    """biff5 = None: a BIFF8 stream.  biff5 = (code page, Python codec): the same workbook as a BIFF5 / BIFF7
    stream (the `Book` stream of Excel 5.0 / 95, Spreadsheet::WriteExcel < 2, PEAR, SheetJS biff5): BOF
    version 0x0500, the CodePage record of the byte strings, FORMAT = ifmt + byte string with a
    ONE-byte length, 16-byte XF records, BoundSheet name as a byte string, 10-byte DIMENSIONS; cell
    records are laid out as in BIFF8."""
    if biff5 is not None:
        return workbook_stream_biff5(formats, xfs, is_1904, cells, date1904_value, biff5)
    bof_g = rec(0x0809, struct.pack("<HHHHII", 0x0600, 0x0005, 0x0DBB, 0x07CC, 0, 0x0306))
    pre = bof_g + codepage_rec((formats, xfs, is_1904, cells))
    if is_1904 is not None:
        pre += rec(0x0022, struct.pack("<H", date1904_value if is_1904 else 0))
    for ifmt, s in formats:
        n, body = xl_unicode(s)
        pre += rec(0x041E, struct.pack("<HH", ifmt, n) + body)
    for ifmt in xfs:
        pre += rec(0x00E0, struct.pack("<HHHBBBBHHHHH", 0, ifmt, 0x0001, 0x20, 0, 0, 0, 0, 0, 0, 0, 0x20C0))
    name = "S"
    def bs(pos):
        return rec(0x0085, struct.pack("<IBB", pos, 0, 0) + bytes([len(name), 1]) + name.encode("utf-16le"))
    eof = rec(0x000A, b"")
    pos = len(pre) + len(bs(0)) + len(eof)
    glob = pre + bs(pos) + eof
    bof_s = rec(0x0809, struct.pack("<HHHHII", 0x0600, 0x0010, 0x0DBB, 0x07CC, 0, 0x0306))
    body = b""
    col = 0
    for ixfe, kind, payload in cells:
        if kind == "num":
            body += rec(0x0203, struct.pack("<HHHQ", 0, col, ixfe, payload)); col += 1
        elif kind == "rk":
            body += rec(0x027E, struct.pack("<HHHI", 0, col, ixfe, payload)); col += 1
        elif kind == "fml":
            # FormulaValue = the float; grbit, chn, then rgce = PtgInt 1 (cce 3)
            body += rec(0x0006, struct.pack("<HHHQHI", 0, col, ixfe, payload, 0, 0) +
                        struct.pack("<H", 3) + b"\x1e\x01\x00"); col += 1
        elif kind == "mulrk":
            first = col
            inner = b"".join(struct.pack("<HI", x, rk) for x, rk in payload)
            col += len(payload)
            body += rec(0x00BD, struct.pack("<HH", 0, first) + inner + struct.pack("<H", col - 1))
    dim = rec(0x0200, struct.pack("<IIHHH", 0, 1, 0, max(col, 1), 0))
    return glob + bof_s + dim + body + eof

def cell_records(cells):
    body, col = b"", 0
    for ixfe, kind, payload in cells:
        if kind == "num":
            body += rec(0x0203, struct.pack("<HHHQ", 0, col, ixfe, payload)); col += 1
        elif kind == "rk":
            body += rec(0x027E, struct.pack("<HHHI", 0, col, ixfe, payload)); col += 1
        elif kind == "fml":
            body += rec(0x0006, struct.pack("<HHHQHI", 0, col, ixfe, payload, 0, 0) +
                        struct.pack("<H", 3) + b"\x1e\x01\x00"); col += 1
        elif kind == "mulrk":
            first = col
            inner = b"".join(struct.pack("<HI", x, rk) for x, rk in payload)
            col += len(payload)
            body += rec(0x00BD, struct.pack("<HH", 0, first) + inner + struct.pack("<H", col - 1))
    return body, col

def workbook_stream_biff5(formats, xfs, is_1904, cells, date1904_value, biff5):
    cp, codec = biff5
    bof_g = rec(0x0809, struct.pack("<HHHH", 0x0500, 0x0005, 0x0DBB, 0x07CC))
    pre = bof_g + rec(0x0042, struct.pack("<H", cp))
    if is_1904 is not None:
        pre += rec(0x0022, struct.pack("<H", date1904_value if is_1904 else 0))
    for ifmt, s in formats:
        b = s.encode(codec)
        assert len(b) < 256
        pre += rec(0x041E, struct.pack("<HB", ifmt, len(b)) + b)
    for ifmt in xfs:
        pre += rec(0x00E0, struct.pack("<HHHBBHHHH", 0, ifmt, 0x0001, 0x20, 0, 0, 0, 0, 0x20C0))
    name = b"S"
    def bs(pos):
        return rec(0x0085, struct.pack("<IBB", pos, 0, 0) + bytes([len(name)]) + name)
    eof = rec(0x000A, b"")
    pos = len(pre) + len(bs(0)) + len(eof)
    glob = pre + bs(pos) + eof
    bof_s = rec(0x0809, struct.pack("<HHHH", 0x0500, 0x0010, 0x0DBB, 0x07CC))
    body, col = cell_records(cells)
    dim = rec(0x0200, struct.pack("<HHHHH", 0, 1, 0, max(col, 1), 0))
    return glob + bof_s + dim + body + eof

FREE, EOC, FATS = 0xFFFFFFFF, 0xFFFFFFFE, 0xFFFFFFFD

def cfb_write(stream_name, data):
    """version-3 compound file with a single stream kept in regular sectors (padded to >= 4096
    bytes so that no mini stream is needed)"""
    ss = 512
    if len(data) < 4096:
        data = data.ljust(4096, b"\0")
    nsec = (len(data) + ss - 1) // ss
    # sector layout: 0 = FAT, 1 = directory, 2.. = stream
    assert nsec + 2 <= 128
    fat = [FREE] * 128
    fat[0] = FATS
    fat[1] = EOC
    for i in range(nsec):
        fat[2 + i] = 3 + i if i + 1 < nsec else EOC
    def dirent(name, typ, start, size, child=FREE):
        n = name.encode("utf-16le") + b"\0\0"
        return (n.ljust(64, b"\0") + struct.pack("<H", len(n)) + bytes([typ, 1]) +
                struct.pack("<III", FREE, FREE, child) + b"\0" * 16 + b"\0" * 4 + b"\0" * 16 +
                struct.pack("<I", start) + struct.pack("<Q", size))
    d = (dirent("Root Entry", 5, EOC, 0, child=1) + dirent(stream_name, 2, 2, len(data))).ljust(ss, b"\0")
    hdr = (bytes.fromhex("D0CF11E0A1B11AE1") + b"\0" * 16 +
           struct.pack("<HHHHH", 0x3E, 3, 0xFFFE, 9, 6) + b"\0" * 6 +
           struct.pack("<IIIII", 0, 1, 1, 0, 4096) + struct.pack("<II", EOC, 0) +
           struct.pack("<II", EOC, 0) + struct.pack("<I", 0) + struct.pack("<I", FREE) * 108)
    assert len(hdr) == 512
    fatb = b"".join(struct.pack("<I", x) for x in fat)
    return hdr + fatb + d + data.ljust(nsec * ss, b"\0")

def write_xls(path, formats, xfs, is_1904, cells, **kw):
    name = "Book" if kw.get("biff5") is not None else "Workbook"
    open(path, "wb").write(cfb_write(name, workbook_stream(formats, xfs, is_1904, cells, **kw)))

# ------------------------------------------------------------------ XLSB
def brec(t, data=b""):
    if t < 0x80:
        tb = bytes([t])
    else:
        tb = bytes([(t & 0x7F) | 0x80, t >> 7])
    n = len(data)
    lb = b""
    while True:
        b = n & 0x7F
        n >>= 7
        if n:
            lb += bytes([b | 0x80])
        else:
            lb += bytes([b]); break
    return tb + lb + data

def wide(s):
    u = s.encode("utf-16le")
    return struct.pack("<I", len(u) // 2) + u

def write_xlsb(path, formats, xfs, is_1904, cells, fonts=True, styles=None, short_cols=()):
    """styles: the bytes of xl/styles.bin (default: Excel's shape of the part — FMTS, FONTS, FILLS,
    BORDERS, CELLSTYLEXFS, CELLXFS, STYLES ... with colours that hold the byte pairs E9 04 / E7 04,
    tools/xlsbstyles.py; fonts=False: the two collections only).
    short_cols: columns (> 0) whose num / rk cell is written as a short cell record (BrtShortReal
    0x10 / BrtShortRk 0x0D: no column field, the cell stands right of the previous one)."""
    import xlsbstyles
    wb = (brec(0x0083) +
          brec(0x0099, struct.pack("<II", 1 if is_1904 else 0, 0) + wide("")) +
          brec(0x008F) +
          brec(0x009C, struct.pack("<II", 0, 1) + wide("rId1") + wide("S")) +
          brec(0x0090) +
          brec(0x009D, struct.pack("<IdB", 0, 0.001, 0)) +
          brec(0x0084))
    if styles is not None:
        st = styles
    elif fonts:
        st = xlsbstyles.default_part(list(formats), list(xfs))
    else:
        st = xlsbstyles.enc_layout(xlsbstyles.bare_layout(list(formats), list(xfs)))
    sh = (brec(0x0081) + brec(0x0094, struct.pack("<IIII", 0, 0, 0, max(len(cells) - 1, 0))) +
          brec(0x0091) + brec(0x0000, struct.pack("<IIHBBBI", 0, 0, 300, 0, 0, 0, 0)))
    for col, (ixfe, kind, payload) in enumerate(cells):
        # Cell [MS-XLSB 2.5.9]: column, iStyleRef (24 bits), fPhShow (1 bit), 7 reserved bits; every
        # third cell shows its phonetic guide (the flag must not leak into the style index)
        head = struct.pack("<I", col) + struct.pack("<I", (ixfe & 0xFFFFFF) | ((1 if col % 3 == 1 else 0) << 24))
        if kind == "num":
            sh += (brec(0x0010, head[4:] + struct.pack("<Q", payload)) if col > 0 and col in short_cols else
                   brec(0x0005, head + struct.pack("<Q", payload)))
        elif kind == "rk":
            sh += (brec(0x000D, head[4:] + struct.pack("<I", payload)) if col > 0 and col in short_cols else
                   brec(0x0002, head + struct.pack("<I", payload)))
        elif kind == "fml":
            sh += brec(0x0009, head + struct.pack("<Q", payload) + struct.pack("<HI", 0, 3) + b"\x1e\x01\x00" +
                       struct.pack("<I", 0))
    sh += brec(0x0092) + brec(0x0082)
    rels = ('<?xml version="1.0" encoding="UTF-8" standalone="yes"?>'
            '<Relationships xmlns="http://schemas.openxmlformats.org/package/2006/relationships">'
            '<Relationship Id="rId1" Type="http://schemas.openxmlformats.org/officeDocument/2006/relationships/worksheet" Target="worksheets/sheet1.bin"/>'
            '<Relationship Id="rId2" Type="http://schemas.openxmlformats.org/officeDocument/2006/relationships/styles" Target="styles.bin"/>'
            '</Relationships>')
    ct = ('<?xml version="1.0" encoding="UTF-8" standalone="yes"?>'
          '<Types xmlns="http://schemas.openxmlformats.org/package/2006/content-types">'
          '<Default Extension="bin" ContentType="application/vnd.ms-excel.sheet.binary.macroEnabled.main"/>'
          '<Default Extension="rels" ContentType="application/vnd.openxmlformats-package.relationships+xml"/>'
          '</Types>')
    root = ('<?xml version="1.0" encoding="UTF-8" standalone="yes"?>'
            '<Relationships xmlns="http://schemas.openxmlformats.org/package/2006/relationships">'
            '<Relationship Id="rId1" Type="http://schemas.openxmlformats.org/officeDocument/2006/relationships/officeDocument" Target="xl/workbook.bin"/>'
            '</Relationships>')
    with zipfile.ZipFile(path, "w", zipfile.ZIP_DEFLATED) as z:
        z.writestr("[Content_Types].xml", ct)
        z.writestr("_rels/.rels", root)
        z.writestr("xl/workbook.bin", wb)
        z.writestr("xl/_rels/workbook.bin.rels", rels)
        z.writestr("xl/styles.bin", st)
        z.writestr("xl/worksheets/sheet1.bin", sh)
