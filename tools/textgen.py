"""textgen — minimal .xlsx / .ods writers and the XML serialiser used by the C19 check.

Everything works on EVENT LISTS in the wire format shared with ocaml/cmd_xmltext.ml:
    events  = tokens separated by ' '
    token   = S<hexname>[,<hexkey>=<hexval>]*   Start
            | E<hexname>                         End
            | T<hextext>                         Text
            | C<hextext>                         CData
            | O                                  comment (Other)
hex = lowercase hex of UTF-8.  The serialiser turns an event list into XML text whose
tokenisation by a conforming parser (and by quick-xml 0.37 with trim_text(false),
expand_empty_elements(true)) is that same event list: that equivalence is part of the trusted
base and these runs are what samples it.  How each character of a Text event is written
(literal / predefined entity / decimal or hex character reference) is chosen per character by
the caller's PRNG; characters that MUST be escaped always are ('&', '<', '>' — the latter so
that "]]>" never appears —, CR, and in attribute values also '"', TAB, LF)."""
import io, zipfile

def hx(s):
    return s.encode("utf-8").hex()
def unhx(h):
    return bytes.fromhex(h).decode("utf-8")

# ------------------------------------------------------------------ event helpers
def S(name, attrs=()):
    return ("S", name, tuple(attrs))
def E(name):
    return ("E", name)
def T(s):
    return ("T", s)
def C(s):
    return ("C", s)
O = ("O",)

def wire(events):
    out = []
    for e in events:
        k = e[0]
        if k == "S":
            out.append("S" + hx(e[1]) + "".join(",%s=%s" % (hx(a), hx(v)) for a, v in e[2]))
        elif k == "E":
            out.append("E" + hx(e[1]))
        elif k == "T":
            out.append("T" + hx(e[1]))
        elif k == "C":
            out.append("C" + hx(e[1]))
        else:
            out.append("O")
    return " ".join(out)

def unwire(text):
    ev = []
    for tok in text.split(" "):
        if not tok:
            continue
        k, body = tok[0], tok[1:]
        if k == "S":
            parts = body.split(",")
            attrs = []
            for p in parts[1:]:
                a, v = p.split("=")
                attrs.append((unhx(a), unhx(v)))
            ev.append(S(unhx(parts[0]), attrs))
        elif k == "E":
            ev.append(E(unhx(body)))
        elif k == "T":
            ev.append(T(unhx(body)))
        elif k == "C":
            ev.append(C(unhx(body)))
        else:
            ev.append(O)
    return ev

# ------------------------------------------------------------------ XML 1.0 characters
def xml_char_ok(cp):
    return cp in (9, 10, 13) or 0x20 <= cp <= 0xD7FF or 0xE000 <= cp <= 0xFFFD or 0x10000 <= cp <= 0x10FFFF

ENT = {"&": "&amp;", "<": "&lt;", ">": "&gt;", '"': "&quot;", "'": "&apos;"}

def esc_text(s, rng=None, attr=False):
    """escape character data; rng (random.Random) varies the spelling of each character"""
    out = []
    for ch in s:
        cp = ord(ch)
        must = ch in "&<>" or cp == 13 or (attr and (ch == '"' or cp in (9, 10)))
        r = rng.random() if rng is not None else 1.0
        if must:
            if ch in ENT and r < 0.6:
                out.append(ENT[ch])
            elif r < 0.8:
                out.append("&#%d;" % cp)
            else:
                out.append("&#x%X;" % cp)
        elif rng is not None and r < 0.04:
            out.append("&#%d;" % cp)
        elif rng is not None and r < 0.08:
            out.append("&#x%x;" % cp)
        elif rng is not None and ch in ENT and r < 0.5:
            out.append(ENT[ch])
        else:
            out.append(ch)
    return "".join(out)

FREE_ATTRS = {"office:string-value"}

def serialise(events, rng=None, decl=True, empty_tags=True):
    """events -> XML text.  Adjacent Start/End of the same name are written as an empty-element
    tag when empty_tags (quick-xml expands it back to the pair)."""
    out = []
    if decl:
        out.append('<?xml version="1.0" encoding="UTF-8" standalone="yes"?>')
    i, n = 0, len(events)
    while i < n:
        e = events[i]
        k = e[0]
        if k == "S":
            # only attributes that carry cell text get a free spelling: calamine compares the
            # values of t / r / s / office:value-type as raw bytes (a character reference inside
            # them is not understood), which is outside this property
            tag = e[1] + "".join(' %s="%s"' % (a, esc_text(v, rng if a in FREE_ATTRS else None, attr=True))
                                 for a, v in e[2])
            nxt = events[i + 1] if i + 1 < n else None
            if empty_tags and nxt is not None and nxt[0] == "E" and nxt[1] == e[1] and \
               (rng is None or rng.random() < 0.7):
                out.append("<%s/>" % tag)
                i += 2
                continue
            out.append("<%s>" % tag)
        elif k == "E":
            out.append("</%s>" % e[1])
        elif k == "T":
            out.append(esc_text(e[1], rng))
        elif k == "C":
            assert "]]>" not in e[1]
            out.append("<![CDATA[%s]]>" % e[1])
        else:
            out.append("<!--c-->")
        i += 1
    return "".join(out)

# ------------------------------------------------------------------ zip
def zip_bytes(parts, rng=None):
    bio = io.BytesIO()
    with zipfile.ZipFile(bio, "w") as z:
        for name, data in parts:
            method = zipfile.ZIP_DEFLATED if (rng is None or rng.random() < 0.5) else zipfile.ZIP_STORED
            zi = zipfile.ZipInfo(name, date_time=(2020, 1, 1, 0, 0, 0))
            zi.compress_type = method
            z.writestr(zi, data if isinstance(data, bytes) else data.encode("utf-8"))
    return bio.getvalue()

# ------------------------------------------------------------------ xlsx
NS_MAIN = "http://schemas.openxmlformats.org/spreadsheetml/2006/main"
NS_REL = "http://schemas.openxmlformats.org/officeDocument/2006/relationships"
NS_PKG = "http://schemas.openxmlformats.org/package/2006/relationships"

def qn(pfx, l):
    return (pfx + ":" + l) if pfx else l

def col_name(c):
    s = ""
    c += 1
    while c > 0:
        c, r = divmod(c - 1, 26)
        s = chr(65 + r) + s
    return s

def sheet_body_events(pfx, cells):
    """the events that follow <sheetData>, up to and including </sheetData>: one row per test cell
    (column A) with the inline sentinel "|" in column B"""
    ev = []
    for i, (cattrs, cev) in enumerate(cells):
        ev.append(S(qn(pfx, "row"), [("r", str(i + 1))]))
        ev.append(S(qn(pfx, "c"), cattrs))
        ev.extend(cev)
        ev.append(S(qn(pfx, "c"), [("r", "B%d" % (i + 1)), ("t", "inlineStr")]))
        ev += [S(qn(pfx, "is")), S(qn(pfx, "t")), T("|"), E(qn(pfx, "t")), E(qn(pfx, "is")), E(qn(pfx, "c"))]
        ev.append(E(qn(pfx, "row")))
    ev.append(E(qn(pfx, "sheetData")))
    return ev

def xlsx_bytes(pfx, sst_events, cells, rng=None, sheet_name="S", body=None):
    """sst_events: the whole event list of xl/sharedStrings.xml (or None for no part);
    cells: list of (cattrs, events after Start c up to and including End c), one per row in
    column A; column B of every row holds the inline sentinel "|" so that the used range is
    normally A1:B<n>.  body (optional) = sheet_body_events(pfx, cells) computed by the caller."""
    nsdecl = ("xmlns:%s" % pfx if pfx else "xmlns", NS_MAIN)
    ev = [S(qn(pfx, "worksheet"), [nsdecl]), S(qn(pfx, "sheetData"))]
    ev += body if body is not None else sheet_body_events(pfx, cells)
    ev += [E(qn(pfx, "worksheet"))]
    sheet = serialise(ev, rng)
    wb = ('<?xml version="1.0" encoding="UTF-8" standalone="yes"?>'
          '<workbook xmlns="%s" xmlns:r="%s"><sheets><sheet name="%s" sheetId="1" r:id="rId1"/></sheets></workbook>'
          % (NS_MAIN, NS_REL, sheet_name))
    rels = ('<?xml version="1.0" encoding="UTF-8" standalone="yes"?>'
            '<Relationships xmlns="%s">'
            '<Relationship Id="rId1" Type="%s/worksheet" Target="worksheets/sheet1.xml"/>'
            '<Relationship Id="rId2" Type="%s/sharedStrings" Target="sharedStrings.xml"/>'
            '</Relationships>' % (NS_PKG, NS_REL, NS_REL))
    root = ('<?xml version="1.0" encoding="UTF-8" standalone="yes"?>'
            '<Relationships xmlns="%s"><Relationship Id="rId1" Type="%s/officeDocument" Target="xl/workbook.xml"/></Relationships>'
            % (NS_PKG, NS_REL))
    ct = ('<?xml version="1.0" encoding="UTF-8" standalone="yes"?>'
          '<Types xmlns="http://schemas.openxmlformats.org/package/2006/content-types">'
          '<Default Extension="rels" ContentType="application/vnd.openxmlformats-package.relationships+xml"/>'
          '<Default Extension="xml" ContentType="application/xml"/>'
          '<Override PartName="/xl/workbook.xml" ContentType="application/vnd.openxmlformats-officedocument.spreadsheetml.sheet.main+xml"/>'
          '<Override PartName="/xl/worksheets/sheet1.xml" ContentType="application/vnd.openxmlformats-officedocument.spreadsheetml.worksheet+xml"/>'
          '<Override PartName="/xl/sharedStrings.xml" ContentType="application/vnd.openxmlformats-officedocument.spreadsheetml.sharedStrings+xml"/>'
          '</Types>')
    parts = [("[Content_Types].xml", ct), ("_rels/.rels", root), ("xl/workbook.xml", wb),
             ("xl/_rels/workbook.xml.rels", rels)]
    if sst_events is not None:
        # sst_events starts with the declaration placeholder `O`: written as the XML declaration
        body = sst_events[1:] if sst_events and sst_events[0] == O else sst_events
        parts.append(("xl/sharedStrings.xml", serialise(body, rng)))
    parts.append(("xl/worksheets/sheet1.xml", sheet))
    return zip_bytes(parts, rng)

# ------------------------------------------------------------------ ods
ODS_NS = [
    ("xmlns:office", "urn:oasis:names:tc:opendocument:xmlns:office:1.0"),
    ("xmlns:table", "urn:oasis:names:tc:opendocument:xmlns:table:1.0"),
    ("xmlns:text", "urn:oasis:names:tc:opendocument:xmlns:text:1.0"),
    ("xmlns:calcext", "urn:org:documentfoundation:names:experimental:calc:xmlns:calcext:1.0"),
    ("xmlns:draw", "urn:oasis:names:tc:opendocument:xmlns:drawing:1.0"),
    ("xmlns:dr3d", "urn:oasis:names:tc:opendocument:xmlns:dr3d:1.0"),
    ("xmlns:svg", "urn:oasis:names:tc:opendocument:xmlns:svg-compatible:1.0"),
    ("xmlns:xlink", "http://www.w3.org/1999/xlink"),
    ("xmlns:dc", "http://purl.org/dc/elements/1.1/"),
    ("office:version", "1.2"),
]

def ods_bytes(cells, rng=None, sheet_name="S", pretty=None):
    """cells: list of (cell name, attrs, events after the cell's Start up to and including its
    End), one per row in column A; column B holds the sentinel string "|".
    pretty (default: drawn from rng, half of the files): the file is indented the way a
    pretty-printing writer does it — white space between the elements of office:spreadsheet, of
    the table, of every row (before, between and after its cells, with an occasional comment) and
    inside the sentinel cell.  What stands inside the test cells is the caller's (their events
    come from the Coq encoder, indentation included)."""
    if pretty is None:
        pretty = rng is not None and rng.random() < 0.5
    def ws(level):
        if not pretty:
            return []
        if rng is not None and rng.random() < 0.05:
            return []                                   # an indenting writer may skip a place
        w = "\n" + " " * (2 * level) if (rng is None or rng.random() < 0.9) else "\r\n\t"
        return [T(w)] + ([O, T(w)] if (rng is not None and rng.random() < 0.04) else [])
    ev = [S("office:document-content", ODS_NS)] + ws(1) + [S("office:body")] + ws(2) + \
         [S("office:spreadsheet")] + ws(3) + [S("table:table", [("table:name", sheet_name)])]
    for cname, attrs, cev in cells:
        ev += ws(4)
        ev.append(S("table:table-row"))
        ev += ws(5)
        ev.append(S(cname, attrs))
        ev.extend(cev)
        ev += ws(5)
        ev += [S("table:table-cell", [("office:value-type", "string")])] + ws(6) + [S("text:p"), T("|"),
               E("text:p")] + ws(5) + [E("table:table-cell")]
        ev += ws(4)
        ev.append(E("table:table-row"))
    ev += ws(3) + [E("table:table")] + ws(2) + [E("office:spreadsheet")] + ws(1) + [E("office:body")] + \
          ws(0) + [E("office:document-content")]
    content = serialise(ev, rng)
    manifest = ('<?xml version="1.0" encoding="UTF-8"?>'
                '<manifest:manifest xmlns:manifest="urn:oasis:names:tc:opendocument:xmlns:manifest:1.0" manifest:version="1.2">'
                '<manifest:file-entry manifest:full-path="/" manifest:media-type="application/vnd.oasis.opendocument.spreadsheet"/>'
                '<manifest:file-entry manifest:full-path="content.xml" manifest:media-type="text/xml"/>'
                '</manifest:manifest>')
    bio = io.BytesIO()
    with zipfile.ZipFile(bio, "w") as z:
        zi = zipfile.ZipInfo("mimetype", date_time=(2020, 1, 1, 0, 0, 0))
        zi.compress_type = zipfile.ZIP_STORED
        z.writestr(zi, b"application/vnd.oasis.opendocument.spreadsheet")
        for name, data in (("META-INF/manifest.xml", manifest), ("content.xml", content)):
            zi = zipfile.ZipInfo(name, date_time=(2020, 1, 1, 0, 0, 0))
            zi.compress_type = zipfile.ZIP_DEFLATED if (rng is None or rng.random() < 0.5) else zipfile.ZIP_STORED
            z.writestr(zi, data.encode("utf-8"))
    return bio.getvalue()
