// C18 (project level): open a generated compound file (args[0], hex) with the public
// VbaProject::new and print references and modules canonically:
//   ok|R<name>:<desc>:<path>,…|M<name>=<raw>=<text>,…      (strings as hex of their UTF-8)
//   err                                                     (a panic is answered by main)
// args[1] lists the streams the generator put into the file (<utf8 name hex>:<content hex>;…);
// they are checked against the file through the cfb hook so that a defect of the generator's
// compound-file writer cannot pass for a defect (or the absence of one) of the VBA reader:
// a mismatch answers "bad-case".
use crate::util::{hex, hexstr, unhex};
use calamine::vba::VbaProject;
use std::io::Cursor;

pub fn run(args: &[&str]) -> String {
    let data = unhex(args.first().copied().unwrap_or(""));
    if let Some(streams) = args.get(1) {
        match calamine::verif_hooks::cfb::cfb_new(data.clone()) {
            Ok(mut h) => {
                for e in streams.split(';').filter(|e| !e.is_empty()) {
                    let mut it = e.split(':');
                    let n = it.next().unwrap_or("");
                    let c = it.next().unwrap_or("");
                    let name = String::from_utf8(unhex(if n == "-" { "" } else { n })).unwrap_or_default();
                    let want = unhex(if c == "-" { "" } else { c });
                    // duplicates: get_stream returns the first entry of that name
                    match h.get_stream(&name) {
                        Ok(got) => {
                            let first = streams
                                .split(';')
                                .find(|x| x.split(':').next() == Some(n))
                                .map(|x| x.split(':').nth(1).unwrap_or(""))
                                .unwrap_or("");
                            if got != unhex(if first == "-" { "" } else { first }) {
                                return "bad-case".to_string();
                            }
                            let _ = want;
                        }
                        Err(_) => return "bad-case".to_string(),
                    }
                }
            }
            Err(_) => return "bad-case".to_string(),
        }
    }
    let len = data.len();
    let mut cur = Cursor::new(&data[..]);
    match VbaProject::new(&mut cur, len) {
        Ok(p) => {
            let refs: Vec<String> = p
                .get_references()
                .iter()
                .map(|r| {
                    format!(
                        "{}:{}:{}",
                        hexstr(&r.name),
                        hexstr(&r.description),
                        hexstr(&r.path.to_string_lossy())
                    )
                })
                .collect();
            let mods: Vec<String> = p
                .get_module_names()
                .iter()
                .map(|n| {
                    let raw = p.get_module_raw(n).map(hex).unwrap_or_else(|_| "?".to_string());
                    let text = p.get_module(n).map(|t| hexstr(&t)).unwrap_or_else(|_| "?".to_string());
                    format!("{}={}={}", hexstr(n), raw, text)
                })
                .collect();
            format!("ok|R{}|M{}", refs.join(","), mods.join(","))
        }
        Err(_) => "err".to_string(),
    }
}
