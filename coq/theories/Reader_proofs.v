(* Reader_proofs.v — proofs for property C07 over Reader.v *)
From Calamine Require Import Prelude Range Range_spec HeaderRow Reader.
Open Scope N_scope.

Section ReaderProofs.
Variable Name Result : Type.
Variable sem : header_row -> call Name -> Result.

Lemma run_app : forall (ops1 ops2 : list (op Name)) s,
  run sem s (ops1 ++ ops2) =
  let '(s1, r1) := run sem s ops1 in
  let '(s2, r2) := run sem s1 ops2 in (s2, r1 ++ r2).
Proof.
  induction ops1 as [|o ops1 IH]; intros ops2 s; cbn [run app].
  - destruct (run sem s ops2); reflexivity.
  - destruct (step sem s o) as [s1 r]. rewrite IH.
    destruct (run sem s1 ops1) as [s2 rs]. destruct (run sem s2 ops2). reflexivity.
Qed.

Lemma run_state : forall (ops : list (op Name)) s,
  st_hdr (fst (run sem s ops)) = header_in_force (st_hdr s) ops.
Proof.
  induction ops as [|o ops IH]; intros s; cbn [run header_in_force]; [reflexivity|].
  destruct o as [h|c]; cbn [step].
  - specialize (IH (mkState h)). destruct (run sem (mkState h) ops). exact IH.
  - specialize (IH s). destruct (run sem s ops). exact IH.
Qed.

(* The result of a call made after ANY history is the file's answer for that call under the
   header-row option in force: it does not depend on the history otherwise. *)
Theorem history_pure : forall (ops : list (op Name)) (c : call Name),
  snd (run sem init (ops ++ [OCall c])) =
  snd (run sem init ops) ++ [Some (sem (header_in_force FirstNonEmptyRow ops) c)].
Proof.
  intros ops c. rewrite run_app.
  pose proof (run_state ops init) as Hs.
  destruct (run sem init ops) as [s1 r1]. cbn [fst] in Hs.
  cbn [run step snd]. rewrite Hs. reflexivity.
Qed.

(* Two histories that leave the same option in force give the same answer to the next call:
   re-reading, reading in any order and interleaving other reads never changes a result. *)
Corollary same_option_same_result : forall (ops1 ops2 : list (op Name)) (c : call Name),
  header_in_force FirstNonEmptyRow ops1 = header_in_force FirstNonEmptyRow ops2 ->
  last (snd (run sem init (ops1 ++ [OCall c]))) None =
  last (snd (run sem init (ops2 ++ [OCall c]))) None.
Proof.
  intros ops1 ops2 c H. rewrite !history_pure, !last_last, H. reflexivity.
Qed.

(* Read calls do not change the option; setting it affects only later calls and can be undone. *)
Lemma calls_keep_option : forall (cs : list (call Name)) h,
  header_in_force h (map (@OCall Name) cs) = h.
Proof. induction cs as [|c cs IH]; intros h; cbn; auto. Qed.

Lemma option_reversible : forall (ops mid : list (op Name)) h h',
  header_in_force FirstNonEmptyRow (ops ++ [OSetHeader h] ++ mid ++ [OSetHeader h']) = h'.
Proof.
  intros ops mid h h'. generalize FirstNonEmptyRow as h0. revert mid h h'.
  assert (G : forall (l : list (op Name)) h0 h', header_in_force h0 (l ++ [OSetHeader h']) = h').
  { induction l as [|o l IH]; intros h0 h'; cbn; [reflexivity|]. destruct o; apply IH. }
  intros mid h h' h0. rewrite !app_assoc. apply G.
Qed.

End ReaderProofs.

(* ---- the owned range equals the borrowed one converted cell by cell ---- *)
Section MapRange.
Variables A B : Type.
Variable f : A -> B.

Lemma map_range_is_empty : forall r : range A, is_empty (map_range f r) = is_empty r.
Proof. intros [s e l]; unfold is_empty, map_range; cbn. destruct l; reflexivity. Qed.

Lemma map_range_width : forall r : range A, width (map_range f r) = width r.
Proof. intros r. unfold width. rewrite map_range_is_empty. reflexivity. Qed.

Lemma map_range_height : forall r : range A, height (map_range f r) = height r.
Proof. intros r. unfold height. rewrite map_range_is_empty. reflexivity. Qed.

Lemma map_range_get : forall (r : range A) rel,
  get (map_range f r) rel = option_map f (get r rel).
Proof.
  intros r [row col]. unfold get. rewrite map_range_width, map_range_height.
  destruct ((width r <=? col) || (height r <=? row)); [reflexivity|].
  cbn [map_range r_inner]. apply nth_error_map.
Qed.

Theorem map_range_get_value : forall (r : range A) q,
  get_value (map_range f r) q = option_map f (get_value r q).
Proof.
  intros r q. unfold get_value. cbn [map_range r_start r_end].
  destruct (r_start r) as [sr sc]. destruct (r_end r) as [er ec].
  destruct ((sr <=? fst q) && (fst q <=? er) && (sc <=? snd q) && (snd q <=? ec)); [|reflexivity].
  apply map_range_get.
Qed.

Theorem map_range_rect : forall r : range A, rect (map_range f r) = rect r.
Proof. intros r. unfold rect. rewrite map_range_is_empty. reflexivity. Qed.

Theorem map_range_wf : forall r : range A, Wf r -> Wf (map_range f r).
Proof.
  intros r [H|H]; [left|right]; cbn [map_range r_inner r_start r_end].
  - rewrite H. reflexivity.
  - rewrite map_length. exact H.
Qed.

Theorem map_range_rows : forall r : range A,
  rows (map_range f r) = map (map f) (rows r).
Proof.
  intros r. unfold rows. rewrite map_range_is_empty, map_range_width.
  destruct (is_empty r); [reflexivity|]. cbn [map_range r_inner].
  unfold chunks. rewrite map_length. generalize (length (r_inner r)) as fuel.
  generalize (N.to_nat (width r)) as w.
  generalize (r_inner r) as l. intros l w fuel; revert l.
  induction fuel as [|fuel IH]; intros l; cbn [chunks_aux map]; [reflexivity|].
  destruct l as [|x l]; [reflexivity|].
  change (map f (x :: l)) with (f x :: map f l).
  change (f x :: map f l) with (map f (x :: l)) at 2 3.
  rewrite firstn_map, skipn_map, IH. reflexivity.
Qed.
End MapRange.

(* ---- worksheet_range_at(n) is worksheet_range of the n-th sheet name ---- *)
Theorem range_at_is_nth_name : forall (Name R : Type) (names : list Name) (g : Name -> R) n name,
  nth_error names n = Some name -> range_at names g n = Some (g name).
Proof. intros Name R names g n name H. unfold range_at. rewrite H. reflexivity. Qed.

Theorem range_at_out_of_range : forall (Name R : Type) (names : list Name) (g : Name -> R) n,
  (length names <= n)%nat -> range_at names g n = None.
Proof.
  intros Name R names g n H. unfold range_at.
  destruct (nth_error names n) eqn:E; [|reflexivity].
  apply nth_error_None in H. congruence.
Qed.

(* ---- an unknown sheet name is an error, never some other sheet ---- *)
Theorem unknown_name_is_none : forall (Name S : Type) (eqb : Name -> Name -> bool)
    (sheets : list (Name * S)) n,
  (forall m s, In (m, s) sheets -> eqb m n = false) -> find_sheet eqb sheets n = None.
Proof.
  intros Name S eqb sheets n. induction sheets as [|[m s] rest IH]; intros H; cbn; [reflexivity|].
  rewrite (H m s (or_introl eq_refl)). apply IH. intros m' s' Hin. apply (H m' s'). right; exact Hin.
Qed.

Theorem known_name_is_that_sheet : forall (Name S : Type) (eqb : Name -> Name -> bool)
    (sheets : list (Name * S)) n s,
  find_sheet eqb sheets n = Some s -> exists m, In (m, s) sheets /\ eqb m n = true.
Proof.
  intros Name S eqb sheets n s. induction sheets as [|[m s'] rest IH]; cbn; [discriminate|].
  destruct (eqb m n) eqn:E.
  - intros H; inversion H; subst. exists m. split; [left; reflexivity|exact E].
  - intros H. destruct (IH H) as [m' [Hin He]]. exists m'. split; [right; exact Hin|exact He].
Qed.
