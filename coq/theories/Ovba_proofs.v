(* Ovba_proofs — proofs about the MS-OVBA model of Ovba.v (property C18).
   Main results:
     bit_count_of_spec        the code's POWER_2 search = MS-OVBA's max(ceil(log2 pos), 4)
     copy_token_codec         unpack (pack (off, len)) = (off, len) at every position
     overlap_copy_is_bytewise the block copy through the 4096-byte buffer = byte-by-byte copy
     decompress_encode        decompress inverts the encoder on every valid chunk list
     encode_bytes             the encoder emits bytes
     decompress_no_fuel       the fuel of [decompress] suffices on EVERY input *)
From Calamine Require Import Prelude Ovba.
Open Scope N_scope.

(* ========================================================================================== *)
(* 1. bit-level facts                                                                          *)
(* ========================================================================================== *)
(* ---------- bits ---------- *)
Lemma testbit_small : forall b k n, b < 2 ^ k -> k <= n -> N.testbit b n = false.
Proof.
  intros b k n Hb Hk. destruct (N.eq_dec b 0) as [->|Hnz]; [apply N.bits_0|].
  apply N.bits_above_log2. apply N.lt_le_trans with k; [|exact Hk].
  apply N.log2_lt_pow2; lia.
Qed.

Lemma lor_shiftl_low : forall a b k, b < 2 ^ k -> N.lor (N.shiftl a k) b = a * 2 ^ k + b.
Proof.
  intros a b k Hb. rewrite <- N.shiftl_mul_pow2.
  rewrite <- N.lxor_lor, <- N.add_nocarry_lxor; auto.
  all: apply N.bits_inj_0; intro n; rewrite N.land_spec;
    destruct (N.lt_ge_cases n k) as [H|H];
    [rewrite N.shiftl_spec_low by exact H; reflexivity
    |rewrite (testbit_small b k n Hb H); apply andb_false_r].
Qed.

Lemma land_not_mask : forall t k, t < 65536 -> k <= 16 ->
  N.shiftr (N.land t (N.lxor 65535 (N.ones k))) k = t / 2 ^ k.
Proof.
  intros t k Ht Hk. rewrite <- N.shiftr_div_pow2.
  apply N.bits_inj; intro n. rewrite !N.shiftr_spec', N.land_spec, N.lxor_spec.
  rewrite (N.ones_spec_high k (n + k)) by lia. rewrite xorb_false_r.
  change 65535 with (N.ones 16).
  destruct (N.lt_ge_cases (n + k) 16) as [H|H].
  - rewrite N.ones_spec_low by exact H. apply andb_true_r.
  - rewrite (testbit_small t 16 (n + k)) by (auto; lia). reflexivity.
Qed.

Lemma bit_count_of_unfold : forall d,
  bit_count_of d =
  if d <=? 16 then Some 4 else if d <=? 32 then Some 5 else if d <=? 64 then Some 6
  else if d <=? 128 then Some 7 else if d <=? 256 then Some 8 else if d <=? 512 then Some 9
  else if d <=? 1024 then Some 10 else if d <=? 2048 then Some 11 else if d <=? 4096 then Some 12
  else if d <=? 8192 then Some 13 else if d <=? 16384 then Some 14
  else if d <=? 32768 then Some 15 else None.
Proof. intro d. reflexivity. Qed.

Lemma spec_bit_count_low : forall d, d <= 16 -> spec_bit_count d = 4.
Proof.
  intros d H. unfold spec_bit_count. destruct (N.eq_dec d 0) as [->|Hnz]; [reflexivity|].
  assert (N.log2_up d <= 4) by (apply N.log2_up_le_pow2; [lia|exact H]). lia.
Qed.

Lemma spec_bit_count_range : forall b d, 4 < b -> 2 ^ (N.pred b) < d <= 2 ^ b ->
  spec_bit_count d = b.
Proof.
  intros b d Hb H. unfold spec_bit_count. rewrite (N.log2_up_unique d b); [lia|lia|exact H].
Qed.

Lemma bit_count_of_spec : forall d, d <= 32768 -> bit_count_of d = Some (spec_bit_count d).
Proof.
  intros d Hd. rewrite bit_count_of_unfold.
  repeat match goal with
  | |- context [?a <=? ?b] => destruct (N.leb_spec a b)
  end; try lia.
  - rewrite spec_bit_count_low; auto.
  - rewrite (spec_bit_count_range 5); [reflexivity|lia|]. change (2 ^ N.pred 5) with 16; change (2^5) with 32; lia.
  - rewrite (spec_bit_count_range 6); [reflexivity|lia|]. change (2 ^ N.pred 6) with 32; change (2^6) with 64; lia.
  - rewrite (spec_bit_count_range 7); [reflexivity|lia|]. change (2 ^ N.pred 7) with 64; change (2^7) with 128; lia.
  - rewrite (spec_bit_count_range 8); [reflexivity|lia|]. change (2 ^ N.pred 8) with 128; change (2^8) with 256; lia.
  - rewrite (spec_bit_count_range 9); [reflexivity|lia|]. change (2 ^ N.pred 9) with 256; change (2^9) with 512; lia.
  - rewrite (spec_bit_count_range 10); [reflexivity|lia|]. change (2 ^ N.pred 10) with 512; change (2^10) with 1024; lia.
  - rewrite (spec_bit_count_range 11); [reflexivity|lia|]. change (2 ^ N.pred 11) with 1024; change (2^11) with 2048; lia.
  - rewrite (spec_bit_count_range 12); [reflexivity|lia|]. change (2 ^ N.pred 12) with 2048; change (2^12) with 4096; lia.
  - rewrite (spec_bit_count_range 13); [reflexivity|lia|]. change (2 ^ N.pred 13) with 4096; change (2^13) with 8192; lia.
  - rewrite (spec_bit_count_range 14); [reflexivity|lia|]. change (2 ^ N.pred 14) with 8192; change (2^14) with 16384; lia.
  - rewrite (spec_bit_count_range 15); [reflexivity|lia|]. change (2 ^ N.pred 15) with 16384; change (2^15) with 32768; lia.
Qed.

(* the bit count of a position inside a chunk, with the facts the codec needs *)
Lemma spec_bit_count_bounds : forall pos, pos <= 4096 ->
  4 <= spec_bit_count pos <= 12 /\ pos <= 2 ^ spec_bit_count pos.
Proof.
  intros pos H. pose proof (bit_count_of_spec pos ltac:(lia)) as E.
  rewrite bit_count_of_unfold in E.
  repeat match type of E with
  | context [?a <=? ?b] => destruct (N.leb_spec a b)
  end; try lia; injection E as E; rewrite <- E; split; try lia.
  all: match goal with |- _ <= 2 ^ ?k => let v := eval vm_compute in (2 ^ k) in change (2 ^ k) with v end; lia.
Qed.

Lemma shiftr_ffff : forall bc, 4 <= bc <= 15 -> N.shiftr 65535 bc = N.ones (16 - bc).
Proof.
  intros bc H.
  assert (bc = 4 \/ bc = 5 \/ bc = 6 \/ bc = 7 \/ bc = 8 \/ bc = 9 \/ bc = 10 \/ bc = 11 \/
          bc = 12 \/ bc = 13 \/ bc = 14 \/ bc = 15) as C by lia.
  repeat destruct C as [C|C]; subst bc; reflexivity.
Qed.

Lemma max_len_eq : forall pos, pos <= 4096 -> max_len pos = 2 ^ (16 - spec_bit_count pos) + 2.
Proof.
  intros pos H. unfold max_len. destruct (spec_bit_count_bounds pos H) as [Hb _].
  rewrite shiftr_ffff by lia. rewrite N.ones_equiv.
  assert (0 < 2 ^ (16 - spec_bit_count pos)) by (apply N.neq_0_lt_0, N.pow_nonzero; lia). lia.
Qed.

Lemma pack_arith : forall pos off len, pos <= 4096 -> 3 <= len <= max_len pos ->
  pack pos off len = (off - 1) * 2 ^ (16 - spec_bit_count pos) + (len - 3).
Proof.
  intros pos off len Hp Hl. rewrite max_len_eq in Hl by exact Hp.
  unfold pack. apply lor_shiftl_low. set (K := 2 ^ _) in *. clearbody K. lia.
Qed.

Lemma divmod_pack : forall a b K, b < K -> (a * K + b) / K = a /\ (a * K + b) mod K = b.
Proof.
  intros a b K H. assert (K <> 0) by lia. split.
  - rewrite N.div_add_l by assumption. rewrite N.div_small by assumption. lia.
  - rewrite N.add_comm, N.mod_add by assumption. apply N.mod_small; assumption.
Qed.

Theorem copy_token_codec : forall pos off len,
  1 <= pos <= 4096 -> 1 <= off <= pos -> 3 <= len <= max_len pos ->
  pack pos off len < 65536 /\
  copy_token_fields pos (pack pos off len) = Ok (len, off).
Proof.
  intros pos off len Hp Ho Hl.
  assert (Hp' : pos <= 4096) by lia.
  destruct (spec_bit_count_bounds pos Hp') as [Hb Hpow].
  rewrite (pack_arith pos off len Hp' Hl). rewrite max_len_eq in Hl by exact Hp'.
  set (bc := spec_bit_count pos) in *. set (k := 16 - bc) in *.
  assert (HK : 2 ^ bc * 2 ^ k = 65536).
  { rewrite <- N.pow_add_r. replace (bc + k) with 16 by lia. reflexivity. }
  assert (Hlt : (off - 1) * 2 ^ k + (len - 3) < 65536) by nia.
  split; [exact Hlt|].
  unfold copy_token_fields. rewrite bit_count_of_spec by lia. fold bc.
  cbn [of_option obind]. rewrite shiftr_ffff by lia. fold k.
  rewrite N.land_ones. rewrite land_not_mask by (auto; lia).
  destruct (divmod_pack (off - 1) (len - 3) (2 ^ k)) as [Hd Hm]; [lia|].
  rewrite Hd, Hm. do 2 f_equal; lia.
Qed.

(* ========================================================================================== *)
(* 2. the overlapping copy                                                                     *)
(* ========================================================================================== *)
(* ---------- list helpers ---------- *)
Lemma skipn_nth_cons : forall (l : list N) i d, (i < length l)%nat ->
  skipn i l = nth i l d :: skipn (S i) l.
Proof.
  induction l as [|x l IH]; intros i d H; cbn [length] in H; [lia|].
  destruct i as [|i]; [reflexivity|]. cbn [skipn nth]. apply IH. lia.
Qed.

Lemma nth_firstn_lt : forall n (l : list N) i d, (i < n)%nat -> nth i (firstn n l) d = nth i l d.
Proof.
  induction n as [|n IH]; intros l i d H; [lia|].
  destruct l as [|x l]; [reflexivity|]. destruct i as [|i]; [reflexivity|].
  cbn [firstn nth]. apply IH. lia.
Qed.

Lemma rev_append_nil : forall (l : list N), rev_append l [] = rev l.
Proof. intro l. rewrite rev_append_rev. apply app_nil_r. Qed.

(* ---------- vectors ---------- *)
Definition vec_ok (v : vec) : Prop := v_len v = N.of_nat (length (v_rev v)).

Lemma vec_of_rev : forall l, v_rev (vec_of l) = rev l.
Proof. intro l. unfold vec_of. cbn [v_rev]. apply rev_append_nil. Qed.

Lemma vec_of_len : forall l, v_len (vec_of l) = N.of_nat (length l).
Proof. reflexivity. Qed.

Lemma vec_of_ok : forall l, vec_ok (vec_of l).
Proof. intro l. unfold vec_ok. rewrite vec_of_rev, rev_length. reflexivity. Qed.

Lemma vec_eq_of : forall v l, vec_ok v -> v_rev v = rev l -> v = vec_of l.
Proof.
  intros [r n] l Hok Hr. unfold vec_ok in Hok. cbn [v_rev v_len] in *. subst r.
  unfold vec_of. rewrite rev_append_nil. f_equal. rewrite Hok, rev_length. reflexivity.
Qed.

Lemma vec_to_list_of : forall l, vec_to_list (vec_of l) = l.
Proof.
  intro l. unfold vec_to_list. rewrite vec_of_rev, rev_append_nil. apply rev_involutive.
Qed.

Lemma vec_push_of : forall l b, vec_push (vec_of l) b = vec_of (l ++ [b]).
Proof.
  intros l b. apply vec_eq_of.
  - unfold vec_ok, vec_push. cbn [v_rev v_len]. rewrite vec_of_rev. cbn [length].
    rewrite rev_length, vec_of_len. lia.
  - unfold vec_push. cbn [v_rev]. rewrite vec_of_rev, rev_unit. reflexivity.
Qed.

Lemma vec_extend_of : forall l bs,
  vec_extend_rev (vec_of l) (rev_append bs []) = vec_of (l ++ bs).
Proof.
  intros l bs. apply vec_eq_of.
  - unfold vec_ok, vec_extend_rev. cbn [v_rev v_len]. rewrite app_length, vec_of_rev, rev_length, vec_of_len. lia.
  - unfold vec_extend_rev. cbn [v_rev]. rewrite vec_of_rev, rev_append_nil, rev_app_distr. reflexivity.
Qed.

(* ---------- the byte-by-byte copy seen from the end of the output ---------- *)
Definition cstep (off : nat) (r : list N) : list N := nth (off - 1) r 0 :: r.
Fixpoint citer (n off : nat) (r : list N) : list N :=
  match n with
  | O => r
  | S n' => citer n' off (cstep off r)
  end.

Lemma citer_snoc : forall n off r, citer (S n) off r = cstep off (citer n off r).
Proof.
  induction n as [|n IH]; intros off r; [reflexivity|].
  change (citer (S (S n)) off r) with (citer (S n) off (cstep off r)). rewrite IH. reflexivity.
Qed.

Lemma citer_add : forall a b off r, citer (a + b) off r = citer b off (citer a off r).
Proof.
  induction a as [|a IH]; intros b off r; [reflexivity|].
  cbn [Nat.add citer]. apply IH.
Qed.

Lemma citer_length : forall n off r, length (citer n off r) = (n + length r)%nat.
Proof.
  induction n as [|n IH]; intros off r; [reflexivity|].
  cbn [citer]. rewrite IH. unfold cstep. cbn [length]. lia.
Qed.

Lemma rev_copy_bytes : forall n off out, (1 <= off <= length out)%nat ->
  rev (copy_bytes n off out) = citer n off (rev out).
Proof.
  induction n as [|n IH]; intros off out H; [reflexivity|].
  cbn [copy_bytes citer]. rewrite IH by (rewrite app_length; cbn [length]; lia).
  rewrite rev_unit. unfold cstep. do 2 f_equal.
  rewrite rev_nth by lia. f_equal. lia.
Qed.

(* m steps, m <= off, append the first m bytes of the last off bytes: a block copy *)
Lemma citer_block : forall m off r, (m <= off <= length r)%nat ->
  citer m off r = skipn (off - m) (firstn off r) ++ r.
Proof.
  induction m as [|m IH]; intros off r H.
  - cbn [citer]. rewrite Nat.sub_0_r. rewrite skipn_all2; [reflexivity|].
    rewrite firstn_length. lia.
  - rewrite citer_snoc, IH by lia. unfold cstep.
    set (A := skipn (off - m) (firstn off r)).
    assert (HA : length A = m) by (unfold A; rewrite skipn_length, firstn_length; lia).
    rewrite app_nth2 by lia. rewrite HA.
    rewrite (skipn_nth_cons (firstn off r) (off - S m) 0) by (rewrite firstn_length; lia).
    rewrite nth_firstn_lt by lia.
    replace (S (off - S m)) with (off - m)%nat by lia.
    replace (off - 1 - m)%nat with (off - S m)%nat by lia. reflexivity.
Qed.

Lemma copy_loop_spec : forall fuel len off res,
  vec_ok res -> 1 <= off <= v_len res -> off <= 4096 -> 1 <= len -> (N.to_nat len <= fuel)%nat ->
  exists len' res', copy_loop fuel len off res = Ok (len', res') /\
    len' <= off /\ len' <= len /\ vec_ok res' /\ off <= v_len res' /\
    v_rev res' = citer (N.to_nat (len - len')) (N.to_nat off) (v_rev res).
Proof.
  induction fuel as [|f IH]; intros len off res Hok Hoff H4096 Hlen Hfuel; [lia|].
  cbn [copy_loop]. destruct (N.ltb_spec off len) as [Hlt|Hge].
  - destruct (N.ltb_spec 4096 off) as [?|_]; [lia|].
    destruct (N.ltb_spec (v_len res) off) as [?|_]; [lia|].
    set (res1 := vec_extend_rev res (vec_tail_rev res off)).
    assert (Hrev1 : v_rev res1 = citer (N.to_nat off) (N.to_nat off) (v_rev res)).
    { unfold res1, vec_extend_rev, vec_tail_rev. cbn [v_rev].
      rewrite citer_block by (unfold vec_ok in Hok; lia).
      rewrite Nat.sub_diag. reflexivity. }
    assert (Hok1 : vec_ok res1).
    { unfold vec_ok. rewrite Hrev1, citer_length. unfold res1, vec_extend_rev, vec_tail_rev.
      cbn [v_len]. rewrite firstn_length. unfold vec_ok in Hok. lia. }
    assert (Hlen1 : v_len res <= v_len res1).
    { unfold res1, vec_extend_rev. cbn [v_len]. lia. }
    destruct (IH (len - off) off res1 Hok1) as (len' & res' & E & H1 & H2 & H3 & H4 & H5); try lia.
    exists len', res'. rewrite E. repeat split; try assumption; try lia.
    rewrite H5, Hrev1, <- citer_add. f_equal. lia.
  - exists len, res. repeat split; try assumption; try lia.
    rewrite N.sub_diag. reflexivity.
Qed.

(* the copy of one token, on an output given in order: exactly the byte-by-byte copy *)
Lemma overlap_copy_exec : forall l off len,
  1 <= off <= N.of_nat (length l) -> off <= 4096 -> 1 <= len ->
  exists len' res1,
    copy_loop (N.to_nat len) len off (vec_of l) = Ok (len', res1) /\
    copy_tail len' off res1 = Ok (vec_of (copy_bytes (N.to_nat len) (N.to_nat off) l)).
Proof.
  intros l off len Hoff H4096 Hlen.
  destruct (copy_loop_spec (N.to_nat len) len off (vec_of l) (vec_of_ok l))
    as (len' & res' & E & H1 & H2 & H3 & H4 & H5); try lia; [rewrite vec_of_len; lia|].
  exists len', res'. split; [exact E|]. unfold copy_tail.
  destruct (N.ltb_spec 4096 len') as [?|_]; [lia|].
  destruct (N.ltb_spec (v_len res') off) as [?|_]; [lia|].
  destruct (N.ltb_spec off len') as [?|_]; [lia|].
  f_equal. apply vec_eq_of.
  - unfold vec_ok, vec_extend_rev, vec_tail_rev. cbn [v_rev v_len].
    rewrite app_length. unfold vec_ok in H3. lia.
  - unfold vec_extend_rev, vec_tail_rev. cbn [v_rev].
    rewrite rev_copy_bytes by lia.
    replace (N.to_nat (off - len')) with (N.to_nat off - N.to_nat len')%nat by lia.
    rewrite <- citer_block by (unfold vec_ok in H3; lia).
    rewrite H5, vec_of_rev, <- citer_add. f_equal. lia.
Qed.

Theorem overlap_copy_is_bytewise : forall l off len,
  1 <= off <= N.of_nat (length l) -> off <= 4096 -> 1 <= len ->
  (do (len', res1) <- copy_loop (N.to_nat len) len off (vec_of l); copy_tail len' off res1)
  = Ok (vec_of (copy_bytes (N.to_nat len) (N.to_nat off) l)).
Proof.
  intros l off len H1 H2 H3.
  destruct (overlap_copy_exec l off len H1 H2 H3) as (len' & res1 & E1 & E2).
  rewrite E1. cbn [obind]. exact E2.
Qed.

(* ========================================================================================== *)
(* 3. tokens and flag groups                                                                   *)
(* ========================================================================================== *)
(* ---------- spec-side lengths ---------- *)
Lemma copy_bytes_length : forall n off out, length (copy_bytes n off out) = (n + length out)%nat.
Proof.
  induction n as [|n IH]; intros off out; [reflexivity|].
  cbn [copy_bytes]. rewrite IH, app_length. cbn [length]. lia.
Qed.

Lemma copy_bytes_app_prefix : forall n off prev out, (1 <= off <= length out)%nat ->
  copy_bytes n off (prev ++ out) = prev ++ copy_bytes n off out.
Proof.
  induction n as [|n IH]; intros off prev out H; [reflexivity|].
  cbn [copy_bytes]. rewrite <- IH by (rewrite app_length; cbn [length]; lia).
  rewrite <- app_assoc. do 3 f_equal.
  f_equal. rewrite app_length. rewrite app_nth2 by lia. f_equal. lia.
Qed.

Lemma sem_token_pos : forall out t,
  N.of_nat (length (sem_token out t)) = N.of_nat (length out) + tok_out t.
Proof.
  intros out [b|off len]; cbn [sem_token tok_out].
  - rewrite app_length. cbn [length]. lia.
  - rewrite copy_bytes_length. lia.
Qed.

Lemma sem_tokens_pos : forall ts out,
  N.of_nat (length (sem_tokens_from out ts)) = N.of_nat (length out) + out_len ts.
Proof.
  induction ts as [|t ts IH]; intro out; cbn [sem_tokens_from fold_left out_len].
  - lia.
  - fold (sem_tokens_from (sem_token out t) ts). rewrite IH, sem_token_pos. lia.
Qed.

Lemma sem_tokens_app : forall a b out,
  sem_tokens_from out (a ++ b) = sem_tokens_from (sem_tokens_from out a) b.
Proof. intros a b out. unfold sem_tokens_from. apply fold_left_app. Qed.

Lemma valid_firstn : forall k ts pos, valid_tokensb pos ts = true ->
  valid_tokensb pos (firstn k ts) = true.
Proof.
  induction k as [|k IH]; intros ts pos H; [reflexivity|].
  destruct ts as [|t ts]; [reflexivity|]. cbn [firstn valid_tokensb] in *.
  apply andb_true_iff in H. destruct H as [H1 H2]. rewrite H1. cbn [andb]. apply IH, H2.
Qed.

Lemma valid_skipn : forall k ts pos, valid_tokensb pos ts = true ->
  valid_tokensb (pos + out_len (firstn k ts)) (skipn k ts) = true.
Proof.
  induction k as [|k IH]; intros ts pos H.
  - cbn [firstn skipn out_len]. rewrite N.add_0_r. exact H.
  - destruct ts as [|t ts]; [reflexivity|]. cbn [firstn skipn out_len valid_tokensb] in *.
    apply andb_true_iff in H. destruct H as [_ H2]. rewrite N.add_assoc. apply IH, H2.
Qed.

(* ---------- flag byte ---------- *)
Lemma land_bit_test : forall a i, (N.land a (N.shiftl 1 i) =? 0) = negb (N.testbit a i).
Proof.
  intros a i. rewrite N.shiftl_1_l. destruct (N.testbit a i) eqn:E; cbn [negb].
  - apply N.eqb_neq. intro H.
    assert (N.testbit (N.land a (2 ^ i)) i = false) as H0 by (rewrite H; apply N.bits_0).
    rewrite N.land_spec, E, N.pow2_bits_true in H0. discriminate.
  - apply N.eqb_eq. apply N.bits_inj_0. intro n. rewrite N.land_spec, N.pow2_bits_eqb.
    destruct (N.eqb_spec i n) as [->|_]; [rewrite E; reflexivity|apply andb_false_r].
Qed.

Lemma flag_byte_bits : forall g j, (j < length g)%nat ->
  N.testbit (flag_byte g) (N.of_nat j) = is_copy (nth j g (Lit 0)).
Proof.
  induction g as [|t g IH]; intros j H; cbn [length] in H; [lia|].
  cbn [flag_byte]. destruct j as [|j].
  - cbn [nth]. change (N.of_nat 0) with 0. apply N.testbit_0_r.
  - cbn [nth]. rewrite Nat2N.inj_succ, N.testbit_succ_r. apply IH. lia.
Qed.

(* ---------- one token ---------- *)
Lemma le16_read : forall h rest, read_u16 (le16 h ++ rest) = Ok h.
Proof.
  intros h rest. unfold le16. cbn [app read_u16]. f_equal.
  pose proof (N.div_mod h 256). lia.
Qed.

Lemma token_step : forall t prev out rest clen,
  valid_tokenb (N.of_nat (length out)) t = true ->
  (if is_copy t
   then do_copy (N.of_nat (length prev))
          (mkst (enc_token (N.of_nat (length out)) t ++ rest) (vec_of (prev ++ out)) clen)
   else do_literal (N.of_nat (length prev))
          (mkst (enc_token (N.of_nat (length out)) t ++ rest) (vec_of (prev ++ out)) clen))
  = Ok (mkst rest (vec_of (prev ++ sem_token out t))
          (clen + N.of_nat (length (enc_token (N.of_nat (length out)) t)))).
Proof.
  intros [b|off len] prev out rest clen Hv; cbn [is_copy enc_token sem_token].
  - cbn [valid_tokenb] in Hv. unfold CHUNK in Hv. apply andb_true_iff in Hv. destruct Hv as [_ Hpos].
    unfold do_literal. cbn [st_in app st_res st_clen length].
    rewrite vec_of_len, app_length. unfold CHUNK.
    destruct (N.leb_spec 4096 (N.of_nat (length prev + length out) - N.of_nat (length prev))) as [?|_]; [lia|].
    rewrite vec_push_of, app_assoc. reflexivity.
  - cbn [valid_tokenb] in Hv. unfold CHUNK in Hv.
    repeat (apply andb_true_iff in Hv; destruct Hv as [Hv ?]).
    set (pos := N.of_nat (length out)) in *.
    assert (Hpos : 1 <= pos <= 4096) by lia.
    destruct (copy_token_codec pos off len Hpos) as [_ Hcodec]; [lia|lia|].
    unfold do_copy. cbn [st_in st_res st_clen]. rewrite le16_read. cbn [obind].
    rewrite vec_of_len, app_length.
    replace (N.of_nat (length prev + length out) - N.of_nat (length prev)) with pos by lia.
    rewrite Hcodec. cbn [obind]. unfold CHUNK.
    destruct (N.ltb_spec 4096 (pos + len)) as [?|_]; [lia|].
    destruct (N.ltb_spec (N.of_nat (length prev + length out)) off) as [?|_]; [lia|].
    destruct (overlap_copy_exec (prev ++ out) off len) as (len' & res1 & E1 & E2);
      [rewrite app_length; lia|lia|lia|].
    rewrite E1. cbn [obind]. rewrite E2. cbn [obind].
    rewrite copy_bytes_app_prefix by lia.
    unfold le16. cbn [app skipn length]. reflexivity.
Qed.

Lemma enc_token_length : forall pos t, (1 <= length (enc_token pos t))%nat.
Proof. intros pos [b|off len]; cbn; lia. Qed.

(* ---------- the tokens of one flag group ---------- *)
Lemma token_loop_group : forall g n bit_index flags chunk_size prev out rest clen R,
  (length g <= n)%nat ->
  (forall j, (j < length g)%nat ->
     N.testbit flags (bit_index + N.of_nat j) = is_copy (nth j g (Lit 0))) ->
  valid_tokensb (N.of_nat (length out)) g = true ->
  clen + N.of_nat (length (enc_seq (N.of_nat (length out)) g)) + R = chunk_size + 1 ->
  token_loop n bit_index flags chunk_size (N.of_nat (length prev))
    (mkst (enc_seq (N.of_nat (length out)) g ++ rest) (vec_of (prev ++ out)) clen)
  = token_loop (n - length g) (bit_index + N.of_nat (length g)) flags chunk_size
      (N.of_nat (length prev))
      (mkst rest (vec_of (prev ++ sem_tokens_from out g))
         (clen + N.of_nat (length (enc_seq (N.of_nat (length out)) g)))).
Proof.
  induction g as [|t g IH]; intros n bit_index flags chunk_size prev out rest clen R Hn Hbits Hv Hsz.
  - cbn [enc_seq length app sem_tokens_from fold_left]. change (N.of_nat 0) with 0.
    rewrite Nat.sub_0_r, !N.add_0_r. reflexivity.
  - cbn [length] in Hn. destruct n as [|n]; [lia|].
    cbn [enc_seq valid_tokensb] in *. apply andb_true_iff in Hv. destruct Hv as [Hv1 Hv2].
    rewrite app_length in Hsz.
    pose proof (enc_token_length (N.of_nat (length out)) t) as Hl1.
    cbn [token_loop st_clen].
    destruct (N.ltb_spec chunk_size clen) as [?|_]; [lia|].
    rewrite land_bit_test. specialize (Hbits O ltac:(cbn [length]; lia)) as Hb0.
    change (N.of_nat 0) with 0 in Hb0. rewrite N.add_0_r in Hb0. cbn [nth] in Hb0. rewrite Hb0.
    rewrite <- app_assoc.
    pose proof (token_step t prev out (enc_seq (N.of_nat (length out) + tok_out t) g ++ rest) clen Hv1) as Hstep.
    destruct (is_copy t); cbn [negb]; rewrite Hstep; cbn [obind];
      rewrite <- sem_token_pos in *;
      (rewrite (IH n (bit_index + 1) flags chunk_size prev (sem_token out t) rest _ R);
       [ cbn [length sem_tokens_from fold_left Nat.sub]; rewrite app_length;
         f_equal; [lia | f_equal; lia]
       | lia
       | intros j Hj; specialize (Hbits (S j) ltac:(cbn [length]; lia)); cbn [nth] in Hbits;
         rewrite <- Hbits; f_equal; lia
       | exact Hv2
       | lia ]).
Qed.

(* ========================================================================================== *)
(* 4. chunks and the container                                                                 *)
(* ========================================================================================== *)
Lemma enc_groups_nil : forall f pos, enc_groups f pos [] = [].
Proof. intros [|f] pos; reflexivity. Qed.

(* ---------- all the flag groups of a chunk ---------- *)
Lemma chunk_loop_groups : forall f ts fuel prev out clen chunk_size more,
  (length ts <= f)%nat ->
  valid_tokensb (N.of_nat (length out)) ts = true ->
  clen + N.of_nat (length (enc_groups f (N.of_nat (length out)) ts)) = chunk_size + 1 ->
  (length (enc_groups f (N.of_nat (length out)) ts) < fuel)%nat ->
  chunk_loop fuel chunk_size (N.of_nat (length prev))
    (mkst (enc_groups f (N.of_nat (length out)) ts ++ more) (vec_of (prev ++ out)) clen)
  = Ok (mkst more (vec_of (prev ++ sem_tokens_from out ts)) (chunk_size + 1)).
Proof.
  assert (Hnil : forall fuel prev out clen chunk_size more, clen = chunk_size + 1 -> (0 < fuel)%nat ->
    chunk_loop fuel chunk_size (N.of_nat (length prev)) (mkst more (vec_of (prev ++ out)) clen)
    = Ok (mkst more (vec_of (prev ++ out)) (chunk_size + 1))).
  { intros [|fuel] prev out clen chunk_size more -> Hf; [lia|]. cbn [chunk_loop st_in st_clen].
    destruct more as [|b more]; [reflexivity|].
    destruct (N.ltb_spec chunk_size (chunk_size + 1)) as [_|?]; [reflexivity|lia]. }
  induction f as [|f IH]; intros ts fuel prev out clen chunk_size more Hlen Hv Hsz Hfuel.
  - destruct ts; [|cbn [length] in Hlen; lia]. cbn [enc_groups length app] in *.
    apply Hnil; lia.
  - destruct ts as [|t ts].
    { cbn [enc_groups length app] in *. apply Hnil; lia. }
    cbn [enc_groups] in *.
    set (g := firstn 8 (t :: ts)) in *.
    set (tl := skipn 8 (t :: ts)) in *.
    cbn [length] in Hsz, Hfuel. rewrite app_length in Hsz, Hfuel.
    destruct fuel as [|fuel]; [lia|].
    cbn [app chunk_loop st_in st_clen st_res].
    destruct (N.ltb_spec chunk_size clen) as [?|_]; [lia|].
    assert (Hvg : valid_tokensb (N.of_nat (length out)) g = true) by (apply valid_firstn, Hv).
    assert (Hvt : valid_tokensb ((N.of_nat (length out)) + out_len g) tl = true) by (apply valid_skipn, Hv).
    assert (Hg8 : (length g <= 8)%nat) by (unfold g; rewrite firstn_length; lia).
    rewrite <- app_assoc.
    rewrite (token_loop_group g 8 0 (flag_byte g) chunk_size prev out
               (enc_groups f ((N.of_nat (length out)) + out_len g) tl ++ more) (clen + 1)
               (N.of_nat (length (enc_groups f ((N.of_nat (length out)) + out_len g) tl))));
      [ | exact Hg8 | intros j Hj; rewrite N.add_0_l; apply flag_byte_bits, Hj | exact Hvg
        | lia ].
    rewrite N.add_0_l.
    assert (Hsplit : sem_tokens_from (sem_tokens_from out g) tl = sem_tokens_from out (t :: ts)).
    { rewrite <- sem_tokens_app. unfold g, tl. rewrite firstn_skipn. reflexivity. }
    assert (Hpos' : N.of_nat (length (sem_tokens_from out g)) = (N.of_nat (length out)) + out_len g)
      by apply sem_tokens_pos.
    destruct (Nat.eq_dec (length g) 8) as [E8|N8].
    + rewrite E8. cbn [Nat.sub token_loop obind].
      rewrite <- Hpos'. rewrite <- Hsplit.
      apply IH.
      * unfold tl. rewrite skipn_length. cbn [length] in *. lia.
      * rewrite Hpos'. exact Hvt.
      * rewrite Hpos'. lia.
      * rewrite Hpos'. lia.
    + assert (Hshort : (length (t :: ts) < 8)%nat).
      { unfold g in N8, Hg8. rewrite firstn_length in N8, Hg8. lia. }
      assert (Htl : tl = []) by (unfold tl; apply skipn_all2; lia).
      rewrite Htl in *. rewrite enc_groups_nil in *. cbn [length app] in *.
      destruct (8 - length g)%nat as [|k] eqn:Ek; [lia|].
      cbn [token_loop st_clen].
      destruct (N.ltb_spec chunk_size (clen + 1 + N.of_nat (length (enc_seq (N.of_nat (length out)) g)))) as [_|?]; [|lia].
      cbn [obind]. rewrite <- Hsplit. cbn [sem_tokens_from fold_left].
      do 2 f_equal. lia.
Qed.

(* ---------- chunk headers ---------- *)
Lemma tok_header_fields : forall x, x < 4096 ->
  N.land (chunk_header (x + 3) 1) 0x0FFF = x /\
  N.shiftr (N.land (chunk_header (x + 3) 1) 0x7000) 12 = 3 /\
  N.shiftr (N.land (chunk_header (x + 3) 1) 0x8000) 15 = 1.
Proof.
  intros x Hx. unfold chunk_header. replace (x + 3 - 3) with x by lia.
  rewrite (N.lor_comm x), (lor_shiftl_low 3 x 12) by (change (2 ^ 12) with 4096; lia).
  rewrite N.lor_comm, (lor_shiftl_low 1 _ 15) by (change (2 ^ 15) with 32768; change (2 ^ 12) with 4096; lia).
  change (2 ^ 12) with 4096. change (2 ^ 15) with 32768.
  repeat split.
  - change 4095 with (N.ones 12). rewrite N.land_ones. change (2 ^ 12) with 4096. lia.
  - rewrite N.shiftr_land, N.shiftr_div_pow2. change (N.shiftr 28672 12) with (N.ones 3).
    rewrite N.land_ones. change (2 ^ 12) with 4096. change (2 ^ 3) with 8. lia.
  - rewrite N.shiftr_land, N.shiftr_div_pow2. change (N.shiftr 32768 15) with (N.ones 1).
    rewrite N.land_ones. change (2 ^ 15) with 32768. change (2 ^ 1) with 2. lia.
Qed.

Lemma firstn_exact : forall (a b : list N) n, length a = n -> firstn n (a ++ b) = a.
Proof.
  intros a b n <-. rewrite firstn_app, Nat.sub_diag, firstn_all. cbn [firstn]. apply app_nil_r.
Qed.
Lemma skipn_exact : forall (a b : list N) n, length a = n -> skipn n (a ++ b) = b.
Proof.
  intros a b n <-. rewrite skipn_app, Nat.sub_diag, skipn_all. reflexivity.
Qed.

(* ---------- one chunk ---------- *)
Lemma chunks_loop_raw : forall f bs rest res, length bs = N.to_nat CHUNK ->
  chunks_loop (S f) (encode_chunk (Raw bs) ++ rest) res
  = chunks_loop f rest (vec_extend_rev res (rev_append bs [])).
Proof.
  intros f bs rest res Hlen. cbn [encode_chunk].
  replace (N.of_nat (length bs)) with CHUNK by lia.
  change (le16 (chunk_header (CHUNK + 2) 0)) with [255; 63].
  cbn [app chunks_loop read_u16 obind skipn].
  change (N.shiftr (N.land (255 + 256 * 63) 28672) 12 =? 3) with true.
  change (N.shiftr (N.land (255 + 256 * 63) 32768) 15 =? 0) with true.
  cbn [negb]. rewrite (firstn_exact bs rest _ Hlen), (skipn_exact bs rest _ Hlen).
  destruct (N.ltb_spec (N.of_nat (length bs)) CHUNK) as [?|_]; [lia|]. reflexivity.
Qed.

Lemma chunks_loop_toks : forall f ts rest prev,
  valid_chunk (Toks ts) -> (length (encode_chunk (Toks ts) ++ rest) <= f)%nat ->
  chunks_loop (S f) (encode_chunk (Toks ts) ++ rest) (vec_of prev)
  = chunks_loop f rest (vec_of (prev ++ sem_chunk (Toks ts))).
Proof.
  intros f ts rest prev Hv Hf. unfold valid_chunk in Hv. cbn [valid_chunkb] in Hv.
  apply andb_true_iff in Hv. destruct Hv as [Hv Hsz]. apply andb_true_iff in Hv. destruct Hv as [Hne Hv].
  cbn [encode_chunk sem_chunk] in *. set (body := enc_body ts) in *.
  assert (Hbody : (1 <= length body)%nat).
  { unfold body, enc_body. destruct ts as [|t ts]; [discriminate|]. cbn [length enc_groups]. lia. }
  unfold CHUNK in Hsz. apply N.leb_le in Hsz.
  set (x := N.of_nat (length body) - 1).
  replace (N.of_nat (length body) + 2) with (x + 3) in * by lia.
  destruct (tok_header_fields x ltac:(lia)) as (F1 & F2 & F3).
  rewrite !app_length in Hf. cbn [le16 length] in Hf.
  remember (chunk_header (x + 3) 1) as h eqn:Eh.
  rewrite <- app_assoc.
  assert (Hcons : exists a b, le16 h = [a; b]) by (unfold le16; eauto).
  destruct Hcons as (a & b & Hab).
  pose proof (le16_read h (body ++ rest)) as Hread. rewrite Hab in *.
  cbn [app] in *. cbn [chunks_loop]. rewrite Hread. cbn [obind skipn].
  rewrite F1, F2, F3. change (3 =? 3) with true. change (1 =? 0) with false. cbn [negb].
  rewrite vec_of_len.
  pose proof (chunk_loop_groups (length ts) ts f prev [] 0 x rest (le_n _)) as Hc.
  cbn [length] in Hc. change (N.of_nat 0) with 0 in Hc. fold (enc_body ts) in Hc. fold body in Hc.
  rewrite app_nil_r in Hc. rewrite Hc; [| exact Hv | lia | lia].
  cbn [obind st_in st_res]. reflexivity.
Qed.

Lemma chunks_loop_encode : forall cs fuel prev,
  Forall valid_chunk cs ->
  (length (concat (map encode_chunk cs)) < fuel)%nat ->
  chunks_loop fuel (concat (map encode_chunk cs)) (vec_of prev) = Ok (vec_of (prev ++ sem cs)).
Proof.
  induction cs as [|c cs IH]; intros fuel prev Hv Hf.
  - destruct fuel as [|fuel]; [lia|]. cbn [map concat chunks_loop sem]. rewrite app_nil_r. reflexivity.
  - inversion Hv as [|c' cs' Hc Hcs]; subst. cbn [map concat] in *.
    destruct fuel as [|fuel]; [lia|].
    assert (Hf' : (length (concat (map encode_chunk cs)) < fuel)%nat).
    { rewrite app_length in Hf. destruct c; cbn [encode_chunk le16 length app] in Hf; rewrite ?app_length in Hf; cbn [length] in Hf; lia. }
    unfold sem. cbn [map concat]. fold (sem cs). rewrite app_assoc.
    destruct c as [bs|ts].
    + unfold valid_chunk in Hc. cbn [valid_chunkb] in Hc. apply andb_true_iff in Hc.
      destruct Hc as [Hlen _]. apply N.eqb_eq in Hlen.
      rewrite chunks_loop_raw by lia. rewrite vec_extend_of. cbn [sem_chunk]. apply IH; assumption.
    + rewrite chunks_loop_toks; [apply IH; assumption | exact Hc | lia].
Qed.

(* ---------- the container ---------- *)
Theorem decompress_encode_fuel : forall cs fuel,
  Forall valid_chunk cs -> known_C18 cs = None ->
  (length (ovba_encode cs) <= fuel)%nat ->
  decompress_fuel fuel (ovba_encode cs) = Ok (sem cs).
Proof.
  intros cs fuel Hv _ Hf. unfold ovba_encode in *. cbn [length] in Hf. cbn [decompress_fuel].
  change (1 =? 1) with true. cbn [negb].
  change vec_empty with (vec_of []).
  rewrite chunks_loop_encode by (auto; lia). cbn [obind app]. rewrite vec_to_list_of. reflexivity.
Qed.

Theorem decompress_encode : forall cs,
  Forall valid_chunk cs -> known_C18 cs = None ->
  decompress (ovba_encode cs) = Ok (concat (map sem_chunk cs)).
Proof.
  intros cs Hv Hk. unfold decompress. apply decompress_encode_fuel; auto.
Qed.

(* ========================================================================================== *)
(* 5. the encoder emits bytes                                                                  *)
(* ========================================================================================== *)
Definition bytes (l : list N) : Prop := Forall (fun b => b < 256) l.

Lemma le16_bytes : forall h, h < 65536 -> bytes (le16 h).
Proof.
  intros h H. unfold bytes, le16. repeat constructor; lia.
Qed.

Lemma flag_byte_bound : forall g, flag_byte g < 2 ^ N.of_nat (length g).
Proof.
  induction g as [|t g IH]; [cbn; lia|].
  cbn [flag_byte length]. rewrite Nat2N.inj_succ, N.pow_succ_r'.
  destruct (is_copy t); cbn [N.b2n]; lia.
Qed.

Lemma flag_byte_lt_256 : forall g, (length g <= 8)%nat -> flag_byte g < 256.
Proof.
  intros g H. apply N.lt_le_trans with (2 ^ N.of_nat (length g)); [apply flag_byte_bound|].
  change 256 with (2 ^ 8). apply N.pow_le_mono_r; lia.
Qed.

Lemma enc_seq_bytes : forall g pos, valid_tokensb pos g = true -> bytes (enc_seq pos g).
Proof.
  induction g as [|t g IH]; intros pos Hv; [constructor|].
  cbn [enc_seq valid_tokensb] in *. apply andb_true_iff in Hv. destruct Hv as [H1 H2].
  apply Forall_app. split; [|apply IH, H2].
  destruct t as [b|off len]; cbn [enc_token valid_tokenb] in *.
  - apply andb_true_iff in H1. destruct H1 as [H1 _]. repeat constructor. lia.
  - unfold CHUNK in H1. repeat (apply andb_true_iff in H1; destruct H1 as [H1 ?]).
    apply le16_bytes. apply (copy_token_codec pos off len); lia.
Qed.

Lemma enc_groups_bytes : forall f ts pos, valid_tokensb pos ts = true -> bytes (enc_groups f pos ts).
Proof.
  induction f as [|f IH]; intros ts pos Hv; [constructor|].
  destruct ts as [|t ts]; [constructor|]. cbn [enc_groups].
  constructor; [apply flag_byte_lt_256; rewrite firstn_length; lia|].
  apply Forall_app. split.
  - apply enc_seq_bytes, valid_firstn, Hv.
  - apply IH, valid_skipn, Hv.
Qed.

Lemma tok_header_lt : forall x, x < 4096 -> chunk_header (x + 3) 1 < 65536.
Proof.
  intros x Hx. unfold chunk_header. replace (x + 3 - 3) with x by lia.
  rewrite (N.lor_comm x), (lor_shiftl_low 3 x 12) by (change (2 ^ 12) with 4096; lia).
  rewrite N.lor_comm, (lor_shiftl_low 1 _ 15) by (change (2 ^ 15) with 32768; change (2 ^ 12) with 4096; lia).
  change (2 ^ 12) with 4096. change (2 ^ 15) with 32768. lia.
Qed.

Theorem encode_bytes : forall cs, Forall valid_chunk cs -> bytes (ovba_encode cs).
Proof.
  intros cs Hv. unfold ovba_encode. constructor; [lia|].
  induction Hv as [|c cs Hc _ IH]; [constructor|].
  cbn [map concat]. apply Forall_app. split; [|exact IH].
  unfold valid_chunk in Hc. destruct c as [bs|ts]; cbn [valid_chunkb encode_chunk] in *.
  - apply andb_true_iff in Hc. destruct Hc as [Hlen Hb]. apply N.eqb_eq in Hlen.
    rewrite Hlen. change (le16 (chunk_header (CHUNK + 2) 0)) with [255; 63].
    cbn [app]. constructor; [lia|]. constructor; [lia|].
    apply Forall_forall. intros b Hin. rewrite forallb_forall in Hb. apply N.ltb_lt, Hb, Hin.
  - apply andb_true_iff in Hc. destruct Hc as [Hc Hsz]. apply andb_true_iff in Hc.
    destruct Hc as [Hne Hc]. unfold CHUNK in Hsz. apply N.leb_le in Hsz.
    assert (Hbody : (1 <= length (enc_body ts))%nat).
    { unfold enc_body. destruct ts as [|t ts]; [discriminate|]. cbn [length enc_groups]. lia. }
    apply Forall_app. split.
    + apply le16_bytes.
      replace (N.of_nat (length (enc_body ts)) + 2) with (N.of_nat (length (enc_body ts)) - 1 + 3) by lia.
      apply tok_header_lt. lia.
    + apply enc_groups_bytes, Hc.
Qed.

(* ========================================================================================== *)
(* 6. the fuel of [decompress] suffices on every input                                         *)
(* ========================================================================================== *)
Definition fine (n : nat) (o : outcome cstate) : Prop :=
  match o with
  | Ok st => (length (st_in st) <= n)%nat
  | OutOfFuel => False
  | _ => True
  end.

Lemma copy_loop_no_fuel : forall fuel len off res,
  1 <= off -> 1 <= len -> (N.to_nat len <= fuel)%nat -> copy_loop fuel len off res <> OutOfFuel.
Proof.
  induction fuel as [|f IH]; intros len off res Ho Hl Hf; [lia|].
  cbn [copy_loop]. destruct (N.ltb_spec off len) as [Hlt|_]; [|discriminate].
  destruct (4096 <? off); [discriminate|]. destruct (v_len res <? off); [discriminate|].
  apply IH; lia.
Qed.

Lemma copy_token_fields_bounds : forall d t len off,
  copy_token_fields d t = Ok (len, off) -> 3 <= len /\ 1 <= off.
Proof.
  intros d t len off H. unfold copy_token_fields in H.
  destruct (bit_count_of d) as [bc|]; cbn [of_option obind] in H; [|discriminate].
  set (a := N.land t _) in H. set (b := N.shiftr (N.land t _) _) in H. clearbody a b.
  injection H as <- <-. lia.
Qed.

Lemma do_copy_fine : forall start st, fine (length (st_in st)) (do_copy start st).
Proof.
  intros start [s res clen]. unfold do_copy. cbn [st_in st_res st_clen].
  destruct s as [|a [|b s]]; cbn [read_u16 obind]; [exact I|exact I|].
  destruct (copy_token_fields (v_len res - start) (a + 256 * b)) as [[len off]|e| |] eqn:Ef;
    cbn [obind]; try exact I.
  2:{ unfold copy_token_fields in Ef. destruct (bit_count_of _); cbn [of_option obind] in Ef; discriminate. }
  destruct (copy_token_fields_bounds _ _ _ _ Ef) as [Hl Ho].
  destruct (CHUNK <? _); [exact I|]. destruct (v_len res <? off); [exact I|].
  pose proof (copy_loop_no_fuel (N.to_nat len) len off res ltac:(lia) ltac:(lia) (le_n _)) as Hnf.
  destruct (copy_loop (N.to_nat len) len off res) as [[len' res1]|e| |]; cbn [obind]; try exact I;
    [|congruence].
  unfold copy_tail. destruct (4096 <? len'); [exact I|]. destruct (v_len res1 <? off); [exact I|].
  destruct (off <? len'); [exact I|]. cbn [obind fine st_in skipn length]. lia.
Qed.

Lemma do_literal_fine : forall start st, fine (length (st_in st)) (do_literal start st).
Proof.
  intros start [s res clen]. unfold do_literal. cbn [st_in st_res]. destruct (CHUNK <=? _); [exact I|].
  destruct s as [|b s]; [exact I|].
  cbn [fine st_in length]. lia.
Qed.

Lemma token_loop_fine : forall n bit_index flags chunk_size start st,
  match token_loop n bit_index flags chunk_size start st with
  | Ok (_, st') => (length (st_in st') <= length (st_in st))%nat
  | OutOfFuel => False
  | _ => True
  end.
Proof.
  induction n as [|n IH]; intros bit_index flags chunk_size start st; cbn [token_loop]; [lia|].
  destruct (chunk_size <? st_clen st); [lia|].
  set (o := if N.land flags (N.shiftl 1 bit_index) =? 0 then do_literal start st else do_copy start st).
  assert (Ho : fine (length (st_in st)) o).
  { unfold o. destruct (_ =? 0); [apply do_literal_fine|apply do_copy_fine]. }
  destruct o as [st'|e| |]; cbn [obind fine] in *; try exact I; [|contradiction].
  specialize (IH (bit_index + 1) flags chunk_size start st').
  destruct (token_loop n (bit_index + 1) flags chunk_size start st') as [[brk st'']|e| |]; auto. lia.
Qed.

Lemma chunk_loop_fine : forall fuel chunk_size start st,
  (length (st_in st) < fuel)%nat -> fine (length (st_in st)) (chunk_loop fuel chunk_size start st).
Proof.
  induction fuel as [|f IH]; intros chunk_size start [s res clen] Hf; [lia|].
  cbn [st_in] in *. cbn [chunk_loop st_in st_res st_clen].
  destruct s as [|flags s]; [cbn [fine st_in length]; lia|].
  destruct (chunk_size <? clen); [cbn [fine st_in]; lia|].
  pose proof (token_loop_fine 8 0 flags chunk_size start (mkst s res (clen + 1))) as Ht.
  destruct (token_loop 8 0 flags chunk_size start (mkst s res (clen + 1))) as [[brk st']|e| |];
    cbn [obind fine st_in length] in *; try exact I; [|contradiction].
  destruct brk; [cbn [fine]; lia|].
  specialize (IH chunk_size start st' ltac:(lia)).
  destruct (chunk_loop f chunk_size start st'); cbn [fine] in *; auto. lia.
Qed.

Lemma chunks_loop_no_fuel : forall fuel s res, (length s < fuel)%nat ->
  chunks_loop fuel s res <> OutOfFuel.
Proof.
  induction fuel as [|f IH]; intros s res Hf; [lia|].
  cbn [chunks_loop]. destruct s as [|a s]; [discriminate|].
  destruct s as [|b s]; cbn [read_u16 obind skipn]; [discriminate|]. cbn [length] in Hf.
  destruct (negb _); [discriminate|]. destruct (_ =? 0).
  - destruct (_ <? CHUNK); [discriminate|]. apply IH. rewrite skipn_length. lia.
  - pose proof (chunk_loop_fine f (N.land (a + 256 * b) 4095) (v_len res) (mkst s res 0)) as Hc.
    cbn [st_in] in Hc. specialize (Hc ltac:(lia)).
    destruct (chunk_loop f _ _ _) as [st|e| |]; cbn [obind fine] in *; try discriminate;
      [|contradiction].
    apply IH. lia.
Qed.

Theorem decompress_no_fuel : forall s, decompress s <> OutOfFuel.
Proof.
  intro s. unfold decompress, decompress_fuel. destruct s as [|sig s]; [discriminate|].
  destruct (negb _); [discriminate|].
  pose proof (chunks_loop_no_fuel (length (sig :: s)) s vec_empty ltac:(cbn [length]; lia)) as H.
  destruct (chunks_loop _ s vec_empty); cbn [obind]; congruence.
Qed.

(* ========================================================================================== *)
(* 6b. [decompress] is total: no input panics, the output of a chunk is at most 4096 bytes      *)
(* ========================================================================================== *)
Lemma land_lt_pow2 : forall a b n, b < 2 ^ n -> N.land a b < 2 ^ n.
Proof.
  intros a b n H. destruct (N.eq_dec (N.land a b) 0) as [E|E].
  - rewrite E. assert (2 ^ n <> 0) by (apply N.pow_nonzero; lia). lia.
  - assert (Hb : b <> 0). { intro; subst b. rewrite N.land_0_r in E. congruence. }
    apply N.log2_lt_pow2; [lia|].
    pose proof (N.log2_land a b) as Hl. assert (N.log2 b < n) by (apply N.log2_lt_pow2; lia). lia.
Qed.

(* inside a chunk (at most 4096 bytes produced so far) the [unwrap] of the bit-count search
   succeeds and the offset field is at most 2^12: [buf[..offset]] is in bounds *)
Lemma copy_token_fields_total : forall d t, d <= 4096 ->
  exists len off, copy_token_fields d t = Ok (len, off) /\ 3 <= len /\ 1 <= off <= 4096.
Proof.
  intros d t Hd. unfold copy_token_fields. rewrite (bit_count_of_spec d) by lia.
  cbn [of_option obind].
  destruct (spec_bit_count_bounds d Hd) as [Hb _]. set (bc := spec_bit_count d) in *. clearbody bc.
  eexists _, _. split; [reflexivity|]. split; [lia|]. split; [lia|].
  assert (Hbc : bc = 4 \/ bc = 5 \/ bc = 6 \/ bc = 7 \/ bc = 8 \/ bc = 9 \/ bc = 10 \/ bc = 11 \/ bc = 12) by lia.
  clear Hb.
  repeat (destruct Hbc as [Hbc|Hbc]); subst bc;
    match goal with |- N.shiftr (N.land t ?m) ?k + 1 <= 4096 =>
      let mv := eval vm_compute in m in
      let kv := eval vm_compute in k in
      let pv := eval vm_compute in (2 ^ k) in
      change m with mv; change k with kv;
      pose proof (land_lt_pow2 t mv 16 ltac:(vm_compute; reflexivity)) as Hl;
      rewrite N.shiftr_div_pow2; change (2 ^ kv) with pv; change (2 ^ 16) with 65536 in Hl; lia
    end.
Qed.

(* the invariant of the loops of one chunk: the Vec is consistent, the chunk started inside it
   and has produced at most 4096 bytes *)
Definition inv (start : N) (st : cstate) : Prop :=
  vec_ok (st_res st) /\ start <= v_len (st_res st) /\ v_len (st_res st) - start <= 4096.

Definition total (start : N) (n : nat) (o : outcome cstate) : Prop :=
  match o with
  | Ok st' => inv start st' /\ (length (st_in st') <= n)%nat
  | Err _ => True
  | Panic => False
  | OutOfFuel => False
  end.

Lemma do_literal_total : forall start st, inv start st ->
  total start (length (st_in st)) (do_literal start st).
Proof.
  intros start [s res clen] (Hok & Hst & Hd). cbn [st_res st_in] in *. unfold do_literal.
  cbn [st_in st_res st_clen]. unfold CHUNK.
  destruct (N.leb_spec 4096 (v_len res - start)) as [?|Hlt]; [exact I|].
  destruct s as [|b s]; [exact I|]. cbn [total st_in length]. split; [|lia].
  unfold inv, vec_ok, vec_push in *. cbn [st_res v_rev v_len length]. repeat split; lia.
Qed.

Lemma do_copy_total : forall start st, inv start st ->
  total start (length (st_in st)) (do_copy start st).
Proof.
  intros start [s res clen] (Hok & Hst & Hd). cbn [st_res st_in] in *. unfold do_copy.
  cbn [st_in st_res st_clen].
  destruct s as [|a [|b s]]; cbn [read_u16 obind]; [exact I|exact I|].
  destruct (copy_token_fields_total (v_len res - start) (a + 256 * b) Hd)
    as (len & off & E & Hl & Ho1 & Ho2).
  rewrite E. cbn [obind]. unfold CHUNK.
  destruct (N.ltb_spec 4096 (v_len res - start + len)) as [?|Hfit]; [exact I|].
  destruct (N.ltb_spec (v_len res) off) as [?|Hoff]; [exact I|].
  destruct (copy_loop_spec (N.to_nat len) len off res Hok)
    as (len' & res1 & E1 & H1 & H2 & H3 & H4 & H5); try lia.
  rewrite E1. cbn [obind]. unfold copy_tail.
  destruct (N.ltb_spec 4096 len') as [?|_]; [lia|].
  destruct (N.ltb_spec (v_len res1) off) as [?|_]; [lia|].
  destruct (N.ltb_spec off len') as [?|_]; [lia|].
  cbn [obind total st_in skipn length].
  assert (Hlen1 : v_len res1 = v_len res + (len - len')).
  { unfold vec_ok in H3, Hok. rewrite H3, H5, citer_length. lia. }
  split; [|lia]. unfold inv. cbn [st_res]. unfold vec_ok, vec_extend_rev, vec_tail_rev.
  cbn [v_rev v_len]. rewrite app_length, skipn_length, firstn_length. unfold vec_ok in H3.
  repeat split; lia.
Qed.

Lemma token_loop_total : forall n bit_index flags chunk_size start st, inv start st ->
  match token_loop n bit_index flags chunk_size start st with
  | Ok (_, st') => inv start st' /\ (length (st_in st') <= length (st_in st))%nat
  | Err _ => True
  | Panic => False
  | OutOfFuel => False
  end.
Proof.
  induction n as [|n IH]; intros bit_index flags chunk_size start st Hi; cbn [token_loop].
  { split; [exact Hi|lia]. }
  destruct (chunk_size <? st_clen st); [split; [exact Hi|lia]|].
  set (o := if N.land flags (N.shiftl 1 bit_index) =? 0 then do_literal start st else do_copy start st).
  assert (Ho : total start (length (st_in st)) o).
  { unfold o. destruct (_ =? 0); [apply do_literal_total|apply do_copy_total]; exact Hi. }
  destruct o as [st'|e| |]; cbn [obind total] in *; try exact I; try contradiction.
  destruct Ho as [Hi' Hl'].
  specialize (IH (bit_index + 1) flags chunk_size start st' Hi').
  destruct (token_loop n (bit_index + 1) flags chunk_size start st') as [[brk st'']|e| |]; auto.
  destruct IH as [Hi'' Hl'']. split; [exact Hi''|lia].
Qed.

Lemma chunk_loop_total : forall fuel chunk_size start st,
  (length (st_in st) < fuel)%nat -> inv start st ->
  total start (length (st_in st)) (chunk_loop fuel chunk_size start st).
Proof.
  induction fuel as [|f IH]; intros chunk_size start [s res clen] Hf Hi; [lia|].
  cbn [st_in] in *. cbn [chunk_loop st_in st_res st_clen].
  destruct s as [|flags s]; [cbn [total st_in length]; split; [exact Hi|lia]|].
  destruct (chunk_size <? clen); [cbn [total st_in]; split; [exact Hi|lia]|].
  assert (Hi1 : inv start (mkst s res (clen + 1))) by exact Hi.
  pose proof (token_loop_total 8 0 flags chunk_size start (mkst s res (clen + 1)) Hi1) as Ht.
  destruct (token_loop 8 0 flags chunk_size start (mkst s res (clen + 1))) as [[brk st']|e| |];
    cbn [obind total st_in length] in *; try exact I; try contradiction.
  destruct Ht as [Hi' Hl'].
  destruct brk; [cbn [total]; split; [exact Hi'|lia]|].
  specialize (IH chunk_size start st' ltac:(lia) Hi').
  destruct (chunk_loop f chunk_size start st') as [st''|e| |]; cbn [total] in *; auto.
  destruct IH as [Hi'' Hl'']. split; [exact Hi''|lia].
Qed.

Lemma chunks_loop_total : forall fuel s res, (length s < fuel)%nat -> vec_ok res ->
  match chunks_loop fuel s res with
  | Ok res' => vec_ok res' /\ v_len res' <= v_len res + 4096 * N.of_nat (chunks_count fuel s res)
  | Err _ => True
  | Panic => False
  | OutOfFuel => False
  end /\ (2 * chunks_count fuel s res <= length s)%nat.
Proof.
  induction fuel as [|f IH]; intros s res Hf Hok; [lia|].
  cbn [chunks_loop chunks_count]. destruct s as [|a s]; [split; [split; [exact Hok|lia]|lia]|].
  destruct s as [|b s]; cbn [read_u16 obind skipn]; [split; [exact I|lia]|].
  cbn [length] in Hf.
  destruct (negb (N.shiftr (N.land (a + 256 * b) 28672) 12 =? 3)); [split; [exact I|lia]|].
  destruct (N.shiftr (N.land (a + 256 * b) 32768) 15 =? 0).
  - (* raw chunk *)
    destruct (N.ltb_spec (N.of_nat (length (firstn (N.to_nat CHUNK) s))) CHUNK) as [?|Hblk];
      [split; [exact I|lia]|].
    set (blk := firstn (N.to_nat CHUNK) s) in *.
    assert (Hblen : length blk = N.to_nat CHUNK).
    { unfold blk in *. rewrite firstn_length in *. unfold CHUNK in *. lia. }
    set (res1 := vec_extend_rev res (rev_append blk [])).
    assert (Hok1 : vec_ok res1).
    { unfold res1, vec_ok, vec_extend_rev in *. cbn [v_rev v_len]. rewrite app_length. lia. }
    assert (Hl1 : v_len res1 = v_len res + 4096).
    { unfold res1, vec_extend_rev. cbn [v_len]. rewrite rev_append_nil, rev_length, Hblen.
      unfold CHUNK. lia. }
    pose proof (skipn_length (N.to_nat CHUNK) s) as Hsk.
    destruct (IH (skipn (N.to_nat CHUNK) s) res1 ltac:(lia) Hok1) as [IH1 IH2].
    split; [|cbn [length]; lia].
    destruct (chunks_loop f (skipn (N.to_nat CHUNK) s) res1) as [res'|e| |]; auto.
    destruct IH1 as [Hok' Hb']. split; [exact Hok'|lia].
  - (* compressed chunk *)
    assert (Hi0 : inv (v_len res) (mkst s res 0)).
    { unfold inv. cbn [st_res]. repeat split; [exact Hok|lia|lia]. }
    pose proof (chunk_loop_total f (N.land (a + 256 * b) 4095) (v_len res) (mkst s res 0)
                  ltac:(cbn [st_in]; lia) Hi0) as Hc.
    cbn [st_in] in Hc.
    destruct (chunk_loop f (N.land (a + 256 * b) 4095) (v_len res) (mkst s res 0)) as [st|e| |];
      cbn [obind total] in *; try contradiction; [|split; [exact I|lia]].
    destruct Hc as [(Hok' & Hst' & Hd') Hl'].
    destruct (IH (st_in st) (st_res st) ltac:(lia) Hok') as [IH1 IH2].
    split; [|cbn [length]; lia].
    destruct (chunks_loop f (st_in st) (st_res st)) as [res'|e| |]; auto.
    destruct IH1 as [Hok'' Hb'']. split; [exact Hok''|lia].
Qed.

Lemma vec_to_list_length : forall v, vec_ok v -> N.of_nat (length (vec_to_list v)) = v_len v.
Proof.
  intros v H. unfold vec_to_list. rewrite rev_append_nil, rev_length. unfold vec_ok in H. lia.
Qed.

(* EVERY input (no well-formedness hypothesis): decompress_stream does not panic, the fuel
   [length s] of the model is enough, and a successful decompression yields at most 4096 bytes
   per chunk header processed — of which there are at most (|s| - 1) / 2 *)
Theorem decompress_total : forall s,
  decompress s <> Panic /\ decompress s <> OutOfFuel /\
  (forall out, decompress s = Ok out -> N.of_nat (length out) <= 4096 * N.of_nat (n_chunks s)) /\
  (2 * n_chunks s <= length s - 1)%nat.
Proof.
  intro s. unfold decompress, decompress_fuel, n_chunks. destruct s as [|sig s].
  { repeat split; try discriminate. cbn. lia. }
  cbn [tl].
  assert (Hv : vec_ok vec_empty) by reflexivity.
  destruct (chunks_loop_total (length (sig :: s)) s vec_empty ltac:(cbn [length]; lia) Hv) as [H1 H2].
  destruct (negb (sig =? 1)).
  { repeat split; try discriminate. cbn [length] in *. lia. }
  destruct (chunks_loop (length (sig :: s)) s vec_empty) as [res|e| |]; cbn [obind] in *;
    try contradiction.
  - destruct H1 as [Hok Hb]. repeat split; try discriminate; [|cbn [length] in *; lia].
    intros out E. injection E as <-. rewrite vec_to_list_length by exact Hok.
    change (v_len vec_empty) with 0 in Hb. lia.
  - repeat split; try discriminate. cbn [length] in *. lia.
Qed.

Theorem module_content_total : forall s off,
  module_content s off <> Panic /\ module_content s off <> OutOfFuel.
Proof.
  intros s off. unfold module_content. destruct (_ <? off); [split; discriminate|].
  destruct (decompress_total (skipn (N.to_nat off) s)) as (H1 & H2 & _). split; assumption.
Qed.

(* ========================================================================================== *)
(* 7. a module is the decompression of its stream from the recorded offset                     *)
(* ========================================================================================== *)
Theorem module_content_roundtrip : forall pcode cs,
  Forall valid_chunk cs -> known_C18 cs = None ->
  module_content (pcode ++ ovba_encode cs) (N.of_nat (length pcode)) = Ok (sem cs).
Proof.
  intros pcode cs Hv Hk. unfold module_content.
  destruct (N.ltb_spec (N.of_nat (length (pcode ++ ovba_encode cs))) (N.of_nat (length pcode))) as [H|_].
  { rewrite app_length in H. lia. }
  rewrite Nat2N.id, skipn_exact by reflexivity. apply decompress_encode; assumption.
Qed.

(* ========================================================================================== *)
(* 8. non-vacuity: a concrete container with every feature                                     *)
(* ========================================================================================== *)
(* raw chunk; a chunk of exactly 8 tokens (ends on a flag-byte boundary) followed by more
   chunks; overlapping copies; a chunk reaching exactly 4096 bytes; a final short chunk *)
Definition example_chunks : list chunk :=
  [ Toks [Lit 97; Lit 98; Lit 99; Copy 3 9; Lit 100; Copy 1 5; Lit 1; Lit 2];
    Raw (repeat 7 (N.to_nat CHUNK));
    Toks [Lit 65; Copy 1 4095];
    Toks [Lit 1; Lit 2; Lit 3; Lit 4; Lit 5; Lit 6; Lit 7; Lit 8; Lit 9; Lit 10; Lit 11; Lit 12;
          Lit 13; Lit 14; Lit 15; Lit 16; Copy 16 4080];
    Toks [Lit 120; Lit 121; Copy 2 7] ].

Example example_valid : Forall valid_chunk example_chunks /\ known_C18 example_chunks = None.
Proof.
  split; [|reflexivity]. apply Forall_forall. intros c Hc.
  assert (H : forallb valid_chunkb example_chunks = true) by (vm_compute; reflexivity).
  rewrite forallb_forall in H. apply H, Hc.
Qed.

Example example_decompress :
  decompress (ovba_encode example_chunks) = Ok (sem example_chunks) /\
  length (sem example_chunks) = N.to_nat (20 + 4096 + 4096 + 4096 + 9).
Proof. split; vm_compute; reflexivity. Qed.

Example example_codec :
  pack 17 17 2050 = 34815 /\ max_len 17 = 2050 /\ copy_token_fields 17 34815 = Ok (2050, 17) /\
  pack 16 16 4098 = 65535 /\ max_len 16 = 4098 /\ copy_token_fields 16 65535 = Ok (4098, 16).
Proof. vm_compute. repeat split; reflexivity. Qed.

Example example_overlap :
  copy_bytes 7 2 [120; 121] = [120; 121; 120; 121; 120; 121; 120; 121; 120].
Proof. reflexivity. Qed.
