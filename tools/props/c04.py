"""C04 — ODS: cells read back at their position; repeat counts expand faithfully.

Correspondence (three-way, per case):
  I  real code: a generated .ods file through Ods::new + worksheet_range + worksheet_formula
     (vh odsgrid file), and ods::get_range through its cfg(calamine_verif) hook (vh odsgrid hook)
  M  extracted Coq model OdsGrid.read_xtable / OdsGrid.get_range (vm odsgrid …)
  S  a naive dictionary spec written from the property text (this file), cross-checked against the
     Coq spec OdsGrid.ods_spec_table whenever that is cheap enough to run.
One logical grid is written under several random run-length groupings (how duplicates and empties
are grouped into number-columns-repeated / number-rows-repeated, covered cells, trailing repeats
as LibreOffice writes them); every grouping must read back as the same rectangle."""
import io, os, shutil, struct, zipfile
import vlib

U32 = 2 ** 32
ASSUMPTIONS = [
    "XML tokenisation (quick-xml) and the zip container are outside the model: the model starts at the element tree of one table:table",
    "str::parse::<f64> is outside the model: a Float carries the text of office:value, both drivers convert it with a correctly rounded parser",
    "the text grammar inside a paragraph is property C19's: here a paragraph is <text:p>text</text:p>; the children of a cell (paragraphs, annotation, anchored drawing objects with paragraphs of their own, indentation, comments) and what stands between the cells of a row (white space, comments; anything else is an error) are generated and modelled",
    "repeat counts are positive (ODF positiveInteger); at most 2^32 rows announced (what read_table accepts; more is an error on both sides), column indices fit u32 and the sheet's cell count fits usize (extent_ok): outside that guard only model = implementation is checked",
    "allocation failure on absurdly large interior repeats is not modelled; the generator keeps materialised areas small",
]

def hx(s):
    return s.encode("utf-8").hex()
def unhx(h):
    return bytes.fromhex(h).decode("utf-8")

# ---------------------------------------------------------------- logical cells
# (kind, payload, formula); kind: none float percentage currency string_attr string_content bool date time
BLANK = ("none", None, "")

def fbits(txt):
    return struct.unpack("<Q", struct.pack("<d", float(txt)))[0]

def value_str(cell):
    kind, payload, _ = cell
    if kind == "none":
        return "E"
    if kind in ("float", "percentage", "currency"):
        return "F%d" % fbits(payload)
    if kind == "string_attr":
        return "S" + hx(payload)
    if kind == "string_content":
        return "S" + hx("\n".join(payload))
    if kind == "bool":
        return "B1" if payload else "B0"
    if kind == "date":
        return "T" + hx(payload)
    if kind == "time":
        return "U" + hx(payload)
    raise ValueError(kind)

def formula_str(cell):
    return ("S" + hx(cell[2])) if cell[2] else "E"

def spec_range(grid, proj):
    used = {}
    for p, c in grid.items():
        s = proj(c)
        if s != "E":
            used[p] = s
    if not used:
        return "R[-]"
    r0 = min(p[0] for p in used); r1 = max(p[0] for p in used)
    c0 = min(p[1] for p in used); c1 = max(p[1] for p in used)
    rows = [",".join(used.get((r, c), "E") for c in range(c0, c1 + 1)) for r in range(r0, r1 + 1)]
    return "R[%d,%d,%d,%d|%s]" % (r0, c0, r1, c1, "/".join(rows))

def spec_answer(grid):
    return "V%s;;F%s" % (spec_range(grid, value_str), spec_range(grid, formula_str))

# ---------------------------------------------------------------- random logical sheets
TEXTS = ["a", "b", "x y", "é漢", "a&b", "<t>", "q\"r'", "", " lead", "1"]
def rand_cell(rng, palette=None):
    if palette is not None and rng.random() < 0.7:
        return rng.choice(palette)
    k = rng.random()
    if k < 0.30:
        kind = rng.choice(["float", "float", "percentage", "currency"])
        txt = rng.choice(["1", "2.5", "-3", "0", "1e3", "0.1", "12345.678", "1E-7", "100", "0.30000000000000004"])
        cell = (kind, txt, "")
    elif k < 0.45:
        cell = ("string_attr", rng.choice(TEXTS), "")
    elif k < 0.62:
        n = rng.choice([0, 1, 1, 1, 2, 3])
        cell = ("string_content", tuple(rng.choice(TEXTS) for _ in range(n)), "")
    elif k < 0.70:
        cell = ("bool", rng.random() < 0.5, "")
    elif k < 0.78:
        cell = ("date", rng.choice(["2024-02-29", "1999-12-31T23:59:59", "2020-01-01T00:00:00.5"]), "")
    elif k < 0.85:
        cell = ("time", rng.choice(["PT12H30M00S", "PT00H00M01S", "PT1H"]), "")
    else:
        cell = ("none", None, "")
    if rng.random() < (0.9 if cell[0] == "none" else 0.2):
        cell = (cell[0], cell[1], rng.choice(["of:=[.A1]+1", "of:=SUM([.B2:.C3])", "of:=\"a\"&\"<b>\"", "=1"]))
    if cell == BLANK:
        cell = ("float", "7", "")
    return cell

def gen_sheet(rng):
    """returns (lead_rows, rows) — rows: dense lists of logical cells (BLANK = empty)"""
    h = rng.choice([1, 1, 2, 3, 4, 5, 6, 8])
    w = rng.choice([1, 2, 3, 4, 5, 6, 9])
    coff = rng.choice([0, 0, 1, 1, 2, 3, 5, 30])
    lead = rng.choice([0, 0, 0, 1, 2, 3, 7, 40, 70000, 1048570, U32 - 9, U32 - 1 - h * 3])
    fill = rng.choice([0.25, 0.5, 0.8, 1.0])
    palette = [rand_cell(rng) for _ in range(rng.choice([1, 2, 3]))]
    rows = []
    for _ in range(h):
        mode = rng.random()
        if mode < 0.2 and rows:
            row = list(rows[-1])                      # duplicate of the previous row
        elif mode < 0.4:
            row = []                                  # a blank row between data rows
        else:
            row = [BLANK] * coff
            run = None
            for _ in range(w):
                if run is not None and rng.random() < 0.45:
                    row.append(run)                   # repeated non-empty (or empty) cell
                elif rng.random() < fill:
                    run = rand_cell(rng, palette); row.append(run)
                else:
                    run = BLANK; row.append(run)
        rows.append(row)
        if rng.random() < 0.25:
            for _ in range(rng.choice([1, 1, 2, 5, 20])):    # blank rows / repeated rows
                rows.append(list(rows[-1]) if rng.random() < 0.4 else [])
    if rng.random() < 0.35:
        # formula cells without a cached value (table:formula only) at the edges / inside
        fo = ("none", None, rng.choice(["of:=[.A1]+1", "of:=NOW()", "=1"]))
        cand = [i for i, r in enumerate(rows) if strip(r)] or list(range(len(rows)))
        i = rng.choice(cand)
        where = rng.random()
        if where < 0.4:
            rows[i] = strip(rows[i]) + [BLANK] * rng.choice([0, 0, 1, 2]) + [fo] * rng.choice([1, 1, 2])
        elif where < 0.7:
            r = list(rows[i]) or [BLANK]
            r[rng.randrange(len(r))] = fo
            rows[i] = r
        elif where < 0.85:
            rows.append([BLANK] * rng.choice([0, 1, 3]) + [fo])
        else:
            rows.insert(0, [BLANK] * rng.choice([0, 1, 3]) + [fo])
    if all(all(c == BLANK for c in r) for r in rows) and rng.random() < 0.8:
        rows[rng.randrange(len(rows))] = [BLANK] * coff + [rand_cell(rng, palette)]
    if lead + len(rows) > U32 and rng.random() < 0.85:
        lead = U32 - len(rows)          # the data ends exactly at row u32::MAX (2^32 rows: accepted)
    return lead, rows

def grid_of(lead, rows):
    g = {}
    for i, row in enumerate(rows):
        for j, c in enumerate(row):
            if c != BLANK:
                g[(lead + i, j)] = c
    return g

# ---------------------------------------------------------------- run-length encodings
def compose(n, rng, maxparts=4):
    """n >= 1 as a random list of positive parts"""
    parts = []
    left = n
    while left > 0 and len(parts) < maxparts - 1:
        k = rng.randint(1, left)
        parts.append(k); left -= k
    if left > 0:
        parts.append(left)
    rng.shuffle(parts)
    return parts

def strip(row):
    r = list(row)
    while r and r[-1] == BLANK:
        r.pop()
    return r

def encode_row(cells, rng, style):
    """cells: dense logical cells -> [(rep, cell, covered)]"""
    cells = strip(cells)
    runs = []
    for c in cells:
        if runs and runs[-1][0] == c:
            runs[-1][1] += 1
        else:
            runs.append([c, 1])
    elems = []
    for c, n in runs:
        m = rng.random()
        if style == "merged" or m < 0.5:
            parts = [n]
        elif style == "explicit" or m < 0.7:
            parts = [1] * n if n <= 64 else compose(n, rng, 8)
        else:
            parts = compose(n, rng)
        for k in parts:
            cov = rng.random() < (0.25 if c == BLANK else 0.05)
            elems.append((k, c, cov))
    t = rng.random()
    used = len(cells)
    if t < 0.35:
        trail = 0
    elif t < 0.55:
        trail = rng.randint(1, 6)
    elif t < 0.75:
        trail = max(1, 1024 - used)
    elif t < 0.95:
        trail = max(1, 16384 - used)
    elif t < 0.995:
        trail = 2 ** 31 - 1          # the count is an i32 in read_row
    else:
        trail = 2 ** 40              # ParseInt error: the file does not open (model: Err)
    if trail:
        # a pending empty run is materialised as soon as another cell element follows it, so only
        # small trailing runs may be split into several elements (LibreOffice writes one)
        if trail <= 64 and rng.random() < 0.3:
            parts = compose(trail, rng, 3)
        elif trail <= 16384 and rng.random() < 0.04:
            parts = compose(trail, rng, 2)
        else:
            parts = [trail]
        for k in parts:
            elems.append((k, BLANK, rng.random() < 0.2))
    return elems

def encode_sheet(lead, rows, rng):
    style = rng.choice(["mixed", "mixed", "mixed", "merged", "explicit"])
    out = []                                           # [(rowrep, elems)]
    if lead:
        for k in (compose(lead, rng, 3) if rng.random() < 0.4 else [lead]):
            out.append((k, encode_row([], rng, style)))
    runs = []
    for r in rows:
        s = strip(r)
        if runs and runs[-1][0] == s:
            runs[-1][1] += 1
        else:
            runs.append([s, 1])
    for s, n in runs:
        m = rng.random()
        if style == "merged" or m < 0.5:
            parts = [n]
        elif style == "explicit" or m < 0.7:
            parts = [1] * n
        else:
            parts = compose(n, rng)
        for k in parts:
            out.append((k, encode_row(s, rng, style)))
    t = rng.random()
    total = lead + len(rows)
    if t < 0.3:
        trail = 0
    elif t < 0.5:
        trail = rng.randint(1, 9)
    elif t < 0.88:
        trail = max(1, 1048576 - total)
    elif t < 0.97:
        trail = max(0, U32 - total)      # exactly 2^32 rows announced: the most read_table accepts
    else:
        trail = 2 ** 40                  # beyond the row limit: rejected with an error (model: Err)
    if trail:
        for k in (compose(trail, rng, 3) if rng.random() < 0.3 else [trail]):
            out.append((k, encode_row([], rng, style)))
    return out

# ---------------------------------------------------------------- elements -> desc -> XML
def cell_attrs(rep, cell, rng):
    kind, payload, formula = cell
    a = []
    if kind in ("float", "percentage", "currency"):
        a += [("office:value-type", kind), ("office:value", payload)]
        if kind == "currency" and rng.random() < 0.5:
            a.append(("office:currency", "EUR"))
    elif kind == "string_attr":
        a += [("office:value-type", "string"), ("office:string-value", payload)]
    elif kind == "string_content":
        a += [("office:value-type", "string")]
    elif kind == "bool":
        a += [("office:value-type", "boolean"), ("office:boolean-value", "true" if payload else "false")]
    elif kind == "date":
        a += [("office:value-type", "date"), ("office:date-value", payload)]
    elif kind == "time":
        a += [("office:value-type", "time"), ("office:time-value", payload)]
    if formula:
        a.append(("table:formula", formula))
    if rep != 1 or rng.random() < 0.1:
        a.append(("table:number-columns-repeated", ("+" if rng.random() < 0.02 else "") + str(rep)))
    if rng.random() < 0.4:
        a.append(("table:style-name", "ce%d" % rng.randint(1, 3)))
    if kind != "none" and rng.random() < 0.4:
        a.append(("calcext:value-type", "string" if kind.startswith("string") else kind))
    rng.shuffle(a)
    return a

def display_paras(cell, rng):
    kind, payload, _ = cell
    if kind == "string_content":
        return list(payload)
    if kind == "none":
        return []
    if rng.random() < 0.6:
        return [payload if isinstance(payload, str) else ("TRUE" if payload else "FALSE")]
    return []

# elements that may hold the rows of a table (ODF 1.2 part 1, 9.1.2: table:table-header-rows,
# table:table-rows, table:table-row-group — the last one nests) and elements beside them
ROW_HOLDERS = ["table:table-header-rows", "table:table-rows", "table:table-row-group"]
BESIDE = ["table:table-columns", "table:table-column-group", "table:shapes", "office:forms",
          "table:table-source", "calcext:conditional-formats"]

def wrap_rows(rowtoks, rng):
    """rowtoks: one token list per row element; returns the token list of the table content with
    some runs of rows put into row holders (row groups nested up to 3 deep), neighbours and
    ignorable text in between — every arrangement denotes the same rows"""
    if rng.random() < 0.55:
        return [t for r in rowtoks for t in r]
    def build(rows, depth):
        out, i = [], 0
        while i < len(rows):
            r = rng.random()
            if r < 0.35 and len(rows) - i >= 1:
                k = rng.randrange(1, min(4, len(rows) - i) + 1)
                name = "table:table-row-group" if depth > 0 or rng.random() < 0.6 else rng.choice(ROW_HOLDERS[:2])
                inner = build(rows[i:i + k], depth + 1) if (name == "table:table-row-group" and depth < 3) \
                    else [t for x in rows[i:i + k] for t in x]
                out += ["G" + hx(name)] + inner + ["g" + hx(name)]
                i += k
            else:
                if r > 0.9:
                    out.append("J")
                out += rows[i]
                i += 1
        return out
    toks = build(rowtoks, 0)
    if rng.random() < 0.3:
        b = rng.choice(BESIDE)
        toks = ["G" + hx(b), "J", "g" + hx(b)] + toks
    if rng.random() < 0.2:
        b = rng.choice(BESIDE)
        toks = toks + ["G" + hx(b), "g" + hx(b)]
    return toks

INDENTS = ["\n", "\n  ", "\n      ", " ", "\n\t\t", "\r\n    "]
SHAPES = ["draw:frame", "draw:custom-shape", "draw:g", "draw:frame", "draw:rect", "dr3d:scene", "draw:control"]

def gen_layout(rng):
    """how the file is laid out: indentation between the cells of a row and between the children
    of a cell (a pretty-printing writer), comments, annotations, drawing objects anchored to
    cells; rarely something that must not stand in a row (the file is then rejected)"""
    return {"indent": rng.random() < 0.45, "comments": rng.random() < 0.2,
            "shapes": rng.random() < 0.45, "annot": rng.random() < 0.2,
            "bad": rng.random() < 0.012, "ws": rng.choice(INDENTS)}

def desc_of(enc, rng, layout=None):
    layout = gen_layout(rng) if layout is None else layout
    toks = wrap_rows(row_tokens(enc, rng, layout), rng)
    if layout["indent"]:
        # white space between the children of table:table and of the row holders
        out = []
        for t in toks:
            if t[0] in "RGg" and rng.random() < 0.95:
                out.append("J" + hx(layout["ws"]))
            out.append(t)
        if rng.random() < 0.95:
            out.append("J" + hx("\n"))
        toks = out
    return " ".join(toks)

def cell_items(cell, rng, layout):
    """the children of a cell element as item strings (see ocaml/cmd_odsgrid.ml)"""
    items = [hx(p) for p in display_paras(cell, rng)]
    if cell[0] != "none" or cell[2]:
        if layout["annot"] and rng.random() < 0.2:
            items.insert(0, "n:" + hx(rng.choice(TEXTS) or "note"))
        if layout["shapes"] and rng.random() < 0.3:
            for _ in range(rng.choice([1, 1, 2])):
                paras = [rng.choice(TEXTS) for _ in range(rng.choice([0, 1, 1, 2, 3]))]
                it = "h" + ":".join([hx(rng.choice(SHAPES))] + [hx(q) for q in paras])
                items.insert(len(items) if rng.random() < 0.85 else rng.randrange(0, len(items) + 1), it)
    if layout["comments"] and rng.random() < 0.1:
        items.insert(rng.randrange(0, len(items) + 1), "k")
    if layout["indent"] and items:
        out = []
        for it in items:
            if rng.random() < 0.95:
                out.append("w" + hx(layout["ws"] + "  "))
            out.append(it)
        if rng.random() < 0.95:
            out.append("w" + hx(layout["ws"]))
        items = out
    return items

def row_tokens(enc, rng, layout=None):
    layout = layout or {"indent": False, "comments": False, "shapes": False, "annot": False, "bad": False, "ws": "\n"}
    rows = []
    for rowrep, elems in enc:
        toks = []
        ra = []
        if rowrep != 1 or rng.random() < 0.1:
            ra.append(("table:number-rows-repeated", str(rowrep)))
        if rng.random() < 0.5:
            ra.append(("table:style-name", "ro1"))
        rng.shuffle(ra)
        toks.append("R" + ",".join("%s=%s" % (hx(k), hx(v)) for k, v in ra))
        for ei, (rep, cell, cov) in enumerate(elems):
            a = cell_attrs(rep, cell, rng)
            if not cov:
                # a merged cell announces the columns (and rows) it spans; the covered cells that
                # follow are written as usual (one element per column or one repeated element), so
                # the span attributes add nothing to the positions
                span = 0
                for rep2, _, cov2 in elems[ei + 1:]:
                    if not cov2:
                        break
                    span += rep2
                if span and rep == 1 and rng.random() < 0.8:
                    a.append(("table:number-columns-spanned", str(span + 1)))
                    a.append(("table:number-rows-spanned", str(rng.choice([1, 1, 2]))))
                    rng.shuffle(a)
                elif rng.random() < 0.03:
                    a.append(("table:number-rows-spanned", "2"))
            t = "C" + ("1" if cov else "0") + ",".join("%s=%s" % (hx(k), hx(v)) for k, v in a)
            for it in cell_items(cell, rng, layout):
                t += "~" + it
            if layout["indent"] and rng.random() < 0.95:
                toks.append("W" + hx(layout["ws"]))
            if layout["comments"] and rng.random() < 0.05:
                toks.append("K")
            if layout["bad"] and rng.random() < 0.2:
                toks.append("X")
            toks.append(t)
        if layout["indent"] and elems and rng.random() < 0.95:
            toks.append("W" + hx(layout["ws"][:-2] if len(layout["ws"]) > 2 else layout["ws"]))
        rows.append(toks)
    return rows

def esc_attr(s):
    return s.replace("&", "&amp;").replace("<", "&lt;").replace(">", "&gt;").replace('"', "&quot;")
def esc_text(s):
    return s.replace("&", "&amp;").replace("<", "&lt;").replace(">", "&gt;")

NS = ('xmlns:office="urn:oasis:names:tc:opendocument:xmlns:office:1.0" '
      'xmlns:table="urn:oasis:names:tc:opendocument:xmlns:table:1.0" '
      'xmlns:text="urn:oasis:names:tc:opendocument:xmlns:text:1.0" '
      'xmlns:calcext="urn:org:documentfoundation:names:experimental:calc:xmlns:calcext:1.0" '
      'xmlns:draw="urn:oasis:names:tc:opendocument:xmlns:drawing:1.0" '
      'xmlns:dr3d="urn:oasis:names:tc:opendocument:xmlns:dr3d:1.0" '
      'xmlns:svg="urn:oasis:names:tc:opendocument:xmlns:svg-compatible:1.0" '
      'xmlns:xlink="http://www.w3.org/1999/xlink" xmlns:dc="http://purl.org/dc/elements/1.1/" '
      'office:version="1.2"')

def parse_attrs(s):
    if not s:
        return []
    out = []
    for kv in s.split(","):
        k, v = kv.split("=")
        out.append((unhx(k), unhx(v)))
    return out

def esc_ws(s):
    return s.replace("\r", "&#13;")

def para_xml(p):
    return "<text:p>%s</text:p>" % esc_text(p) if p else "<text:p/>"

def item_xml(it):
    """one child of a cell element"""
    if it == "" or it[0] not in "wkhn":
        return para_xml(unhx(it))
    if it[0] == "w":
        return esc_ws(unhx(it[1:]))
    if it[0] == "k":
        return "<!-- in the cell -->"
    if it[0] == "n":
        paras = [unhx(q) for q in it[1:].split(":")[1:]]
        return ('<office:annotation office:display="false"><dc:date>2024-01-01T00:00:00</dc:date>%s</office:annotation>'
                % "".join(para_xml(q) for q in paras))
    f = it[1:].split(":")
    name, paras = unhx(f[0]), [unhx(q) for q in f[1:]]
    geo = ' draw:z-index="0" draw:name="O&amp;1" svg:width="3cm" svg:height="2cm" svg:x="0cm" svg:y="0cm"'
    if name == "draw:frame":
        if len(paras) >= 3:
            # a text box holding a paragraph with a text box anchored in it, then more paragraphs
            # (same-name nesting: a reader that stops at the first </draw:frame> leaks the rest)
            nested = '<draw:frame%s><draw:text-box>%s</draw:text-box></draw:frame>' % (geo, para_xml(paras[0]))
            inner = "<draw:text-box><text:p>%s</text:p>%s</draw:text-box>" % (nested, "".join(para_xml(q) for q in paras[1:]))
        elif paras:
            inner = "<draw:text-box>%s</draw:text-box>" % "".join(para_xml(q) for q in paras)
        else:
            inner = '<draw:image xlink:href="Pictures/1.png" xlink:type="simple"><text:p/></draw:image>'
        return '<draw:frame table:end-cell-address="S.C4"%s>%s</draw:frame>' % (geo, inner)
    if name == "draw:g":
        # a group inside a group, each shape with one paragraph; the last shape stands in the
        # outer group AFTER the inner one (a reader that stops at the first </draw:g> leaks it)
        rect = lambda q: '<draw:rect%s>%s</draw:rect>' % (geo, para_xml(q))
        return "<draw:g><draw:g>%s</draw:g><draw:line/>%s</draw:g>" % (
            "".join(rect(q) for q in paras[:-1]), "".join(rect(q) for q in paras[-1:]))
    if name == "draw:custom-shape":
        return '<draw:custom-shape%s>%s<draw:enhanced-geometry draw:type="rectangle"/></draw:custom-shape>' % (
            geo, "".join(para_xml(q) for q in paras))
    return "<%s%s>%s</%s>" % (name, geo, "".join(para_xml(q) for q in paras), name)

def xml_of_desc(desc):
    """the content.xml this description stands for (deterministic)"""
    flavour = sum(map(ord, desc[:64])) + len(desc)
    # an indented table stands in an indented document
    pretty = any(t[0] == "W" or (t[0] == "J" and len(t) > 1) for t in desc.split(" ") if t)
    nl = (lambda k: "\n" + " " * k) if pretty else (lambda k: "")
    out = ['<?xml version="1.0" encoding="UTF-8"?>%s<office:document-content %s>%s<office:body>%s'
           '<office:spreadsheet>%s<table:table table:name="S">' % (nl(0), NS, nl(1), nl(2), nl(3))]
    if flavour % 3 == 0:
        out.append('<table:table-column table:style-name="co1" table:number-columns-repeated="16384" '
                   'table:default-cell-style-name="Default"/>')
    toks = [t for t in desc.split(" ") if t]
    nrows = sum(1 for t in toks if t[0] == "R")
    header = flavour % 5 == 0 and nrows >= 2
    header = header and not any(t[0] in "GgJ" for t in toks)
    open_row = False
    rowno = 0
    for t in toks:
        if t[0] in "GgJ":
            if open_row:
                out.append("</table:table-row>")
                open_row = False
            out.append("<%s>" % unhx(t[1:]) if t[0] == "G" else "</%s>" % unhx(t[1:]) if t[0] == "g"
                       else esc_ws(unhx(t[1:])) if len(t) > 1 else "\n  <!-- x -->")
        elif t[0] == "R":
            if open_row:
                out.append("</table:table-row>")
                if header and rowno == 1:
                    out.append("</table:table-header-rows>")
            if header and rowno == 0:
                out.append("<table:table-header-rows>")
            rowno += 1
            a = parse_attrs(t[1:])
            out.append("<table:table-row%s>" % "".join(' %s="%s"' % (k, esc_attr(v)) for k, v in a))
            open_row = True
        elif t[0] == "W":
            out.append(esc_ws(unhx(t[1:])))
        elif t[0] == "K":
            out.append("<!-- between cells -->")
        elif t[0] == "X":
            out.append("<![CDATA[x]]>")
        else:
            parts = t[1:].split("~")
            cov = parts[0][0] == "1"
            a = parse_attrs(parts[0][1:])
            name = "table:covered-table-cell" if cov else "table:table-cell"
            tag = name + "".join(' %s="%s"' % (k, esc_attr(v)) for k, v in a)
            if parts[1:]:
                out.append("<%s>%s</%s>" % (tag, "".join(item_xml(p) for p in parts[1:]), name))
            else:
                out.append("<%s/>" % tag)
    if open_row:
        out.append("</table:table-row>")
        if header and rowno == 1:
            out.append("</table:table-header-rows>")
    out.append("</table:table>%s</office:spreadsheet>%s</office:body>%s</office:document-content>%s"
               % (nl(2), nl(1), nl(0), nl(0)))
    return "".join(out)

MANIFEST = ('<?xml version="1.0" encoding="UTF-8"?>'
            '<manifest:manifest xmlns:manifest="urn:oasis:names:tc:opendocument:xmlns:manifest:1.0" manifest:version="1.2">'
            '<manifest:file-entry manifest:full-path="/" manifest:media-type="application/vnd.oasis.opendocument.spreadsheet"/>'
            '<manifest:file-entry manifest:full-path="content.xml" manifest:media-type="text/xml"/>'
            '</manifest:manifest>')

def ods_bytes(content):
    bio = io.BytesIO()
    with zipfile.ZipFile(bio, "w") as z:
        zi = zipfile.ZipInfo("mimetype", date_time=(2020, 1, 1, 0, 0, 0))
        zi.compress_type = zipfile.ZIP_STORED
        z.writestr(zi, b"application/vnd.oasis.opendocument.spreadsheet")
        for name, data in (("META-INF/manifest.xml", MANIFEST), ("content.xml", content)):
            zi = zipfile.ZipInfo(name, date_time=(2020, 1, 1, 0, 0, 0))
            zi.compress_type = zipfile.ZIP_DEFLATED
            z.writestr(zi, data.encode("utf-8"))
    return bio.getvalue()

def write_case(tmp, lid, desc):
    path = os.path.join(tmp, lid + ".ods")
    with open(path, "wb") as f:
        f.write(ods_bytes(xml_of_desc(desc)))
    return path

# ---------------------------------------------------------------- classification
def classify_file(ctx, line, desc, expected, impl, model_ans, label):
    parts = (model_ans or "").split("##")
    model = parts[0]
    cspec = parts[1] if len(parts) > 1 else "-"
    flags = parts[2] if len(parts) > 2 else "p-e-"
    inside = flags == "p1e1k1"
    ctx.count("guard:" + ("inside" if inside else "outside(%s)" % flags))
    if inside and expected is not None:
        if impl != expected:
            ctx.violations.append({"case": line, "expected": expected, "actual": impl, "model": model,
                                   "what": "%s: the range read from the generated .ods differs from the logical grid" % label})
            return
        if cspec != "-" and cspec != expected:
            ctx.disagreements.append({"function": "spec", "case": line, "impl": expected, "model": cspec})
            return
    if impl != model:
        ctx.disagreements.append({"function": "read_table", "case": line, "impl": impl, "model": model})

def run_files(ctx, n_sheets, per_sheet, tag):
    tmp = vlib.tmpdir(ctx)
    lines, meta = [], []
    for s in range(n_sheets):
        lead, rows = gen_sheet(ctx.rng)
        grid = grid_of(lead, rows)
        legal = all(p[0] < U32 and p[1] < U32 for p in grid)
        expected = spec_answer(grid) if legal else None
        for e in range(per_sheet):
            enc = encode_sheet(lead, rows, ctx.rng)
            desc = desc_of(enc, ctx.rng)
            lid = "%s%d_%d" % (tag, s, e)
            path = write_case(tmp, lid, desc)
            lines.append("%s\todsgrid\tfile\t%s\t%s" % (lid, path, desc))
            meta.append((lid, desc, expected, lead, rows, enc))
    impl, model = ctx.run_both(lines)
    for line, (lid, desc, expected, lead, rows, enc) in zip(lines, meta):
        classify_file(ctx, line, desc, expected, impl.get(lid), model.get(lid), "grouping %s" % lid)
        ctx.traces += 1
        nonblank = sum(1 for r in rows for c in r if c != BLANK)
        ctx.count("cells:%s" % ("0" if nonblank == 0 else "1-4" if nonblank < 5 else "5+"))
        ctx.count("lead:%s" % ("0" if lead == 0 else "small" if lead < 100 else "huge"))
        ctx.count("first_col:%s" % ("A" if any(r and r[0] != BLANK for r in rows) else "not A"))
        ctx.count("blank_rows_inside" if any(not strip(r) for r in rows[1:-1]) else "no_blank_row_inside")
        ctx.count("row_repeat>1" if any(k > 1 and any(c != BLANK for _, c, _ in el) for k, el in enc) else "row_repeat=1")
        ctx.count("cell_repeat>1" if any(k > 1 and c != BLANK for _, el in enc for k, c, _ in el) else "cell_repeat=1")
        ctx.count("covered" if any(cov for _, el in enc for _, _, cov in el) else "no_covered")
        toks = desc.split(" ")
        ctx.count("layout:indented_rows" if any(t.startswith("W") for t in toks) else "layout:flat_rows")
        ctx.count("layout:indented_cells" if any("~w" in t for t in toks) else "layout:flat_cells")
        ctx.count("layout:anchored_objects" if any("~h" in t for t in toks) else "layout:no_anchored_object")
        if any("~h" in t and "737472696e67" in t and "6f66666963653a737472696e672d76616c7565" not in t for t in toks):
            ctx.count("layout:anchored_object_in_string_content_cell")
        if any(t == "X" for t in toks):
            ctx.count("layout:foreign_item_in_row")
        ctx.count("formula_without_value" if any(c[0] == "none" and c[2] for r in rows for c in r) else "no_bare_formula")
        if nonblank:
            ctx.nontrivial(desc)
        if len(ctx.samples) < 4:
            ctx.sample({"case": line[:400], "impl": (impl.get(lid) or "")[:200], "expected": (expected or "")[:200]})
    shutil.rmtree(tmp, ignore_errors=True)

# corner cases written by hand: (name, [(rowrep, [(rep, cell, covered)])]) — logical grid derived
F1 = ("float", "1", ""); F2 = ("float", "2", ""); F3 = ("float", "3", ""); F4 = ("float", "4", "")
FO = ("none", None, "of:=[.A1]")
CORPUS = [
    # F7 witness: data in B..C with a blank row between
    ("f7", [(1, [(1, BLANK, False), (1, F1, False), (1, F2, False)]), (1, []), (1, [(2, BLANK, False), (1, F3, False)]),
            (1, [(1, BLANK, False), (1, F4, False)])]),
    ("f7rep", [(1, [(3, BLANK, False), (1, F1, False)]), (4, [(1024, BLANK, False)]), (2, [(4, BLANK, False), (2, F2, False)])]),
    ("rowrep", [(3, [(1, F1, False), (1, BLANK, False), (2, F2, False)]), (1048573, [(1024, BLANK, False)])]),
    ("covered", [(1, [(1, F1, False), (2, BLANK, True), (1, F2, False)]), (1, [(1, BLANK, True), (1, F3, True)])]),
    ("firstempty", [(1, [(5, BLANK, False), (3, F1, False), (1, BLANK, False), (1, F2, False), (16374, BLANK, False)])]),
    ("formula_only", [(2, [(1, BLANK, False)]), (1, [(2, BLANK, False), (1, FO, False), (1, F1, False)]), (1, [(1, F2, False)])]),
    ("empty_sheet", [(1048576, [(16384, BLANK, False)])]),
    ("no_rows", []),
    ("lead_u32", [(U32 - 1, []), (1, [(1, F1, False)])]),
    ("rows_2p32_trailing", [(2, [(1, BLANK, False), (1, F1, False)]), (U32 - 2, [(16384, BLANK, False)])]),
    ("rows_over_limit", [(2, [(1, F1, False)]), (U32 - 1, [])]),
    ("blank_then_repeated", [(1, [(1, F1, False), (2, BLANK, False), (2, F2, False), (1, F3, False)]),
                             (1, [(3, BLANK, True), (4, F1, False)]), (1, [(1, BLANK, False), (3, F3, False)])]),
    ("last_row_repeated", [(1, [(1, F1, False), (1, F2, False)]), (1, []), (2, [(1, F3, False), (1, F4, False)])]),
    ("single_repeated_row", [(5, [(2, BLANK, False), (1, F1, False)])]),
    ("beyond_u32", [(U32 + 3, []), (2, [(2, BLANK, False), (1, F1, False)])]),
    # formula cells without cached value: last in the row, first in the row, interior, alone
    ("fo_edges", [(1, [(1, F1, False), (1, BLANK, False), (1, FO, False)]), (1, [(1, FO, False), (2, F2, False)]),
                  (2, [(1, F1, False), (2, FO, False), (1, F3, False)])]),
    ("fo_alone", [(3, []), (1, [(4, BLANK, False), (1, FO, False), (16379, BLANK, False)])]),
    ("fo_lastrow", [(1, [(2, BLANK, False), (1, F1, False)]), (1, [(5, BLANK, False), (1, FO, True)]), (1048574, [(16384, BLANK, False)])]),
    ("string_empty", [(1, [(1, ("string_content", (), ""), False), (1, F1, False)])]),
    ("trail2", [(1, [(1, F1, False), (3, BLANK, False), (1000, BLANK, False)]), (7, []), (2 ** 40, [(1, BLANK, False)])]),
    ("col_i32", [(1, [(1, F1, False), (2 ** 31 - 1, BLANK, False)])]),
    ("col_over_i32", [(1, [(1, F1, False), (2 ** 31, BLANK, False)])]),
]

def grid_of_enc(enc):
    g, r = {}, 0
    for rowrep, elems in enc:
        row, c = {}, 0
        for rep, cell, _ in elems:
            if cell != BLANK:
                for j in range(rep):
                    row[c + j] = cell
            c += rep
        if row:
            for i in range(rowrep):
                for j, cell in row.items():
                    g[(r + i, j)] = cell
        r += rowrep
    return g

# the former defects ODS-3 / ODS-1 of notes/AUDIT2.md: the same sheets laid out with indentation
# at every level, comments, annotations and drawing objects anchored to cells (with text of
# their own) must read as the flat sheet does; a CDATA section between two cells is an error
SC = ("string_content", ("abc",), ""); SC2 = ("string_content", ("l1", "l2"), "")
FULL = {"indent": True, "comments": True, "shapes": True, "annot": True, "bad": False, "ws": "\n     "}
CORPUS_LAYOUT = [
    ("ods3_indented", [(1, [(1, SC, False), (1, F2, False)])], dict(FULL, shapes=False, annot=False, comments=False)),
    ("ods3_lo_pretty", [(1, [(1, SC, False), (1, F2, False), (1, SC2, False), (16381, BLANK, False)]),
                        (1048575, [(16384, BLANK, False)])], dict(FULL, shapes=False)),
    ("ods1_shapes", [(1, [(1, SC, False), (1, F2, False)]), (1, [(1, BLANK, False), (2, SC2, False)])],
     dict(FULL, indent=False)),
    ("ods1_shapes_indented", [(2, [(1, BLANK, False), (1, SC, False), (1, F1, True), (1, SC2, False)]), (1, []),
                              (1, [(3, SC, False)])], FULL),
    ("row_foreign_item", [(1, [(1, F1, False), (1, F2, False), (1, F3, False), (1, F4, False), (1, F1, False),
                               (1, F2, False), (1, F3, False), (1, F4, False), (1, F1, False), (1, F2, False),
                               (1, F3, False), (1, F4, False), (1, F1, False), (1, F2, False), (1, F3, False),
                               (1, F4, False), (1, F1, False), (1, F2, False), (1, F3, False), (1, F4, False),
                               (1, F1, False), (1, F2, False), (1, F3, False), (1, F4, False), (1, F1, False),
                               (1, F2, False), (1, F3, False), (1, F4, False), (1, F1, False), (1, F2, False),
                               (1, F3, False), (1, F4, False), (1, F1, False), (1, F2, False), (1, F3, False)])],
     dict(FULL, bad=True)),
]

def run_corpus(ctx):
    tmp = vlib.tmpdir(ctx)
    lines, meta = [], []
    for name, enc, layout in [(n, e, None) for n, e in CORPUS] + CORPUS_LAYOUT:
        grid = grid_of_enc(enc)
        legal = all(p[0] < U32 and p[1] < U32 for p in grid)
        desc = desc_of(enc, ctx.rng, layout)
        if layout is not None and layout["bad"] and " X" not in desc:
            desc = desc.replace(" C", " X C", 1)
        lid = "k_" + name
        path = write_case(tmp, lid, desc)
        lines.append("%s\todsgrid\tfile\t%s\t%s" % (lid, path, desc))
        meta.append((lid, desc, spec_answer(grid) if legal else None))
    impl, model = ctx.run_both(lines)
    for line, (lid, desc, expected) in zip(lines, meta):
        classify_file(ctx, line, desc, expected, impl.get(lid), model.get(lid), lid)
        ctx.traces += 1
        ctx.nontrivial(desc)
    shutil.rmtree(tmp, ignore_errors=True)

# ---------------------------------------------------------------- get_range through the hook
def hook_spec(rows, reps):
    g, r = {}, 0
    for row, k in zip(rows, reps):
        for i in range(k):
            for j, v in enumerate(row):
                if v:
                    g[(r + i, j)] = "I%d" % v
        r += k
    return spec_range(g, lambda s: s)

def run_hook(ctx, n, tag):
    rng = ctx.rng
    lines, meta = [], []
    for i in range(n):
        nrows = rng.randint(0, 7)
        coff = rng.choice([0, 0, 1, 2, 4])
        rows = []
        for _ in range(nrows):
            m = rng.random()
            if m < 0.3:
                row = [0] * rng.choice([0, 0, 1, 3])
            else:
                row = [0] * coff + [rng.choice([0, 0, 1, 2, 3]) for _ in range(rng.randint(1, 5))]
            if rows and rng.random() < 0.15:
                row = list(rows[-1])
            rows.append(row)
        reps = [rng.choice([1, 1, 1, 2, 3, 5]) for _ in rows]
        kind = "valid"
        r = rng.random()
        if r < 0.06 and rows:
            reps[rng.randrange(len(reps))] = 0; kind = "zero_repeat"
        elif r < 0.10 and rows:
            reps[0] = rng.choice([70000, U32 - 2, U32 + 5, 2 ** 63, 2 ** 64 - 1]) if not any(rows[0]) else reps[0]
            kind = "huge_lead"
        cells = [v for row in rows for v in row]
        cols = [0]
        for row in rows:
            cols.append(cols[-1] + len(row))
        if r > 0.96 and len(cols) > 1:
            j = rng.randrange(len(cols))
            cols[j] = rng.choice([cols[j] + 1, max(0, cols[j] - 1), len(cells) + 2]); kind = "bad_cols"
        if r > 0.93 and r <= 0.96 and reps:
            reps = reps[:-1]; kind = "short_reps"
        lid = "%s%d" % (tag, i)
        lines.append("%s\todsgrid\thook\t%s\t%s\t%s" % (lid, ",".join(map(str, cells)), ",".join(map(str, cols)),
                                                       ",".join(map(str, reps))))
        meta.append((lid, kind, rows, reps))
    impl, model = ctx.run_both(lines)
    for line, (lid, kind, rows, reps) in zip(lines, meta):
        a, b = impl.get(lid), model.get(lid)
        ctx.count("hook:" + kind)
        ctx.traces += 1
        if kind == "valid" and sum(reps) < U32:
            exp = hook_spec(rows, reps)
            if a != exp:
                ctx.violations.append({"case": line, "expected": exp, "actual": a, "model": b,
                                       "what": "ods::get_range on consistent offsets and positive repeat counts"})
                continue
        if a != b:
            ctx.disagreements.append({"function": "get_range", "case": line, "impl": a, "model": b})
        if any(any(r) for r in rows):
            ctx.nontrivial(line.split("\t", 2)[2])

def run(ctx):
    run_corpus(ctx)
    run_files(ctx, ctx.scale(350, 4000), 3, "g")
    run_hook(ctx, ctx.scale(4000, 60000), "h")

def search(ctx):
    run_files(ctx, ctx.scale(1500, 8000), 3, "s")
    run_hook(ctx, ctx.scale(20000, 100000), "t")

def replay(ctx, rep):
    case = rep.get("case")
    f = case.split("\t")
    lid = f[0]
    if f[2] == "file":
        tmp = vlib.tmpdir(ctx)
        path = write_case(tmp, lid, f[4])
        case = "\t".join([lid, "odsgrid", "file", path, f[4]])
    print("replaying:", case[:300])
    impl, model = ctx.run_both([case])
    print("impl    :", impl.get(lid))
    print("model   :", (model.get(lid) or "").split("##")[0])
    print("expected:", rep.get("expected"))
    return 0 if impl.get(lid) == rep.get("expected") else 1
