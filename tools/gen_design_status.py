#!/usr/bin/env python3
"""Rewrites the generated blocks of DESIGN.md (between <!-- X_BEGIN --> / <!-- X_END --> markers) from
MANIFEST.json, known_findings.json, the property files and seeded/results.json, so that the status
section cannot drift from what is committed.  Hand-written prose outside the markers is untouched."""
import json, os, re, glob
ROOT = os.path.dirname(os.path.dirname(os.path.abspath(__file__)))

def strip_comments(txt):
    out, depth, i, n = [], 0, 0, len(txt)
    while i < n:
        if txt.startswith("(*", i): depth += 1; i += 2
        elif txt.startswith("*)", i) and depth > 0: depth -= 1; i += 2
        else:
            if depth == 0: out.append(txt[i])
            i += 1
    return "".join(out)

def closure(vfile):
    seen, todo = [], [vfile]
    while todo:
        f = todo.pop()
        if f in seen or not os.path.exists(f): continue
        seen.append(f)
        txt = strip_comments(open(f).read())
        for m in re.finditer(r"From\s+Calamine\s+Require\s+(?:Import|Export)?\s*([^.]*(?:\.[A-Za-z_][^.\s]*)*)\.", txt):
            for name in m.group(1).split():
                todo.append(os.path.join(ROOT, "coq", "theories", *name.split(".")) + ".v")
    return seen

def main():
    man = json.load(open(os.path.join(ROOT, "MANIFEST.json")))
    kf = json.load(open(os.path.join(ROOT, "known_findings.json")))
    claimed = {c["property_id"]: c for c in man["checks"]}
    na = {n["property_id"]: n["reason"] for n in man.get("not_applicable", [])}
    props = [json.loads(l) for l in open(os.path.join(ROOT, "properties.jsonl"))]
    rows = ["| id | claimed | model / proof files (own) | property theorems | totality (`no_panic`) theorems | known findings left | fix: commits |",
            "|---|---|---|---|---|---|---|"]
    shared = {"Prelude", "Range", "Range_spec", "Range_proofs", "HeaderRow", "HeaderRow_proofs"}
    for p in props:
        pid = p["id"]
        pv = os.path.join(ROOT, "coq", "theories", "Properties", pid + ".v")
        nthm = ntot = 0
        files = ""
        if os.path.exists(pv):
            t = strip_comments(open(pv).read())
            names = re.findall(r"^\s*Theorem\s+([A-Za-z_0-9']+)", t, re.M)
            nthm = len(names)
            ntot = len([n for n in names if "no_panic" in n or n.endswith("_total")])
            own = sorted({os.path.basename(f)[:-2] for f in closure(pv)} - {pid} - (shared if pid not in ("C05", "C08") else set()))
            files = ", ".join(own[:9]) + (" …" if len(own) > 9 else "")
        left = [f["id"] for f in kf["findings"] if f["property"] == pid]
        nfix = len([f for f in kf["fixed"] if f["property"] == pid])
        st = "yes" if pid in claimed else "no (" + na.get(pid, "")[:60] + "…)"
        rows.append("| %s | %s | %s | %d | %d | %s | %d |" % (pid, st, files or "—", nthm, ntot, ", ".join(left) or "none", nfix))
    nfix_all = len(kf["fixed"])
    table = "\n".join(rows) + "\n\nTotal `fix:` entries recorded in known_findings.json: %d (plus the C06 hardening series, see 0.3); known findings left: %d." % (nfix_all, len(kf["findings"]))
    dp = os.path.join(ROOT, "DESIGN.md")
    s = open(dp).read()
    a, b = s.index("<!-- STATUS_TABLE_BEGIN -->"), s.index("<!-- STATUS_TABLE_END -->")
    s = s[:a] + "<!-- STATUS_TABLE_BEGIN -->\n" + table + "\n" + s[b:]
    # seeded results summary
    rp = os.path.join(ROOT, "seeded", "results.json")
    if os.path.exists(rp) and "<!-- SEED_TABLE_BEGIN -->" in s:
        res = json.load(open(rp))
        caught = sum(1 for r in res.values() if r and r[0]["rc"] == 1 and "VIOLATION" in r[0]["line"])
        nfi = sum(1 for r in res.values() if r and "no-failing-input-found" in r[0]["line"])
        missed = sorted(n for n, r in res.items() if r and r[0]["rc"] == 0)
        other = sorted(n for n, r in res.items() if not r or r[0]["rc"] not in (0, 1))
        txt = ("%d seeded changes run (`seeded/RESULTS.md` has one row each): %d reported as VIOLATION (%d of them only as a broken "
               "model/code correspondence, `no-failing-input-found`), missed: %s, not runnable: %s."
               % (len(res), caught, nfi, ", ".join(missed) or "none", ", ".join(other) or "none"))
        a, b = s.index("<!-- SEED_TABLE_BEGIN -->"), s.index("<!-- SEED_TABLE_END -->")
        s = s[:a] + "<!-- SEED_TABLE_BEGIN -->\n" + txt + "\n" + s[b:]
    open(dp, "w").write(s)

if __name__ == "__main__":
    main()
