(* XlsbStyles_proofs.v — theorems about the byte-level model of Xlsb::read_styles (XlsbStyles.v,
   property C10): every legal layout of xl/styles.bin reads back as the format table of its
   (BrtFmt, BrtXF) records, whatever the other records are and hold; totality on every byte
   string.  Induction over the record lists; no axioms. *)
From Calamine Require Import Prelude RK RK_proofs Utf16 Utf16_proofs XlsbRec XlsbRec_proofs XlsbStyles.
From Calamine Require NumFmt NumFmt_proofs.
Open Scope N_scope.
Set Implicit Arguments.

Lemma rd2 : forall v r, v < 65536 -> rd 2 0 (le_bytes 2 v ++ r) = v.
Proof. intros v r H. rewrite rd_le. change (256 ^ N.of_nat 2) with 65536. apply N.mod_small, H. Qed.

(* a framed record at the head of the loop: read_type + fill_buffer on the empty buffer *)
Lemma head_frame : forall fr id body rest, wf_frame fr id body = true ->
  read_type (frame fr id body ++ rest) = Ok (id, enc_len (f_lenb fr) (lenN body) ++ body ++ rest) /\
  fill_buffer (enc_len (f_lenb fr) (lenN body) ++ body ++ rest) [] = Ok (lenN body, body, rest).
Proof.
  intros fr id body rest H. split; [apply read_type_frame; exact H|].
  rewrite (fill_frame _ _ _ rest [] H). rewrite lenN_nil.
  destruct (0 <? lenN body); [rewrite app_nil_r; reflexivity|].
  destruct (length body); cbn [skipn]; rewrite app_nil_r; reflexivity.
Qed.

(* ================= records outside the two collections are skipped whole ================= *)
Lemma loop_outer : forall rs F rest nf,
  forallb outer_ok rs = true -> (length rs <= F)%nat ->
  styles_loop F (flat_map enc_raw rs ++ rest) nf = styles_loop (F - length rs) rest nf.
Proof.
  induction rs as [|r rs IH]; intros F rest nf Hwf HF.
  - cbn [flat_map app length]. rewrite Nat.sub_0_r. reflexivity.
  - cbn [forallb] in Hwf. apply andb_true_iff in Hwf as [Hr Hwf].
    destruct F as [|f]; [cbn [length] in HF; lia|]. cbn [length] in HF.
    cbn [flat_map]. rewrite <- app_assoc. destruct r as [[fr id] body].
    unfold outer_ok, wf_raw in Hr. cbn [fst snd] in Hr.
    apply andb_true_iff in Hr as [Hr H2]. apply andb_true_iff in Hr as [Hf H1].
    unfold enc_raw at 1. cbn [fst snd]. cbn [styles_loop].
    destruct (head_frame fr id body (flat_map enc_raw rs ++ rest) Hf) as [E1 E2].
    rewrite E1. cbn [obind fst snd]. rewrite E2. cbn [obind fst snd].
    destruct (id =? BRT_BEGIN_FMTS); [discriminate H1|].
    destruct (id =? BRT_BEGIN_CELLXFS); [discriminate H2|].
    cbn [length Nat.sub]. apply IH; [exact Hwf|lia].
Qed.

(* ================= the two collections ================= *)
Definition fcount (items : list fmt_rec) : nat :=
  fold_right (fun r n => (S (length (fr_junk r)) + n)%nat) 0%nat items.
Definition xcount (items : list xf_rec) : nat :=
  fold_right (fun r n => (S (length (xr_junk r)) + n)%nat) 0%nat items.

Lemma junk_skippable : forall item js, forallb (junk_ok item) js = true ->
  Forall (skippable item []) js.
Proof.
  intros item js H. eapply forallb_Forall; [|exact H]. intros x Hx. unfold junk_ok in Hx.
  apply andb_true_iff in Hx as [Hw Hn]. split; [exact Hw|]. split; [|reflexivity].
  intro E. rewrite E, N.eqb_refl in Hn. discriminate.
Qed.

(* one item record behind its junk: next_skip_blocks delivers its body in front of the buffer's
   stale tail *)
Lemma nsb_item : forall item js fr body F rest buf,
  forallb (junk_ok item) js = true -> wf_frame fr item body = true -> (length js < F)%nat ->
  exists stale, next_skip_blocks F item [] (flat_map enc_raw js ++ frame fr item body ++ rest) buf =
                Ok (lenN body, body ++ stale, rest).
Proof.
  intros item js fr body F rest buf Hj Hf HF.
  destruct (@nsb_skip_list js F item [] (frame fr item body ++ rest) buf (junk_skippable _ _ Hj))
    as [b1 E1]; [lia|].
  rewrite E1. destruct (F - length js)%nat as [|f] eqn:EF; [lia|].
  rewrite nsb_found by exact Hf. eexists. reflexivity.
Qed.

Lemma fmt_items_enc : forall items F rest buf,
  forallb wf_fmt items = true -> lenN items < 4294967296 -> (fcount items <= F)%nat ->
  exists buf',
    fmt_items F (lenN items) (flat_map enc_fmt items ++ rest) buf =
      Ok (map (fun r => (fr_id r, NumFmt.detect (fr_code r))) items, buf', rest).
Proof.
  induction items as [|r items IH]; intros F rest buf Hwf Hn HF.
  - exists buf. destruct F; reflexivity.
  - cbn [forallb] in Hwf. apply andb_true_iff in Hwf as [Hr Hwf].
    cbn [fcount fold_right] in HF. fold (fcount items) in HF.
    destruct F as [|f]; [lia|].
    rewrite lenN_cons in *. cbn [fmt_items].
    destruct (1 + lenN items =? 0) eqn:E0; [lia|].
    unfold wf_fmt in Hr.
    apply andb_true_iff in Hr as [Hr Hlen]. apply andb_true_iff in Hr as [Hr Hsc].
    apply andb_true_iff in Hr as [Hr Hid]. apply andb_true_iff in Hr as [Hj Hf].
    cbn [flat_map]. unfold enc_fmt at 1. rewrite <- !app_assoc.
    destruct (@nsb_item BRT_FMT (fr_junk r) (fr_frm r) (fmt_body r) (S f)
                (flat_map enc_fmt items ++ rest) buf Hj Hf ltac:(lia)) as [stale E1].
    rewrite E1. cbn [obind fst snd].
    assert (Hb : lenN (fmt_body r) = 2 + lenN (enc_wide (fr_code r) ++ fr_tail r)).
    { unfold fmt_body. rewrite lenN_app, lenN_le. reflexivity. }
    rewrite check_ok by lia. cbn [obind].
    rewrite lenN_app, Hb.
    destruct (2 + lenN (enc_wide (fr_code r) ++ fr_tail r) + lenN stale <? 2) eqn:E2; [lia|].
    unfold fmt_body. rewrite <- !app_assoc.
    rewrite rd2 by lia.
    replace (skipn 2 (le_bytes 2 (fr_id r) ++ enc_wide (fr_code r) ++ fr_tail r ++ stale))
      with (enc_wide (fr_code r) ++ fr_tail r ++ stale).
    2:{ rewrite skipn_app, skipn_all2 by (rewrite le_bytes_length; lia).
        rewrite le_bytes_length. reflexivity. }
    rewrite wide_str_roundtrip; [|apply forallb_scalar, Hsc|unfold U32MAX; lia].
    cbn [obind fst snd].
    replace (1 + lenN items - 1) with (lenN items) by lia.
    destruct (IH f rest (le_bytes 2 (fr_id r) ++ enc_wide (fr_code r) ++ fr_tail r ++ stale) Hwf
                ltac:(lia) ltac:(lia)) as [b' E].
    rewrite E. cbn [obind fst snd map]. exists b'. reflexivity.
Qed.

Lemma xf_items_enc : forall items F rest buf,
  forallb wf_xf items = true -> lenN items < 4294967296 -> (xcount items <= F)%nat ->
  xf_items F (lenN items) (flat_map enc_xf items ++ rest) buf = Ok (map xr_ifmt items).
Proof.
  induction items as [|r items IH]; intros F rest buf Hwf Hn HF.
  - destruct F; reflexivity.
  - cbn [forallb] in Hwf. apply andb_true_iff in Hwf as [Hr Hwf].
    cbn [xcount fold_right] in HF. fold (xcount items) in HF.
    destruct F as [|f]; [lia|].
    rewrite lenN_cons in *. cbn [xf_items].
    destruct (1 + lenN items =? 0) eqn:E0; [lia|].
    unfold wf_xf in Hr.
    apply andb_true_iff in Hr as [Hr Hif]. apply andb_true_iff in Hr as [Hr Hpa].
    apply andb_true_iff in Hr as [Hj Hf].
    cbn [flat_map]. unfold enc_xf at 1. rewrite <- !app_assoc.
    destruct (@nsb_item BRT_XF (xr_junk r) (xr_frm r) (xf_body r) (S f)
                (flat_map enc_xf items ++ rest) buf Hj Hf ltac:(lia)) as [stale E1].
    rewrite E1. cbn [obind fst snd].
    assert (Hb : lenN (xf_body r) = 4 + lenN (xr_tail r)).
    { unfold xf_body. rewrite !lenN_app, !lenN_le. lia. }
    rewrite check_ok by lia. cbn [obind].
    rewrite lenN_app, Hb.
    destruct (4 + lenN (xr_tail r) + lenN stale <? 4) eqn:E2; [lia|].
    unfold xf_body. rewrite <- !app_assoc.
    rewrite rd_app_skip by apply le_bytes_length. rewrite rd2 by lia.
    replace (1 + lenN items - 1) with (lenN items) by lia.
    rewrite IH; [reflexivity|exact Hwf|lia|lia].
Qed.

(* ---- lengths: a part is at least as long as its number of records ---- *)
Lemma fmts_length : forall items, (fcount items <= length (flat_map enc_fmt items))%nat.
Proof.
  induction items as [|r items IH]; [cbn; lia|].
  cbn [fcount fold_right flat_map]. fold (fcount items). rewrite app_length.
  unfold enc_fmt at 1. rewrite app_length.
  pose proof (raws_length (fr_junk r)).
  pose proof (frame_length_pos (fr_frm r) BRT_FMT (fmt_body r)). lia.
Qed.

Lemma xfs_length : forall items, (xcount items <= length (flat_map enc_xf items))%nat.
Proof.
  induction items as [|r items IH]; [cbn; lia|].
  cbn [xcount fold_right flat_map]. fold (xcount items). rewrite app_length.
  unfold enc_xf at 1. rewrite app_length.
  pose proof (raws_length (xr_junk r)).
  pose proof (frame_length_pos (xr_frm r) BRT_XF (xf_body r)). lia.
Qed.

(* ================= the main theorem ================= *)
(* the cell-XF part of a layout, under the number formats read so far *)
Lemma loop_xfs : forall fr tail items post F nf,
  wf_frame fr BRT_BEGIN_CELLXFS (le_bytes 4 (lenN items) ++ tail) = true ->
  forallb wf_xf items = true -> lenN items < 4294967296 -> (xcount items < F)%nat ->
  styles_loop F (frame fr BRT_BEGIN_CELLXFS (le_bytes 4 (lenN items) ++ tail) ++
                 flat_map enc_xf items ++ post) nf =
    Ok (map (xf_format nf) (map xr_ifmt items)).
Proof.
  intros fr tail items post F nf Hf Hwf Hn HF.
  destruct F as [|f]; [lia|]. cbn [styles_loop].
  destruct (head_frame fr BRT_BEGIN_CELLXFS (le_bytes 4 (lenN items) ++ tail)
              (flat_map enc_xf items ++ post) Hf) as [E1 E2].
  rewrite E1. cbn [obind fst snd]. rewrite E2. cbn [obind fst snd].
  change (BRT_BEGIN_CELLXFS =? BRT_BEGIN_FMTS) with false.
  change (BRT_BEGIN_CELLXFS =? BRT_BEGIN_CELLXFS) with true. cbv iota.
  rewrite lenN_app, lenN_le. rewrite check_ok by lia. cbn [obind].
  destruct (N.of_nat 4 + lenN tail <? 4) eqn:E4; [lia|].
  rewrite rd4 by exact Hn.
  rewrite xf_items_enc; [reflexivity|exact Hwf|exact Hn|lia].
Qed.

(* every legal layout of xl/styles.bin reads back as the table of its BrtFmt / BrtXF records:
   what stands before, between and behind the two collections, inside them between the items,
   behind the fields of each record, and how each record is framed, is immaterial *)
Theorem read_styles_encode : forall L,
  wf_slayout L = true ->
  read_styles (Some (encode_styles L)) = Ok (NumFmt.xlsb_formats (styles_of L)).
Proof.
  intros [pre fmts mid [[frx tailx] xitems] post] Hwf.
  unfold wf_slayout in Hwf. cbn [sl_pre sl_fmts sl_mid sl_xfs sl_post] in Hwf.
  apply andb_true_iff in Hwf as [Hwf Hx]. apply andb_true_iff in Hwf as [Hwf Hmid].
  apply andb_true_iff in Hwf as [Hpre Hfm].
  apply andb_true_iff in Hx as [Hx Hxn]. apply andb_true_iff in Hx as [Hxf Hxw].
  unfold read_styles, encode_styles, styles_of, fmts_of, xfs_of, NumFmt.xlsb_formats.
  cbn [sl_pre sl_fmts sl_mid sl_xfs sl_post NumFmt.bs_formats NumFmt.bs_xfs fst snd].
  set (XS := (frame frx BRT_BEGIN_CELLXFS (le_bytes 4 (lenN xitems) ++ tailx) ++
              flat_map enc_xf xitems) ++ post).
  assert (LX : (xcount xitems + 2 <= length XS)%nat).
  { unfold XS. rewrite !app_length. pose proof (xfs_length xitems).
    pose proof (frame_length_pos frx BRT_BEGIN_CELLXFS (le_bytes 4 (lenN xitems) ++ tailx)). lia. }
  assert (Lpre := raws_length pre). assert (Lmid := raws_length mid).
  destruct fmts as [[[frf tailf] fitems]|].
  - apply andb_true_iff in Hfm as [Hfm Hfn]. apply andb_true_iff in Hfm as [Hff Hfw].
    pose (S0 := flat_map enc_raw pre ++
               (frame frf BRT_BEGIN_FMTS (le_bytes 4 (lenN fitems) ++ tailf) ++
                flat_map enc_fmt fitems) ++ flat_map enc_raw mid ++ XS).
    match goal with |- styles_loop (S (length ?s)) ?s [] = _ => change s with S0 end.
    assert (LS : (length pre + fcount fitems + length mid + xcount xitems + 4 <= length S0)%nat).
    { unfold S0. rewrite !app_length. pose proof (fmts_length fitems).
      pose proof (frame_length_pos frf BRT_BEGIN_FMTS (le_bytes 4 (lenN fitems) ++ tailf)). lia. }
    set (F := S (length S0)).
    unfold S0. rewrite loop_outer by (try exact Hpre; unfold F; lia).
    destruct (F - length pre)%nat as [|f] eqn:EF; [unfold F in EF; lia|].
    rewrite <- !app_assoc. cbn [styles_loop].
    destruct (head_frame frf BRT_BEGIN_FMTS (le_bytes 4 (lenN fitems) ++ tailf)
                (flat_map enc_fmt fitems ++ flat_map enc_raw mid ++ XS) Hff) as [E1 E2].
    rewrite E1. cbn [obind fst snd]. rewrite E2. cbn [obind fst snd].
    change (BRT_BEGIN_FMTS =? BRT_BEGIN_FMTS) with true. cbv iota.
    rewrite lenN_app, lenN_le. rewrite check_ok by lia. cbn [obind].
    destruct (N.of_nat 4 + lenN tailf <? 4) eqn:E4; [lia|].
    rewrite rd4 by lia.
    destruct (@fmt_items_enc fitems f (flat_map enc_raw mid ++ XS)
                (le_bytes 4 (lenN fitems) ++ tailf) Hfw ltac:(lia)) as [b' E].
    { unfold F in EF. lia. }
    rewrite E. cbn [obind fst snd app].
    rewrite loop_outer by (try exact Hmid; unfold F in EF; lia).
    unfold XS. rewrite <- (app_assoc (frame _ _ _)). rewrite loop_xfs; [|exact Hxf|exact Hxw|lia|unfold F in EF; lia].
    f_equal. rewrite !map_map. reflexivity.
  - set (S0 := flat_map enc_raw pre ++ [] ++ flat_map enc_raw mid ++ XS).
    assert (LS : (length pre + length mid + xcount xitems + 2 <= length S0)%nat).
    { unfold S0. rewrite !app_length. cbn [length]. lia. }
    set (F := S (length S0)).
    unfold S0. cbn [app]. rewrite loop_outer by (try exact Hpre; unfold F; lia).
    rewrite loop_outer by (try exact Hmid; unfold F; lia).
    unfold XS. rewrite <- (app_assoc (frame _ _ _)). rewrite loop_xfs; [|exact Hxf|exact Hxw|lia|unfold F; lia].
    f_equal.
Qed.

(* the format table read is independent of everything but the two tables *)
Theorem read_styles_independent : forall L1 L2,
  wf_slayout L1 = true -> wf_slayout L2 = true -> styles_of L1 = styles_of L2 ->
  read_styles (Some (encode_styles L1)) = read_styles (Some (encode_styles L2)).
Proof. intros L1 L2 H1 H2 E. rewrite !read_styles_encode by assumption. rewrite E. reflexivity. Qed.

(* with NumFmt_proofs.xlsb_styles_resolve: the table read from the bytes is the specified one *)
Theorem read_styles_spec : forall L t,
  wf_slayout L = true -> styles_of L = NumFmt.enc_biff t ->
  NumFmt_proofs.ids_below 65536 t -> NumFmt_proofs.xfs_present t ->
  NumFmt_proofs.customs_off_builtin_dates t ->
  read_styles (Some (encode_styles L)) = Ok (NumFmt.spec_formats t).
Proof.
  intros L t Hwf E Hb Hp Hoff. rewrite read_styles_encode by exact Hwf. rewrite E.
  f_equal. apply NumFmt_proofs.xlsb_styles_resolve; assumption.
Qed.

(* ... and from the bytes of styles.bin to the cell (NumFmt_proofs.date_iff_style_xlsb) *)
Theorem date_iff_style_xlsb_bytes :
  forall (L : slayout) (t : NumFmt.style_table) (is_1904 : bool) (style_ref : N) (v : NumFmt.num)
         (fmt : option N),
    wf_slayout L = true -> styles_of L = NumFmt.enc_biff t ->
    NumFmt_proofs.ids_below 65536 t -> NumFmt_proofs.xfs_present t ->
    NumFmt_proofs.customs_off_builtin_dates t ->
    nth_error (NumFmt.xfs t) (N.to_nat style_ref) = Some fmt ->
    exists formats,
      read_styles (Some (encode_styles L)) = Ok formats /\
      NumFmt.xlsb_cell_number formats is_1904 style_ref v =
        NumFmt.spec_cell (NumFmt.resolve t fmt) is_1904 v.
Proof.
  intros L t d s v fmt Hwf E Hb Hp Hoff Hn. exists (NumFmt.xlsb_formats (NumFmt.enc_biff t)).
  split; [rewrite read_styles_encode by exact Hwf; rewrite E; reflexivity|].
  apply NumFmt_proofs.date_iff_style_xlsb; assumption.
Qed.

(* ================= totality (C06) ================= *)
Lemma fmt_items_clean : forall fuel count s buf, (length s < fuel)%nat ->
  clean (fmt_items fuel count s buf) /\
  (forall l b r, fmt_items fuel count s buf = Ok (l, b, r) -> (length r <= length s)%nat).
Proof.
  induction fuel as [|f IH]; intros count s buf H; [lia|]. cbn [fmt_items].
  destruct (count =? 0).
  { split; [apply clean_ok|]. intros l b r E. inversion E; subst. lia. }
  destruct (@nsb_clean (S f) BRT_FMT [] s buf H) as [A1 A2].
  destruct (next_skip_blocks (S f) BRT_FMT [] s buf) as [[[l b] r]| | |] eqn:E1;
    cbn [obind fst snd]; try (split; [apply clean_err|discriminate]); try congruence.
  apply nsb_ok in E1 as [Hr Hl].
  unfold check_len. destruct (l <? 2) eqn:E; cbn [obind]; [split; [apply clean_err|discriminate]|].
  destruct (lenN b <? 2) eqn:Eb; [lia|].
  destruct (wide_str_clean (skipn 2 b)) as [W1 W2].
  destruct (wide_str (skipn 2 b)) as [w| | |]; cbn [obind];
    try (split; [apply clean_err|discriminate]); try congruence.
  destruct (IH (count - 1) r b ltac:(lia)) as [[I1 I2] I3].
  destruct (fmt_items f (count - 1) r b) as [[[l' b'] r']| | |] eqn:E3; cbn [obind fst snd];
    try (split; [apply clean_err|discriminate]); try congruence.
  split; [apply clean_ok|]. intros l0 b0 r0 E0. inversion E0; subst.
  specialize (I3 _ _ _ eq_refl). lia.
Qed.

Lemma xf_items_clean : forall fuel count s buf, (length s < fuel)%nat ->
  clean (xf_items fuel count s buf).
Proof.
  induction fuel as [|f IH]; intros count s buf H; [lia|]. cbn [xf_items].
  destruct (count =? 0); [apply clean_ok|].
  destruct (@nsb_clean (S f) BRT_XF [] s buf H) as [A1 A2].
  destruct (next_skip_blocks (S f) BRT_XF [] s buf) as [[[l b] r]| | |] eqn:E1;
    cbn [obind fst snd]; try apply clean_err; try congruence.
  apply nsb_ok in E1 as [Hr Hl].
  unfold check_len. destruct (l <? 4) eqn:E; cbn [obind]; [apply clean_err|].
  destruct (lenN b <? 4) eqn:Eb; [lia|].
  destruct (IH (count - 1) r b ltac:(lia)) as [I1 I2].
  destruct (xf_items f (count - 1) r b); cbn [obind];
    try apply clean_err; try apply clean_ok; congruence.
Qed.

Lemma styles_loop_clean : forall fuel s nf, (length s < fuel)%nat -> clean (styles_loop fuel s nf).
Proof.
  induction fuel as [|f IH]; intros s nf H; [lia|]. cbn [styles_loop].
  destruct (read_type_clean s) as [T1 T2].
  destruct (read_type s) as [[t s1]| | |] eqn:E1; cbn [obind fst snd]; try apply clean_err; try congruence.
  apply read_type_len in E1.
  destruct (fill_buffer_clean s1 []) as [F1 F2].
  destruct (fill_buffer s1 []) as [[[l b] r]| | |] eqn:E2; cbn [obind fst snd];
    try apply clean_err; try congruence.
  pose proof (fill_buffer_buf _ _ E2) as Hb. apply fill_buffer_len in E2.
  destruct (t =? BRT_BEGIN_FMTS).
  - unfold check_len. destruct (l <? 4) eqn:E; cbn [obind]; [apply clean_err|].
    destruct (lenN b <? 4) eqn:Eb; [lia|].
    destruct (@fmt_items_clean f (rd 4 0 b) r b ltac:(lia)) as [[I1 I2] I3].
    destruct (fmt_items f (rd 4 0 b) r b) as [[[l' b'] r']| | |] eqn:E3; cbn [obind fst snd];
      try apply clean_err; try congruence.
    specialize (I3 _ _ _ eq_refl). apply IH. lia.
  - destruct (t =? BRT_BEGIN_CELLXFS).
    + unfold check_len. destruct (l <? 4) eqn:E; cbn [obind]; [apply clean_err|].
      destruct (lenN b <? 4) eqn:Eb; [lia|].
      destruct (@xf_items_clean f (rd 4 0 b) r b ltac:(lia)) as [I1 I2].
      destruct (xf_items f (rd 4 0 b) r b); cbn [obind];
        try apply clean_err; try apply clean_ok; congruence.
    + apply IH. lia.
Qed.

(* on every byte string (and without the part) read_styles returns a table or an error: no
   panic, and the fuel the model gives itself (length of the part + 1) is never exhausted *)
Theorem no_panic_read_styles : forall part, clean (read_styles part).
Proof.
  intros [s|]; [|apply clean_ok]. unfold read_styles. apply styles_loop_clean. lia.
Qed.

(* ================= examples ================= *)
(* BrtColor with fValidRGB, xColorType = ARGB: flags, index, nTintAndShade (2), R, G, B, A *)
Definition argb (r g b : N) : list N := [5; 255; 0; 0; r; g; b; 255].
(* BrtFont: dyHeight, grbit, bls, sss, uls, bFamily, bCharSet, unused, BrtColor, bFontScheme,
   name *)
Definition font_body (col name : list N) : list N :=
  [220; 0; 0; 0; 144; 1; 0; 0; 0; 2; 0; 0] ++ col ++ [2] ++ enc_wide name.

(* Excel's shape of the part: BrtBeginStyleSheet, FMTS, FONTS (one font coloured #E90420, one
   #10E704, one named with U+04E9 U+04E7), FILLS (a fill whose colour is #E7 04 E9 with index 04),
   BORDERS, CELLSTYLEXFS (with a BrtXF of its own), CELLXFS with FRT junk, the rest *)
Definition example_styles : slayout :=
  mkSLayout
    [raw_min 278 []]
    (Some (mkFrm true 0, [],
           [mkFmtRec [] (mkFrm false 0) 164 [121; 121; 121; 121; 92; 45; 109; 109] [];
            mkFmtRec [raw_min 37 [233; 4; 231; 4]; raw_min 38 []] (mkFrm false 1) 165 [91; 104; 93; 58; 109; 109] [9]]))
    [raw_min 616 [];
     raw_min 611 [3; 0; 0; 0];
     raw_min 43 (font_body (argb 233 4 32) [67; 97; 108]);
     raw_min 43 (font_body (argb 16 231 4) [67; 97; 108]);
     raw_min 43 (font_body [7; 1; 0; 0; 0; 0; 0; 255] [1257; 1255]);
     raw_min 612 [];
     raw_min 603 [1; 0; 0; 0];
     raw_min 45 ([1; 0; 0; 0] ++ [5; 4; 231; 4] ++ [231; 4; 233; 4] ++ [3; 65; 0; 0; 255; 255; 255; 255]);
     raw_min 604 [];
     raw_min 613 [1; 0; 0; 0]; raw_min 46 [0; 233; 4; 231; 4; 0; 0; 0; 0; 0; 0]; raw_min 614 [];
     raw_min 626 [1; 0; 0; 0]; raw_min 47 [255; 255; 14; 0; 0; 0; 0; 0; 0; 0; 0; 0; 0; 0; 16; 0];
     raw_min 627 []]
    (mkFrm true 1, [],
     [mkXfRec [] (mkFrm false 0) 0 0 [0; 0; 0; 0; 0; 0; 0; 0; 0; 16; 0; 0];
      mkXfRec [] (mkFrm false 0) 0 164 [233; 4; 0; 0; 0; 0; 0; 0; 0; 16; 0; 0];
      mkXfRec [raw_min 1025 [231; 4; 47; 0]] (mkFrm false 3) 0 165 [];
      mkXfRec [] (mkFrm false 0) 0 14 []; mkXfRec [] (mkFrm false 0) 0 46 []])
    [234; 4; 0; 151; 2; 0].

Lemma example_styles_legal :
  wf_slayout example_styles = true /\
  NumFmt.xlsb_formats (styles_of example_styles) =
    [NumFmt.Other; NumFmt.DateTime; NumFmt.TimeDelta; NumFmt.DateTime; NumFmt.TimeDelta] /\
  read_styles (Some (encode_styles example_styles)) =
    Ok [NumFmt.Other; NumFmt.DateTime; NumFmt.TimeDelta; NumFmt.DateTime; NumFmt.TimeDelta].
Proof. repeat split; vm_compute; reflexivity. Qed.

(* the colliding byte pairs really are in the bodies of the example's other records *)
Fixpoint has_pair (a b : N) (l : list N) : bool :=
  match l with
  | x :: ((y :: _) as t) => ((x =? a) && (y =? b)) || has_pair a b t
  | _ => false
  end.

Lemma example_styles_collides :
  existsb (fun r : rawrec => has_pair 233 4 (snd r)) (sl_mid example_styles) = true /\
  existsb (fun r : rawrec => has_pair 231 4 (snd r)) (sl_mid example_styles) = true.
Proof. split; vm_compute; reflexivity. Qed.

(* the same tables with nothing around them (what the generators wrote before this round) *)
Definition bare_styles : slayout :=
  mkSLayout [raw_min 278 []]
    (Some (mkFrm true 0, [],
           [mkFmtRec [] (mkFrm false 0) 164 [121; 121; 121; 121; 92; 45; 109; 109] [];
            mkFmtRec [] (mkFrm false 0) 165 [91; 104; 93; 58; 109; 109] []]))
    [raw_min 616 []]
    (mkFrm true 0, [],
     [mkXfRec [] (mkFrm false 0) 0 0 []; mkXfRec [] (mkFrm false 0) 0 164 [];
      mkXfRec [] (mkFrm false 0) 0 165 []; mkXfRec [] (mkFrm false 0) 0 14 [];
      mkXfRec [] (mkFrm false 0) 0 46 []])
    [].

Lemma example_independent :
  wf_slayout bare_styles = true /\ styles_of bare_styles = styles_of example_styles /\
  encode_styles bare_styles <> encode_styles example_styles.
Proof. repeat split; vm_compute; try reflexivity; discriminate. Qed.
