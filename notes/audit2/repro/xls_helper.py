"""helper for the xls_<n>.py probes: a Workbook stream from explicit record lists (any order), wrapped
with xlsgen.cfb_wrap.  Written from [MS-XLS]; read-only use of /verif/tools/xlsgen.py."""
import sys, struct
sys.path.insert(0, '/verif/tools'); sys.path.insert(0, '/tmp/ag/audit2')
import xlsgen
from vhrun import vh, hx
OUT = '/tmp/ag/audit2/repro/out/'
def rec(t, b=b''): return struct.pack('<HH', t, len(b)) + b
def bof8(dt): return rec(0x0809, struct.pack('<HHHHII', 0x0600, dt, 0x0DBB, 0x07CC, 0, 0x0306))
def bof5(dt): return rec(0x0809, struct.pack('<HHHH', 0x0500, dt, 0x0DBB, 0x07CC))
def sxs(s, wide=None):          # ShortXLUnicodeString
    u = xlsgen.units_of(s); wide = any(x > 255 for x in u) if wide is None else wide
    return xlsgen.short_xl_unicode(u, wide)
def xs(s, wide=None):           # XLUnicodeString
    u = xlsgen.units_of(s); wide = any(x > 255 for x in u) if wide is None else wide
    return xlsgen.xl_unicode(u, wide)
def workbook(pre, sheets, post, bofrec=None, bs=None):
    """pre / post: [(typ, body)] before / after the BoundSheet8 block (post ends before EOF, added here);
    sheets: [(name, hs, dt, substream bytes)]; bs(name,pos,hs,dt) -> BoundSheet body override"""
    g0 = (bofrec or bof8(5)) + b''.join(rec(t, b) for t, b in pre)
    g1 = b''.join(rec(t, b) for t, b in post) + rec(0x0A)
    mk = bs or (lambda name, pos, hs, dt: struct.pack('<IBB', pos, hs, dt) + sxs(name))
    blen = sum(len(rec(0x85, mk(n, 0, hs, dt))) for n, hs, dt, _ in sheets)
    pos = len(g0) + blen + len(g1); bsr = b''
    for n, hs, dt, sub in sheets:
        bsr += rec(0x85, mk(n, pos, hs, dt)); pos += len(sub)
    s = g0 + bsr + g1 + b''.join(sub for _, _, _, sub in sheets)
    return s.ljust(4096, b'\0')
def sheet(records, dt=0x10, b=bof8): return b(dt) + b''.join(rec(t, x) for t, x in records) + rec(0x0A)
def number(r, c, v, xf=0): return (0x0203, struct.pack('<HHHd', r, c, xf, v))
def xf(ifmt): return (0x00E0, struct.pack('<HHHHHHIIH', 0, ifmt, 0x0001, 0x0020, 0, 0, 0, 0, 0x20C0))
def write(path, stream, name='Workbook', extra=(), **kw):
    open(path, 'wb').write(xlsgen.cfb_wrap([(name, stream)] + list(extra), **kw)); return path
def unhex(out):
    import re
    def h(x):
        try: return '"' + bytes.fromhex(x).decode('utf-8', 'replace') + '"'
        except Exception: return x
    # name=formula pairs and bare hex lists (sheets / names fields), then S<hex> cell strings
    out = re.sub(r'(?<![0-9a-zA-Z"])((?:[0-9a-f]{2})*)=((?:[0-9a-f]{2})*)(?![0-9a-f])', lambda m: h(m.group(1)) + '=' + h(m.group(2)), out)
    out = ';;'.join(','.join(h(x) if re.fullmatch(r'(?:[0-9a-f]{2})+', x) else x for x in f.split(',')) if '[' not in f else f for f in out.split(';;'))
    out = re.sub(r'(?<=[|,/])((?:[0-9a-f]{2}){2,})(?=[,/\]])', lambda m: h(m.group(1)), out)   # formula ranges
    return re.sub(r'(?<![0-9a-f])S((?:[0-9a-f]{2})+)', lambda m: 'S"' + bytes.fromhex(m.group(1)).decode('utf-8', 'replace') + '"', out)
