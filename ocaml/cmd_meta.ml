(* C16: workbook metadata — the model side.  Command `meta`, sub-commands (first argument):
     xlsx  D1904 PFX RPFX OMITPR TRUE PREXTRA JUNK RELS RJUNK SHEETS NAMES
             -> rels wire|workbook wire|model|spec|known|legal
           RELS items Id:Target:Type; SHEETS items name:vis:kind:rid:tstyle:PART:perm:omit:pre:post:talt
           (PART = part name relative to xl/, any folders / file name; xlsb: name:vis:kind:rid:PART:tabid:talt)
     xlsxr RELSWIRE WBWIRE                       M only, raw event lists
     xlsb  D1904 OMITPROP FLAGSHI PROPREST JUNK1 JUNK2 END TAIL RELS SHEETS LINKS XTIS NAMES
           (LINKS: the supporting links of the EXTERNALS block in record order, kind:hexpayload,…)
             -> rels wire|hex workbook.bin|model|spec|known|legal
     xlsbr RELSWIRE HEX                          M only
     xls   D1904 OMIT1904 JUNK0 JUNK1 JUNK2 JUNK3 TAIL SHEETS XTIS XCUTS NAMES
             -> hex Workbook stream|model|spec|known|legal   (sheet positions are relative to TAIL)
     xlsr  HEX                                   M only
     ods   JUNK NJUNK OMITNAMES STYLES SHEETS CONTENTS NAMES AFTERS LNAMES LOPTS
             -> content wire|model|spec|known|legal
           per sheet, ';' separated: CONTENTS / AFTERS = event wire of the table's children before /
           after its named-expressions element; LNAMES = the sheet-scoped names (items like NAMES);
           LOPTS = <omit 0|1>@<event wire inside the element>
     odsr  WIRE                                  M only
   Strings: hex of UTF-8.  Lists: ',' separated, "-" = empty list; fields of an item: ':'.
   attrs: k=v&k=v (hex), "-" = none.  Event wire (tools/textgen.py): tokens separated by ' ':
     S<hexname>[,<hexkey>=<hexval>]* | E<hexname> | T<hex> | C<hex> | O
   Answers (same text as tools/props/c16.py builds from the `open` command of vh):
     ok/<name:v|h|vh:ws|dlg|mac|chart|vba,...>/<name=text,...>/<0|1>   |  err | panic | fuel *)
open Conv
open Prelude
open Meta

let s_of_hex = scalars_of_hex
let hex_of_s = hex_of_scalars
let show_f64 = Cmd_ptg.show_f64

(* ---------- events ---------- *)
let wire_attrs (a : attrs) =
  String.concat "," (List.map (fun (k, v) -> hex_of_s k ^ "=" ^ hex_of_s v) a)
let wire_event = function
  | Start (n, a) -> "S" ^ hex_of_s n ^ (if a = [] then "" else "," ^ wire_attrs a)
  | End n -> "E" ^ hex_of_s n
  | Text s -> "T" ^ hex_of_s s
  | CData s -> "C" ^ hex_of_s s
  | Other -> "O"
let wire evs = String.concat " " (List.map wire_event evs)

let tail1 s = String.sub s 1 (String.length s - 1)
let parse_kv kv =
  match String.split_on_char '=' kv with
  | [k; v] -> (s_of_hex k, s_of_hex v)
  | _ -> failwith "bad attribute"
let parse_event tok =
  match tok.[0] with
  | 'S' ->
    (match String.split_on_char ',' (tail1 tok) with
     | n :: a -> Start (s_of_hex n, List.map parse_kv a)
     | [] -> failwith "bad start")
  | 'E' -> End (s_of_hex (tail1 tok))
  | 'T' -> Text (s_of_hex (tail1 tok))
  | 'C' -> CData (s_of_hex (tail1 tok))
  | _ -> Other
let unwire (s : string) : event list =
  if s = "" || s = "-" then []
  else List.map parse_event (List.filter (fun t -> t <> "") (String.split_on_char ' ' s))

let parse_attrs (s : string) : attrs =
  if s = "" || s = "-" then [] else List.map parse_kv (String.split_on_char '&' s)

let items (s : string) : string list =
  if s = "" || s = "-" then [] else String.split_on_char ',' s
let fields (s : string) : string array = Array.of_list (String.split_on_char ':' s)
let bool_of s = (s = "1")
let hx s = if s = "." then [] else s_of_hex s     (* "." = empty string inside a list item *)

let vis_of = function "v" -> Visible | "h" -> Hidden | _ -> VeryHidden
let kind_of = function
  | "ws" -> WorkSheet | "dlg" -> DialogSheet | "mac" -> MacroSheet | "chart" -> ChartSheet
  | _ -> Vba
let vis_s = function Visible -> "v" | Hidden -> "h" | VeryHidden -> "vh"
let kind_s = function
  | WorkSheet -> "ws" | DialogSheet -> "dlg" | MacroSheet -> "mac" | ChartSheet -> "chart"
  | Vba -> "vba"

let show_parsed (sheets : meta list) (names : (str * str) list) (f : bool) : string =
  "ok/" ^ String.concat "," (List.map (fun m ->
      hex_of_s m.m_name ^ ":" ^ vis_s m.m_vis ^ ":" ^ kind_s m.m_kind) sheets)
  ^ "/" ^ String.concat "," (List.map (fun (n, t) -> hex_of_s n ^ "=" ^ hex_of_s t) names)
  ^ "/" ^ (if f then "1" else "0")
let show_outcome (o : parsed outcome) : string =
  match o with
  | Ok p -> show_parsed p.p_sheets p.p_names p.p_1904
  | Err e -> if int_of_n e = 99 then "unmodelled" else "err"
  | Panic -> "panic"
  | OutOfFuel -> "fuel"
let opt_n = function Some v -> string_of_n v | None -> "-"
let b01 b = if b then "1" else "0"

(* relationships part: items Id:Target:Type *)
let rels3 (s : string) : (str * (str * str)) list =
  List.map (fun it -> let f = fields it in (hx f.(0), (hx f.(1), hx f.(2)))) (items s)
let recs (s : string) : (BinNums.coq_N * BinNums.coq_N list) list =
  List.map (fun it -> let f = fields it in
             (n_of_string f.(0), if Array.length f > 1 then bytes_of_hex f.(1) else [])) (items s)
let triples (s : string) =
  List.map (fun it -> let f = fields it in
             ((n_of_string f.(0), n_of_string f.(1)), n_of_string f.(2))) (items s)
let meta_of f = { m_name = hx f.(0); m_vis = vis_of f.(1); m_kind = kind_of f.(2) }

(* ---------- xlsx ---------- *)
let run_xlsx = function
  | [d1904; pfx; rpfx; omitpr; tr; prextra; junk; rels; rjunk; sheets; names] ->
    let sh = List.map fields (items sheets) in
    let nm = List.map fields (items names) in
    let wb = { wb_sheets = List.map meta_of sh;
               wb_names = List.map (fun f -> (hx f.(0), hx f.(1))) nm;
               wb_1904 = bool_of d1904 } in
    let c = { xc_pfx = hx pfx; xc_rpfx = hx rpfx; xc_rels = rels3 rels;
              xc_sheets = List.map (fun f ->
                  { xs_rid = hx f.(3); xs_tstyle = n_of_string f.(4); xs_part = hx f.(5);
                    xs_perm = n_of_string f.(6); xs_omit = bool_of f.(7);
                    xs_pre = parse_attrs f.(8); xs_post = parse_attrs f.(9);
                    xs_talt = bool_of f.(10) }) sh;
              xc_names = List.map (fun f ->
                  { xn_cuts = (if f.(2) = "" || f.(2) = "-" then []
                               else List.map (fun x -> nat_of_int (int_of_string x))
                                   (String.split_on_char '.' f.(2)));
                    xn_cdata = bool_of f.(3); xn_comment = bool_of f.(4);
                    xn_pre = parse_attrs f.(5); xn_post = parse_attrs f.(6) }) nm;
              xc_omit_pr = bool_of omitpr; xc_true = bool_of tr;
              xc_pr_extra = parse_attrs prextra; xc_junk = unwire junk } in
    let rev = rels_events [] (unwire rjunk) c.xc_rels in
    let wev = xlsx_wb_events c wb in
    String.concat "|" [ wire rev; wire wev; show_outcome (xlsx_open rev wev);
                        show_parsed wb.wb_sheets wb.wb_names wb.wb_1904;
                        "-"; b01 (xlsx_legal c wb) ]
  | _ -> "bad-args"

(* ---------- xlsb ---------- *)
let run_xlsb = function
  | [d1904; omitprop; flagshi; proprest; junk1; junk2; endt; tail; rels; sheets; links; xtis; names] ->
    let sh = List.map fields (items sheets) in
    let nm = List.map fields (items names) in
    let wb = { wb_sheets = List.map meta_of sh;
               wb_names = List.map (fun f ->
                   (hx f.(0), Cmd_ptg.parse_ast (Array.of_list (String.split_on_char ' ' f.(1))))) nm;
               wb_1904 = bool_of d1904 } in
    let c = { bc_rels = rels3 rels;
              bc_sheets = List.map (fun f ->
                  { bs_rid = hx f.(3); bs_part = hx f.(4); bs_tabid = n_of_string f.(5);
                    bs_talt = bool_of f.(6) }) sh;
              bc_junk1 = recs junk1; bc_junk2 = recs junk2;
              bc_omit_prop = bool_of omitprop; bc_flags_hi = n_of_string flagshi;
              bc_prop_rest = bytes_of_hex proprest;
              (* LINKS: the supporting links in record order, kind:hexpayload,… (self | same | addin | ext) *)
              bc_links = (if links = "-" || links = "" then [] else
                            List.map (fun t -> match String.split_on_char ':' t with
                                | [k; h] -> (List.hd (Cmd_ptg.links_list (if k = "ext" then "ext:" else k)),
                                             bytes_of_hex (if h = "-" then "" else h))
                                | [k] -> (List.hd (Cmd_ptg.links_list (if k = "ext" then "ext:" else k)), [])
                                | _ -> failwith "bad link") (String.split_on_char ',' links));
              bc_xtis = triples xtis;
              bc_name_hdr = List.map (fun f ->
                  ((n_of_string f.(2), n_of_string f.(3)), n_of_string f.(4))) nm;
              bc_end = n_of_string endt; bc_tail = bytes_of_hex tail } in
    let rev = xlsb_rels_events [] c.bc_rels in
    (* the model runs on exactly the bytes that travel *)
    let bin = bytes_of_hex (hex_of_bytes (xlsb_workbook_bin c wb)) in
    let ext = spec_ext (List.map (fun m -> m.m_name) wb.wb_sheets) c.bc_xtis in
    String.concat "|" [ wire rev; hex_of_bytes bin; show_outcome (xlsb_open show_f64 rev bin);
                        show_parsed wb.wb_sheets (spec_names_xlsb show_f64 ext wb.wb_names)
                          wb.wb_1904;
                        "-"; b01 (xlsb_legal c wb) ]
  | _ -> "bad-args"

(* ---------- xls ---------- *)
let run_xls = function
  | [d1904; omit; j0; j1; j2; j3; tail; sheets; xtis; xcuts; names] ->
    let sh = List.map fields (items sheets) in
    let nm = List.map fields (items names) in
    (* a name: name:AST:wide:flags:key:itab:rgcb(hex or -); the value is any expression of C14's grammar *)
    let wb = { wb_sheets = List.map meta_of sh;
               wb_names = List.map (fun f ->
                   (hx f.(0), Cmd_ptg.parse_ast (Array.of_list (String.split_on_char ' ' f.(1))))) nm;
               wb_1904 = bool_of d1904 } in
    let mk base =
      { lc_sheets = List.map (fun f ->
            { ls_pos = BinNat.N.add base (n_of_string f.(3)); ls_wide = bool_of f.(4);
              ls_hi = n_of_string f.(5) }) sh;
        lc_names = List.map (fun f ->
            { ln_wide = bool_of f.(2); ln_flags = n_of_string f.(3); ln_key = n_of_string f.(4);
              ln_itab = n_of_string f.(5); ln_rgcb = bytes_of_hex f.(6) }) nm;
        lc_xtis = triples xtis;
        lc_xcuts = (if xcuts = "-" then [] else
                      List.map (fun x -> Conv.nat_of_int (int_of_string x)) (String.split_on_char '.' xcuts));
        lc_junk0 = recs j0; lc_junk1 = recs j1; lc_junk2 = recs j2; lc_junk3 = recs j3;
        lc_omit_1904 = bool_of omit; lc_tail = bytes_of_hex tail } in
    (* sheet positions are given relative to the start of TAIL: the globals part has the same
       length whatever the positions are *)
    let c0 = mk BinNums.N0 in
    let glen = List.length (xls_stream c0 wb) - List.length c0.lc_tail in
    let c = mk (n_of_int glen) in
    let st = bytes_of_hex (hex_of_bytes (xls_stream c wb)) in
    String.concat "|" [ hex_of_bytes st; show_outcome (xls_parse_workbook show_f64 st);
                        show_parsed wb.wb_sheets (spec_names_xls show_f64 c wb) wb.wb_1904;
                        "-"; b01 (xls_legal c wb) ]
  | _ -> "bad-args"

(* ---------- ods ---------- *)
let run_ods = function
  | [junk; njunk; omitnames; styles; sheets; contents; names; afters; lnames; lopts] ->
    let sh = List.map fields (items sheets) in
    let nm = List.map fields (items names) in
    let per_sheet x = Array.of_list (if x = "" || x = "-" then [] else String.split_on_char ';' x) in
    let cont = per_sheet contents and aft = per_sheet afters and lnm = per_sheet lnames
    and lop = per_sheet lopts in
    let get a i = if i < Array.length a then a.(i) else "-" in
    let name_of f = (hx f.(0), hx f.(1)) in
    let choice_of f = { on_expr = bool_of f.(2); on_swap = bool_of f.(3);
                        on_pre = parse_attrs f.(4); on_post = parse_attrs f.(5) } in
    let lfields i = List.map fields (items (get lnm i)) in
    let wb = { ow_sheets = List.mapi (fun i f -> (meta_of f, List.map name_of (lfields i))) sh;
               ow_names = List.map name_of nm } in
    let c = { oc_styles = List.map (fun it -> let f = fields it in
                                     (hx f.(0), (match f.(1) with "t" -> Some true | "f" -> Some false
                                                                | _ -> None))) (items styles);
              oc_sheets = List.mapi (fun i f ->
                  let (omit, lj) =
                    match String.split_on_char '@' (get lop i) with
                    | [o; w] -> (bool_of o, unwire w)
                    | _ -> (true, []) in
                  { os_style = (if f.(3) = "-" then None else Some (hx f.(3)));
                    os_pre = parse_attrs f.(4); os_post = parse_attrs f.(5);
                    os_swap = bool_of f.(6);
                    os_content = unwire (get cont i);
                    os_lnames = List.map choice_of (lfields i);
                    os_lnames_junk = lj; os_omit_lnames = omit;
                    os_after = unwire (get aft i) }) sh;
              oc_names = List.map choice_of nm;
              oc_junk = unwire junk; oc_names_junk = unwire njunk;
              oc_omit_names = bool_of omitnames } in
    let ev = ods_events c wb in
    String.concat "|" [ wire ev; show_outcome (ods_parse_content ev);
                        show_parsed (ow_metas wb) (ow_all_names wb) false;
                        "-"; b01 (ods_legal c wb) ]
  | _ -> "bad-args"

let run (args : string list) : string =
  match args with
  | "xlsx" :: r -> run_xlsx r
  | "xlsxr" :: [rw; ww] -> show_outcome (xlsx_open (unwire rw) (unwire ww))
  | "xlsb" :: r -> run_xlsb r
  | "xlsbr" :: [rw; h] -> show_outcome (xlsb_open show_f64 (unwire rw) (bytes_of_hex h))
  | "xls" :: r -> run_xls r
  | "xlsr" :: [h] -> show_outcome (xls_parse_workbook show_f64 (bytes_of_hex h))
  | "ods" :: r -> run_ods r
  | "odsr" :: [w] -> show_outcome (ods_parse_content (unwire w))
  | _ -> "bad-args"

let () = Registry.register "meta" run
let init () = ()
