(* Password.v — detection of password-protected workbooks (property C20).
   xls  : the globals loop of Xls::parse_workbook at the record level (src/xls.rs): the first
          FILEPASS record (0x002F) ends the loop with the Password error (after fix 489ec3a for
          every encryption type); the loop stops at EOF (0x000A); other records are either
          interpreted (and may fail) or skipped.
   ods  : the manifest scan of check_for_password_protected (src/ods.rs) at the event level
          (after fix 73af2a4 elements are matched by local name).
   xlsx / xlsb : the compound-file sniff is stated over Cfb.v in Password_proofs.v.
   Definitions only. *)
From Calamine Require Import Prelude.
Open Scope N_scope.
Set Implicit Arguments.

(* ------------------------------------------------------------------ xls globals loop *)
Inductive scan_result : Type :=
| SPassword                (* Err(XlsError::Password) *)
| SOther (e : N)           (* another error raised by an interpreted record *)
| SDone.                   (* loop finished (EOF record or end of stream) without FILEPASS *)

Definition FILEPASS : N := 47.     (* 0x002F *)
Definition EOF_REC : N := 10.      (* 0x000A *)

Section XlsGlobals.
(* [interp t body] is what an interpreted record other than FILEPASS/EOF does to the loop:
   None = carry on, Some e = the loop returns that error.  It is a parameter: the record parsers
   are modelled in BiffSst.v / BiffRec.v / Meta.v; C20 only needs that they run BEFORE the scan
   reaches a later record. *)
Variable interp : N -> list N -> option N.

Fixpoint globals_scan (recs : list (N * list N)) : scan_result :=
  match recs with
  | [] => SDone
  | (t, body) :: rest =>
      if t =? FILEPASS then SPassword
      else if t =? EOF_REC then SDone
      else match interp t body with
           | Some e => SOther e
           | None => globals_scan rest
           end
  end.
End XlsGlobals.

(* ------------------------------------------------------------------ ods manifest scan *)
(* events as quick-xml delivers them with expand_empty_elements: only the local name matters *)
Inductive mevent : Type :=
| MStart (local : list N)
| MEnd (local : list N)
| MOther.                          (* text, comments, declarations, processing instructions *)

Definition str_eqb (a b : list N) : bool :=
  (Nat.eqb (length a) (length b)) && forallb (fun p => fst p =? snd p) (combine a b).

(* "file-entry" and "encryption-data" as character codes *)
Definition FILE_ENTRY : list N := [102;105;108;101;45;101;110;116;114;121].
Definition ENCRYPTION_DATA : list N := [101;110;99;114;121;112;116;105;111;110;45;100;97;116;97].

(* inner loop: after a file-entry start, every later event up to Eof is examined *)
Fixpoint inner_scan (evs : list mevent) : bool :=
  match evs with
  | [] => false
  | MStart n :: rest => if str_eqb n ENCRYPTION_DATA then true else inner_scan rest
  | _ :: rest => inner_scan rest
  end.

(* outer loop: look for a file-entry start *)
Fixpoint manifest_scan (evs : list mevent) : bool :=
  match evs with
  | [] => false
  | MStart n :: rest => if str_eqb n FILE_ENTRY then inner_scan rest else manifest_scan rest
  | _ :: rest => manifest_scan rest
  end.

(* ---- spec: a manifest is a list of file entries, each with or without encryption data ---- *)
Record entry : Type := mkEntry {
  e_encrypted : bool;
  e_children_before : list (list N);   (* other child element names (start+end), e.g. none *)
  e_algo_children : list (list N)      (* children of encryption-data: algorithm, key-derivation… *)
}.

Definition render_elem (n : list N) : list mevent := [MStart n; MEnd n].

Definition render_entry (e : entry) : list mevent :=
  [MStart FILE_ENTRY] ++
  concat (map render_elem (e_children_before e)) ++
  (if e_encrypted e
   then [MStart ENCRYPTION_DATA] ++ concat (map render_elem (e_algo_children e)) ++ [MEnd ENCRYPTION_DATA]
   else []) ++
  [MEnd FILE_ENTRY].

Definition MANIFEST : list N := [109;97;110;105;102;101;115;116].

Definition render_manifest (es : list entry) : list mevent :=
  [MOther; MStart MANIFEST] ++ concat (map (fun e => MOther :: render_entry e) es) ++ [MOther; MEnd MANIFEST].

Definition declares_encryption (es : list entry) : bool := existsb e_encrypted es.

(* names that do not collide with the two the scan looks for *)
Definition neutral_name (n : list N) : bool :=
  negb (str_eqb n FILE_ENTRY) && negb (str_eqb n ENCRYPTION_DATA).
Definition neutral_entry (e : entry) : bool :=
  forallb neutral_name (e_children_before e) && forallb neutral_name (e_algo_children e).
