# ods_2: white space between the children of a string table:table-cell (indented content.xml) is
# appended to the cell text.  The rows / cells themselves are NOT separated by white space here, so
# this is independent of the read_row Mismatch finding (and stays after that one is repaired).
import sys; sys.path.insert(0, '/tmp/ag/audit2'); sys.path.insert(0, '/tmp/ag/audit2/repro')
from vhrun import vh, hx
from odslib import write_ods
S = hx('S1')
body = ('<table:table table:name="S1"><table:table-row>'
        '<table:table-cell office:value-type="string">\n     <text:p>abc</text:p>\n    </table:table-cell>'
        '<table:table-cell office:value-type="string">\n     <text:p>l1</text:p>\n     <text:p>l2</text:p>\n    </table:table-cell>'
        '</table:table-row></table:table>')
p = write_ods('ods_2_cell_ws.ods', body)
print('cell_ws', vh('ods', p, ['range ' + S]))
# comment between paragraphs (legal XML, harmless) as control
body = ('<table:table table:name="S1"><table:table-row>'
        '<table:table-cell office:value-type="string"><!-- c --><text:p>abc</text:p></table:table-cell>'
        '</table:table-row></table:table>')
p = write_ods('ods_2_cell_comment.ods', body)
print('cell_comment', vh('ods', p, ['range ' + S]))
