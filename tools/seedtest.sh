#!/bin/bash
# usage: tools/seedtest.sh <seed-dir> [check-id ...] [-- extra args for ./check]
#   <seed-dir> = /verif/seeded/<name>  (patch.diff, demo/, meta.json)
# Applies the seeded change to a scratch copy of /repo (never to /repo itself), runs the listed
# checks (default: the property named in meta.json) against that copy with VERIF_REPO, and prints
# one line per check: "<seed> <check> rc=<n> <VIOLATION line or summary>".  Evidence and replays of
# these runs go to a scratch directory (VERIF_OUT), never into /verif/evidence.
set -u
SD=$(readlink -f "$1"); shift
NAME=$(basename "$SD")
PROP=$(python3 -c "import json,sys;print(json.load(open('$SD/meta.json'))['property'])")
CHECKS=()
while [ $# -gt 0 ] && [ "$1" != "--" ]; do CHECKS+=("$1"); shift; done
[ "${1:-}" = "--" ] && shift
[ ${#CHECKS[@]} -eq 0 ] && CHECKS=("$PROP")
TIER=${SEED_TIER:-quick}
W=/tmp/seedrun/$NAME
rm -rf "$W"; mkdir -p "$W"
rsync -a --exclude target --exclude .git /repo/ "$W/repo/"
( cd "$W/repo" && patch -p1 -s < "$SD/patch.diff" ) || { echo "$NAME: patch does not apply"; rm -rf "$W"; exit 3; }
cd "$(dirname "$0")/.."
for c in "${CHECKS[@]}"; do
  VERIF_REPO="$W/repo" VERIF_OUT="$W/out" timeout 3000 ./check "$c" --tier "$TIER" "$@" > "$W/$c.log" 2>&1
  rc=$?
  line=$(grep -E '^VIOLATION' "$W/$c.log" | head -1)
  [ -z "$line" ] && line=$(grep -E "^$c $TIER:" "$W/$c.log" | tail -1)
  echo "$NAME $c rc=$rc $line"
  if [ -n "${SEED_KEEP_LOG:-}" ]; then mkdir -p "$SD/runs"; cp "$W/$c.log" "$SD/runs/$c.$TIER.log"; fi
  rp=$(echo "$line" | sed -n 's/.*replay=\([^ ]*\).*/\1/p')
  if [ -n "$rp" ] && [ -f "$rp" ] && [ -n "${SEED_KEEP_LOG:-}" ]; then cp "$rp" "$SD/runs/$c.replay.json" 2>/dev/null; fi
done
# remove the scratch copy and its build output
TAG=$(python3 -c "import hashlib;print(hashlib.sha1('$W/repo'.encode()).hexdigest()[:8])")
rm -rf "$W" ".cache/target-$TAG" ".cache/harness-$TAG"
