(* Range_spec.v — the vocabulary in which property C05 (and C01–C04, C08, which reuse it) is
   stated: well-formedness, the rectangle of a range, bounding boxes, "value at an absolute
   position or the default", documented preconditions of each operation.  Definitions only. *)
From Calamine Require Import Prelude Range.
Open Scope N_scope.
Set Implicit Arguments.

Section RangeSpec.
Variable T : Type.
Variable d : T.
Variable teqb : T -> T -> bool.

(* A range is well formed when it is empty, or its corners are ordered componentwise and the
   inner vector holds exactly height * width cells. *)
Definition Wf (r : range T) : Prop :=
  r_inner r = [] \/
  (fst (r_start r) <= fst (r_end r) /\ snd (r_start r) <= snd (r_end r) /\
   N.of_nat (length (r_inner r)) =
     (fst (r_end r) - fst (r_start r) + 1) * (snd (r_end r) - snd (r_start r) + 1)).

Definition rect (r : range T) : option (pos * pos) :=
  if is_empty r then None else Some (r_start r, r_end r).

Definition in_box (s e q : pos) : bool :=
  (fst s <=? fst q) && (fst q <=? fst e) && (snd s <=? snd q) && (snd q <=? snd e).

Definition in_rect (r : range T) (q : pos) : bool :=
  match rect r with None => false | Some (s, e) => in_box s e q end.

Definition pos_eqb (a b : pos) : bool := (fst a =? fst b) && (snd a =? snd b).

(* value at an absolute position, the default outside the rectangle *)
Definition cell_or (r : range T) (q : pos) : T :=
  match get_value r q with Some v => v | None => d end.

(* bounding box of an optional rectangle and one position *)
Definition bbox (b : option (pos * pos)) (p : pos) : pos * pos :=
  match b with
  | None => (p, p)
  | Some (s, e) => ((N.min (fst s) (fst p), N.min (snd s) (snd p)),
                    (N.max (fst e) (fst p), N.max (snd e) (snd p)))
  end.

(* tight bounding box of a non-empty list of positions *)
Definition tight_bbox (ps : list pos) : option (pos * pos) :=
  match ps with
  | [] => None
  | p0 :: rest => Some (fold_left (fun b p => bbox (Some b) p) rest (p0, p0))
  end.

(* last value written at q by a list of cells, default if none *)
Definition last_write (cs : list (pos * T)) (q : pos) : T :=
  fold_left (fun acc c => if pos_eqb (fst c) q then snd c else acc) cs d.

(* rows are non-decreasing *)
Fixpoint sorted_by_row (cs : list (pos * T)) : Prop :=
  match cs with
  | [] => True
  | c :: rest => (match rest with [] => True | c' :: _ => fst (fst c) <= fst (fst c') end)
                 /\ sorted_by_row rest
  end.

Definition le2 (s e : pos) : Prop := fst s <= fst e /\ snd s <= snd e.
Definition box_cells (s e : pos) : N := (fst e - fst s + 1) * (snd e - snd s + 1).

(* Documented preconditions of each operation in state r.  Cell counts must fit u32 because the
   Rust code computes them in u32 (Range::new) — such ranges cannot be allocated anyway. *)
Definition pre (r : range T) (o : op T) : Prop :=
  match o with
  | ONew s e => le2 s e /\ box_cells s e <= U32MAX
  | OEmpty => True
  | OFromSparse cs =>
      sorted_by_row cs /\
      (forall c, In c cs -> fst (fst c) <= U32MAX /\ snd (fst c) <= U32MAX) /\
      match tight_bbox (map fst cs) with
      | None => True
      | Some (s, e) => fst e - fst s < U32MAX /\ snd e - snd s < U32MAX
      end
  | OSetValue p v =>
      is_empty r = true \/
      (le2 (r_start r) p /\ fst p - fst (r_start r) < U32MAX /\ snd p - snd (r_start r) < U32MAX)
  | OWindow s e => le2 s e /\ box_cells s e <= U32MAX
  end.

(* the precondition chain along a history *)
Fixpoint pre_all (r : range T) (ops : list (op T)) : Prop :=
  match ops with
  | [] => True
  | o :: rest => pre r o /\ forall r', step d r o = Ok r' -> pre_all r' rest
  end.

(* ---------- preconditions of the code as of /repo HEAD (after 19d4f5b, 3140dd1) ---------- *)
(* The rectangle has fewer than 2^32 rows and fewer than 2^32 columns: the domain on which
   Range.width / Range.height coincide with the u32 computation of the real code. *)
Definition fits32 (r : range T) : Prop :=
  is_empty r = true \/
  (fst (r_end r) - fst (r_start r) < U32MAX /\ snd (r_end r) - snd (r_start r) < U32MAX).

(* from_sparse no longer needs its cells sorted by row.  What is left: the coordinates are u32
   values (a typing fact), and the bounding box is not the full 2^32 x 2^32 grid (whose area
   saturates usize). *)
Definition pre_sparse (cs : list (pos * T)) : Prop :=
  (forall c, In c cs -> fst (fst c) <= U32MAX /\ snd (fst c) <= U32MAX) /\
  match tight_bbox (map fst cs) with
  | None => True
  | Some (s, e) => box_cells s e <= U64MAX
  end.

Definition dims32 (s e : pos) : Prop := fst e - fst s < U32MAX /\ snd e - snd s < U32MAX.

(* [pre] without the sortedness of from_sparse and with the cell-count bound of new / range
   replaced by a bound on each dimension (Range::new counts cells in usize since 19d4f5b). *)
Definition pre_head (r : range T) (o : op T) : Prop :=
  match o with
  | ONew s e => le2 s e /\ dims32 s e
  | OEmpty => True
  | OFromSparse cs =>
      (forall c, In c cs -> fst (fst c) <= U32MAX /\ snd (fst c) <= U32MAX) /\
      match tight_bbox (map fst cs) with
      | None => True
      | Some (s, e) => dims32 s e
      end
  | OSetValue p v =>
      is_empty r = true \/
      (le2 (r_start r) p /\ fst p - fst (r_start r) < U32MAX /\ snd p - snd (r_start r) < U32MAX)
  | OWindow s e => le2 s e /\ dims32 s e
  end.

Fixpoint pre_head_all (r : range T) (ops : list (op T)) : Prop :=
  match ops with
  | [] => True
  | o :: rest => pre_head r o /\ forall r', step d r o = Ok r' -> pre_head_all r' rest
  end.

(* row-major enumeration used to state what cells() must return *)
Definition get_rel (r : range T) (i j : N) : option T := get r (i, j).

End RangeSpec.
