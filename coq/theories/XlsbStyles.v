(* XlsbStyles.v — property C10, xlsb: byte-level model of Xlsb::read_styles (src/xlsb/mod.rs) over
   the part xl/styles.bin, and the specification side: the layouts of that part (every record
   Excel writes around and between the number formats and the cell XFs, with arbitrary bodies), the
   encoder, which layouts are legal, and the (BrtFmt, BrtXF) tables a layout stands for.
   Definitions only (executable, extracted); proofs are in XlsbStyles_proofs.v.

   NumFmt.xlsb_formats is the same function on the two tables (BrtFmt list, BrtXF list); this file
   adds the record stream they are read from.  The framing layer (read_type, fill_buffer,
   next_skip_blocks, frame, wf_frame) is XlsbRec's, wide_str is Utf16's.

   The model follows /repo after the fix "xlsb read_styles took bytes inside font, fill and border
   records for record ids": a record the loop does not interpret is skipped as a whole (id, length,
   body).  Before it the loop read the next record id from the length byte and the body of such a
   record, so a body holding E9 04 (0x0269 BrtBeginCellXFs) or E7 04 (0x0267 BrtBeginFmts) at a
   scanned position — a font, fill or border colour — made Xlsb::new fail or shifted the table.
   Errors are classes: Err 1 = I/O (end of part) or WideStr, Err 3 = Unrecognized (check_len). *)
From Calamine Require Import Prelude RK Utf16 XlsbRec.
From Calamine Require NumFmt.
Open Scope N_scope.
Set Implicit Arguments.

Definition BRT_FMT : N := 44.             (* 0x002C BrtFmt *)
Definition BRT_XF : N := 47.              (* 0x002F BrtXF *)
Definition BRT_BEGIN_FMTS : N := 615.     (* 0x0267 BrtBeginFmts *)
Definition BRT_BEGIN_CELLXFS : N := 617.  (* 0x0269 BrtBeginCellXFs *)

(* ================= the model ================= *)
(* for _ in 0..len { let len = iter.next_skip_blocks(0x002C, &[], &mut buf)?; check_len("BrtFmt",
   len, 2)?; fmt_code = read_u16(&buf); fmt_str = wide_str(&buf[2..], &mut 0)?;
   number_formats.insert(fmt_code, detect_custom_number_format(fmt_str)) }
   The buffer is not cleared between the records: wide_str sees the tail of a longer previous
   record.  Result: the (id, format) entries in stream order (BTreeMap::insert: the last entry of
   an id wins, NumFmt.assoc_last), the buffer, the rest of the part. *)
Fixpoint fmt_items (fuel : nat) (count : N) (s buf : list N)
  : outcome (list (N * NumFmt.cell_format) * list N * list N) :=
  if count =? 0 then Ok ([], buf, s) else
  match fuel with
  | O => OutOfFuel
  | S f =>
      do a <- next_skip_blocks (S f) BRT_FMT [] s buf;
      do _ <- check_len (fst (fst a)) 2;
      let b := snd (fst a) in
      if lenN b <? 2 then Panic else                            (* read_u16(&buf), &buf[2..] *)
      do w <- wide_str (skipn 2 b);
      do more <- fmt_items f (count - 1) (snd a) b;
      Ok ((rd 2 0 b, NumFmt.detect (fst w)) :: fst (fst more), snd (fst more), snd more)
  end.

(* for _ in 0..len { let len = iter.next_skip_blocks(0x002F, &[], &mut buf)?; check_len("BrtXF",
   len, 4)?; fmt_code = read_u16(&buf[2..4]); ... }: the ifmt of every BrtXF in stream order *)
Fixpoint xf_items (fuel : nat) (count : N) (s buf : list N) : outcome (list N) :=
  if count =? 0 then Ok [] else
  match fuel with
  | O => OutOfFuel
  | S f =>
      do a <- next_skip_blocks (S f) BRT_XF [] s buf;
      do _ <- check_len (fst (fst a)) 4;
      let b := snd (fst a) in
      if lenN b <? 4 then Panic else                            (* &buf[2..4] *)
      do more <- xf_items f (count - 1) (snd a) b;
      Ok (rd 2 2 b :: more)
  end.

(* match builtin_format_by_code(fmt_code) { DateTime | TimeDelta => that, Other =>
   number_formats.get(&fmt_code).copied().unwrap_or(Other) } *)
Definition xf_format (nf : list (N * NumFmt.cell_format)) (code : N) : NumFmt.cell_format :=
  match NumFmt.builtin_format_by_code code with
  | NumFmt.DateTime => NumFmt.DateTime
  | NumFmt.TimeDelta => NumFmt.TimeDelta
  | NumFmt.Other => match NumFmt.assoc_last N.eqb code nf with
                    | Some f => f
                    | None => NumFmt.Other
                    end
  end.

(* the loop of read_styles: `buf` is empty at the head of every iteration (created empty,
   buf.clear() at the end of each); [nf] = number_formats so far *)
Fixpoint styles_loop (fuel : nat) (s : list N) (nf : list (N * NumFmt.cell_format))
  : outcome (list NumFmt.cell_format) :=
  match fuel with
  | O => OutOfFuel
  | S f =>
      do ts <- read_type s;
      do fb <- fill_buffer (snd ts) [];
      let buf := snd (fst fb) in
      if fst ts =? BRT_BEGIN_FMTS then
        do _ <- check_len (fst (fst fb)) 4;
        if lenN buf <? 4 then Panic else                        (* read_usize(&buf) *)
        do r <- fmt_items f (rd 4 0 buf) (snd fb) buf;
        styles_loop f (snd r) (nf ++ fst (fst r))
      else if fst ts =? BRT_BEGIN_CELLXFS then
        do _ <- check_len (fst (fst fb)) 4;
        if lenN buf <? 4 then Panic else
        do codes <- xf_items f (rd 4 0 buf) (snd fb) buf;
        Ok (map (xf_format nf) codes)                           (* break *)
      else
        (* `_ => { let _ = iter.fill_buffer(&mut buf)?; }`: the record is skipped as a whole *)
        styles_loop f (snd fb) nf
  end.

(* Xlsb::read_styles; None: the package has no xl/styles.bin ("it is fine if path does not
   exists"): self.formats stays empty *)
Definition read_styles (part : option (list N)) : outcome (list NumFmt.cell_format) :=
  match part with
  | None => Ok []
  | Some s => styles_loop (S (length s)) s []
  end.

(* ================= specification side ================= *)
(* a BrtFmt: ifmt, stFmtCode, then whatever follows in the record; a BrtXF: ixfeParent, iFmt, then
   the rest of the structure (font, fill, border ids, alignment, protection ...: 12 bytes in
   Excel's files, arbitrary here) *)
Record fmt_rec : Type := mkFmtRec {
  fr_junk : list rawrec;        (* records before it inside FMTS (AC / FRT blocks ...) *)
  fr_frm : frm;
  fr_id : N;
  fr_code : list N;             (* the format string, scalar values *)
  fr_tail : list N
}.

Record xf_rec : Type := mkXfRec {
  xr_junk : list rawrec;        (* records before it inside CELLXFS (FRT records of the previous XF) *)
  xr_frm : frm;
  xr_parent : N;
  xr_ifmt : N;
  xr_tail : list N
}.

Record slayout : Type := mkSLayout {
  sl_pre : list rawrec;         (* BrtBeginStyleSheet, ... *)
  sl_fmts : option (frm * list N * list fmt_rec);
                                (* FMTS is optional: BrtBeginFmts (count, then [tail]) and its BrtFmt *)
  sl_mid : list rawrec;         (* BrtEndFmts, FONTS (BrtBeginFonts, BrtFont..., BrtEndFonts), FILLS,
                                   BORDERS, CELLSTYLEXFS (with its own BrtXF records) *)
  sl_xfs : frm * list N * list xf_rec;
                                (* BrtBeginCellXFs (count, tail) and the cell XFs *)
  sl_post : list N              (* BrtEndCellXFs, STYLES, DXFS, ... BrtEndStyleSheet: never read *)
}.

Definition fmt_body (r : fmt_rec) : list N := le_bytes 2 (fr_id r) ++ enc_wide (fr_code r) ++ fr_tail r.
Definition enc_fmt (r : fmt_rec) : list N :=
  flat_map enc_raw (fr_junk r) ++ frame (fr_frm r) BRT_FMT (fmt_body r).

Definition xf_body (r : xf_rec) : list N := le_bytes 2 (xr_parent r) ++ le_bytes 2 (xr_ifmt r) ++ xr_tail r.
Definition enc_xf (r : xf_rec) : list N :=
  flat_map enc_raw (xr_junk r) ++ frame (xr_frm r) BRT_XF (xf_body r).

(* E *)
Definition encode_styles (L : slayout) : list N :=
  flat_map enc_raw (sl_pre L) ++
  match sl_fmts L with
  | Some (fr, tail, items) =>
      frame fr BRT_BEGIN_FMTS (le_bytes 4 (lenN items) ++ tail) ++ flat_map enc_fmt items
  | None => []
  end ++
  flat_map enc_raw (sl_mid L) ++
  (let '(fr, tail, items) := sl_xfs L in
   frame fr BRT_BEGIN_CELLXFS (le_bytes 4 (lenN items) ++ tail) ++ flat_map enc_xf items) ++
  sl_post L.

(* the two tables a layout stands for: what NumFmt.v starts from *)
Definition fmts_of (L : slayout) : list fmt_rec :=
  match sl_fmts L with Some (_, _, items) => items | None => [] end.
Definition xfs_of (L : slayout) : list xf_rec := snd (sl_xfs L).

Definition styles_of (L : slayout) : NumFmt.biff_styles :=
  NumFmt.mkBiffStyles (map (fun r => (fr_id r, fr_code r)) (fmts_of L)) (map xr_ifmt (xfs_of L)).

(* ---- which layouts are legal ---- *)
(* outside FMTS / CELLXFS any record but their two opening records (each collection occurs once
   in STYLESHEET = BrtBeginStyleSheet [FMTS] [FONTS] [FILLS] [BORDERS] CELLSTYLEXFS CELLXFS ...);
   the bodies are arbitrary — in particular they may hold the byte pairs E7 04 / E9 04 *)
Definition outer_ok (r : rawrec) : bool :=
  wf_raw r && negb (snd (fst r) =? BRT_BEGIN_FMTS) && negb (snd (fst r) =? BRT_BEGIN_CELLXFS).

(* inside a collection any record but the collection's own item record *)
Definition junk_ok (item : N) (r : rawrec) : bool := wf_raw r && negb (snd (fst r) =? item).

Definition wf_fmt (r : fmt_rec) : bool :=
  forallb (junk_ok BRT_FMT) (fr_junk r) && wf_frame (fr_frm r) BRT_FMT (fmt_body r) &&
  (fr_id r <? 65536) && forallb scalarb (fr_code r) && (utf16_len (fr_code r) <=? 32767).

Definition wf_xf (r : xf_rec) : bool :=
  forallb (junk_ok BRT_XF) (xr_junk r) && wf_frame (xr_frm r) BRT_XF (xf_body r) &&
  (xr_parent r <? 65536) && (xr_ifmt r <? 65536).

Definition wf_slayout (L : slayout) : bool :=
  forallb outer_ok (sl_pre L) &&
  match sl_fmts L with
  | Some (fr, tail, items) =>
      wf_frame fr BRT_BEGIN_FMTS (le_bytes 4 (lenN items) ++ tail) && forallb wf_fmt items &&
      (lenN items <? 4294967296)
  | None => true
  end &&
  forallb outer_ok (sl_mid L) &&
  (let '(fr, tail, items) := sl_xfs L in
   wf_frame fr BRT_BEGIN_CELLXFS (le_bytes 4 (lenN items) ++ tail) && forallb wf_xf items &&
   (lenN items <? 4294967296)).

(* a record with the shortest framing *)
Definition raw_min (id : N) (body : list N) : rawrec := (min_frm id body, id, body).
