(* FormulaSheet_proofs — C14: every cell of a shared formula of an xls sheet reports the shared
   expression seen from its own position, every cell of an array formula the array's expression
   (former known class K_PTGEXP, xls half).  On top of Ptg_proofs.rpn_correct_xls, which is the
   stack-machine induction with a base position (PtgRefN / PtgAreaN). *)
From Coq Require Import String.
From Calamine Require Import Prelude Range Range_spec Range_proofs Col26 Col26_proofs FtabRef Ptg Ptg_proofs
  FormulaEnv FormulaEnv_proofs FormulaSheet.
Open Scope N_scope.

(* ------------------------------------------------------------------ the offsets are signed *)
(* a relative component stores the offset d (rows: -32768 <= d < 32768, columns: -128 <= d < 128, or
   any 14-bit two's complement value) as d mod 2^16 resp. its low 8 bits; [translate] adds the stored
   field modulo 65536 / 256, which is base + d modulo 65536 / 256 *)
Lemma translate_signed_row : forall (base d : Z), (0 <= base)%Z ->
  ((base + d mod 65536) mod 65536 = (base + d) mod 65536)%Z.
Proof. intros base d H. rewrite Z.add_mod_idemp_r by lia. reflexivity. Qed.
Lemma translate_signed_col : forall (base d : Z), (0 <= base)%Z ->
  ((base + (d mod 16384) mod 256) mod 256 = (base + d) mod 256)%Z.
Proof.
  intros base d H. rewrite Z.add_mod_idemp_r by lia.
  replace (d mod 16384)%Z with (d - 16384 * (d / 16384))%Z by (pose proof (Z.div_mod d 16384); lia).
  replace (base + (d - 16384 * (d / 16384)))%Z with (base + d + (- 64 * (d / 16384)) * 256)%Z by lia.
  rewrite Z.mod_add by lia. reflexivity.
Qed.

(* ------------------------------------------------------------------ the first token is never PtgExp *)
Lemma encode_head : forall e, exists b t, encode_xls e = b :: t /\ b <> 1.
Proof.
  unfold encode_xls.
  induction e using expr_ind'; cbn [encode];
    try (destruct k; cbn [cls_ptg app]; (eexists; eexists; split; [reflexivity|discriminate]));
    try (cbn [app]; eexists; eexists; split; [reflexivity|discriminate]).
  - (* EUn *) destruct IHe as (b & t & -> & Hb). cbn [app]. eauto.
  - (* EBin *) destruct IHe1 as (b & t & -> & Hb). cbn [app]. eauto.
  - (* EParen *) destruct IHe as (b & t & -> & Hb). cbn [app]. eauto.
  - (* EFunc *)
    destruct args as [|a args].
    + destruct k; cbn [flat_map cls_ptg app]; eexists; eexists; (split; [reflexivity|discriminate]).
    + inversion H as [|? ? Ha _]; subst. destruct Ha as (b & t & E & Hb).
      cbn [flat_map]. rewrite E. cbn [app]. eauto.
  - (* EFuncVar *)
    destruct args as [|a args].
    + destruct k; cbn [flat_map cls_ptg app]; eexists; eexists; (split; [reflexivity|discriminate]).
    + inversion H as [|? ? Ha _]; subst. destruct Ha as (b & t & E & Hb).
      cbn [flat_map]. rewrite E. cbn [app]. eauto.
  - (* ESum *) destruct IHe as (b & t & -> & Hb). cbn [app]. eauto.
  - (* EAttrPost *) destruct IHe as (b & t & -> & Hb). cbn [app]. eauto.
  - (* EMem *) destruct m, k; cbn [mem_ptg cls_ptg app]; eexists; eexists; (split; [reflexivity|discriminate]).
Qed.

Lemma exp_target_plain : forall e, exp_target (frame_xls (encode_xls e)) = None.
Proof.
  intros e. destruct (encode_head e) as (b & t & E & Hb). unfold frame_xls. rewrite E.
  cbn [le app]. unfold exp_target.
  destruct t as [|r0 [|r1 [|c0 [|c1 t']]]]; try reflexivity.
  replace (b =? 1) with false by (symmetry; apply N.eqb_neq; exact Hb).
  rewrite andb_false_r. reflexivity.
Qed.

Lemma exp_target_exp : forall first, wf_pos first = true -> exp_target (cpf_exp first) = Some first.
Proof.
  intros [r c] H. unfold wf_pos in H. cbn [fst snd] in H. apply andb_prop in H. destruct H as [Hr Hc].
  apply N.ltb_lt in Hr, Hc.
  unfold cpf_exp, frame_xls. cbn [fst snd le app length exp_target N.of_nat Pos.of_succ_nat Pos.succ].
  change (5 mod 256 =? 5) with true. change (5 / 256 mod 256 =? 0) with true. cbn [andb N.eqb Pos.eqb].
  rewrite !le2_eq by assumption. reflexivity.
Qed.

Section Proofs.
Variable show_f64 : N -> list N.
Variable unrecognised : N -> N -> list N.
Variable sheets : list (list N).
Variable names : list (list N).
Variable xtis : list (N * N * N).

Notation env := (env_at sheets names xtis).
Notation rend := (fun b => render_xls show_f64 (env b)).

Lemma parse_exp : forall b first, wf_pos first = true ->
  xls_parse_formula show_f64 (env b) (cpf_exp first) = Ok [].
Proof.
  intros b [r c] H. unfold wf_pos in H. cbn [fst snd] in H. apply andb_prop in H. destruct H as [Hr Hc].
  apply N.ltb_lt in Hr, Hc.
  destruct (refuted_ptgexp show_f64 (env b) {| be_sheets := []; be_names := []; be_base := None |} Hr Hc) as [H _].
  exact H.
Qed.

(* ---------- well-formedness does not depend on which cell is the base; an expression without
   PtgRefN / PtgAreaN reads the same from every cell ---------- *)
Lemma wf_base_some : forall p q e, wf_xls (env (Some p)) e = wf_xls (env (Some q)) e.
Proof. reflexivity. Qed.

Lemma wf_allow_mono : forall rowlim wi nn ws el rb e,
  wf rowlim wi nn ws false el rb e = true -> wf rowlim wi nn ws true el rb e = true.
Proof.
  intros rowlim wi nn ws el rb. induction e using expr_ind'; cbn [wf]; intros Hwf; try assumption;
    try (apply IHe; assumption); try discriminate.
  - (* EBin *)
    apply andb_prop in Hwf. destruct Hwf as [Hwf Hb]. apply andb_prop in Hwf. destruct Hwf as [Hop Ha].
    rewrite Hop, (IHe1 Ha), (IHe2 Hb). reflexivity.
  - (* EFunc *)
    destruct (nthN FTAB_ARGC_REF i); [|discriminate].
    apply andb_prop in Hwf. destruct Hwf as [Hwf Hargs]. rewrite Hwf. cbn [andb].
    apply forallb_forall. intros a Hin. rewrite Forall_forall in H. apply H; [exact Hin|].
    rewrite forallb_forall in Hargs. apply Hargs. exact Hin.
  - (* EFuncVar *)
    apply andb_prop in Hwf. destruct Hwf as [Hwf Hargs]. rewrite Hwf. cbn [andb].
    apply forallb_forall. intros a Hin. rewrite Forall_forall in H. apply H; [exact Hin|].
    rewrite forallb_forall in Hargs. apply Hargs. exact Hin.
  - (* EAttrSkip *)
    apply andb_prop in Hwf. destruct Hwf as [Hwf Ha]. rewrite Hwf, (IHe Ha). reflexivity.
  - (* EAttrPost *)
    apply andb_prop in Hwf. destruct Hwf as [Hwf Ha]. rewrite Hwf, (IHe Ha). reflexivity.
  - (* EAttrChoose *)
    apply andb_prop in Hwf. destruct Hwf as [Hwf Ha]. rewrite Hwf, (IHe Ha). reflexivity.
  - (* EMem *)
    apply andb_prop in Hwf. destruct Hwf as [Hwf Ha]. rewrite Hwf, (IHe Ha). reflexivity.
Qed.

Lemma wf_none_some : forall p e, wf_xls (env None) e = true -> wf_xls (env (Some p)) e = true.
Proof. intros p e H. unfold wf_xls in *. cbn [xe_base env_at xe_names] in *. apply wf_allow_mono. exact H. Qed.

Lemma render_no_n : forall sf sh nm tr tr' rowlim wi nn ws el rb e,
  wf rowlim wi nn ws false el rb e = true -> render sf sh nm tr e = render sf sh nm tr' e.
Proof.
  intros sf sh nm tr tr' rowlim wi nn ws el rb. induction e using expr_ind'; cbn [wf render]; intros Hwf;
    try reflexivity; try discriminate.
  - (* EUn *) destruct op; rewrite (IHe Hwf); reflexivity.
  - (* EBin *)
    apply andb_prop in Hwf. destruct Hwf as [Hwf Hb]. apply andb_prop in Hwf. destruct Hwf as [_ Ha].
    rewrite (IHe1 Ha), (IHe2 Hb). reflexivity.
  - (* EParen *) rewrite (IHe Hwf). reflexivity.
  - (* EFunc *)
    destruct (nthN FTAB_ARGC_REF i); [|discriminate].
    apply andb_prop in Hwf. destruct Hwf as [_ Hargs].
    assert (E : map (render sf sh nm tr) args = map (render sf sh nm tr') args).
    { apply map_ext_in. intros a Hin. rewrite Forall_forall in H. apply H; [exact Hin|].
      rewrite forallb_forall in Hargs. apply Hargs. exact Hin. }
    rewrite E. reflexivity.
  - (* EFuncVar *)
    apply andb_prop in Hwf. destruct Hwf as [_ Hargs].
    assert (E : map (render sf sh nm tr) args = map (render sf sh nm tr') args).
    { apply map_ext_in. intros a Hin. rewrite Forall_forall in H. apply H; [exact Hin|].
      rewrite forallb_forall in Hargs. apply Hargs. exact Hin. }
    rewrite E. reflexivity.
  - (* ESum *) rewrite (IHe Hwf). reflexivity.
  - (* EAttrSkip *) apply andb_prop in Hwf. destruct Hwf as [_ Ha]. apply IHe. exact Ha.
  - (* EAttrPost *) apply andb_prop in Hwf. destruct Hwf as [_ Ha]. apply IHe. exact Ha.
  - (* EAttrChoose *) apply andb_prop in Hwf. destruct Hwf as [_ Ha]. apply IHe. exact Ha.
  - (* EMem *) apply andb_prop in Hwf. destruct Hwf as [_ Ha]. apply IHe. exact Ha.
Qed.

Lemma render_array_any_base : forall p e, wf_xls (env None) e = true ->
  rend (Some p) e = rend None e.
Proof.
  intros p e H. unfold render_xls, wf_xls in *. cbn [xe_base env_at xe_names xe_sheets xe_xtis] in *.
  eapply render_no_n. exact H.
Qed.

(* ---------- one FORMULA record ---------- *)
Lemma nth_app_lt : forall (l k : list N) i, (i < length l)%nat -> nth i (l ++ k) 0 = nth i l 0.
Proof. intros l k i H. apply app_nth1. exact H. Qed.

Lemma fvalue_err_app : forall l k, length l = 20%nat -> fvalue_err (l ++ k) = fvalue_err l.
Proof.
  intros l k H. unfold fvalue_err. rewrite !nth_app_lt by lia. reflexivity.
Qed.

Lemma formula_rec_enc : forall p hd cpf st, wf_pos p = true -> wf_hd p hd = true ->
  xls_formula_rec show_f64 unrecognised sheets names xtis (snd (enc_formula_rec p hd cpf)) st
  = do text <- match xls_parse_formula show_f64 (env None) cpf with
               | Ok t => Ok t | Err _ => Ok (unrecognised (fst p) (snd p))
               | Panic => Panic | OutOfFuel => OutOfFuel end;
    Ok {| fs_pos := p; fs_cells := fs_cells st ++ [(p, text, exp_target cpf)]; fs_shared := fs_shared st |}.
Proof.
  intros [r c] hd cpf st Hp Hh. unfold wf_pos in Hp. cbn [fst snd] in *.
  apply andb_prop in Hp. destruct Hp as [Hr Hc]. apply N.ltb_lt in Hr, Hc.
  unfold wf_hd in Hh. cbn [fst snd] in Hh. apply andb_prop in Hh. destruct Hh as [Hl Hv].
  apply Nat.eqb_eq in Hl. apply negb_true_iff in Hv.
  unfold enc_formula_rec, xls_formula_rec. cbn [fst snd].
  set (pre := le 2 r ++ le 2 c ++ hd).
  assert (Hpre : length pre = 20%nat) by (unfold pre; rewrite !app_length, !le_length; lia).
  replace (le 2 r ++ le 2 c ++ hd ++ cpf) with (pre ++ cpf) by (unfold pre; rewrite <- !app_assoc; reflexivity).
  destruct (length (pre ++ cpf) <? 20)%nat eqn:E; [apply Nat.ltb_lt in E; rewrite app_length in E; lia|].
  assert (E0 : u16_at (pre ++ cpf) 0 = Ok r).
  { unfold pre. cbn [le app u16_at skipn]. rewrite le2_eq by exact Hr. reflexivity. }
  assert (E2 : u16_at (pre ++ cpf) 2 = Ok c).
  { unfold pre. cbn [le app u16_at skipn]. rewrite le2_eq by exact Hc. reflexivity. }
  rewrite E0, E2. cbn [obind]. rewrite fvalue_err_app by exact Hpre. fold pre in Hv. rewrite Hv.
  rewrite <- Hpre, skipn_app_len. reflexivity.
Qed.

(* ---------- the loop on an encoded layout ---------- *)
Definition raw_cell (it : fitem) : list fcell :=
  match it with
  | FPlain p _ e => [(p, rend None e, None)]
  | FShared p _ _ _ _ | FArray p _ _ _ _ => [(p, [], Some p)]
  | FMember p _ first => [(p, [], Some first)]
  | FOther _ _ => []
  | FSub _ _ => []
  end.
Definition raw_shared (it : fitem) : list (pos * list N) :=
  match it with
  | FShared p _ _ _ e | FArray p _ _ _ e => [(p, frame_xls (encode_xls e))]
  | _ => []
  end.

Notation loop := (xls_formula_loop show_f64 unrecognised sheets names xtis).
Notation wfi := (wf_fitem sheets names xtis).

Lemma refu_length : forall rng, length (enc_refu rng) = 6%nat.
Proof. intros [[[r0 r1] c0] c1]. unfold enc_refu. rewrite !app_length, !le_length. reflexivity. Qed.

(* inside a nested substream with [d] further substreams open in it: whatever the records are
   (FORMULA, SHRFMLA, ARRAY too), once BOF and EOF balance the loop is back at the depth of the
   nested substream (2) with the state unchanged *)
Lemma loop_sub : forall recs d rest st, fbalanced d recs = true ->
  loop (recs ++ rest) st (2 + N.of_nat d) = loop rest st 2.
Proof.
  induction recs as [|[t dta] recs IH]; intros d rest st H.
  - cbn [fbalanced] in H. destruct d; [reflexivity|discriminate].
  - cbn [fbalanced fst] in H. cbn [app xls_formula_loop].
    destruct (t =? 0x0809) eqn:E1.
    + replace (2 + N.of_nat d + 1) with (2 + N.of_nat (S d)) by lia. apply IH, H.
    + replace (1 <? 2 + N.of_nat d) with true by lia.
      destruct (t =? 0x000A) eqn:E2.
      * destruct d as [|d']; [discriminate|].
        replace (2 + N.of_nat (S d') - 1) with (2 + N.of_nat d') by lia. apply IH, H.
      * apply IH, H.
Qed.

Lemma loop_enc : forall l st rest, forallb wfi l = true ->
  exists p', loop (flat_map enc_fitem l ++ rest) st 1
  = loop rest {| fs_pos := p'; fs_cells := fs_cells st ++ flat_map raw_cell l;
                 fs_shared := rev (flat_map raw_shared l) ++ fs_shared st |} 1.
Proof.
  induction l as [|it l IH]; intros st rest Hwf.
  - exists (fs_pos st). cbn [flat_map xls_formula_loop rev app]. rewrite app_nil_r. destruct st; reflexivity.
  - cbn [forallb] in Hwf. apply andb_prop in Hwf. destruct Hwf as [Hit Hl].
    cbn [flat_map]. rewrite <- app_assoc.
    destruct it as [p hd e|p hd rng cuse e|p hd rng flags e|p hd first|t d|bof recs]; cbn [wf_fitem] in Hit.
    + (* FPlain *)
      apply andb_prop in Hit. destruct Hit as [Hit Hsm]. apply andb_prop in Hit. destruct Hit as [Hit Hwe].
      apply andb_prop in Hit. destruct Hit as [Hp Hh]. apply N.ltb_lt in Hsm.
      cbn [enc_fitem app xls_formula_loop]. unfold enc_formula_rec at 1.
      change (0x0006 =? 0x0809) with false. change (1 <? 1) with false.
      change (0x0006 =? 0x000A) with false. change (0x0006 =? 0x0006) with true. cbn iota.
      change (le 2 (fst p) ++ le 2 (snd p) ++ hd ++ frame_xls (encode_xls e))
        with (snd (enc_formula_rec p hd (frame_xls (encode_xls e)))).
      rewrite formula_rec_enc by assumption.
      rewrite (rpn_correct_xls show_f64 (env None) e Hwe Hsm). cbn [obind].
      rewrite exp_target_plain.
      destruct (IH {| fs_pos := p; fs_cells := fs_cells st ++ [(p, rend None e, None)]; fs_shared := fs_shared st |} rest Hl)
        as [p' E].
      exists p'. rewrite E. cbn [fs_cells fs_shared raw_cell raw_shared app]. rewrite <- app_assoc. reflexivity.
    + (* FShared *)
      apply andb_prop in Hit. destruct Hit as [Hit Hsm]. apply andb_prop in Hit. destruct Hit as [Hit Hwe].
      apply andb_prop in Hit. destruct Hit as [Hp Hh].
      cbn [enc_fitem app xls_formula_loop]. unfold enc_formula_rec at 1.
      change (0x0006 =? 0x0809) with false. change (1 <? 1) with false.
      change (0x0006 =? 0x000A) with false. change (0x0006 =? 0x0006) with true. cbn iota.
      change (le 2 (fst p) ++ le 2 (snd p) ++ hd ++ cpf_exp p) with (snd (enc_formula_rec p hd (cpf_exp p))).
      rewrite formula_rec_enc by assumption. rewrite parse_exp by exact Hp. cbn [obind].
      rewrite exp_target_exp by exact Hp.
      change (0x04BC =? 0x0809) with false. change (0x04BC =? 0x000A) with false. change (0x04BC =? 0x0006) with false.
      change (0x04BC =? 0x04BC) with true. cbn [andb].
      assert (Hlen : (8 <=? length (enc_refu rng ++ 0%N :: cuse :: frame_xls (encode_xls e)))%nat = true).
      { apply Nat.leb_le. rewrite !app_length, refu_length. cbn [length]. lia. }
      rewrite Hlen. cbn [fs_pos fs_cells fs_shared].
      assert (Hsk : skipn 8 (enc_refu rng ++ 0 :: cuse :: frame_xls (encode_xls e)) = frame_xls (encode_xls e)).
      { change (enc_refu rng ++ 0 :: cuse :: frame_xls (encode_xls e))
          with (enc_refu rng ++ [0; cuse] ++ frame_xls (encode_xls e)).
        rewrite app_assoc.
        replace 8%nat with (length (enc_refu rng ++ [0%N; cuse])) by (rewrite app_length, refu_length; reflexivity).
        apply skipn_app_len. }
      rewrite Hsk.
      destruct (IH {| fs_pos := p; fs_cells := fs_cells st ++ [(p, [], Some p)];
                      fs_shared := (p, frame_xls (encode_xls e)) :: fs_shared st |} rest Hl) as [p' E].
      exists p'. rewrite E. cbn [fs_cells fs_shared raw_cell raw_shared app rev].
      rewrite <- !app_assoc. reflexivity.
    + (* FArray *)
      apply andb_prop in Hit. destruct Hit as [Hit Hsm]. apply andb_prop in Hit. destruct Hit as [Hit Hwe].
      apply andb_prop in Hit. destruct Hit as [Hp Hh].
      cbn [enc_fitem app xls_formula_loop]. unfold enc_formula_rec at 1.
      change (0x0006 =? 0x0809) with false. change (1 <? 1) with false.
      change (0x0006 =? 0x000A) with false. change (0x0006 =? 0x0006) with true. cbn iota.
      change (le 2 (fst p) ++ le 2 (snd p) ++ hd ++ cpf_exp p) with (snd (enc_formula_rec p hd (cpf_exp p))).
      rewrite formula_rec_enc by assumption. rewrite parse_exp by exact Hp. cbn [obind].
      rewrite exp_target_exp by exact Hp.
      change (0x0221 =? 0x0809) with false. change (0x0221 =? 0x000A) with false. change (0x0221 =? 0x0006) with false.
      change (0x0221 =? 0x04BC) with false. change (0x0221 =? 0x0221) with true. cbn [andb].
      assert (Hlen : (12 <=? length (enc_refu rng ++ le 2 flags ++ 0%N :: 0%N :: 0%N :: 0%N :: frame_xls (encode_xls e)))%nat = true).
      { apply Nat.leb_le. rewrite !app_length, refu_length, le_length. cbn [length]. lia. }
      rewrite Hlen. cbn [fs_pos fs_cells fs_shared].
      assert (Hsk : skipn 12 (enc_refu rng ++ le 2 flags ++ 0 :: 0 :: 0 :: 0 :: frame_xls (encode_xls e))
                    = frame_xls (encode_xls e)).
      { change (enc_refu rng ++ le 2 flags ++ 0 :: 0 :: 0 :: 0 :: frame_xls (encode_xls e))
          with (enc_refu rng ++ le 2 flags ++ [0; 0; 0; 0] ++ frame_xls (encode_xls e)).
        replace (enc_refu rng ++ le 2 flags ++ [0; 0; 0; 0] ++ frame_xls (encode_xls e))
          with ((enc_refu rng ++ le 2 flags ++ [0; 0; 0; 0]) ++ frame_xls (encode_xls e))
          by (rewrite <- !app_assoc; reflexivity).
        replace 12%nat with (length (enc_refu rng ++ le 2 flags ++ [0%N; 0%N; 0%N; 0%N]))
          by (rewrite !app_length, refu_length, le_length; reflexivity).
        apply skipn_app_len. }
      rewrite Hsk.
      destruct (IH {| fs_pos := p; fs_cells := fs_cells st ++ [(p, [], Some p)];
                      fs_shared := (p, frame_xls (encode_xls e)) :: fs_shared st |} rest Hl) as [p' E].
      exists p'. rewrite E. cbn [fs_cells fs_shared raw_cell raw_shared app rev].
      rewrite <- !app_assoc. reflexivity.
    + (* FMember *)
      apply andb_prop in Hit. destruct Hit as [Hit Hf]. apply andb_prop in Hit. destruct Hit as [Hp Hh].
      cbn [enc_fitem app xls_formula_loop]. unfold enc_formula_rec at 1.
      change (0x0006 =? 0x0809) with false. change (1 <? 1) with false.
      change (0x0006 =? 0x000A) with false. change (0x0006 =? 0x0006) with true. cbn iota.
      change (le 2 (fst p) ++ le 2 (snd p) ++ hd ++ cpf_exp first) with (snd (enc_formula_rec p hd (cpf_exp first))).
      rewrite formula_rec_enc by assumption. rewrite parse_exp by exact Hf. cbn [obind].
      rewrite exp_target_exp by exact Hf.
      destruct (IH {| fs_pos := p; fs_cells := fs_cells st ++ [(p, [], Some first)]; fs_shared := fs_shared st |} rest Hl)
        as [p' E].
      exists p'. rewrite E. cbn [fs_cells fs_shared raw_cell raw_shared app]. rewrite <- app_assoc. reflexivity.
    + (* FOther *)
      apply negb_true_iff in Hit. apply orb_false_iff in Hit. destruct Hit as [Hit Hbof].
      apply orb_false_iff in Hit. destruct Hit as [Hit H221].
      apply orb_false_iff in Hit. destruct Hit as [Hit H4bc]. apply orb_false_iff in Hit. destruct Hit as [H0a H06].
      cbn [enc_fitem app xls_formula_loop]. rewrite Hbof, H0a, H06, H4bc, H221. change (1 <? 1) with false. cbn [andb].
      destruct (IH st rest Hl) as [p' E]. exists p'. rewrite E. reflexivity.
    + (* FSub: BOF (1 -> 2), the balanced records, EOF (2 -> 1): the state is untouched *)
      cbn [enc_fitem app xls_formula_loop]. change (0x0809 =? 0x0809) with true. cbv iota.
      change (1 + 1) with (2 + N.of_nat 0). rewrite <- app_assoc. rewrite loop_sub by exact Hit.
      cbn [app xls_formula_loop]. change (0x000A =? 0x0809) with false. change (1 <? 2) with true.
      change (0x000A =? 0x000A) with true. cbv iota. change (2 - 1) with 1.
      destruct (IH st rest Hl) as [p' E]. exists p'. rewrite E. reflexivity.
Qed.



(* ---------- the map of the groups ---------- *)
Lemma lookup_in : forall m k v, NoDup (map fst m) -> In (k, v) m -> lookup k m = Some v.
Proof.
  induction m as [|[k' v'] m IH]; intros k v Hnd Hin; [contradiction|].
  cbn [map fst] in Hnd. inversion Hnd as [|? ? Hni Hnd']; subst. cbn [lookup].
  destruct Hin as [E|Hin].
  - injection E as -> ->. replace (pos_eqb k k) with true by (symmetry; apply pos_eqb_true; reflexivity). reflexivity.
  - destruct (pos_eqb k' k) eqn:E; [|apply IH; assumption].
    apply pos_eqb_true in E. subst k'. exfalso. apply Hni. apply in_map_iff. exists (k, v). split; [reflexivity|exact Hin].
Qed.

Lemma lookup_none : forall m k, ~ In k (map fst m) -> lookup k m = None.
Proof.
  induction m as [|[k' v'] m IH]; intros k Hni; [reflexivity|]. cbn [lookup map fst] in *.
  destruct (pos_eqb k' k) eqn:E.
  - apply pos_eqb_true in E. subst k'. exfalso. apply Hni. left. reflexivity.
  - apply IH. intros Hin. apply Hni. right. exact Hin.
Qed.

Lemma raw_shared_keys : forall l, map fst (flat_map raw_shared l) = flat_map first_of l.
Proof.
  induction l as [|it l IH]; [reflexivity|]. cbn [flat_map]. rewrite map_app, IH.
  destruct it; reflexivity.
Qed.

Lemma group_of_some : forall l first b e, group_of l first = Some (b, e) ->
  In (first, frame_xls (encode_xls e)) (flat_map raw_shared l) /\
  exists it, In it l /\ match it with
                        | FShared p _ _ _ e' => p = first /\ e' = e /\ b = false
                        | FArray p _ _ _ e' => p = first /\ e' = e /\ b = true
                        | _ => False end.
Proof.
  induction l as [|it l IH]; intros first b e H; [discriminate|].
  cbn [group_of flat_map] in *.
  destruct it as [p hd e0|p hd rng cuse e0|p hd rng flags e0|p hd f0|t d|bof recs]; cbn [raw_shared app];
    try (destruct (IH _ _ _ H) as (Hin & it' & Hi & Hm); split; [exact Hin|exists it'; split; [right; exact Hi|exact Hm]]).
  - destruct (pos_eqb p first) eqn:E.
    + apply pos_eqb_true in E. subst p. injection H as <- <-. split; [left; reflexivity|].
      eexists. split; [left; reflexivity|]. cbn. auto.
    + destruct (IH _ _ _ H) as (Hin & it' & Hi & Hm). split; [right; exact Hin|exists it'; split; [right; exact Hi|exact Hm]].
  - destruct (pos_eqb p first) eqn:E.
    + apply pos_eqb_true in E. subst p. injection H as <- <-. split; [left; reflexivity|].
      eexists. split; [left; reflexivity|]. cbn. auto.
    + destruct (IH _ _ _ H) as (Hin & it' & Hi & Hm). split; [right; exact Hin|exists it'; split; [right; exact Hi|exact Hm]].
Qed.

Lemma group_of_none : forall l first, group_of l first = None -> ~ In first (flat_map first_of l).
Proof.
  induction l as [|it l IH]; intros first H; [intros []|].
  cbn [group_of flat_map] in *.
  destruct it as [p hd e0|p hd rng cuse e0|p hd rng flags e0|p hd f0|t d|bof recs]; cbn [first_of app]; try (apply IH; exact H).
  - destruct (pos_eqb p first) eqn:E; [discriminate|].
    intros [->|Hin]; [|exact (IH _ H Hin)].
    assert (pos_eqb first first = true) by (apply pos_eqb_true; reflexivity). congruence.
  - destruct (pos_eqb p first) eqn:E; [discriminate|].
    intros [->|Hin]; [|exact (IH _ H Hin)].
    assert (pos_eqb first first = true) by (apply pos_eqb_true; reflexivity). congruence.
Qed.

Lemma lookup_groups : forall l first, NoDup (flat_map first_of l) ->
  lookup first (rev (flat_map raw_shared l) ++ [])
  = match group_of l first with Some g => Some (frame_xls (encode_xls (snd g))) | None => None end.
Proof.
  intros l first Hnd. rewrite app_nil_r.
  assert (Hnd' : NoDup (map fst (rev (flat_map raw_shared l)))).
  { rewrite map_rev, raw_shared_keys. apply NoDup_rev. exact Hnd. }
  destruct (group_of l first) as [[b e]|] eqn:G.
  - destruct (group_of_some _ _ _ _ G) as [Hin _]. apply lookup_in; [exact Hnd'|].
    apply in_rev in Hin. exact Hin.
  - apply lookup_none. rewrite map_rev, raw_shared_keys. intros Hin. apply in_rev in Hin.
    exact (group_of_none _ _ G Hin).
Qed.

(* ---------- the pass after the loop ---------- *)
Notation spec := (spec_formulas show_f64 sheets names xtis).
Notation speccell := (spec_cell show_f64 sheets names xtis).
Notation gtext := (group_text show_f64 sheets names xtis).
Notation resolve := (resolve_cell show_f64 sheets names xtis).

Lemma group_parse : forall l first p b e, forallb wfi l = true ->
  group_of l first = Some (b, e) ->
  xls_parse_formula show_f64 (env (Some p)) (frame_xls (encode_xls e)) = Ok (gtext p (b, e)).
Proof.
  intros l first p b e Hwf G. destruct (group_of_some _ _ _ _ G) as (_ & it & Hin & Hm).
  rewrite forallb_forall in Hwf. specialize (Hwf it Hin).
  destruct it as [p0 hd e0|p0 hd rng cuse e0|p0 hd rng flags e0|p0 hd f0|t d|bof recs]; try contradiction;
    destruct Hm as (-> & -> & ->); cbn [wf_fitem] in Hwf;
    apply andb_prop in Hwf; destruct Hwf as [Hwf Hsm]; apply andb_prop in Hwf; destruct Hwf as [_ Hwe];
    apply N.ltb_lt in Hsm; unfold group_text; cbn [fst snd].
  - apply rpn_correct_xls; [rewrite (wf_base_some p first); exact Hwe|exact Hsm].
  - rewrite <- (render_array_any_base p e Hwe).
    apply rpn_correct_xls; [apply wf_none_some; exact Hwe|exact Hsm].
Qed.

Lemma resolve_enc : forall l l', forallb wfi l = true -> NoDup (flat_map first_of l) ->
  (forall it, In it l' -> In it l) ->
  map_o (resolve (rev (flat_map raw_shared l) ++ [])) (flat_map raw_cell l') = Ok (flat_map (speccell l) l').
Proof.
  intros l l' Hwf Hnd. induction l' as [|it l' IH]; intros Hsub; [reflexivity|].
  assert (Hsub' : forall it0, In it0 l' -> In it0 l) by (intros it0 Hi; apply Hsub; right; exact Hi).
  specialize (IH Hsub'). cbn [flat_map].
  assert (Hit : In it l) by (apply Hsub; left; reflexivity).
  destruct it as [p hd e|p hd rng cuse e|p hd rng flags e|p hd first|t d|bof recs];
    cbn [raw_cell spec_cell app map_o]; try exact IH.
  - (* FPlain *) unfold resolve_cell at 1. cbn [fst snd obind]. rewrite IH. reflexivity.
  - (* FShared: the group is its own first cell *)
    unfold resolve_cell at 1. cbn [fst snd]. rewrite lookup_groups by exact Hnd.
    destruct (group_of l p) as [[b e']|] eqn:G.
    + cbn [snd]. rewrite (group_parse _ _ p _ _ Hwf G). cbn [obind]. rewrite IH.
      (* NoDup: the group found is this one *)
      destruct (group_of_some _ _ _ _ G) as (Hin & _).
      assert (Hin2 : In (p, frame_xls (encode_xls e)) (flat_map raw_shared l)).
      { apply in_flat_map. exists (FShared p hd rng cuse e). split; [exact Hit|left; reflexivity]. }
      assert (Hnd' : NoDup (map fst (flat_map raw_shared l))) by (rewrite raw_shared_keys; exact Hnd).
      pose proof (lookup_in _ _ _ Hnd' Hin) as L1. pose proof (lookup_in _ _ _ Hnd' Hin2) as L2.
      assert (EQ : frame_xls (encode_xls e') = frame_xls (encode_xls e)) by congruence.
      (* same bytes: read the text off the decoder *)
      assert (Hp : xls_parse_formula show_f64 (env (Some p)) (frame_xls (encode_xls e)) = Ok (gtext p (false, e))).
      { rewrite forallb_forall in Hwf. specialize (Hwf _ Hit). cbn [wf_fitem] in Hwf.
        apply andb_prop in Hwf. destruct Hwf as [Hwf Hsm]. apply andb_prop in Hwf. destruct Hwf as [_ Hwe].
        apply N.ltb_lt in Hsm. unfold group_text. cbn [fst snd]. apply rpn_correct_xls; assumption. }
      pose proof (group_parse _ _ p _ _ Hwf G) as Hq. rewrite EQ in Hq. rewrite Hp in Hq. injection Hq as <-. reflexivity.
    + exfalso. apply (group_of_none _ _ G). apply in_flat_map.
      exists (FShared p hd rng cuse e). split; [exact Hit|left; reflexivity].
  - (* FArray *)
    unfold resolve_cell at 1. cbn [fst snd]. rewrite lookup_groups by exact Hnd.
    destruct (group_of l p) as [[b e']|] eqn:G.
    + cbn [snd]. rewrite (group_parse _ _ p _ _ Hwf G). cbn [obind]. rewrite IH.
      destruct (group_of_some _ _ _ _ G) as (Hin & _).
      assert (Hin2 : In (p, frame_xls (encode_xls e)) (flat_map raw_shared l)).
      { apply in_flat_map. exists (FArray p hd rng flags e). split; [exact Hit|left; reflexivity]. }
      assert (Hnd' : NoDup (map fst (flat_map raw_shared l))) by (rewrite raw_shared_keys; exact Hnd).
      pose proof (lookup_in _ _ _ Hnd' Hin) as L1. pose proof (lookup_in _ _ _ Hnd' Hin2) as L2.
      assert (EQ : frame_xls (encode_xls e') = frame_xls (encode_xls e)) by congruence.
      assert (Hp : xls_parse_formula show_f64 (env (Some p)) (frame_xls (encode_xls e)) = Ok (gtext p (true, e))).
      { rewrite forallb_forall in Hwf. specialize (Hwf _ Hit). cbn [wf_fitem] in Hwf.
        apply andb_prop in Hwf. destruct Hwf as [Hwf Hsm]. apply andb_prop in Hwf. destruct Hwf as [_ Hwe].
        apply N.ltb_lt in Hsm. unfold group_text. cbn [fst snd]. rewrite <- (render_array_any_base p e Hwe).
        apply rpn_correct_xls; [apply wf_none_some; exact Hwe|exact Hsm]. }
      pose proof (group_parse _ _ p _ _ Hwf G) as Hq. rewrite EQ in Hq. rewrite Hp in Hq. injection Hq as <-. reflexivity.
    + exfalso. apply (group_of_none _ _ G). apply in_flat_map.
      exists (FArray p hd rng flags e). split; [exact Hit|left; reflexivity].
  - (* FMember *)
    unfold resolve_cell at 1. cbn [fst snd]. rewrite lookup_groups by exact Hnd.
    destruct (group_of l first) as [[b e']|] eqn:G.
    + cbn [snd]. rewrite (group_parse _ _ p _ _ Hwf G). cbn [obind]. rewrite IH. reflexivity.
    + cbn [obind]. rewrite IH. reflexivity.
Qed.

(* ================================================================== the theorems *)
(* the formula cells of a sheet, from its records: every FORMULA cell in stream order; a plain cell
   with the A1 text of its own tokens, every cell of a shared group with the group's expression
   translated to the cell's own position, every cell of an array group with the array's expression *)
Theorem sheet_formulas_spec : forall l bof after, wf_layout sheets names xtis l ->
  xls_sheet_formulas show_f64 unrecognised sheets names xtis (enc_fsheet bof l after) = Ok (spec l).
Proof.
  intros l bof after [Hwf Hnd]. unfold xls_sheet_formulas, enc_fsheet.
  cbn [xls_formula_loop]. change (0x0809 =? 0x0809) with true. cbv iota. change (0 + 1) with 1.
  destruct (loop_enc l {| fs_pos := (0, 0); fs_cells := []; fs_shared := [] |} ((0x000A, []) :: after) Hwf)
    as [p' E].
  rewrite E. cbn [xls_formula_loop]. change (0x000A =? 0x0809) with false. change (1 <? 1) with false.
  change (0x000A =? 0x000A) with true. cbv iota. cbn [obind fs_cells fs_shared app].
  apply resolve_enc; [exact Hwf|exact Hnd|auto].
Qed.

Lemma spec_member_in : forall l it, In it l -> forall c, In c (speccell l it) -> In c (spec l).
Proof. intros l it Hin c Hc. unfold spec_formulas. apply in_flat_map. exists it. split; assumption. Qed.

Lemma group_of_unique : forall l first g it, NoDup (flat_map first_of l) -> In it l ->
  match it with
  | FShared p _ _ _ e => p = first /\ g = (false, e)
  | FArray p _ _ _ e => p = first /\ g = (true, e)
  | _ => False
  end -> group_of l first = Some g.
Proof.
  induction l as [|it0 l IH]; intros first g it Hnd Hin Hm; [contradiction|].
  cbn [group_of flat_map] in *. destruct Hin as [->|Hin].
  - destruct it as [p hd e|p hd rng cuse e|p hd rng flags e|p hd f0|t d|bof recs]; try contradiction;
      destruct Hm as [-> ->];
      replace (pos_eqb first first) with true by (symmetry; apply pos_eqb_true; reflexivity); reflexivity.
  - assert (Hf : In first (flat_map first_of l)).
    { apply in_flat_map. exists it. split; [exact Hin|].
      destruct it as [p hd e|p hd rng cuse e|p hd rng flags e|p hd f0|t d|bof recs]; try contradiction;
        destruct Hm as [-> _]; left; reflexivity. }
    destruct it0 as [p0 hd0 e0|p0 hd0 rng0 cuse0 e0|p0 hd0 rng0 fl0 e0|p0 hd0 f0|t d|bof recs]; cbn [first_of app] in Hnd;
      try (eapply IH; eassumption).
    + inversion Hnd as [|? ? Hni Hnd']; subst. destruct (pos_eqb p0 first) eqn:E.
      * apply pos_eqb_true in E. subst p0. contradiction.
      * eapply IH; eassumption.
    + inversion Hnd as [|? ? Hni Hnd']; subst. destruct (pos_eqb p0 first) eqn:E.
      * apply pos_eqb_true in E. subst p0. contradiction.
      * eapply IH; eassumption.
Qed.

(* a member cell of a shared group: the shared expression seen from the member's own position *)
Theorem shared_formula_members_xls : forall l bof after p hd first phd rng cuse e r,
  wf_layout sheets names xtis l ->
  In (FShared first phd rng cuse e) l -> In (FMember p hd first) l ->
  xls_sheet_formulas show_f64 unrecognised sheets names xtis (enc_fsheet bof l after) = Ok r ->
  In (p, rend (Some p) e) r /\ In (first, rend (Some first) e) r.
Proof.
  intros l bof after p hd first phd rng cuse e r Hwf Hs Hm Hr.
  rewrite (sheet_formulas_spec l bof after Hwf) in Hr. injection Hr as <-. destruct Hwf as [Hwf Hnd].
  assert (G : group_of l first = Some (false, e)).
  { apply (group_of_unique l first (false, e) (FShared first phd rng cuse e) Hnd Hs). split; reflexivity. }
  split.
  - apply (spec_member_in l _ Hm). cbn [spec_cell]. rewrite G. left. reflexivity.
  - apply (spec_member_in l _ Hs). cbn [spec_cell]. left. reflexivity.
Qed.

(* every cell of an array formula: the array's expression, the same text whatever the cell *)
Theorem array_formula_members_xls : forall l bof after p hd first phd rng flags e r,
  wf_layout sheets names xtis l ->
  In (FArray first phd rng flags e) l -> In (FMember p hd first) l ->
  xls_sheet_formulas show_f64 unrecognised sheets names xtis (enc_fsheet bof l after) = Ok r ->
  In (p, rend None e) r /\ In (first, rend None e) r.
Proof.
  intros l bof after p hd first phd rng flags e r Hwf Hs Hm Hr.
  rewrite (sheet_formulas_spec l bof after Hwf) in Hr. injection Hr as <-. destruct Hwf as [Hwf Hnd].
  assert (G : group_of l first = Some (true, e)).
  { apply (group_of_unique l first (true, e) (FArray first phd rng flags e) Hnd Hs). split; reflexivity. }
  split.
  - apply (spec_member_in l _ Hm). cbn [spec_cell]. rewrite G. left. reflexivity.
  - apply (spec_member_in l _ Hs). cbn [spec_cell]. left. reflexivity.
Qed.

End Proofs.

(* ================================================================== non-vacuity *)
Definition ex_hd : list N := repeat 0 16.
Definition ex_shared_layout : list fitem :=
  let rel r c := {| cr_row := r; cr_col := c; cr_row_rel := true; cr_col_rel := true |} in
  [ (* D1:E1 share =SUM(<row -1>:<col +1>$2): the row offset -1 wraps to row 65536 *)
    FShared (0, 3) ex_hd (0, 0, 3, 4) 2
      (ESum (EAreaN CRef (rel 65535 0) {| cr_row := 1; cr_col := 1; cr_row_rel := false; cr_col_rel := true |}));
    FMember (0, 4) ex_hd (0, 3);
    (* B2:B4 share =A2*2+$C$1 (row offset 0, column offset -1 stored as 0xFF) *)
    FShared (1, 1) ex_hd (1, 3, 1, 1) 3
      (EBin 3 (EBin 5 (ERefN CVal (rel 0 255)) (EInt 2))
              (ERef CVal {| cr_row := 0; cr_col := 2; cr_row_rel := false; cr_col_rel := false |}));
    FOther 0x0203 [2; 0; 0; 0; 0; 0; 0; 0; 0; 0; 0; 0; 0; 0];
    (* an embedded chart between the cells of the group.  Its substream holds a FORMULA record at
       B2 — the first cell of the group above — with a formula of its own, a SHRFMLA record that
       would replace the group's expression, an ARRAY record, a FORMULA too short to be one, and a
       further BOF … EOF pair around another FORMULA: nothing of it is a formula of the sheet *)
    FSub [0; 6; 32; 0]
      [(0x1001, [0; 0]); (0x0203, [1; 0; 1; 0; 0; 0; 0; 0; 0; 0; 0; 0; 0; 0]);
       (0x0006, [1; 0; 1; 0] ++ ex_hd ++ [3; 0; 0x1E; 9; 0]);
       (0x04BC, [1; 0; 3; 0; 1; 1; 0; 3; 3; 0; 0x1E; 8; 0]);
       (0x0221, [1; 0; 3; 0; 1; 1; 0; 0; 0; 0; 0; 0; 3; 0; 0x1E; 7; 0]);
       (0x0006, [1; 2; 3]);
       (0x0809, []); (0x0006, [9; 0; 9; 0] ++ ex_hd ++ [3; 0; 0x1E; 6; 0]); (0x000A, [])];
    FMember (2, 1) ex_hd (1, 1);
    FMember (3, 1) ex_hd (1, 1);
    (* {=SUM(A1:B2)} over A6:B7 *)
    FArray (5, 0) ex_hd (5, 6, 0, 1) 0 (ESum (EArea CRef (rel 0 0) (rel 1 1)));
    FMember (5, 1) ex_hd (5, 0);
    FMember (6, 0) ex_hd (5, 0);
    FMember (6, 1) ex_hd (5, 0) ].

Example shared_formula_nonvacuous :
  wf_layout [] [] [] ex_shared_layout /\
  xls_sheet_formulas (fun _ => []) (fun _ _ => []) [] [] []
    (enc_fsheet [0; 6; 16; 0] ex_shared_layout [(0x0809, []); (0x0006, [1; 2])])
  = Ok [((0, 3), lit "SUM(D65536:E$2)"); ((0, 4), lit "SUM(E65536:F$2)");
        ((1, 1), lit "A2*2+$C$1"); ((2, 1), lit "A3*2+$C$1"); ((3, 1), lit "A4*2+$C$1");
        ((5, 0), lit "SUM(A1:B2)"); ((5, 1), lit "SUM(A1:B2)"); ((6, 0), lit "SUM(A1:B2)"); ((6, 1), lit "SUM(A1:B2)")].
Proof.
  split; [split|].
  - vm_compute. reflexivity.
  - cbn [ex_shared_layout flat_map first_of app].
    repeat constructor; cbn [In]; intuition congruence.
  - vm_compute. reflexivity.
Qed.
