(* C17: merged regions and tables.  Model side of the correspondence.
     merge dim <hex>                 get_dimension on raw bytes            -> ok r0,c0,r1,c1 | err | panic
     merge xlsmc <hex>               xls parse_merge_cells on record data  -> ok d/d/… | err | panic
     merge xlsx <desc> <calls>       structured xlsx case: runs the Coq encoder E on the logical
                                     workbook + choices, serialises the parts to XML, runs M and S
                                     on the same calls as harness/src/cmds/open.rs
         -> parts ## M answers ## S answers ## known ## legal ## dom
     merge xls <desc> <calls>        structured xls case -> records ## M ## S ## legal ## dom
   Strings travel as 'x' + hex of the UTF-8 bytes (so that the empty string is a token). *)
open Conv
open Prelude
open Merge

let xs (s : string) : BinNums.coq_N list =         (* "x<hex>" -> bytes *)
  bytes_of_hex (String.sub s 1 (String.length s - 1))
let opt_xs s = if s = "-" then None else Some (xs s)
let hexb = hex_of_bytes
let nn = n_of_string
let show = string_of_n

let parse_attrs (s : string) : (str * str) list =
  if s = "-" then [] else
  List.map (fun kv -> match String.split_on_char '=' kv with
      | [k; v] -> (xs k, xs v) | _ -> failwith "attr") (String.split_on_char ',' s)

let parse_event (s : string) : event =
  match s.[0] with
  | 'S' ->
    (match String.split_on_char ',' (String.sub s 1 (String.length s - 1)) with
     | name :: attrs ->
       EStart (xs name, List.map (fun kv -> match String.split_on_char '=' kv with
           | [k; v] -> (xs k, xs v) | _ -> failwith "attr") attrs)
     | [] -> failwith "event")
  | 'E' -> EEnd (xs (String.sub s 1 (String.length s - 1)))
  | 'T' -> EText (xs (String.sub s 1 (String.length s - 1)))
  | 'R' -> ERaw (xs (String.sub s 1 (String.length s - 1)))
  | _ -> failwith "event kind"
let parse_events (s : string) : event list =
  if s = "-" then [] else List.map parse_event (String.split_on_char '+' s)

let parse_style (s : string) : ref_style =
  match s.[0] with
  | 'P' -> RefPair | 'S' -> RefSingle
  | 'R' -> RefRaw (xs (String.sub s 1 (String.length s - 1)))
  | _ -> failwith "style"
let b01 s = s = "1"

(* a name as it is spelled in an attribute value: "x<hex>" = the bytes, escaped the usual way
   (Merge.esc_sp); "p" + pieces joined by '+': L<hex> literal bytes, N<cp> predefined entity,
   D<cp>.<w> decimal / H<cp>.<w> lower-case hex / U<cp>.<w> upper-case hex character reference
   with w digits.  The declared table name is Merge.sp_value of the spelling; the declared column
   name is Merge.col_value of it (the ST_Xstring layer _xHHHH_ on top of the XML layer). *)
let parse_piece (t : string) : piece =
  let body = String.sub t 1 (String.length t - 1) in
  let cpw () = match String.split_on_char '.' body with
    | [c; w] -> (nn c, nat_of_int (int_of_string w)) | _ -> failwith "piece" in
  match t.[0] with
  | 'L' -> PLit (bytes_of_hex body)
  | 'N' -> PNamed (nn body)
  | 'D' -> let (c, w) = cpw () in PDec (c, w)
  | 'H' -> let (c, w) = cpw () in PHex (c, w, false)
  | 'U' -> let (c, w) = cpw () in PHex (c, w, true)
  | _ -> failwith "piece kind"
let parse_spelling (t : string) : spelling =
  match t.[0] with
  | 'x' -> esc_sp (xs t)
  | 'p' -> if String.length t = 1 then []
    else List.map parse_piece (String.split_on_char '+' (String.sub t 1 (String.length t - 1)))
  | _ -> failwith "spelling"

(* ---------------------------------------------------------------- serialiser (trusted glue) *)
let raw_of_bytes (l : BinNums.coq_N list) : string =
  let b = Buffer.create 64 in
  List.iter (fun x -> Buffer.add_char b (Char.chr (int_of_n x land 255))) l;
  Buffer.contents b
let esc_text (s : string) : string =
  let b = Buffer.create (String.length s) in
  String.iter (function '&' -> Buffer.add_string b "&amp;" | '<' -> Buffer.add_string b "&lt;"
                      | '>' -> Buffer.add_string b "&gt;" | c -> Buffer.add_char b c) s;
  Buffer.contents b
(* sc: 0 never self-close, 1 always, 2 alternate *)
let serialise (sc : int) (evs : event list) : string =
  let b = Buffer.create 1024 in
  let toggle = ref false in
  let rec go = function
    | [] -> ()
    | EStart (n, attrs) :: rest ->
      Buffer.add_char b '<'; Buffer.add_string b (raw_of_bytes n);
      List.iter (fun (k, v) ->
          Buffer.add_char b ' '; Buffer.add_string b (raw_of_bytes k);
          Buffer.add_string b "=\""; Buffer.add_string b (raw_of_bytes v); Buffer.add_char b '"') attrs;
      (match rest with
       | EEnd m :: rest' when m = n && (sc = 1 || (sc = 2 && (toggle := not !toggle; !toggle))) ->
         Buffer.add_string b "/>"; go rest'
       | _ -> Buffer.add_char b '>'; go rest)
    | EEnd n :: rest -> Buffer.add_string b "</"; Buffer.add_string b (raw_of_bytes n); Buffer.add_char b '>'; go rest
    | EText s :: rest -> Buffer.add_string b (esc_text (raw_of_bytes s)); go rest
    | ERaw s :: rest -> Buffer.add_string b (raw_of_bytes s); go rest in
  go evs; Buffer.contents b

(* ---------------------------------------------------------------- canonical printing *)
let dims_str (((a, b), (c, d)) : dims) = Printf.sprintf "%s,%s,%s,%s" (show a) (show b) (show c) (show d)
let dims_list ds = String.concat "/" (List.map dims_str ds)
let cell_str (v : BinNums.coq_N) : string =
  match v with
  | BinNums.N0 -> "E"
  | _ -> Printf.sprintf "F%Lu" (Int64.bits_of_float (float_of_int (int_of_n v)))
let rows_str rows = String.concat "/" (List.map (fun row -> String.concat "," (List.map cell_str row)) rows)
let range_str (r : BinNums.coq_N Range.range) : string =
  match Range.start r, Range.end_ r with
  | Some (a, b), Some (c, d) ->
    Printf.sprintf "R[%s,%s,%s,%s|%s]" (show a) (show b) (show c) (show d) (rows_str (Range.rows r))
  | _ -> "R[-]"
let region_str ((n, p), d) = Printf.sprintf "%s:%s:%s" (hexb n) (hexb p) (dims_str d)

exception Stop of string     (* a panic ends the call sequence, as in open.rs *)

(* ---------------------------------------------------------------- xlsx *)
type xcase = { sc : int; wb : sheet_e list; cells : (str * ((BinNums.coq_N * BinNums.coq_N) * BinNums.coq_N) list) list }

let parse_xlsx (desc : string) : xcase =
  let toks = Array.of_list (List.filter (fun s -> s <> "") (String.split_on_char ' ' desc)) in
  let n = Array.length toks in
  let i = ref 0 in
  let next () = let t = toks.(!i) in incr i; t in
  let sc = ref 0 in
  let sheets = ref [] and cells = ref [] in
  let cur = ref None in
  let flush () =
    match !cur with
    | None -> ()
    | Some (s, regs, tabs, orels, cl) ->
      let s = { s with se_regs = List.rev regs; se_tables = List.rev tabs; se_other_rels = List.rev orels } in
      sheets := s :: !sheets; cells := (s.se_name, List.rev cl) :: !cells; cur := None in
  let upd f = match !cur with Some c -> cur := Some (f c) | None -> failwith "no sheet" in
  while !i < n do
    match next () with
    | "SC" -> sc := int_of_string (next ())
    | "SH" ->
      flush ();
      let name = xs (next ()) in let file = xs (next ()) in
      let pfx = opt_xs (next ()) in let pp = opt_xs (next ()) in
      let wrap = b01 (next ()) in let ralways = b01 (next ()) in
      let rattrs = parse_attrs (next ()) in
      cur := Some ({ se_name = name; se_file = file; se_regs = []; se_tables = []; se_prefix = pfx;
                     se_pre = []; se_post = []; se_wrap_empty = wrap; se_pad0 = []; se_pkg_prefix = pp;
                     se_other_rels = []; se_rels_always = ralways; se_rels_attrs = rattrs }, [], [], [], [])
    | "PRE" -> let e = parse_events (next ()) in upd (fun (s, a, b, c, d) -> ({ s with se_pre = e }, a, b, c, d))
    | "POST" -> let e = parse_events (next ()) in upd (fun (s, a, b, c, d) -> ({ s with se_post = e }, a, b, c, d))
    | "PAD0" -> let e = parse_events (next ()) in upd (fun (s, a, b, c, d) -> ({ s with se_pad0 = e }, a, b, c, d))
    | "OREL" ->
      let id = xs (next ()) in let ty = xs (next ()) in let tg = xs (next ()) in
      upd (fun (s, a, b, c, d) -> (s, a, b, ((id, ty), tg) :: c, d))
    | "RG" ->
      let r0 = nn (next ()) in let c0 = nn (next ()) in let r1 = nn (next ()) in let c1 = nn (next ()) in
      let st = parse_style (next ()) in let lower = b01 (next ()) in
      let before = parse_attrs (next ()) in let after = parse_attrs (next ()) in
      let pad = parse_events (next ()) in
      let rc = { rc_style = st; rc_lower = lower; rc_before = before; rc_after = after; rc_pad = pad } in
      upd (fun (s, a, b, c, d) -> (s, (((r0, c0), (r1, c1)), rc) :: a, b, c, d))
    | "TB" ->
      let name_sp = parse_spelling (next ()) in
      let r0 = nn (next ()) in let c0 = nn (next ()) in let r1 = nn (next ()) in let c1 = nn (next ()) in
      let hdr = nn (next ()) in let tot = nn (next ()) in let insrow = b01 (next ()) in
      let part = xs (next ()) in let rid = xs (next ()) in
      let target = (let t = next () in match t.[0] with
          | 'D' -> TgtDotDot | 'A' -> TgtAbsolute
          | _ -> TgtRaw (xs (String.sub t 1 (String.length t - 1)))) in
      let typ = (let t = next () in match t.[0] with
          | 'T' -> TyTransitional | 'S' -> TyStrict
          | _ -> TyRaw (xs (String.sub t 1 (String.length t - 1)))) in
      let tfirst = b01 (next ()) in
      let rstyle = parse_style (next ()) in let rlower = b01 (next ()) in
      let hexp = b01 (next ()) in let texp = b01 (next ()) in
      let ins = (let t = next () in match t.[0] with
          | '-' -> IrAbsent | '0' -> IrZero | 'f' -> IrFalse | '1' -> IrOne | 't' -> IrTrue
          | _ -> IrRaw (xs (String.sub t 1 (String.length t - 1)))) in
      let extra = parse_attrs (next ()) in let cextra = parse_attrs (next ()) in
      let pfx = opt_xs (next ()) in let pre = parse_events (next ()) in
      let cols_sp = (let t = next () in if t = "-" then [] else List.map parse_spelling (String.split_on_char ',' t)) in
      let tl = { tl_name = sp_value name_sp; tl_cols = List.map col_value cols_sp; tl_ref = ((r0, c0), (r1, c1));
                 tl_header = hdr; tl_totals = tot; tl_insert = insrow } in
      let tc = { tc_part = part; tc_rid = rid; tc_target = target; tc_type = typ; tc_target_first = tfirst;
                 tc_ref_style = rstyle; tc_ref_lower = rlower; tc_hdr_explicit = hexp; tc_tot_explicit = texp;
                 tc_insert = ins; tc_name_sp = name_sp; tc_cols_sp = cols_sp; tc_extra = extra; tc_col_extra = cextra; tc_prefix = pfx; tc_pre = pre } in
      upd (fun (s, a, b, c, d) -> (s, a, (tl, tc) :: b, c, d))
    | "CL" ->
      let r = nn (next ()) in let c = nn (next ()) in let v = nn (next ()) in
      upd (fun (s, a, b, cc, d) -> (s, a, b, cc, ((r, c), v) :: d))
    | t -> failwith ("token " ^ t)
  done;
  flush ();
  { sc = !sc; wb = List.rev !sheets; cells = List.rev !cells }

let unhex_name (h : string) : str = bytes_of_hex h

let model_call (z : zip) (sheets : (str * str) list) cells (c : string) : string =
  let f = Array.of_list (String.split_on_char ' ' c) in
  let name i = unhex_name (if Array.length f > i then f.(i) else "") in
  let out_merges = function
    | None -> "none"
    | Some (Ok v) -> dims_list v
    | Some (Err _) -> "err:other"
    | Some Panic -> raise (Stop "panic")
    | Some OutOfFuel -> raise (Stop "fuel") in
  let load_regions () = match read_merged_regions z sheets with
    | Ok v -> Some v | Err _ -> None | Panic -> raise (Stop "panic") | OutOfFuel -> raise (Stop "fuel") in
  let load_tables () = match read_table_metadata z sheets with
    | Ok v -> Some v | Err _ -> None | Panic -> raise (Stop "panic") | OutOfFuel -> raise (Stop "fuel") in
  match f.(0) with
  | "merges" -> out_merges (worksheet_merge_cells z sheets (name 1))
  | "mergesat" -> out_merges (worksheet_merge_cells_at z sheets (nat_of_int (int_of_string f.(1))))
  | "allmerges" ->
    (match load_regions () with None -> "err:other"
                              | Some v -> String.concat "/" (List.map region_str v))
  | "mergesby" ->
    (match load_regions () with None -> "err:other"
                              | Some v -> String.concat "/" (List.map region_str (merged_regions_by_sheet v (name 1))))
  | "tables" ->
    (match load_tables () with None -> "err:other"
                             | Some t -> String.concat "," (List.map hexb (table_names t)))
  | "tablesin" ->
    (match load_tables () with None -> "err:other"
                             | Some t -> String.concat "," (List.map hexb (table_names_in_sheet t (name 1))))
  | "table" ->
    (match load_tables () with
     | None -> "err:other"
     | Some t ->
       (match table_by_name BinNums.N0 (sheet_range_of BinNums.N0 cells) t (name 1) with
        | Ok (((n, s), cols), w) ->
          Printf.sprintf "%s|%s|%s|%s" (hexb n) (hexb s) (String.concat "," (List.map hexb cols)) (range_str w)
        | Err _ -> "err:other"
        | Panic -> raise (Stop "panic")
        | OutOfFuel -> raise (Stop "fuel")))
  | other -> "badcall:" ^ other

let spec_call (wb : sheet_e list) cells (c : string) : string =
  let f = Array.of_list (String.split_on_char ' ' c) in
  let name i = unhex_name (if Array.length f > i then f.(i) else "") in
  let tabs = spec_tables wb in
  match f.(0) with
  | "merges" -> (match spec_sheet wb (name 1) with None -> "none" | Some s -> dims_list (se_regions s))
  | "mergesat" ->
    (match List.nth_opt wb (int_of_string f.(1)) with
     | None -> "none"
     | Some s -> (match spec_sheet wb s.se_name with None -> "none" | Some s' -> dims_list (se_regions s')))
  | "allmerges" -> String.concat "/" (List.map region_str (spec_all_merges wb))
  | "mergesby" -> String.concat "/" (List.map region_str (merged_regions_by_sheet (spec_all_merges wb) (name 1)))
  | "tables" -> String.concat "," (List.map (fun t -> hexb (ts_name t)) tabs)
  | "tablesin" ->
    String.concat "," (List.map (fun t -> hexb (ts_name t))
                         (List.filter (fun (((_, s), _), _) -> s = name 1) tabs))
  | "table" ->
    (* the first declared table of that name *)
    (match List.find_opt (fun t -> ts_name t = name 1) tabs with
     | Some (((n, s), cols), box) ->
       let cl = (match List.find_opt (fun (sn, _) -> sn = s) cells with Some (_, l) -> l | None -> []) in
       let data = (match box with
           | None -> "R[-]"            (* no data rows: the empty range *)
           | Some ((a, b), (c, d)) ->
             Printf.sprintf "R[%s,%s,%s,%s|%s]" (show a) (show b) (show c) (show d)
               (rows_str (spec_table_rows cl box))) in
       Printf.sprintf "%s|%s|%s|%s" (hexb n) (hexb s) (String.concat "," (List.map hexb cols)) data
     | None -> "err:other")
  | other -> "badcall:" ^ other

let run_calls (f : string -> string) (calls : string) : string =
  let out = ref [] in
  (try List.iter (fun c -> out := f c :: !out) (String.split_on_char ';' calls)
   with Stop s -> out := s :: !out);
  String.concat ";;" (List.rev !out)

let run_xlsx (desc : string) (calls : string) : string =
  let x = parse_xlsx desc in
  let z = build_zip x.wb in
  let sheets = sheets_of x.wb in
  let parts = String.concat "," (List.map (fun (n, evs) ->
      "x" ^ hexb n ^ ":x" ^ hex_of_raw (serialise x.sc evs)) z) in
  let m = if calls = "" then "" else run_calls (model_call z sheets x.cells) calls in
  let s = if calls = "" then "" else run_calls (spec_call x.wb x.cells) calls in
  let known = (match known_C17 x.wb with None -> "-" | Some k -> show k) in
  let leg = if legal x.wb then "1" else "0" in
  let dom = if List.for_all sheet_domb x.wb then "1" else "0" in
  let shs = String.concat "," (List.map (fun (n, p) -> "x" ^ hexb n ^ ":x" ^ hexb p) sheets) in
  String.concat "##" [parts; shs; m; s; known; leg; dom]

(* ---------------------------------------------------------------- xls *)
(* desc tokens: SH x<name> | BF x<hexdata> (body of the sheet's BOF; default: a BIFF8 worksheet BOF) |
   OT <typ> x<hexdata> (a record of the current group / tail) |
   SB x<hexbof> <recs> (a nested substream of the current group / tail: BOF, the records
   recs = - | typ:x<hex>,typ:x<hex>…, EOF) |
   MC r0,c0,r1,c1/… (closes a group; "-" = empty list) | AF <typ> x<hexdata> (after EOF) *)
let parse_dims_list (s : string) : dims list =
  if s = "-" then [] else
  List.map (fun d -> match String.split_on_char ',' d with
      | [a; b; c; e] -> ((nn a, nn b), (nn c, nn e)) | _ -> failwith "dims") (String.split_on_char '/' s)

let default_bof : BinNums.coq_N list =
  List.map n_of_int [0x00; 0x06; 0x10; 0x00; 0xBB; 0x0D; 0xCC; 0x07; 0; 0; 0; 0; 0x06; 0x03; 0; 0]
let parse_xls (desc : string) : xls_sheet_e list =
  let toks = Array.of_list (List.filter (fun s -> s <> "") (String.split_on_char ' ' desc)) in
  let n = Array.length toks in
  let i = ref 0 in
  let next () = let t = toks.(!i) in incr i; t in
  let sheets = ref [] in
  let cur = ref None in   (* name, groups(rev), pending others(rev), after(rev) *)
  let bofb = ref default_bof in
  let flush () = match !cur with
    | None -> ()
    | Some (name, groups, pending, after) ->
      sheets := { xs_name = name; xs_bof = !bofb; xs_groups = List.rev groups; xs_tail = List.rev pending;
                  xs_after_eof = List.rev after } :: !sheets; cur := None; bofb := default_bof in
  while !i < n do
    match next () with
    | "SH" -> flush (); cur := Some (xs (next ()), [], [], [])
    | "BF" -> bofb := xs (next ())
    | "OT" -> let t = nn (next ()) in let d = xs (next ()) in
      (match !cur with Some (a, g, p, af) -> cur := Some (a, g, XRec (t, d) :: p, af) | None -> failwith "no sheet")
    | "SB" -> let b = xs (next ()) in let rs = next () in
      let recs = if rs = "-" then [] else
          List.map (fun r -> match String.split_on_char ':' r with
              | [t; d] -> (nn t, xs d) | _ -> failwith "sub record") (String.split_on_char ',' rs) in
      (match !cur with Some (a, g, p, af) -> cur := Some (a, g, XSub (b, recs) :: p, af) | None -> failwith "no sheet")
    | "MC" -> let ds = parse_dims_list (next ()) in
      (match !cur with Some (a, g, p, af) -> cur := Some (a, (List.rev p, ds) :: g, [], af) | None -> failwith "no sheet")
    | "AF" -> let t = nn (next ()) in let d = xs (next ()) in
      (match !cur with Some (a, g, p, af) -> cur := Some (a, g, p, (t, d) :: af) | None -> failwith "no sheet")
    | t -> failwith ("token " ^ t)
  done;
  flush (); List.rev !sheets

let run_xls (desc : string) (calls : string) : string =
  let wb = parse_xls desc in
  let subs = List.map (fun s -> (s.xs_name, enc_xls_sheet s)) wb in
  let recs = String.concat "|" (List.map (fun (_, rs) ->
      String.concat "," (List.map (fun (t, d) -> show t ^ ":x" ^ hexb d) rs)) subs) in
  let out_opt = function None -> "none" | Some v -> dims_list v in
  let m =
    (match xls_sheets_fast subs with   (* = xls_sheets: Merge_proofs.xls_sheets_fast_eq *)
     | Ok mm ->
       run_calls (fun c ->
           let f = Array.of_list (String.split_on_char ' ' c) in
           match f.(0) with
           | "merges" -> out_opt (xls_worksheet_merge_cells mm (unhex_name (if Array.length f > 1 then f.(1) else "")))
           | "mergesat" -> out_opt (xls_worksheet_merge_cells_at mm (nat_of_int (int_of_string f.(1))))
           | o -> "badcall:" ^ o) calls
     | Err _ -> "openerr:other"
     | Panic -> "panic"
     | OutOfFuel -> "fuel") in
  let s =
    run_calls (fun c ->
        let f = Array.of_list (String.split_on_char ' ' c) in
        match f.(0) with
        | "merges" ->
          let nm = unhex_name (if Array.length f > 1 then f.(1) else "") in
          (match List.find_opt (fun x -> x.xs_name = nm) wb with
           | None -> "none" | Some x -> dims_list (xs_regions x))
        | "mergesat" ->
          (match List.nth_opt wb (int_of_string f.(1)) with
           | None -> "none" | Some x -> dims_list (xs_regions x))
        | o -> "badcall:" ^ o) calls in
  let leg = if List.for_all xls_sheet_legal wb then "1" else "0" in
  let dom = if List.for_all xls_sheet_domb wb then "1" else "0" in
  String.concat "##" [recs; m; s; leg; dom]

let run (args : string list) : string =
  match args with
  | "dim" :: h :: _ ->
    (match Col26.get_dimension (bytes_of_hex h) with
     | Ok d -> "ok " ^ dims_str d
     | Err _ -> "err" | Panic -> "panic" | OutOfFuel -> "fuel")
  | ["dim"] ->
    (match Col26.get_dimension [] with
     | Ok d -> "ok " ^ dims_str d | Err _ -> "err" | Panic -> "panic" | OutOfFuel -> "fuel")
  | "xlsmc" :: rest ->
    let h = (match rest with h :: _ -> h | [] -> "") in
    (match parse_merge_cells_fast (bytes_of_hex h) with   (* = parse_merge_cells: parse_merge_cells_fast_eq *)
     | Ok ds -> "ok " ^ dims_list ds
     | Err _ -> "err" | Panic -> "panic" | OutOfFuel -> "fuel")
  | "xlsx" :: desc :: rest -> run_xlsx desc (match rest with c :: _ -> c | [] -> "")
  | "xls" :: desc :: rest -> run_xls desc (match rest with c :: _ -> c | [] -> "")
  | _ -> "badargs"

let () = Registry.register "merge" run
let init () = ()
