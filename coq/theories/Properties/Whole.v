(* Whole-file composition — XLS (closed), XLSB (partial: the parts of the package).  Only the theorems (closed by [exact]), [Check] pins of the
   full statements, the non-vacuity example and [Print Assumptions].
   Model (composition of the per-mechanism models), logical workbook, whole-file encoder, legal
   choices: XlsFile.v; proofs (glue only; the content is C13 / C16 / C12 / C10 / C02 / C05):
   XlsFile_proofs.v.  [fdiv100], [decode16] (BiffRec.v) and [show_f64] (Meta.v / Ptg.v) are
   universally quantified as in the slices that introduce them. *)
From Calamine Require Import Prelude Range Range_spec RK.
From Calamine Require BiffSst BiffRec Meta NumFmt Cfb.
From Calamine Require Import XlsFile XlsFile_proofs.
From Calamine Require XlsFileCodePage_proofs.
From Calamine Require XlsbRec XlsbRec_proofs MetaXlsb_proofs HeaderRow XlsbFile XlsbFile_proofs.
Open Scope N_scope.

(* MAIN.  For every logical workbook (ordered sheets with name, visibility, kind and cells;
   defined names; date system; number formats and XFs; shared strings) and every legal choice —
   compound file: sector size, any valid layout, the stream called Workbook or Book, any other
   streams and storages; globals: BoundSheet8 names in 8- or 16-bit storage, any unused hsState
   bits, Lbl / ExternSheet records, ignorable records, XF and FORMAT records anywhere among them,
   Date1904 present or omitted, the SST under any legal CONTINUE layout at any record boundary;
   sheets: any legal record layout per substream (C02: NUMBER / RK / MULRK forms, LABELSST, LABEL,
   BOOLERR, FORMULA with STRING and CONTINUE, ignorable records, any order), bytes after each EOF,
   lbPlyPos = offset of the substream — opening the written file and asking for every sheet
   returns: the sheets in order with name, visibility and kind; the defined names; the date
   system; and for every sheet exactly the range of its cells: tight bounding rectangle, every
   value at its position (shared strings resolved through the SST, numbers through RK / NUMBER,
   DateTime where the cell's XF resolves to a date-time format as C10 specifies), Empty
   elsewhere. *)
Theorem Whole_xls_file_main :
  forall (fdiv100 : N -> N) (decode16 : list N -> list N) (show_f64 : N -> list N)
         (wb : lwb) (ch : xchoice) (fuel : nat),
  xfile_legal fdiv100 decode16 wb ch -> (Cfb.fuel_for (xc_layout ch) <= fuel)%nat ->
  xls_open_model fdiv100 decode16 show_f64 fuel (xls_file_write wb ch) = Ok (spec_result show_f64 wb ch).
Proof. exact xls_file_main. Qed.

(* the same, reduced to "sheet names in order, each with the range of its cells" *)
Theorem Whole_xls_file_ranges :
  forall (fdiv100 : N -> N) (decode16 : list N -> list N) (show_f64 : N -> list N)
         (wb : lwb) (ch : xchoice) (fuel : nat),
  xfile_legal fdiv100 decode16 wb ch -> (Cfb.fuel_for (xc_layout ch) <= fuel)%nat ->
  omap wr_ranges (xls_open_model fdiv100 decode16 show_f64 fuel (xls_file_write wb ch)) =
  Ok (map (fun s => (Meta.m_name (ls_meta s), BiffRec.range_of (ls_cells s))) (lw_sheets wb)).
Proof. exact xls_file_ranges. Qed.

(* below the container: parse_workbook on the bytes of the Workbook stream *)
Theorem Whole_xls_stream_main :
  forall (fdiv100 : N -> N) (decode16 : list N -> list N) (show_f64 : N -> list N)
         (wb : lwb) (ch : xchoice),
  xfile_legal fdiv100 decode16 wb ch ->
  xls_stream_model fdiv100 decode16 show_f64 (xls_stream_write wb ch) = Ok (spec_result show_f64 wb ch).
Proof. exact xls_stream_main. Qed.

(* the glue, stated on its own: the globals loop returns every sheet WITH the offset of its
   substream, and the environment the sheet loop works in (formats, date system, strings) is the
   logical workbook's *)
Theorem Whole_xls_globals_env :
  forall (show_f64 : N -> list N) (wb : lwb) (ch : xchoice),
  xfile_legalb wb ch = true ->
  map Some (gi_xfs (all_junk ch)) = NumFmt.xfs (lw_styles wb) ->
  gi_formats (all_junk ch) = NumFmt.customs (lw_styles wb) ->
  exists st,
    Meta.xls_globals (BiffSst.records (xls_stream_write wb ch)) Meta.xls_state0 = Ok st /\
    Meta.xls_resolve show_f64 st = Ok (Meta.spec_names_xls show_f64 (meta_choice true ch []) (meta_wb wb)) /\
    Meta.xg_sheets st = combine (map sc_pos (xc_sheets ch)) (map ls_meta (lw_sheets wb)) /\
    Meta.xg_1904 st = lw_1904 wb /\
    globals_env (BiffSst.records (xls_stream_write wb ch)) (lw_1904 wb) = env_of wb.
Proof. exact globals_written. Qed.

(* facts about Meta's globals loop on ANY record list (used by the composition) *)
Theorem Whole_xls_globals_skip_sst : forall l1 d c l2 s,
  BiffSst.parse_sst (d, BiffSst.conts_of c) = Ok s ->
  forall st, Meta.xls_globals (l1 ++ Ok (252, d, c) :: l2) st = Meta.xls_globals (l1 ++ l2) st.
Proof. exact globals_skip_sst. Qed.

Theorem Whole_xls_globals_after_eof : forall l d c X Y st,
  Meta.xls_globals (l ++ Ok (10, d, c) :: X) st = Meta.xls_globals (l ++ Ok (10, d, c) :: Y) st.
Proof. exact globals_after_eof. Qed.

Theorem Whole_xls_globals_positions : forall recs st st',
  Meta.xls_globals recs st = Ok st' ->
  map fst (Meta.xg_sheets st') = map fst (Meta.xg_sheets st) ++ g_positions (before_eof recs).
Proof. exact globals_positions. Qed.

(* C10 inside the whole file: a number cell is DateTime exactly when its XF resolves to a
   date-time format (custom FORMAT entry first, else the built-in table), duration flavour iff
   elapsed; bits and date system unchanged *)
Theorem Whole_xls_number_date_iff_style : forall (wb : lwb) (ixfe : N) (fmt : option N) (bits : N),
  nth_error (NumFmt.xfs (lw_styles wb)) (N.to_nat ixfe) = Some fmt ->
  BiffRec.num_data (env_of wb) ixfe (RFloat bits) =
  match NumFmt.resolve (lw_styles wb) fmt with
  | NumFmt.DateTime => DDateTime bits false (lw_1904 wb)
  | NumFmt.TimeDelta => DDateTime bits true (lw_1904 wb)
  | NumFmt.Other => DFloat bits
  end.
Proof. exact number_cell_date_iff_style. Qed.

(* the condition "lbPlyPos = offset of the substream" of [xfile_legalb] can always be met: for ANY
   logical workbook and choice, [set_positions] (the two-pass computation every writer does: the
   globals have the same length whatever the positions are) yields positions satisfying it *)
Theorem Whole_xls_positions_met : forall (wb : lwb) (ch : xchoice),
  map sc_pos (xc_sheets (set_positions wb ch)) =
  positions (BiffSst.len (xls_globals_write wb (set_positions wb ch)))
            (map sc_layout (xc_sheets (set_positions wb ch))).
Proof. exact set_positions_ok. Qed.

(* non-vacuity *)
Example Whole_xls_nonvacuous : forall fdiv100 : N -> N,
  xfile_legal fdiv100 BiffRec_proofs.id_decode ex_wb ex_ch /\
  map sc_pos (xc_sheets ex_ch) = [198; 336] /\
  length (xls_file_write ex_wb ex_ch) = 2560%nat /\
  xls_open_model fdiv100 BiffRec_proofs.id_decode (fun _ => []) 1 (xls_file_write ex_wb ex_ch) =
    Ok (spec_result (fun _ => []) ex_wb ex_ch) /\
  wr_names (spec_result (fun _ => []) ex_wb ex_ch) = [([110], [128512; 33; 66; 36; 49])].
Proof. exact example_whole. Qed.

(* the same workbook with a CodePage record (0x0042) among the globals: XlsFile.gitem_ok /
   Meta.xjunk_ok admit one of ANY value wherever an ignorable record may stand, so
   Whole_xls_file_main quantifies over it (audit-2 finding XLS-1: the reader decoded every string
   of a BIFF8 workbook through the code page; repaired).  1252 is what JExcelApi writes
   (tests/sheet_name_parsing.xls), 54321 is unknown to every decoder table; the last variant
   carries two CodePage records. *)
Example Whole_xls_codepage_nonvacuous : forall fdiv100 : N -> N,
  Forall (fun cp =>
            xfile_legal fdiv100 BiffRec_proofs.id_decode ex_wb (XlsFileCodePage_proofs.cp_choice cp) /\
            xls_open_model fdiv100 BiffRec_proofs.id_decode (fun _ => []) 1
                           (xls_file_write ex_wb (XlsFileCodePage_proofs.cp_choice cp)) =
            Ok (spec_result (fun _ => []) ex_wb (XlsFileCodePage_proofs.cp_choice cp)) /\
            spec_result (fun _ => []) ex_wb (XlsFileCodePage_proofs.cp_choice cp) = spec_result (fun _ => []) ex_wb ex_ch)
         [1252; 932; 1200; 65001; 54321] /\
  xfile_legal fdiv100 BiffRec_proofs.id_decode ex_wb XlsFileCodePage_proofs.cp_choice_two /\
  xls_open_model fdiv100 BiffRec_proofs.id_decode (fun _ => []) 1
                 (xls_file_write ex_wb XlsFileCodePage_proofs.cp_choice_two) =
  Ok (spec_result (fun _ => []) ex_wb XlsFileCodePage_proofs.cp_choice_two) /\
  spec_result (fun _ => []) ex_wb XlsFileCodePage_proofs.cp_choice_two = spec_result (fun _ => []) ex_wb ex_ch /\
  firstn 12 (skipn 20 (xls_stream_write ex_wb (XlsFileCodePage_proofs.cp_choice 1252))) =
    [225; 0; 2; 0; 176; 4; 66; 0; 2; 0; 228; 4].
Proof. exact XlsFileCodePage_proofs.example_whole_codepage. Qed.

(* ---------------------------------------------------------------------------------------- *)
(* XLSB, PARTIAL: the parts of a package read together (C16_report_xlsb + C03_xlsb_workbook_main):
   Xlsb::new on the relationships and workbook.bin, the shared strings, then worksheet_range_ref
   (looked up by name) on the part each sheet's relationship names, in the date system workbook.bin
   declares.  Missing for a whole-FILE statement: the zip container (no model exists; the package is
   the path -> bytes table [pk]) and styles.bin (the formats are the list C10's xlsb_formats
   yields, a parameter here). *)
Theorem Whole_xlsb_package_partial :
  forall (fdiv100 : N -> N) (show_f64 : N -> list N) (formats : list cellfmt)
         (c : Meta.xlsb_choice) (wb : Meta.workbook Ptg.expr) (rjunk : list Meta.event)
         (total : N) (items : list (XlsbRec.frm * list N * list N)) (trailer : list N)
         (pk : Meta.amap (list N)) (cl : list (XlsbRec.layout * list XlsbRec.cellr)),
  Meta.xlsb_legal c wb = true -> forallb MetaXlsb_proofs.junk_ok_brels rjunk = true ->
  total < 4294967296 -> XlsbRec.lenN items < 4294967296 -> forallb XlsbRec.wf_sst_item items = true ->
  NoDup (map fst (Meta.xlsb_paths c wb)) ->
  Forall2 (fun (np : Meta.str * Meta.str) (x : XlsbRec.layout * list XlsbRec.cellr) =>
             Meta.map_get (snd np) pk = Some (XlsbRec.encode_sheet (fst x)) /\
             XlsbRec.legal fdiv100 (XlsbRec.mkEnv formats (Meta.wb_1904 wb) (XlsbRec.sst_strings items))
                           (fst x) (snd x))
          (Meta.xlsb_paths c wb) cl ->
  XlsbFile.xlsb_package_model fdiv100 show_f64 formats (Meta.xlsb_rels_events rjunk (Meta.bc_rels c))
                              (Meta.xlsb_workbook_bin c wb)
                              (Some (XlsbRec.encode_sst total items trailer)) pk =
  Ok (XlsbFile.mkXbRes (Meta.wb_sheets wb)
        (Meta.spec_names_xlsb show_f64 (Meta.spec_ext (map Meta.m_name (Meta.wb_sheets wb)) (Meta.bc_xtis c))
                              (Meta.wb_names wb))
        (Meta.wb_1904 wb)
        (map (fun x : (Meta.str * Meta.str) * (XlsbRec.layout * list XlsbRec.cellr) =>
                (fst (fst x), XlsbRec.range_of (XlsbRec.RVal DEmpty) (snd (snd x))))
             (combine (Meta.xlsb_paths c wb) cl))).
Proof. exact XlsbFile_proofs.xlsb_package_main. Qed.

Example Whole_xlsb_nonvacuous : forall fdiv100 : N -> N,
  Meta.xlsb_legal MetaXlsb_proofs.ex_xlsb_c MetaXlsb_proofs.ex_xlsb_wb = true /\
  forallb XlsbRec.wf_sst_item XlsbFile_proofs.ex_items = true /\
  NoDup (map fst (Meta.xlsb_paths MetaXlsb_proofs.ex_xlsb_c MetaXlsb_proofs.ex_xlsb_wb)) /\
  Forall2 (fun (np : Meta.str * Meta.str) (x : XlsbRec.layout * list XlsbRec.cellr) =>
             Meta.map_get (snd np) XlsbFile_proofs.ex_pk = Some (XlsbRec.encode_sheet (fst x)) /\
             XlsbRec.legal fdiv100 (XlsbRec.mkEnv [FOther; FDateTime; FTimeDelta]
                                                  (Meta.wb_1904 MetaXlsb_proofs.ex_xlsb_wb)
                                                  (XlsbRec.sst_strings XlsbFile_proofs.ex_items)) (fst x) (snd x))
          (Meta.xlsb_paths MetaXlsb_proofs.ex_xlsb_c MetaXlsb_proofs.ex_xlsb_wb) (XlsbFile_proofs.ex_cl fdiv100).
Proof. exact XlsbFile_proofs.example_xlsb_package. Qed.

Check Whole_xls_file_main :
  forall (fdiv100 : N -> N) (decode16 : list N -> list N) (show_f64 : N -> list N)
         (wb : lwb) (ch : xchoice) (fuel : nat),
  xfile_legal fdiv100 decode16 wb ch -> (Cfb.fuel_for (xc_layout ch) <= fuel)%nat ->
  xls_open_model fdiv100 decode16 show_f64 fuel (xls_file_write wb ch) = Ok (spec_result show_f64 wb ch).
Check Whole_xls_file_ranges :
  forall (fdiv100 : N -> N) (decode16 : list N -> list N) (show_f64 : N -> list N)
         (wb : lwb) (ch : xchoice) (fuel : nat),
  xfile_legal fdiv100 decode16 wb ch -> (Cfb.fuel_for (xc_layout ch) <= fuel)%nat ->
  omap wr_ranges (xls_open_model fdiv100 decode16 show_f64 fuel (xls_file_write wb ch)) =
  Ok (map (fun s => (Meta.m_name (ls_meta s), BiffRec.range_of (ls_cells s))) (lw_sheets wb)).

Print Assumptions Whole_xls_file_main.
Print Assumptions Whole_xls_file_ranges.
Print Assumptions Whole_xls_stream_main.
Print Assumptions Whole_xls_globals_env.
Print Assumptions Whole_xls_globals_skip_sst.
Print Assumptions Whole_xls_globals_after_eof.
Print Assumptions Whole_xls_globals_positions.
Print Assumptions Whole_xls_number_date_iff_style.
Print Assumptions Whole_xls_positions_met.
Print Assumptions Whole_xls_nonvacuous.
Print Assumptions Whole_xls_codepage_nonvacuous.
Print Assumptions Whole_xlsb_package_partial.
Print Assumptions Whole_xlsb_nonvacuous.
